(* Leaf/ObsSpecs.v — theorems about the T1-TRANSLATED observers of m4ri/mzd.c (Leaf/Gen_observers.v, regenerated
   from the repository by tools/translate_obs.py on every check run), executed by the CMini interpreter on ONE
   word array, for ALL headers and array contents of the documented domain.  Conventions, harness ([hbundle],
   [words], [c_dom]) and evaluation tactics: Leaf/AccessSpecs.v; loop rule: Leaf/CMiniObs.v.

   Shape of the theorems of this and the following files ("the C text computes the word-level model"):
       w_f h .. mem = Ok result   ->   run_obs "f" (bundle of h ++ args) (words mem) = Ok (result as Z, words mem)
   where [w_f] is the hand-written word-level model of Word/WOps.v / WOps2.v.  Leaf/ObsSpecs5.v composes them with
   the refinement theorems of Word/WRefine*.v: the result is the one the matrix-level model of Lin/Ops.v returns
   on [abs h mem] — in particular the bits of the parent beyond ncols in the last word of a row and the words
   between the rows do not influence it — and the array is unchanged.

   This file: the harness for [obs_prog], mzd_row / mzd_row_const (as translated into obs_prog), and
   mzd_is_zero (mzd.c:1654).  The proofs name the CMini locals by their numbers in Leaf/Gen_observers.v: a change
   of the C text that renumbers the locals breaks them (loudly) even if it is harmless. *)
From Coq Require Import ZArith NArith List String Bool Lia ZifyBool ZifyNat ZifyN.
From M4 Require Import Base.Bits Lin.Mat Lin.Ops Word.WMat Word.WMatLemmas Word.WOps
  Leaf.CMini Leaf.CMiniAcc Leaf.CMiniObs Leaf.AccessSpecs Leaf.Gen_observers.
Import ListNotations.
Local Open Scope Z_scope.
Ltac Zify.zify_post_hook ::= Z.div_mod_to_equations.

(** * The harness *)
(** the bundle layout assumed by [AccessSpecs.bundle] is the one this translation unit printed *)
Lemma bundle_layout_o : map fst mzd_t_bundle_o =
  ["nrows"; "ncols"; "width"; "rowstride"; "flags"; "high_bitmask"; "data"; "data_off"]%string.
Proof. reflexivity. Qed.

(** run [f] of [obs_prog] on the array [ws]; result: the integer returned (if any) and the array afterwards *)
Definition run_obs (f : string) (args : list (@val Z)) (ws : list Z) : res (option Z * list Z) :=
  do r <- run zops obs_prog LFUEL DEPTH f args (mem_of ws);
  match read_back (snd r) (List.length ws), fst r with
  | Some ws', None => Ok (None, ws')
  | Some ws', Some (Vint v) => Ok (Some v, ws')
  | Some _, Some _ => UB "non-integer result"
  | None, _ => UB "a word of the array is uninitialised after the run"
  end.

Lemma run_obs_intro f args ws (r : option Z) ws' :
  List.length ws' = List.length ws ->
  run zops obs_prog LFUEL DEPTH f args (mem_of ws) = Ok (option_map (@Vint Z) r, mem_of ws') ->
  run_obs f args ws = Ok (r, ws').
Proof.
  intros Hl Hr. unfold run_obs. rewrite Hr. cbn [bind snd fst]. rewrite <- Hl, read_back_mem_of.
  destruct r; reflexivity.
Qed.

(** enter a function of [obs_prog] *)
Ltac co_enter f fdef :=
  rewrite run_S; change (find_func obs_prog f) with (Some fdef); cbv beta iota; unfold fdef;
  cbn [fn_params fn_body bind_params bind tset].

(** * mzd_row (mzd.h:185) and mzd_row_const (mzd.h:189) as members of [obs_prog] *)
Lemma run_mzd_row_o d nrows ncols width rs fl hm d0 row m :
  -2147483648 <= row <= 2147483647 ->
  -9223372036854775808 <= rs * row <= 9223372036854775807 ->
  -9223372036854775808 <= d0 + rs * row <= 9223372036854775807 ->
  run zops obs_prog LFUEL (S d) "mzd_row" (bundle nrows ncols width rs fl hm d0 [Vint row]) m =
  Ok (Some (Vint (d0 + rs * row)), m).
Proof. intros Hr H1 H2. co_enter "mzd_row"%string f_mzd_row. cm_run. reflexivity. Qed.

Lemma run_mzd_row_const_o d nrows ncols width rs fl hm d0 row m :
  -2147483648 <= row <= 2147483647 ->
  -9223372036854775808 <= rs * row <= 9223372036854775807 ->
  -9223372036854775808 <= d0 + rs * row <= 9223372036854775807 ->
  run zops obs_prog LFUEL (S (S d)) "mzd_row_const" (bundle nrows ncols width rs fl hm d0 [Vint row]) m =
  Ok (Some (Vint (d0 + rs * row)), m).
Proof.
  intros Hr H1 H2. co_enter "mzd_row_const"%string f_mzd_row_const. cm_run.
  rewrite run_mzd_row_o by assumption. cm_run. reflexivity.
Qed.

(** words as non-negative integers below 2^64 *)
Lemma of_N_w64 w : (w < 2 ^ 64)%N -> 0 <= Z.of_N w < M64.
Proof. intros H. unfold M64. lia. Qed.

Lemma of_N_eqb a b : (Z.of_N a =? Z.of_N b) = (a =? b)%N.
Proof. destruct (N.eqb_spec a b), (Z.eqb_spec (Z.of_N a) (Z.of_N b)); try reflexivity; lia. Qed.
Lemma of_N_eqb0 a : (Z.of_N a =? 0) = (a =? 0)%N.
Proof. exact (of_N_eqb a 0). Qed.
Lemma of_N_ltb a b : (Z.of_N a <? Z.of_N b) = (a <? b)%N.
Proof. destruct (N.ltb_spec a b), (Z.ltb_spec (Z.of_N a) (Z.of_N b)); try reflexivity; lia. Qed.

Lemma lor_lt a b : (a < 2 ^ 64)%N -> (b < 2 ^ 64)%N -> (N.lor a b < 2 ^ 64)%N.
Proof.
  intros Ha Hb. change 64%N with (N.of_nat 64). apply bounded_lt. intros j Hj. rewrite N.lor_spec.
  rewrite (word_bounded a Ha j Hj), (word_bounded b Hb j Hj). reflexivity.
Qed.
Lemma land_lt_l a b : (a < 2 ^ 64)%N -> (N.land a b < 2 ^ 64)%N.
Proof.
  intros Ha. change 64%N with (N.of_nat 64). apply bounded_lt. intros j Hj. rewrite N.land_spec.
  rewrite (word_bounded a Ha j Hj). reflexivity.
Qed.
Lemma lxor_lt a b : (a < 2 ^ 64)%N -> (b < 2 ^ 64)%N -> (N.lxor a b < 2 ^ 64)%N.
Proof.
  intros Ha Hb. change 64%N with (N.of_nat 64). apply bounded_lt. intros j Hj. rewrite N.lxor_spec.
  rewrite (word_bounded a Ha j Hj), (word_bounded b Hb j Hj). reflexivity.
Qed.

Ltac nlt_solve2 :=
  repeat first [ assumption | apply lor_lt | apply lxor_lt | apply land_lt_l | apply shl_lt | apply wnot_lt
               | apply trunc_lt | apply shr_lt | apply mem_ok_word; assumption | apply hmask_lt; assumption
               | apply left_bitmask_lt | reflexivity ].

(** * Tactics for loop proofs *)
(** componentwise equality of two loop states *)
Ltac env_eq := repeat match goal with
  | |- Ok _ = Ok _ => f_equal
  | |- LCont _ = LCont _ => f_equal
  | |- LStop _ = LStop _ => f_equal
  | |- ONormal _ _ = ONormal _ _ => f_equal
  | |- OReturn _ _ = OReturn _ _ => f_equal
  | |- (_, _) = (_, _) => f_equal
  | |- TNode _ _ _ = TNode _ _ _ => f_equal
  | |- Some _ = Some _ => f_equal
  | |- Vint _ = Vint _ => f_equal
  | |- Vptr _ _ = Vptr _ _ => f_equal
  end.
Ltac loop_unfold E := unfold E; cbn [fst snd]; unfold loop_step, truth; cbn [fst snd].
(** * mzd_is_zero (mzd.c:1654): the rows are scanned top down; `status` is 0 at the start of every iteration (the
    function returns as soon as it is not).  Outer loop: variable 11 = i; inner loop: 13 = j, 9 = status. *)
Theorem obs_is_zero_w h fl mem b :
  valid h mem -> c_dom h fl mem -> (0 < h_width h)%nat ->
  w_is_zero h mem = WMat.Ok b ->
  run_obs "mzd_is_zero" (hbundle h fl []) (words mem) = Ok (Some (Z.b2z b), words mem).
Proof.
  intros Hv Hd Hw0 Hw. pose proof (valid_hdr_ok _ _ Hv) as Hok. pose proof (valid_mem_ok _ _ Hv) as Hm.
  pose proof Hd as (D1 & D2 & D3 & D4 & D5 & D6). pose proof Hok as (Hwd & _ & Hrs).
  pose proof (hmask_lt h Hok) as Hhm.
  unfold w_is_zero in Hw. destruct (Nat.eqb_spec (h_width h) 0) as [?|_]; [lia|]. cbn [andb] in Hw.
  destruct (bind_inv _ _ _ Hw) as (r & Hfirst & Hr). apply wok_inj in Hr. subst b.
  apply run_obs_intro; [reflexivity|]. unfold hbundle. change DEPTH with (S (S (S 9))).
  co_enter "mzd_is_zero"%string f_mzd_is_zero. cm_run. cm_release.
  clear Hw. apply iterG_firstM in Hfirst.
  match goal with |- context [exec zops ?cl LFUEL (Sloop ?cd ?bd ?st) ?E0 ?M0] =>
    pose (E := fun (k : nat) (_ : unit) (t : option (@val Z * @val Z)) =>
      @pair (@env Z) (@CMini.mem Z) (match t with
       | None => tset 11%positive (Vint (Z.of_nat k)) E0
       | Some (a, b) => tset 13%positive b (tset 12%positive a (tset 11%positive (Vint (Z.of_nat k)) E0))
       end) M0);
    change (exec zops cl LFUEL (Sloop cd bd st) E0 M0)
      with (exec zops cl LFUEL (Sloop cd bd st) (fst (E 0%nat tt None)) (snd (E 0%nat tt None)));
    match type of Hfirst with iterG ?G _ _ _ = _ =>
      destruct (loop_gen' cl cd bd st unit (option (@val Z * @val Z)) bool E (h_nrows h) G
                  (fun v => OReturn (Some (Vint (Z.b2z v))) M0)
                  (fun _ t => ONormal (fst (E (h_nrows h) tt t)) M0)
                  (fun _ _ => True)) with (s0 := tt) (t0 := @None (@val Z * @val Z)) (x := opt_sum r) as (t & Hloop & _)
    end
  end.
  { intros k [] t y Hk _ HG.
    assert (Hkw : (h_width h - 1 < h_width h)%nat) by lia.
    destruct (dom_facts h fl mem k (h_width h - 1) Hv Hd Hk Hkw) as (Hp & Hri & Hra & Hbig & Hii).
    destruct (bind_inv _ _ _ HG) as (x & Hg & Hy). apply wok_inj in Hy. subst y.
    destruct (bind_inv _ _ _ Hg) as (status & Hin & Hg2). clear Hg HG.
    rewrite rd_ok in Hg2 by lia. cbn [WMat.bind] in Hg2. apply wok_inj in Hg2.
    set (st' := N.lor status (N.land (word_at mem (row_addr h k + (h_width h - 1))) (h_hmask h))) in *.
    match goal with |- context [loop_step ?o ?cc ?xb ?xs (E k tt t)] =>
      assert (Hrun : exists t', loop_step o cc xb xs (E k tt t) =
                Ok (if negb (st' =? 0)%N then LStop (OReturn (Some (Vint (Z.b2z false))) (mem_of (words mem)))
                    else LCont (E (S k) tt t')))
    end.
    { exists (Some (@Vint Z (Z.of_nat (h_off h) + Z.of_nat (h_rowstride h) * Z.of_nat k), @Vint Z (Z.of_nat (h_width h - 1)))).
      destruct t as [[ta tb]|]; unfold E; cbn [fst snd]; unfold loop_step; cbn [fst snd].
      all: cm_run; rewrite run_mzd_row_const_o by lia; cm_run; cm_release.
      all: apply (iterG_forM (R:=unit)) in Hin.
      all: match goal with |- context [exec zops ?cl LFUEL (Sloop ?cd ?bd ?st) ?E0 ?M0] =>
        pose (Ei := fun (j : nat) (s : N) (_ : unit) =>
          @pair (@env Z) (@CMini.mem Z) (tset 13%positive (Vint (Z.of_nat j)) (tset 9%positive (Vint (Z.of_N s)) E0)) M0);
        change (exec zops cl LFUEL (Sloop cd bd st) E0 M0)
          with (exec zops cl LFUEL (Sloop cd bd st) (fst (Ei 0%nat 0%N tt)) (snd (Ei 0%nat 0%N tt)));
        match type of Hin with iterG ?G _ _ _ = _ =>
          destruct (loop_gen' cl cd bd st N unit unit Ei (h_width h - 1) G
                      (fun _ => ONormal E0 M0)
                      (fun s _ => ONormal (fst (Ei (h_width h - 1)%nat s tt)) M0)
                      (fun _ s => (s < 2 ^ 64)%N)) with (s0 := 0%N) (t0 := tt) (x := @inl N unit status) as (ti & Hloopi & Hst);
          [ intros j s [] y Hj Hs HG;
            pose proof (valid_word h mem k j Hv Hk ltac:(lia)) as Hpj;
            rewrite rd_ok in HG by lia; cbn [WMat.bind] in HG; apply wok_inj in HG; subst y;
            split; [nlt_solve2|]; exists tt; loop_unfold Ei; cm_run;
            env_eq; [ rewrite of_N_lor; rewrite lor_mod by w64_solve; weq | lia ]
          | intros s [] Hs; loop_unfold Ei; cm_run; reflexivity
          | reflexivity
          | exact Hin
          | lia
          | ]
        end
      end.
      all: cbv beta iota in Hst; rewrite Hloopi; unfold Ei; cbn [fst snd]; cm_run.
      all: match goal with |- context [Z.lor (Z.of_N ?s) ?u mod M64] =>
             replace (Z.lor (Z.of_N s) u mod M64) with (Z.of_N st')
               by (symmetry; unfold st'; rewrite of_N_lor, of_N_land; wnorm; weq) end.
      all: rewrite of_N_eqb0; destruct (N.eqb_spec st' 0); cbn [negb]; cm_run.
      all: env_eq; try reflexivity; lia. }
    destruct Hrun as (t' & Hrun). unfold opt_sum. subst x.
    destruct (N.eqb_spec st' 0); cbn [negb] in *.
    - split; [exact I|]. exists t'. exact Hrun.
    - exact Hrun. }
  { intros [] t _. destruct t as [[ta tb]|]; loop_unfold E; cm_run; reflexivity. }
  { exact I. }
  { exact Hfirst. }
  { lia. }
  rewrite Hloop. destruct r as [v|]; cbn [opt_sum opt_default].
  - cm_run. cm_release. reflexivity.
  - destruct t as [[ta tb]|]; unfold E; cbn [fst snd]; cm_run; cm_release; cm_run; reflexivity.
Qed.
