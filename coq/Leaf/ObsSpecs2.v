(* Leaf/ObsSpecs2.v — mzd_first_zero_row (mzd.c:1851), T1-translated (Leaf/Gen_observers.v), computes the word-level
   model Word/WOps2.w2_first_zero_row for all headers and array contents of the domain (conventions: Leaf/ObsSpecs.v).
   The rows are scanned bottom up: iteration k of the loop handles row nrows - 1 - k.
   CMini variables: 9 = mask_end, 10 = end, 11 = i, 12 = row, 13 = tmp, 14 = j. *)
From Coq Require Import ZArith NArith List String Bool Lia ZifyBool ZifyNat ZifyN.
From M4 Require Import Base.Bits Lin.Mat Lin.Ops Word.WMat Word.WMatLemmas Word.WOps Word.WOps2
  Leaf.CMini Leaf.CMiniAcc Leaf.CMiniObs Leaf.AccessSpecs Leaf.Gen_observers Leaf.ObsSpecs.
Import ListNotations.
Local Open Scope Z_scope.
Ltac Zify.zify_post_hook ::= Z.div_mod_to_equations.

(** __M4RI_LEFT_BITMASK(c % 64) as the C text computes it: m4ri_ffff >> (64 - c % 64) % 64 *)
Lemma mask_end_Z c : Z.shiftr (-1 mod M64) ((64 - Z.of_nat c mod 64) mod 64) = Z.of_N (left_bitmask (c mod 64)).
Proof.
  unfold left_bitmask. rewrite of_N_shr. f_equal. unfold M64. lia.
Qed.

Theorem obs_first_zero_row_w h fl mem v :
  valid h mem -> c_dom h fl mem -> (0 < h_width h)%nat ->
  w2_first_zero_row h mem = WMat.Ok v ->
  run_obs "mzd_first_zero_row" (hbundle h fl []) (words mem) = Ok (Some (Z.of_nat v), words mem).
Proof.
  intros Hv Hd Hw0 Hw. pose proof (valid_hdr_ok _ _ Hv) as Hok. pose proof (valid_mem_ok _ _ Hv) as Hm.
  pose proof Hd as (D1 & D2 & D3 & D4 & D5 & D6). pose proof Hok as (Hwd & _ & Hrs).
  pose proof (left_bitmask_lt (h_ncols h mod 64)) as Hhm.
  unfold w2_first_zero_row in Hw. destruct (Nat.eqb_spec (h_width h) 0) as [?|_]; [lia|]. cbn [andb] in Hw.
  destruct (bind_inv _ _ _ Hw) as (r & Hfirst & Hr). apply wok_inj in Hr. subst v. clear Hw.
  rewrite firstM_rev_seq in Hfirst. apply iterG_firstM in Hfirst.
  set (mask := left_bitmask (h_ncols h mod 64)) in *.
  apply run_obs_intro; [reflexivity|]. unfold hbundle. change DEPTH with (S (S (S 9))).
  co_enter "mzd_first_zero_row"%string f_mzd_first_zero_row. cm_run. cm_release.
  rewrite mask_end_Z. fold mask.
  match goal with |- context [exec zops ?cl LFUEL (Sloop ?cd ?bd ?st) ?E0 ?M0] =>
    pose (E := fun (k : nat) (_ : unit) (t : option (@val Z * @val Z * @val Z)) =>
      @pair (@env Z) (@CMini.mem Z) (match t with
       | None => tset 11%positive (Vint (Z.of_nat (h_nrows h) - 1 - Z.of_nat k)) E0
       | Some (a, b, c) => tset 14%positive c (tset 13%positive b (tset 12%positive a
                             (tset 11%positive (Vint (Z.of_nat (h_nrows h) - 1 - Z.of_nat k)) E0)))
       end) M0);
    replace (exec zops cl LFUEL (Sloop cd bd st) E0 M0)
      with (exec zops cl LFUEL (Sloop cd bd st) (fst (E 0%nat tt None)) (snd (E 0%nat tt None)))
      by (unfold E; cbn [fst snd tset]; f_equal; env_eq; lia);
    match type of Hfirst with iterG ?G _ _ _ = _ =>
      destruct (loop_gen' cl cd bd st unit (option (@val Z * @val Z * @val Z)) nat E (h_nrows h) G
                  (fun v => OReturn (Some (Vint (Z.of_nat v))) M0)
                  (fun _ t => ONormal (fst (E (h_nrows h) tt t)) M0)
                  (fun _ _ => True)) with (s0 := tt) (t0 := @None (@val Z * @val Z * @val Z)) (x := opt_sum r) as (t & Hloop & _)
    end
  end.
  { intros k [] t y Hk _ HG.
    set (i := (h_nrows h - 1 - k)%nat) in *.
    assert (Hi : (i < h_nrows h)%nat) by (unfold i; lia).
    assert (HiZ : Z.of_nat (h_nrows h) - 1 - Z.of_nat k = Z.of_nat i) by (unfold i; lia).
    assert (Hkw : (h_width h - 1 < h_width h)%nat) by lia.
    destruct (dom_facts h fl mem i (h_width h - 1) Hv Hd Hi Hkw) as (Hp & Hri & Hra & Hbig & Hii).
    destruct (bind_inv _ _ _ HG) as (x & Hg & Hy). apply wok_inj in Hy. subst y.
    destruct (bind_inv _ _ _ Hg) as (tmp & Hin & Hg2). clear Hg HG.
    rewrite rd_ok in Hg2 by lia. cbn [WMat.bind] in Hg2. apply wok_inj in Hg2.
    set (st' := N.lor tmp (N.land (word_at mem (row_addr h i + (h_width h - 1))) mask)) in *.
    match goal with |- context [loop_step ?o ?cc ?xb ?xs (E k tt t)] =>
      assert (Hrun : exists t', loop_step o cc xb xs (E k tt t) =
                Ok (if negb (st' =? 0)%N then LStop (OReturn (Some (Vint (Z.of_nat (i + 1)))) (mem_of (words mem)))
                    else LCont (E (S k) tt t')))
    end.
    { exists (Some (@Vint Z (Z.of_nat (h_off h) + Z.of_nat (h_rowstride h) * Z.of_nat i), @Vint Z (Z.of_N st'),
                    @Vint Z (Z.of_nat (h_width h - 1)))).
      destruct t as [[[ta tb] tc]|]; unfold E; cbn [fst snd]; rewrite HiZ; unfold loop_step, truth; cbn [fst snd].
      all: cm_run; rewrite run_mzd_row_const_o by lia; cm_run; cm_release.
      all: apply (iterG_forM (R:=unit)) in Hin.
      all: match goal with |- context [exec zops ?cl LFUEL (Sloop ?cd ?bd ?st) ?E0 ?M0] =>
        pose (Ei := fun (j : nat) (s : N) (_ : unit) =>
          @pair (@env Z) (@CMini.mem Z) (tset 14%positive (Vint (Z.of_nat j)) (tset 13%positive (Vint (Z.of_N s)) E0)) M0);
        change (exec zops cl LFUEL (Sloop cd bd st) E0 M0)
          with (exec zops cl LFUEL (Sloop cd bd st) (fst (Ei 0%nat 0%N tt)) (snd (Ei 0%nat 0%N tt)));
        match type of Hin with iterG ?G _ _ _ = _ =>
          destruct (loop_gen' cl cd bd st N unit unit Ei (h_width h - 1) G
                      (fun _ => ONormal E0 M0)
                      (fun s _ => ONormal (fst (Ei (h_width h - 1)%nat s tt)) M0)
                      (fun _ s => (s < 2 ^ 64)%N)) with (s0 := 0%N) (t0 := tt) (x := @inl N unit tmp) as (ti & Hloopi & Hst);
          [ intros j s [] y Hj Hs HG;
            pose proof (valid_word h mem i j Hv Hi ltac:(lia)) as Hpj;
            rewrite rd_ok in HG by lia; cbn [WMat.bind] in HG; apply wok_inj in HG; subst y;
            split; [nlt_solve2|]; exists tt; loop_unfold Ei; cm_run;
            env_eq; [ lia | rewrite of_N_lor; rewrite lor_mod by w64_solve; weq ]
          | intros s [] Hs; loop_unfold Ei; cm_run; reflexivity
          | reflexivity
          | exact Hin
          | lia
          | ]
        end
      end.
      all: cbv beta iota in Hst; rewrite Hloopi; unfold Ei; cbn [fst snd]; cm_run.
      all: match goal with |- context [Z.lor (Z.of_N ?s) ?u mod M64] =>
             replace (Z.lor (Z.of_N s) u mod M64) with (Z.of_N st')
               by (symmetry; unfold st'; rewrite of_N_lor, of_N_land; wnorm; weq) end.
      all: rewrite of_N_eqb0; destruct (N.eqb_spec st' 0); cbn [negb]; cm_run.
      all: env_eq; try reflexivity; lia. }
    destruct Hrun as (t' & Hrun). unfold opt_sum. subst x.
    destruct (N.eqb_spec st' 0); cbn [negb] in *.
    - split; [exact I|]. exists t'. exact Hrun.
    - exact Hrun. }
  { intros [] t _. destruct t as [[[ta tb] tc]|]; loop_unfold E; cm_run; reflexivity. }
  { exact I. }
  { exact Hfirst. }
  { lia. }
  rewrite Hloop. destruct r as [v|]; cbn [opt_sum opt_default].
  - cm_run. cm_release. reflexivity.
  - destruct t as [[[ta tb] tc]|]; unfold E; cbn [fst snd]; cm_run; cm_release; cm_run; reflexivity.
Qed.
