(* Leaf/AccessSpecs3.v — the accessor family of m4ri/mzd.h, TRANSLATED from the C text (Leaf/Gen_access.v) and
   run by the CMini interpreter, against the MATRIX model of Lin/Ops.v:

       C text (CMini)  =  word-level model Word/WOps.v     (Leaf/AccessSpecs.v, AccessSpecs2.v)
       word-level model refines Lin/Ops.v on [abs h mem]   (Word/WRefine*.v, proved earlier)

   [h : hdr] are the members of mzd_t ([h_off] = offset of M->data in the word array: any window), [mem] is the
   whole word array, [abs h mem : mat] the matrix it represents, [outside h mem m'] says that every bit of the
   array that is not an entry of the view — words of other rows, words between rows, the padding bits beyond
   ncols in the last word of a row, everything of the parent outside a window — is unchanged. *)
From Coq Require Import ZArith NArith List String Bool Lia ZifyBool ZifyNat ZifyN.
From M4 Require Import Base.Bits Lin.Mat Lin.Ops Word.WMat Word.WMatLemmas Word.WOps Word.WRefine
  Leaf.CMini Leaf.CMiniAcc Leaf.Gen_access Leaf.AccessSpecs Leaf.AccessSpecs2.
Import ListNotations.
Local Open Scope Z_scope.

Definition zi (n : nat) : @val Z := Vint (Z.of_nat n).

Theorem mzd_read_bit_spec h fl mem i j :
  valid h mem -> c_dom h fl mem -> (i < h_nrows h)%nat -> (j < h_ncols h)%nat ->
  run_acc "mzd_read_bit" (hbundle h fl [zi i; zi j]) (words mem) =
  Ok (Some (Z.b2z (get (abs h mem) i j)), words mem).
Proof.
  intros Hv Hd Hi Hj. apply acc_read_bit_w; try assumption. now apply w_read_bit_ok.
Qed.

Theorem mzd_write_bit_spec h fl mem i j v :
  valid h mem -> c_dom h fl mem -> (i < h_nrows h)%nat -> (j < h_ncols h)%nat ->
  exists m', run_acc "mzd_write_bit" (hbundle h fl [zi i; zi j; Vint (Z.b2z v)]) (words mem) = Ok (None, words m') /\
    List.length m' = List.length mem /\ mem_ok m' /\
    abs h m' = write_bit (abs h mem) i j v /\ outside h mem m'.
Proof.
  intros Hv Hd Hi Hj. destruct (w_write_bit_refines h mem i j v Hv Hi Hj) as (m' & E & R).
  exists m'. split; [|exact R]. now apply acc_write_bit_w.
Qed.

Theorem mzd_read_bits_spec h fl mem x y n :
  valid h mem -> c_dom h fl mem -> (x < h_nrows h)%nat -> (1 <= n <= 64)%nat -> (y + n <= h_ncols h)%nat ->
  run_acc "mzd_read_bits" (hbundle h fl [zi x; zi y; zi n]) (words mem) =
  Ok (Some (Z.of_N (read_bits (abs h mem) x y n)), words mem).
Proof.
  intros Hv Hd Hx Hn Hy. apply acc_read_bits_w; try assumption. now apply w_read_bits_ok.
Qed.

(** the n-bit value [v] (bits beyond n clear, as every caller in the library guarantees) *)
Theorem mzd_xor_bits_spec h fl mem x y n v :
  valid h mem -> c_dom h fl mem -> (x < h_nrows h)%nat -> (1 <= n <= 64)%nat -> (y + n <= h_ncols h)%nat ->
  bounded n v ->
  exists m', run_acc "mzd_xor_bits" (hbundle h fl [zi x; zi y; zi n; Vint (Z.of_N v)]) (words mem) = Ok (None, words m') /\
    List.length m' = List.length mem /\ mem_ok m' /\
    abs h m' = xor_bits (abs h mem) x y n v /\ outside h mem m'.
Proof.
  intros Hv Hd Hx Hn Hy Hb. destruct (w_xor_bits_refines h mem x y n v Hv Hx Hn Hy Hb) as (m' & E & R).
  exists m'. split; [|exact R]. apply acc_xor_bits_w; try assumption.
  apply bounded_lt in Hb. apply N.lt_le_trans with (2 ^ N.of_nat n)%N; [assumption|].
  apply N.pow_le_mono_r; lia.
Qed.

Theorem mzd_clear_bits_spec h fl mem x y n :
  valid h mem -> c_dom h fl mem -> (x < h_nrows h)%nat -> (1 <= n <= 64)%nat -> (y + n <= h_ncols h)%nat ->
  exists m', run_acc "mzd_clear_bits" (hbundle h fl [zi x; zi y; zi n]) (words mem) = Ok (None, words m') /\
    List.length m' = List.length mem /\ mem_ok m' /\
    abs h m' = clear_bits (abs h mem) x y n /\ outside h mem m'.
Proof.
  intros Hv Hd Hx Hn Hy. destruct (w_clear_bits_refines h mem x y n Hv Hx Hn Hy) as (m' & E & R).
  exists m'. split; [|exact R]. now apply acc_clear_bits_w.
Qed.

(** mzd_row: the offset of row i inside the word array *)
Theorem mzd_row_spec h fl mem i :
  valid h mem -> c_dom h fl mem -> (i < h_nrows h)%nat -> (0 < h_width h)%nat ->
  run_acc "mzd_row" (hbundle h fl [zi i]) (words mem) = Ok (Some (Z.of_nat (row_addr h i)), words mem) /\
  run_acc "mzd_row_const" (hbundle h fl [zi i]) (words mem) = Ok (Some (Z.of_nat (row_addr h i)), words mem).
Proof.
  intros Hv Hd Hi Hw. destruct (dom_facts h fl mem i 0 Hv Hd Hi Hw) as (Hp & Hri & Hra & Hbig & Hii).
  split; (apply run_acc_intro; [reflexivity|]); unfold hbundle, zi.
  - change DEPTH with (S 11). rewrite run_mzd_row by lia. cbn [option_map]. now rewrite Hra.
  - change DEPTH with (S (S 10)). rewrite run_mzd_row_const by lia. cbn [option_map]. now rewrite Hra.
Qed.

(** the hypotheses are satisfiable: a 3 x 70 window at offset 5 of a larger array *)
Example acc_dom_example :
  let h := window_hdr (init_hdr 6 200) 1 64 4 134 in
  let mem := repeat 0%N 30 in
  valid h mem /\ c_dom h 4 mem /\ (2 < h_nrows h)%nat /\ (69 < h_ncols h)%nat /\ h_off h = 5%nat.
Proof.
  cbv zeta. split; [apply validb_spec; reflexivity|]. split; [|cbn; lia].
  unfold c_dom. cbn. lia.
Qed.
