(* Leaf/ObsSpecs9.v — the T1-translated writer mzd_row_clear_offset (mzd.c:197; CMini term
   Leaf/Gen_observers.f_mzd_row_clear_offset, regenerated from the repository on every check run) computes the
   word-level model Word/WOps2.w2_row_clear_offset, for ALL headers (windows included), array contents and
   arguments of the documented domain; composed with Word/WRefine14.w2_row_clear_offset_refines: the array after
   the run abstracts to Lin/Ops.row_clear_offset of the matrix before, and every bit outside the view (the bits of
   the parent beyond ncols in the last word of the row included) is unchanged.
   Conventions, harness and tactics: Leaf/AccessSpecs.v, Leaf/ObsSpecs.v; loop rule: AccessSpecs4.for_loop_mem.

   C text vs model, statement for statement (no difference found):
     startblock = coloffset / 64; last = width - 1; truerow = mzd_row(M, row)
     keep = (coloffset % 64) ? LEFT_BITMASK(coloffset % 64) : 0      (Econd)       = model's first [keep]
     if (startblock == last) keep |= ~high_bitmask                                 = model's second [keep]
     truerow[startblock] &= keep          (one load, one store)                   = rd ;; wr
     for (i = startblock + 1; i < last; ++i) truerow[i] = 0                        = forM (seq (sb+1) (last-(sb+1)))
     if (startblock < last) truerow[last] &= ~high_bitmask                         = final if
   The proof names the CMini locals by number (Gen_observers.v): 11 startblock, 12 last, 13 truerow, 14 keep, 15 i. *)
From Coq Require Import ZArith NArith List String Bool Lia ZifyBool ZifyNat ZifyN.
From M4 Require Import Base.Bits Lin.Mat Lin.Ops Word.WMat Word.WMatLemmas Word.WOps Word.WOps2 Word.WRefine14
  Leaf.CMini Leaf.CMiniAcc Leaf.CMiniObs Leaf.AccessSpecs Leaf.AccessSpecs4 Leaf.Gen_observers Leaf.ObsSpecs.
Import ListNotations.
Local Open Scope Z_scope.
Ltac Zify.zify_post_hook ::= Z.div_mod_to_equations.

(** [forM] over a shifted range *)
Lemma forM_shift0 {St} (F : nat -> St -> WMat.res St) a n : forall b s,
  forM (seq (b + a) n) F s = forM (seq b n) (fun r => F (r + a)%nat) s.
Proof.
  induction n as [|n IH]; intros b s; [reflexivity|]. cbn [seq forM].
  destruct (F (b + a)%nat s) as [s'|e]; cbn [WMat.bind]; [|reflexivity].
  change (S (b + a)) with (S b + a)%nat. apply IH.
Qed.

(** __M4RI_LEFT_BITMASK(n) = m4ri_ffff >> (64 - n) % 64, as the C text computes it ((word)-1 is 2^64 - 1) *)
Lemma left_bitmask_Zc co :
  Z.shiftr (- (1) mod M64) ((64 - Z.of_nat co mod 64) mod 64) = Z.of_N (left_bitmask (co mod 64)).
Proof.
  unfold left_bitmask. rewrite of_N_shr. change (Z.of_N ffff) with (- (1) mod M64). f_equal. lia.
Qed.

(** * mzd_row_clear_offset (mzd.c:197).  The four cases (coloffset % 64 == 0 or not, startblock == last or not)
    are the [if]s of the model; the names of hypotheses are not used in patterns under [all:] (the array is [mm]
    because [mem] is also the name of a global type). *)
Lemma run_mzd_row_clear_offset d h fl mm r co m' :
  valid h mm -> c_dom h fl mm -> (r < h_nrows h)%nat -> (co < h_ncols h)%nat ->
  w2_row_clear_offset h r co mm = WMat.Ok m' ->
  run zops obs_prog LFUEL (S (S d)) "mzd_row_clear_offset"
      (hbundle h fl [Vint (Z.of_nat r); Vint (Z.of_nat co)]) (mem_of (words mm)) =
  Ok (None, mem_of (words m')).
Proof.
  intros Hv Hd Hr Hco Hw. pose proof (valid_hdr_ok _ _ Hv) as Hok. pose proof (valid_mem_ok _ _ Hv) as Hm.
  pose proof Hd as (D1 & D2 & D3 & D4 & D5 & D6). pose proof Hok as (Hwd & _ & Hrs).
  pose proof (hmask_lt h Hok) as Hhm. pose proof (left_bitmask_lt (co mod 64)) as Hlb.
  assert (Hsbw : (co / 64 < h_width h)%nat) by now apply width_pos.
  assert (Hk : (h_width h - 1 < h_width h)%nat) by lia.
  destruct (dom_facts h fl mm r (h_width h - 1) Hv Hd Hr Hk) as (Hp & Hri & Hra & Hbig & Hii).
  unfold w2_row_clear_offset in Hw. destruct (Nat.eqb_spec (h_width h) 0) as [?|_]; [lia|]. cbv zeta in Hw.
  set (sb := (co / 64)%nat) in *. set (last := (h_width h - 1)%nat) in *. set (ra := row_addr h r) in *.
  rewrite rd_ok in Hw by lia. cbn [WMat.bind] in Hw. rewrite wr_ok in Hw by lia. cbn [WMat.bind] in Hw.
  destruct (bind_inv _ _ _ Hw) as (m2 & Hfor & Hw1). clear Hw.
  unfold hbundle.
  co_enter "mzd_row_clear_offset"%string f_mzd_row_clear_offset.
  destruct (Nat.eqb_spec (co mod 64) 0) as [Hc0|Hc0]; cbn [negb] in Hfor;
  destruct (Nat.eqb_spec sb last) as [Hsl|Hsl].
  all: cm_run; rewrite run_mzd_row_o by lia; cm_run.
  all: rewrite ?left_bitmask_Zc; rewrite Hra;
    replace (Z.of_nat co / 64) with (Z.of_nat sb) by (unfold sb; lia);
    replace (Z.of_nat (h_width h) - 1) with (Z.of_nat last) by (unfold last; lia);
    replace (Z.of_nat sb + 1) with (Z.of_nat (sb + 1)) by lia.
  all: change (sb + 1)%nat with (0 + (sb + 1))%nat in Hfor; rewrite forM_shift0 in Hfor.
  all: set (s1 := (sb + 1)%nat) in *; set (n := (last - s1)%nat) in *.
  all: match type of Hfor with forM _ _ ?m0 = _ => set (M0 := m0) in * end.
  all: match goal with |- context [mem_of (upd ?p ?v (words ?x))] =>
    assert (HM0 : upd p v (words x) = words M0) by (unfold M0; wfin);
    rewrite HM0; clear HM0
  end.
  all: assert (HlM0 : List.length M0 = List.length mm) by (unfold M0; apply upd_length).
  all: assert (HokM0 : mem_ok M0) by (unfold M0; now apply mem_ok_upd).
  all: clearbody M0; cm_release.
  all: match goal with |- context [exec zops ?cl LFUEL (Sloop ?cd ?bd ?st) ?E0 ?MM] =>
    pose (E := fun (k : nat) (tv : @val Z) => tset 15%positive (Vint (Z.of_nat (k + s1))) E0);
    change E0 with (E 0%nat Vundef);
    destruct (for_loop_mem cl cd bd st E (E n) n
                (fun i m => wr m (ra + (i + s1)) 0%N)%nat
                (List.length mm)) with (mem := M0) (m1 := m2) (tv0 := @Vundef Z) as (Hl1 & Hok1 & tv & Hloop);
    [ intros k tv mk mk' Hkk Hl Hmk HF;
      rewrite wr_ok in HF by lia; apply wok_inj in HF; subst mk';
      split; [now rewrite !upd_length|]; split; [now repeat apply mem_ok_upd|];
      exists (@Vundef Z); rewrite loop_step_Some; unfold E; cm_run;
      replace (Z.of_nat (k + s1) + 1) with (Z.of_nat (S k + s1)) by lia;
      do 3 f_equal; wfin
    | intros tv mk Hl Hmk; rewrite loop_step_Some; unfold E; cm_run; reflexivity
    | unfold n; lia
    | assumption
    | assumption
    | exact Hfor
    | ]
  end.
  all: rewrite Hloop; unfold E; cm_run.
  all: destruct (Nat.ltb_spec sb last) as [Hlt|Hge]; try lia.
  all: try (apply wok_inj in Hw1; subst m'; reflexivity).
  all: rewrite rd_ok in Hw1 by lia; cbn [WMat.bind] in Hw1; rewrite wr_ok in Hw1 by lia;
       apply wok_inj in Hw1; subst m'; wfin.
Qed.

Lemma w2_row_clear_offset_length h mem r co m' : valid h mem -> (r < h_nrows h)%nat -> (co < h_ncols h)%nat ->
  w2_row_clear_offset h r co mem = WMat.Ok m' -> List.length m' = List.length mem.
Proof.
  intros Hv Hr Hco Hw. destruct (w2_row_clear_offset_refines h mem r co Hv Hr Hco) as (m2 & E2 & L2 & _).
  rewrite Hw in E2. apply wok_inj in E2. now subst.
Qed.

(** the C text computes the word-level model *)
Theorem obs_row_clear_offset_w h fl mem r co m' :
  valid h mem -> c_dom h fl mem -> (r < h_nrows h)%nat -> (co < h_ncols h)%nat ->
  w2_row_clear_offset h r co mem = WMat.Ok m' ->
  run_obs "mzd_row_clear_offset" (hbundle h fl [Vint (Z.of_nat r); Vint (Z.of_nat co)]) (words mem) =
  Ok (None, words m').
Proof.
  intros Hv Hd Hr Hco Hw. apply run_obs_intro.
  - rewrite !words_length. exact (w2_row_clear_offset_length h mem r co m' Hv Hr Hco Hw).
  - change DEPTH with (S (S 10)). now apply run_mzd_row_clear_offset.
Qed.

(** ... and hence the matrix-level specification: row r keeps its columns below co and loses the others; nothing
    outside the view changes (in particular the bits of the parent beyond ncols in the last word of the row) *)
Theorem mzd_row_clear_offset_spec h fl mem r co :
  valid h mem -> c_dom h fl mem -> (r < h_nrows h)%nat -> (co < h_ncols h)%nat ->
  exists m', run_obs "mzd_row_clear_offset" (hbundle h fl [Vint (Z.of_nat r); Vint (Z.of_nat co)]) (words mem) =
               Ok (None, words m') /\
    List.length m' = List.length mem /\ mem_ok m' /\
    abs h m' = row_clear_offset (abs h mem) r co /\ outside h mem m'.
Proof.
  intros Hv Hd Hr Hco. destruct (w2_row_clear_offset_refines h mem r co Hv Hr Hco) as (m' & E & L & O & A & F).
  exists m'. split; [now apply obs_row_clear_offset_w|]. auto.
Qed.

(** the hypotheses are satisfiable: a 2 x 70 window (rows 1..2, columns 64..133) of a 3 x 200 matrix whose
    words are all ones; its offset is 5, the last word of each of its rows holds 58 foreign bits of the parent *)
Definition rco_h : hdr := window_hdr (init_hdr 3 200) 1 64 3 134.
Definition rco_mem : list N := repeat ffff 12.

Example obs_row_clear_offset_dom_example :
  valid rco_h rco_mem /\ c_dom rco_h 4 rco_mem /\ (1 < h_nrows rco_h)%nat /\ (3 < h_ncols rco_h)%nat /\
  h_off rco_h = 5%nat /\ h_ncols rco_h = 70%nat.
Proof.
  split; [apply validb_spec; reflexivity|]. split; [|cbn; lia].
  unfold c_dom. cbn. lia.
Qed.

(** one run of the CMini term: clearing row 1 of the window from column 3 leaves 7 in word 9 (columns 0..2),
    and in word 10 the six columns 64..69 are cleared while the 58 foreign bits above them survive, as do all
    other words of the parent *)
Example obs_row_clear_offset_run :
  run_obs "mzd_row_clear_offset" (hbundle rco_h 4 [Vint 1; Vint 3]) (words rco_mem) =
  Ok (None, [18446744073709551615; 18446744073709551615; 18446744073709551615; 18446744073709551615;
             18446744073709551615; 18446744073709551615; 18446744073709551615; 18446744073709551615;
             18446744073709551615; 7; 18446744073709551552; 18446744073709551615]).
Proof. vm_compute. reflexivity. Qed.

(** a run with startblock = last (coloffset 67): only the columns 67..69 (bits 3..5 of word 10) are cleared *)
Example obs_row_clear_offset_run_last :
  run_obs "mzd_row_clear_offset" (hbundle rco_h 4 [Vint 1; Vint 67]) (words rco_mem) =
  Ok (None, [18446744073709551615; 18446744073709551615; 18446744073709551615; 18446744073709551615;
             18446744073709551615; 18446744073709551615; 18446744073709551615; 18446744073709551615;
             18446744073709551615; 18446744073709551615; 18446744073709551559; 18446744073709551615]).
Proof. vm_compute. reflexivity. Qed.
