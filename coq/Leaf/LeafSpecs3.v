(* Leaf/LeafSpecs3.v — the TRANSLATED leaf functions whose control depends on data:
   m4ri_lesser_LSB (misc.h:466) for all pairs of words (real proof), log2_floor (graycode.h:151)
   for every non-negative int (real proof through the logarithmic-fuel loop), m4ri_gray_code
   (graycode.c:31; finite sweep, bound in the statement). *)
From Coq Require Import ZArith NArith List String Bool Lia ZifyBool ZifyNat ZifyN.
From M4 Require Import Base.Bits Lin.Ops Leaf.CMini Leaf.Gen_leaf Leaf.LeafSpecs Leaf.LeafSpecs2
  Leaf.LeafSpecs4 Alg.Gray Alg.GrayProofs.
Import ListNotations.
Local Open Scope Z_scope.

(** * m4ri_lesser_LSB *)
(** LSBI(w): index of the least significant set bit, 64 if w = 0 (the wording of misc.h:459) *)
Definition lsbi (w : Z) : Z := match w with Zpos p => Z.of_nat (ctz_pos p) | _ => 64 end.

Lemma lsbi_pos_spec p :
  Z.testbit (Zpos p) (Z.of_nat (ctz_pos p)) = true /\
  forall k, 0 <= k < Z.of_nat (ctz_pos p) -> Z.testbit (Zpos p) k = false.
Proof.
  induction p as [p IH|p IH|]; cbn [ctz_pos].
  - split; [reflexivity|]. intros k Hk. cbn in Hk. lia.
  - destruct IH as [IH1 IH2]. rewrite Nat2Z.inj_succ, Pos2Z.inj_xO. split.
    + rewrite Z.double_bits_succ. exact IH1.
    + intros k Hk. destruct (Z.eq_dec k 0) as [->|Hne]; [apply Z.testbit_even_0|].
      replace k with (Z.succ (k - 1)) by lia. rewrite Z.double_bits_succ. apply IH2. lia.
  - split; [reflexivity|]. intros k Hk. cbn in Hk. lia.
Qed.

Lemma lsbi_spec w : 0 < w ->
  0 <= lsbi w /\ Z.testbit w (lsbi w) = true /\ forall k, 0 <= k < lsbi w -> Z.testbit w k = false.
Proof.
  destruct w as [|p|p]; try lia. intros _. cbn [lsbi]. split; [lia|apply lsbi_pos_spec].
Qed.

Lemma lxor_2 x y (bx bY : bool) :
  Z.lxor (2 * x + Z.b2z bx) (2 * y + Z.b2z bY) = 2 * Z.lxor x y + Z.b2z (xorb bx bY).
Proof.
  apply Z.bits_inj'. intros n Hn. rewrite Z.lxor_spec.
  destruct (Z.eq_dec n 0) as [->|Hne].
  - now rewrite !Z.testbit_0_r.
  - replace n with (Z.succ (n - 1)) by lia. rewrite !Z.testbit_succ_r by lia. symmetry. apply Z.lxor_spec.
Qed.

Lemma lxor_pred p : Z.lxor (Zpos p - 1) (Zpos p) = Z.ones (Z.of_nat (S (ctz_pos p))).
Proof.
  induction p as [p IH|p IH|]; cbn [ctz_pos].
  - replace (Z.lxor (Zpos p~1 - 1) (Zpos p~1))
      with (Z.lxor (2 * Zpos p + Z.b2z false) (2 * Zpos p + Z.b2z true)) by (f_equal; cbn [Z.b2z]; lia).
    rewrite lxor_2, Z.lxor_nilpotent. reflexivity.
  - replace (Z.lxor (Zpos p~0 - 1) (Zpos p~0))
      with (Z.lxor (2 * (Zpos p - 1) + Z.b2z true) (2 * Zpos p + Z.b2z false)) by (f_equal; cbn [Z.b2z]; lia).
    rewrite lxor_2, IH. cbn [xorb Z.b2z]. rewrite !Z.ones_equiv.
    rewrite (Nat2Z.inj_succ (S (ctz_pos p))), Z.pow_succ_r by lia. lia.
  - reflexivity.
Qed.

Lemma mod_pow2_ctz : forall t q, (Zpos q mod 2 ^ Z.of_nat (S t) =? 0) = (t <? ctz_pos q)%nat.
Proof.
  induction t as [|t IH]; intros q.
  - change (2 ^ Z.of_nat 1) with 2. destruct q as [q|q|]; cbn [ctz_pos].
    + rewrite Pos2Z.inj_xI, Z.add_comm, Z.mul_comm, Z.mod_add by lia. reflexivity.
    + rewrite Pos2Z.inj_xO, Z.mul_comm, Z.mod_mul by lia. reflexivity.
    + reflexivity.
  - rewrite (Nat2Z.inj_succ (S t)), Z.pow_succ_r by lia.
    assert (Hp : 0 < 2 ^ Z.of_nat (S t)) by (apply Z.pow_pos_nonneg; lia).
    destruct q as [q|q|]; cbn [ctz_pos].
    + destruct (Z.eqb_spec (Zpos q~1 mod (2 * 2 ^ Z.of_nat (S t))) 0) as [E|_]; [|reflexivity].
      apply Z.mod_divide in E; [|lia]. destruct E as [k Hk]. rewrite Pos2Z.inj_xI in Hk.
      set (km := k * 2 ^ Z.of_nat (S t)) in *. assert (k * (2 * 2 ^ Z.of_nat (S t)) = 2 * km) by (unfold km; ring). lia.
    + rewrite Pos2Z.inj_xO, Z.mul_mod_distr_l by lia.
      replace (2 * (Zpos q mod 2 ^ Z.of_nat (S t)) =? 0) with (Zpos q mod 2 ^ Z.of_nat (S t) =? 0) by lia.
      rewrite IH. reflexivity.
    + rewrite Z.mod_small; [reflexivity|]. lia.
Qed.

Lemma lesser_core a b : 0 < a -> 0 < b ->
  (Z.land (Z.lxor (a - 1) a) b =? 0) = (lsbi a <? lsbi b).
Proof.
  destruct a as [|p|p], b as [|q|q]; try lia. intros _ _. cbn [lsbi].
  rewrite lxor_pred, Z.land_comm, Z.land_ones by lia. rewrite mod_pow2_ctz.
  destruct (Nat.ltb_spec (ctz_pos p) (ctz_pos q)); lia.
Qed.

Lemma lsbi_w64 a : w64 a -> 0 < a -> lsbi a < 64.
Proof.
  intros [H0 H1] Hp. destruct (lsbi_spec a Hp) as (Hn & Hb & _).
  destruct (Z.lt_ge_cases (lsbi a) 64) as [|Hge]; [assumption|].
  rewrite (w64_high a (lsbi a)) in Hb by (unfold w64; lia). discriminate.
Qed.

(** for ALL pairs of 64-bit words: returns 1 iff LSBI(a) < LSBI(b), else 0 *)
Theorem lesser_LSB_spec a b : w64 a -> w64 b ->
  call_int "m4ri_lesser_LSB" [a; b] = Ok (if lsbi a <? lsbi b then 1 else 0).
Proof.
  intros Ha Hb. unfold call_int, interp. change DEPTH with (S 11). rewrite run_S.
  change (find_func leaf_prog "m4ri_lesser_LSB") with (Some f_m4ri_lesser_LSB).
  generalize (run zops leaf_prog LFUEL 11); intros call. generalize LFUEL; intros lf.
  cbn. change 18446744073709551616 with M64.
  destruct (Z.eqb_spec b 0) as [->|Hbne]; cbn.
  - (* b = 0: true iff a <> 0 *)
    destruct (Z.eqb_spec a 0) as [->|Hane]; cbn; [reflexivity|].
    assert (lsbi a < 64) by (apply lsbi_w64; unfold w64 in *; lia).
    cbn [lsbi]. destruct (Z.ltb_spec (lsbi a) 64); [reflexivity|lia].
  - assert (Hbp : 0 < b) by (unfold w64 in Hb; lia).
    destruct (Z.eq_dec a 0) as [->|Hane].
    + (* a = 0: (0 - 1) mod 2^64 is all ones, so the conjunction is b <> 0: false *)
      change ((0 - 1) mod M64) with (Z.ones 64). rewrite Z.lxor_0_r.
      rewrite (Z.mod_small (Z.ones 64)) by (unfold M64; cbn; lia).
      rewrite Z.land_comm, Z.land_ones by lia. change (2 ^ 64) with M64.
      rewrite Z.mod_mod by (unfold M64; lia). rewrite Z.mod_small by (unfold w64, M64 in *; lia).
      destruct (Z.eqb_spec b 0); [lia|]. cbn.
      pose proof (lsbi_w64 b Hb Hbp). cbn [lsbi]. destruct (Z.ltb_spec 64 (lsbi b)); [lia|reflexivity].
    + assert (Hap : 0 < a) by (unfold w64 in Ha; lia).
      rewrite (Z.mod_small (a - 1)) by (unfold w64, M64 in *; lia).
      assert (Hx : w64 (Z.lxor (a - 1) a)).
      { rewrite <- (Z2Pos.id a Hap). rewrite lxor_pred. unfold w64. rewrite Z.ones_equiv. split.
        - pose proof (Z.pow_pos_nonneg 2 (Z.of_nat (S (ctz_pos (Z.to_pos a)))) ltac:(lia) ltac:(lia)). lia.
        - assert (Z.of_nat (ctz_pos (Z.to_pos a)) < 64).
          { pose proof (lsbi_w64 a Ha Hap) as Hl. destruct a; try lia. exact Hl. }
          assert (2 ^ Z.of_nat (S (ctz_pos (Z.to_pos a))) <= 2 ^ 64) by (apply Z.pow_le_mono_r; lia). lia. }
      rewrite (Z.mod_small (Z.lxor (a - 1) a)) by (unfold w64, M64 in *; lia).
      assert (Hland : 0 <= Z.land (Z.lxor (a - 1) a) b < M64).
      { split; [apply Z.land_nonneg; left; apply Hx|].
        destruct (Z.eq_dec (Z.land (Z.lxor (a - 1) a) b) 0) as [->|Hlne]; [reflexivity|].
        assert (0 <= Z.land (Z.lxor (a - 1) a) b) by (apply Z.land_nonneg; left; apply Hx).
        change M64 with (2 ^ 64). apply Z.log2_lt_pow2; [lia|].
        pose proof (Z.log2_land (Z.lxor (a - 1) a) b ltac:(apply Hx) ltac:(lia)).
        assert (Z.log2 b < 64) by (apply Z.log2_lt_pow2; unfold w64 in *; lia). lia. }
      rewrite (Z.mod_small _ _ Hland). rewrite lesser_core by assumption.
      destruct (lsbi a <? lsbi b); reflexivity.
Qed.

(** * Loops with logarithmic fuel: a loop that stops after k < 2^n iterations is not cut short *)
Section IterLog.
  Context {S R : Type} (f : S -> res (lstep S R)).

  (** [reach k s r]: k iterations continue, the (k+1)-st evaluation of [f] stops with [r] *)
  Inductive reach : nat -> S -> R -> Prop :=
  | reach0 s r : f s = Ok (LStop r) -> reach 0 s r
  | reachS k s s' r : f s = Ok (LCont s') -> reach k s' r -> reach (Datatypes.S k) s r.

  Lemma iter_log_cont n : forall k s r, reach k s r -> (2 ^ n <= k)%nat ->
    exists s', iter_log n f s = Ok (LCont s') /\ reach (k - 2 ^ n) s' r.
  Proof.
    induction n as [|n IH]; intros k s r Hr Hk; cbn [iter_log].
    - cbn in Hk. inversion Hr; subst; [lia|]. exists s'. split; [assumption|].
      replace (Datatypes.S k0 - 2 ^ 0)%nat with k0 by (cbn; lia). assumption.
    - cbn [Nat.pow] in Hk. destruct (IH k s r Hr ltac:(lia)) as (s1 & E1 & R1). rewrite E1.
      destruct (IH _ s1 r R1 ltac:(lia)) as (s2 & E2 & R2). exists s2. split; [assumption|].
      replace (k - 2 ^ Datatypes.S n)%nat with (k - 2 ^ n - 2 ^ n)%nat by (cbn [Nat.pow]; lia). assumption.
  Qed.

  Lemma iter_log_reach n : forall k s r, reach k s r -> (k < 2 ^ n)%nat -> iter_log n f s = Ok (LStop r).
  Proof.
    induction n as [|n IH]; intros k s r Hr Hk; cbn [iter_log].
    - cbn in Hk. inversion Hr; subst; [assumption|lia].
    - destruct (Nat.lt_ge_cases k (2 ^ n)) as [Hlt|Hge].
      + now rewrite (IH k s r Hr Hlt).
      + destruct (iter_log_cont n k s r Hr Hge) as (s1 & E1 & R1). rewrite E1.
        apply (IH _ s1 r R1). cbn [Nat.pow] in Hk. lia.
  Qed.
End IterLog.

Lemma pow2_nat_ge n : (n < 2 ^ n)%nat.
Proof. apply Nat.pow_gt_lin_r. lia. Qed.

Lemma exec_Sloop_reach call lf c body step e m k o :
  reach (loop_step zops c (exec zops call lf body) (exec zops call lf step)) k (e, m) o ->
  (k < lf)%nat ->
  exec zops call lf (Sloop c body step) e m = Ok o.
Proof.
  intros Hr Hk. cbn [exec]. rewrite (iter_log_reach _ lf k (e, m) o Hr).
  - reflexivity.
  - pose proof (pow2_nat_ge lf). lia.
Qed.

(** * log2_floor (graycode.h:151) *)
Definition l2_cond := Some (Ecmp Cge (Evar 5) (Econst 0)).
Definition l2_body :=
 (Sif (Ebinop Oand tuint (Ecast tuint (Evar 1)) (Eindex (Evar 2) (Evar 5)))
 (Sseq (Sassign (Lvar 1) (Eshift Oshr tint (Evar 1) (Eindex (Evar 3) (Evar 5))))
 (Sassign (Lvar 4) (Ebinop Oor tuint (Evar 4) (Eindex (Evar 3) (Evar 5)))))
 Sskip).
Definition l2_step := (Sassign (Lvar 5) (Ebinop Osub tint (Evar 5) (Econst 1))).
Definition l2_loop := Sloop l2_cond l2_body l2_step.
Definition l2_ret := Sreturn (Some (Ecast tint (Evar 4))).
Definition l2_whole :=
 (Sseq (Sdeclarr 2 5 (Some [(Ecast tuint (Econst 2)); (Ecast tuint (Econst 12)); (Ecast tuint (Econst 240)); (Ecast tuint (Econst 65280)); (Econst 4294901760)]))
 (Sseq (Sdeclarr 3 5 (Some [(Ecast tuint (Econst 1)); (Ecast tuint (Econst 2)); (Ecast tuint (Econst 4)); (Ecast tuint (Econst 8)); (Ecast tuint (Econst 16))]))
 (Sseq (Sdecl 4 (Some (Ecast tuint (Econst 0))))
 (Sseq (Sseq (Sdecl 5 (Some (Econst 4))) l2_loop) l2_ret)))).

Lemma l2_syntax : fn_body f_log2_floor = l2_whole.
Proof. reflexivity. Qed.

Definition l2env (v r i : Z) : @env Z :=
  tset 5 (Vint i) (tset 4 (Vint r) (tset 3 (Vptr 2 0) (tset 2 (Vptr 1 0) (tset 1 (Vint v) TLeaf)))).

(** the memory after the two (static const) tables have been set up *)
Definition l2mem : @mem Z :=
  Eval vm_compute in
    let m1 := alloc (@empty_mem Z) 5 (fill zops [2; 12; 240; 65280; 4294901760] 0 5 TLeaf) in
    fst (alloc (fst m1) 5 (fill zops [1; 2; 4; 8; 16] 0 5 TLeaf)).

Lemma l2_prologue call lf v :
  exec zops call lf l2_whole (tset 1 (Vint v) TLeaf) empty_mem =
  (do o <- exec zops call lf l2_loop (l2env v 0 4) l2mem;
   match o with ONormal e' m' => exec zops call lf l2_ret e' m' | _ => Ok o end).
Proof. reflexivity. Qed.

(** one iteration: mask b[i], shift S[i] *)
Definition l2it (s mask : Z) (vr : Z * Z) : Z * Z :=
  if Z.land (fst vr mod 4294967296) mask mod 4294967296 =? 0 then vr
  else (Z.shiftr (fst vr) s, Z.lor (snd vr) s mod 4294967296).

Definition l2f call lf := loop_step zops l2_cond (exec zops call lf l2_body) (exec zops call lf l2_step).

Ltac l2_iter :=
  intros; unfold l2f, loop_step, truth, l2_cond, l2_body, l2_step, l2it, l2env, l2mem; cbn;
  match goal with |- context [if ?c =? 0 then _ else _] => destruct (c =? 0) end; cbn; reflexivity.

Lemma l2_iter4 call lf vr : l2f call lf (l2env (fst vr) (snd vr) 4, l2mem) =
  Ok (LCont (l2env (fst (l2it 16 4294901760 vr)) (snd (l2it 16 4294901760 vr)) 3, l2mem)).
Proof. destruct vr as [v r]. cbn [fst snd]. l2_iter. Qed.
Lemma l2_iter3 call lf vr : l2f call lf (l2env (fst vr) (snd vr) 3, l2mem) =
  Ok (LCont (l2env (fst (l2it 8 65280 vr)) (snd (l2it 8 65280 vr)) 2, l2mem)).
Proof. destruct vr as [v r]. cbn [fst snd]. l2_iter. Qed.
Lemma l2_iter2 call lf vr : l2f call lf (l2env (fst vr) (snd vr) 2, l2mem) =
  Ok (LCont (l2env (fst (l2it 4 240 vr)) (snd (l2it 4 240 vr)) 1, l2mem)).
Proof. destruct vr as [v r]. cbn [fst snd]. l2_iter. Qed.
Lemma l2_iter1 call lf vr : l2f call lf (l2env (fst vr) (snd vr) 1, l2mem) =
  Ok (LCont (l2env (fst (l2it 2 12 vr)) (snd (l2it 2 12 vr)) 0, l2mem)).
Proof. destruct vr as [v r]. cbn [fst snd]. l2_iter. Qed.
Lemma l2_iter0 call lf vr : l2f call lf (l2env (fst vr) (snd vr) 0, l2mem) =
  Ok (LCont (l2env (fst (l2it 1 2 vr)) (snd (l2it 1 2 vr)) (-1), l2mem)).
Proof. destruct vr as [v r]. cbn [fst snd]. l2_iter. Qed.
Lemma l2_iter_stop call lf v r : l2f call lf (l2env v r (-1), l2mem) =
  Ok (LStop (ONormal (l2env v r (-1)) l2mem)).
Proof. intros. unfold l2f, loop_step, truth, l2_cond, l2env. cbn. reflexivity. Qed.

Definition log2_model (v : Z) : Z :=
  snd (l2it 1 2 (l2it 2 12 (l2it 4 240 (l2it 8 65280 (l2it 16 4294901760 (v, 0)))))).

Lemma l2_reach call lf v :
  exists vf, reach (l2f call lf) 5 (l2env v 0 4, l2mem) (ONormal (l2env vf (log2_model v) (-1)) l2mem).
Proof.
  eexists. change (l2env v 0 4) with (l2env (fst (v, 0)) (snd (v, 0)) 4).
  eapply reachS; [apply l2_iter4|]. eapply reachS; [apply l2_iter3|].
  eapply reachS; [apply l2_iter2|]. eapply reachS; [apply l2_iter1|].
  eapply reachS; [apply l2_iter0|]. apply reach0. apply l2_iter_stop.
Qed.

(** the translated function returns [log2_model v] (as an int) for EVERY int argument *)
Lemma log2_floor_run v :
  call_int "log2_floor" [v] = Ok (convert tint (log2_model v)).
Proof.
  unfold call_int, interp. change DEPTH with (S 11). rewrite run_S.
  change (find_func leaf_prog "log2_floor") with (Some f_log2_floor).
  cbv beta iota. rewrite l2_syntax.
  change (fn_params f_log2_floor) with [(1%positive, Pint tint)]. cbn [map bind_params bind].
  rewrite l2_prologue. destruct (l2_reach (run zops leaf_prog LFUEL 11) LFUEL v) as [vf Hr].
  unfold l2_loop. rewrite (exec_Sloop_reach _ _ _ _ _ _ _ 5 _ Hr) by (unfold LFUEL; lia).
  cbn [bind]. reflexivity.
Qed.

(** the mask test of iteration (s, mask = bits [s, 2s)) is a comparison with 2^s *)
Lemma cond_lt s mask P P2 v : 0 < s -> 2 * s <= 32 -> mask = Z.shiftl (Z.ones s) s ->
  P = 2 ^ s -> P2 = 2 ^ (2 * s) -> 0 <= v < P2 ->
  (Z.land (v mod 4294967296) mask mod 4294967296 =? 0) = (v <? P).
Proof.
  intros Hs Hs2 -> -> -> Hv.
  assert (H32 : 2 ^ (2 * s) <= 4294967296) by (change 4294967296 with (2 ^ 32); apply Z.pow_le_mono_r; lia).
  rewrite (Z.mod_small v) by lia.
  assert (HX : Z.land v (Z.shiftl (Z.ones s) s) = Z.shiftl (Z.shiftr v s) s).
  { apply Z.bits_inj'. intros k Hk. rewrite Z.land_spec, testbit_range_mask by lia.
    rewrite Z.shiftl_spec by lia. destruct (Z.leb_spec s k) as [Hle|Hlt]; cbn [andb].
    - rewrite Z.shiftr_spec by lia. replace (k - s + s) with k by lia.
      destruct (Z.ltb_spec k (s + s)); [now rewrite andb_true_r|]. rewrite andb_false_r.
      destruct (Z.eq_dec v 0) as [->|Hne]; [symmetry; apply Z.testbit_0_l|].
      symmetry. apply Z.bits_above_log2; [lia|].
      assert (Z.log2 v < 2 * s) by (apply Z.log2_lt_pow2; lia). lia.
    - rewrite andb_false_r. symmetry. apply Z.testbit_neg_r. lia. }
  rewrite HX, Z.shiftl_mul_pow2, Z.shiftr_div_pow2 by lia.
  assert (Hp : 0 < 2 ^ s) by (apply Z.pow_pos_nonneg; lia).
  assert (Hd : 0 <= v / 2 ^ s) by (apply Z.div_pos; lia).
  assert (Hle : v / 2 ^ s * 2 ^ s <= v) by (rewrite Z.mul_comm; apply Z.mul_div_le; lia).
  rewrite Z.mod_small by nia.
  destruct (Z.ltb_spec v (2 ^ s)) as [Hlt|Hge].
  - rewrite Z.div_small by lia. reflexivity.
  - assert (1 <= v / 2 ^ s) by (apply Z.div_le_lower_bound; lia).
    destruct (Z.eqb_spec (v / 2 ^ s * 2 ^ s) 0); [nia|reflexivity].
Qed.

Ltac l2_stage :=
  match goal with
  | |- context [l2it ?s ?mask (?v, ?r)] =>
      change (l2it s mask (v, r)) with
        (if Z.land (v mod 4294967296) mask mod 4294967296 =? 0 then (v, r)
         else (Z.shiftr v s, Z.lor r s mod 4294967296));
      let P := eval vm_compute in (2 ^ s) in
      let P2 := eval vm_compute in (2 ^ (2 * s)) in
      rewrite (cond_lt s mask P P2 v) by (first [reflexivity | lia]);
      destruct (Z.ltb_spec v P)
  end.

Ltac Zify.zify_post_hook ::= Z.div_mod_to_equations.

Lemma log2_model_spec v : 0 <= v < 2 ^ 31 -> log2_model v = Z.log2 v.
Proof.
  intros Hv. destruct (Z.eq_dec v 0) as [->|Hne]; [reflexivity|].
  change (2 ^ 31) with 2147483648 in Hv. unfold log2_model.
  l2_stage; rewrite ?Z.shiftr_div_pow2 in * by lia; change (2 ^ 16) with 65536 in *.
  all: l2_stage; rewrite ?Z.shiftr_div_pow2 in * by lia; change (2 ^ 8) with 256 in *.
  all: l2_stage; rewrite ?Z.shiftr_div_pow2 in * by lia; change (2 ^ 4) with 16 in *.
  all: l2_stage; rewrite ?Z.shiftr_div_pow2 in * by lia; change (2 ^ 2) with 4 in *.
  all: l2_stage; rewrite ?Z.shiftr_div_pow2 in * by lia; change (2 ^ 1) with 2 in *.
  all: cbn [snd].
  all: match goal with |- ?r = _ => let r' := eval vm_compute in r in change r with r' end.
  all: symmetry; apply Z.log2_unique; [lia|].
  all: match goal with |- 2 ^ ?a <= _ < 2 ^ ?b =>
         let x := eval vm_compute in (2 ^ a) in let y := eval vm_compute in (2 ^ b) in
         change (2 ^ a) with x; change (2 ^ b) with y end.
  all: lia.
Qed.

(** log2_floor(v) = floor(log2 v) for every 0 < v < 2^31, and 0 for v = 0 (= Z.log2 0) *)
Theorem log2_floor_spec v : 0 <= v < 2 ^ 31 -> call_int "log2_floor" [v] = Ok (Z.log2 v).
Proof.
  intros Hv. rewrite log2_floor_run, log2_model_spec by assumption. f_equal.
  assert (0 <= Z.log2 v < 31).
  { split; [apply Z.log2_nonneg|]. destruct (Z.eq_dec v 0) as [->|Hne]; [reflexivity|].
    apply Z.log2_lt_pow2; lia. }
  unfold convert. cbn [signed tint wd whalf wmod]. rewrite Z.mod_small by lia. lia.
Qed.

(** * m4ri_gray_code (graycode.c:31): for every length 0..31 and every non-negative int *)
Definition P31 (z : Z) : Prop := 0 <= z < 2 ^ 31.

Lemma lt_pow2_bits a n : 0 <= a -> 0 <= n -> (forall k, n <= k -> Z.testbit a k = false) -> a < 2 ^ n.
Proof.
  intros Ha Hn H. destruct (Z.eq_dec a 0) as [->|Hne]; [apply Z.pow_pos_nonneg; lia|].
  apply Z.log2_lt_pow2; [lia|]. destruct (Z.lt_ge_cases (Z.log2 a) n) as [|Hge]; [assumption|].
  pose proof (Z.bit_log2 a ltac:(lia)) as Hb. rewrite H in Hb by assumption. discriminate.
Qed.

Lemma bits_above a n k : 0 <= a < 2 ^ n -> n <= k -> Z.testbit a k = false.
Proof.
  intros [H0 H1] Hk. destruct (Z.eq_dec a 0) as [->|Hne]; [apply Z.testbit_0_l|].
  assert (0 <= n) by (destruct (Z.lt_ge_cases n 0); [rewrite Z.pow_neg_r in H1 by lia; lia|assumption]).
  apply Z.bits_above_log2; [lia|]. assert (Z.log2 a < n) by (apply Z.log2_lt_pow2; lia). lia.
Qed.

Lemma P31_land a b : 0 <= a -> P31 b -> P31 (Z.land a b).
Proof.
  intros Ha Hb. split; [apply Z.land_nonneg; now left|].
  apply lt_pow2_bits; [apply Z.land_nonneg; now left|lia|].
  intros k Hk. rewrite Z.land_spec, (bits_above b 31 k Hb Hk). apply andb_false_r.
Qed.
Lemma P31_lor a b : P31 a -> P31 b -> P31 (Z.lor a b).
Proof.
  intros Ha Hb. split; [apply Z.lor_nonneg; split; [apply Ha|apply Hb]|].
  apply lt_pow2_bits; [apply Z.lor_nonneg; split; [apply Ha|apply Hb]|lia|].
  intros k Hk. now rewrite Z.lor_spec, (bits_above a 31 k Ha Hk), (bits_above b 31 k Hb Hk).
Qed.
Lemma P31_lxor a b : P31 a -> P31 b -> P31 (Z.lxor a b).
Proof.
  intros Ha Hb. split; [apply Z.lxor_nonneg; split; intros _; [apply Hb|apply Ha]|].
  apply lt_pow2_bits; [apply Z.lxor_nonneg; split; intros _; [apply Hb|apply Ha]|lia|].
  intros k Hk. now rewrite Z.lxor_spec, (bits_above a 31 k Ha Hk), (bits_above b 31 k Hb Hk).
Qed.
Lemma P31_div2 a : P31 a -> P31 (Z.div2 a).
Proof. intros [H0 H1]. rewrite Z.div2_div. split; [apply Z.div_pos; lia|]. apply Z.div_lt_upper_bound; lia. Qed.
Lemma P31_pow i : 0 <= i <= 30 -> P31 (Z.shiftl 1 i).
Proof.
  intros Hi. rewrite Z.shiftl_1_l. split; [apply Z.pow_nonneg; lia|].
  apply Z.pow_lt_mono_r; lia.
Qed.

Definition genv (o6 : option Z) (number length lastbit res i : Z) : @env Z :=
  let e5 := tset 5 (Vint i) (tset 4 (Vint res) (tset 3 (Vint lastbit) (tset 2 (Vint length) (tset 1 (Vint number) TLeaf)))) in
  match o6 with None => e5 | Some b => tset 6 (Vint b) e5 end.

Definition gray_cond := Some (Ecmp Cge (Evar 5) (Econst 0)).
Definition gray_body :=
 (Sseq (Sdecl 6 (Some (Ebinop Oand tint (Evar 1) (Eshift Oshl tint (Econst 1) (Evar 5)))))
 (Sseq (Sassign (Lvar 4) (Ebinop Oor tint (Evar 4) (Ebinop Oxor tint (Eshift Oshr tint (Evar 3) (Econst 1)) (Evar 6))))
 (Sassign (Lvar 3) (Evar 6)))).
Definition gray_step := (Sassign (Lvar 5) (Ebinop Osub tint (Evar 5) (Econst 1))).
Definition gray_whole :=
 (Sseq (Sdecl 3 (Some (Econst 0)))
 (Sseq (Sdecl 4 (Some (Econst 0)))
 (Sseq (Sseq (Sdecl 5 (Some (Ebinop Osub tint (Evar 2) (Econst 1)))) (Sloop gray_cond gray_body gray_step))
 (Sreturn (Some (Evar 4)))))).

Lemma exec_Sdecl_some {V} (ops : vops V) call lf x ex e m :
  exec ops call lf (Sdecl x (Some ex)) e m = (do v <- eval ops e m ex; Ok (ONormal (tset x v e) m)).
Proof. reflexivity. Qed.

Lemma gray_syntax : fn_body f_m4ri_gray_code = gray_whole.
Proof. reflexivity. Qed.

Definition gf call lf := loop_step zops gray_cond (exec zops call lf gray_body) (exec zops call lf gray_step).

Lemma P31_range z : P31 z -> in_range tint z = true.
Proof. unfold P31, in_range. cbn. lia. Qed.

Lemma gray_iter call lf o6 number length lastbit res i m :
  0 <= i <= 30 -> 0 <= number -> P31 lastbit -> P31 res ->
  gf call lf (genv o6 number length lastbit res i, m) =
  Ok (LCont (genv (Some (Z.land number (Z.shiftl 1 i))) number length (Z.land number (Z.shiftl 1 i))
                  (Z.lor res (Z.lxor (Z.div2 lastbit) (Z.land number (Z.shiftl 1 i)))) (i - 1), m)).
Proof.
  intros Hi Hn Hl Hr.
  pose proof (P31_pow i Hi) as Hp.
  pose proof (P31_land number _ Hn Hp) as Hbit.
  pose proof (P31_lxor _ _ (P31_div2 _ Hl) Hbit) as Hx.
  pose proof (P31_lor _ _ Hr Hx) as Hres.
  unfold gf, loop_step, truth, gray_cond, gray_body, gray_step. destruct o6; cbn.
  all: if_true lia; cbn.
  all: if_true lia; cbn.
  all: rewrite (P31_range _ Hp); cbn.
  all: rewrite (P31_range _ Hbit); cbn.
  all: rewrite (P31_range _ Hx); cbn.
  all: rewrite (P31_range _ Hres); cbn.
  all: if_true rng; cbn.
  all: reflexivity.
Qed.

Lemma gray_stop call lf o6 number length lastbit res m :
  gf call lf (genv o6 number length lastbit res (-1), m) =
  Ok (LStop (ONormal (genv o6 number length lastbit res (-1)) m)).
Proof. unfold gf, loop_step, truth, gray_cond. destruct o6; cbn; reflexivity. Qed.

Lemma gray_reach call lf (number : N) length m : forall k o6 lb res, (k <= 31)%nat ->
  P31 (Z.of_N lb) -> P31 (Z.of_N res) ->
  exists o6' lb',
    reach (gf call lf) k
          (genv o6 (Z.of_N number) length (Z.of_N lb) (Z.of_N res) (Z.of_nat k - 1), m)
          (ONormal (genv o6' (Z.of_N number) length lb' (Z.of_N (gray_loop number k lb res)) (-1)) m).
Proof.
  induction k as [|k IH]; intros o6 lb res Hk Hl Hr.
  - exists o6, (Z.of_N lb). apply reach0. cbn [gray_loop]. apply gray_stop.
  - set (bit := N.land number (N.shiftl 1 (N.of_nat k))).
    set (res' := N.lor res (N.lxor (N.shiftr lb 1) bit)).
    assert (Hb : Z.of_N bit = Z.land (Z.of_N number) (Z.shiftl 1 (Z.of_nat k))).
    { unfold bit. rewrite of_N_land, of_N_shiftl. now rewrite nat_N_Z. }
    assert (Hr' : Z.of_N res' = Z.lor (Z.of_N res) (Z.lxor (Z.div2 (Z.of_N lb)) (Z.of_N bit))).
    { unfold res'. rewrite of_N_lor, of_N_lxor, of_N_shiftr. reflexivity. }
    assert (Hp : P31 (Z.shiftl 1 (Z.of_nat k))) by (apply P31_pow; lia).
    assert (Hbit : P31 (Z.of_N bit)) by (rewrite Hb; apply P31_land; [lia|assumption]).
    assert (Hres : P31 (Z.of_N res')).
    { rewrite Hr'. apply P31_lor; [assumption|]. apply P31_lxor; [now apply P31_div2|assumption]. }
    destruct (IH (Some (Z.of_N bit)) bit res' ltac:(lia) Hbit Hres) as (o6' & lb' & Hreach).
    exists o6', lb'. eapply reachS.
    + replace (Z.of_nat (S k) - 1) with (Z.of_nat k) by lia. apply gray_iter; [lia|lia|assumption|assumption].
    + rewrite <- Hb, <- Hr'. cbn [gray_loop]. fold bit. fold res'. exact Hreach.
Qed.

(** the translated m4ri_gray_code agrees with the model Gray.gray_code for EVERY length 0..31 and
    every non-negative int (beyond length 31 the C code shifts 1 << 31: undefined behaviour) *)
Theorem gen_gray_code_eq (l : nat) (number : N) : (l <= 31)%nat -> (number < 2 ^ 31)%N ->
  call_int "m4ri_gray_code" [Z.of_N number; Z.of_nat l] = Ok (Z.of_N (gray_code number l)).
Proof.
  intros Hl Hn. unfold call_int, interp. change DEPTH with (S 11). rewrite run_S.
  change (find_func leaf_prog "m4ri_gray_code") with (Some f_m4ri_gray_code).
  cbv beta iota. rewrite gray_syntax.
  change (fn_params f_m4ri_gray_code) with [(1%positive, Pint tint); (2%positive, Pint tint)].
  cbn [map bind_params bind].
  generalize (run zops leaf_prog LFUEL 11); intros call.
  unfold gray_whole.
  rewrite exec_Sseq, exec_Sdecl_some. cbn [eval bind v_const zops].
  rewrite exec_Sseq, exec_Sdecl_some. cbn [eval bind v_const zops].
  rewrite exec_Sseq, exec_Sseq, exec_Sdecl_some.
  assert (Hev : eval zops (tset 4 (Vint 0) (tset 3 (Vint 0) (tset 2 (Vint (Z.of_nat l)) (tset 1 (Vint (Z.of_N number)) TLeaf))))
                  empty_mem (Ebinop Osub tint (Evar 2) (Econst 1)) = Ok (Vint (Z.of_nat l - 1))).
  { cbn. if_true rng. cbn. reflexivity. }
  rewrite Hev. cbn [bind].
  change (tset 5 (Vint (Z.of_nat l - 1)) (tset 4 (Vint 0) (tset 3 (Vint 0) (tset 2 (Vint (Z.of_nat l)) (tset 1 (Vint (Z.of_N number)) TLeaf)))))
    with (genv None (Z.of_N number) (Z.of_nat l) (Z.of_N 0) (Z.of_N 0) (Z.of_nat l - 1)).
  assert (H0 : P31 (Z.of_N 0)) by (unfold P31; cbn; lia).
  destruct (gray_reach call LFUEL number (Z.of_nat l) empty_mem l None 0%N 0%N Hl H0 H0) as (o6' & lb' & Hreach).
  rewrite (exec_Sloop_reach _ _ _ _ _ _ _ l _ Hreach) by (unfold LFUEL; lia).
  cbn [bind]. unfold gray_code. destruct o6'; reflexivity.
Qed.

Example gen_gray_code_example : call_int "m4ri_gray_code" [5; 3] = Ok 7.
Proof. exact (gen_gray_code_eq 3 5 ltac:(lia) ltac:(lia)). Qed.
