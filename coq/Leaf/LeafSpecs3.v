(* Leaf/LeafSpecs3.v — under construction (C19) *)
From M4 Require Import Leaf.CMini.
