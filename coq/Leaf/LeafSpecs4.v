(* Leaf/LeafSpecs4.v — m4ri_spread_bits (misc.h:388) and m4ri_shrink_bits (misc.h:346), the
   TRANSLATED 16-case fall-through switches, for every length 1..16, every word and every table Q
   in the documented domain (strictly increasing, base <= Q[0], Q[length-1] < base + 64).

   Route: (1) the translated bodies are, syntactically, the switch generated from one parametric
   case statement ([spread_syntax], [shrink_syntax], by reflexivity — a change of the C text breaks
   it);  (2) one symbolic execution of the parametric case statement ([spread_stmt_exec],
   [shrink_stmt_exec]);  (3) for each of the 16 lengths the interpreter's dispatch + fall-through
   is computed and the cases are discharged by (2): the run equals the recursive hand model
   [spread_model]/[shrink_model] ([spread_run], [shrink_run]);  (4) bit-level specification of the
   models and the two inverse laws. *)
From Coq Require Import ZArith NArith List String Bool Lia ZifyBool ZifyNat ZifyN.
From M4 Require Import Base.Bits Leaf.CMini Leaf.Gen_leaf Leaf.LeafSpecs.
Import ListNotations.
Local Open Scope Z_scope.

(** * (1) syntax *)
Definition spread_stmt (j : Z) : stmt :=
  Sassign (Lvar 5) (Ebinop Oor tulong (Evar 5)
    (Eshift Oshl tulong
       (Ebinop Oand tulong (Evar 1) (Eshift Oshl tulong (Ecast tulong (Econst 1)) (Econst j)))
       (Ebinop Osub tint (Ebinop Osub tint (Eindex (Evar 2) (Econst j)) (Econst j)) (Evar 4)))).

Definition shrink_stmt (j : Z) : stmt :=
  Sassign (Lvar 5) (Ebinop Oor tulong (Evar 5)
    (Eshift Oshr tulong
       (Ebinop Oand tulong (Evar 1)
          (Eshift Oshl tulong (Ecast tulong (Econst 1)) (Ebinop Osub tint (Eindex (Evar 2) (Econst j)) (Evar 4))))
       (Ebinop Osub tint (Ebinop Osub tint (Eindex (Evar 2) (Econst j)) (Econst j)) (Evar 4)))).

(** case n: st n; case n-1: st (n-1); ... case 1: st 1; tail *)
Fixpoint cases_from (st : Z -> stmt) (n : nat) (tail : cases) : cases :=
  match n with
  | O => tail
  | S n' => CCons (Some (Z.of_nat n)) (st (Z.of_nat n)) (cases_from st n' tail)
  end.

Definition sw_body (st : Z -> stmt) : stmt :=
  Sseq (Sdecl 5 (Some (Ecast tulong (Econst 0))))
    (Sseq (Sswitch (Ebinop Osub tint (Evar 3) (Econst 1))
             (cases_from st 15 (CCons (Some 0) (Sseq (st 0) Sbreak) (CCons None Sdie CNil))))
          (Sreturn (Some (Evar 5)))).

Lemma spread_syntax : fn_body f_m4ri_spread_bits = sw_body spread_stmt.
Proof. reflexivity. Qed.
Lemma shrink_syntax : fn_body f_m4ri_shrink_bits = sw_body shrink_stmt.
Proof. reflexivity. Qed.
Lemma spread_params : fn_params f_m4ri_spread_bits = [(1, Pint tulong); (2, Pptr tint); (3, Pint tint); (4, Pint tint)]%positive.
Proof. reflexivity. Qed.
Lemma shrink_params : fn_params f_m4ri_shrink_bits = [(1, Pint tulong); (2, Pptr tint); (3, Pint tint); (4, Pint tint)]%positive.
Proof. reflexivity. Qed.

(** * (2) one case statement, executed symbolically *)
Definition M64 : Z := 18446744073709551616.

Definition spread_upd (from base j qj to : Z) : Z :=
  Z.lor to (Z.shiftl (Z.land from (Z.shiftl 1 j mod M64) mod M64) (qj - j - base) mod M64) mod M64.
Definition shrink_upd (from base j qj to : Z) : Z :=
  Z.lor to (Z.shiftr (Z.land from (Z.shiftl 1 (qj - base) mod M64) mod M64) (qj - j - base)) mod M64.

Definition senv (from : Z) (b : positive) (len base to : Z) : @env Z :=
  tset 5 (Vint to) (tset 4 (Vint base) (tset 3 (Vint len) (tset 2 (Vptr b 0) (tset 1 (Vint from) TLeaf)))).

Ltac if_true tac :=
  match goal with
  | |- context [if ?c then _ else _] =>
      let H := fresh "Hc" in assert (H : c = true) by tac; rewrite H; clear H
  end.
Ltac rng := unfold in_range; cbn; lia.

Lemma spread_stmt_exec call lf j from b len base to m qj :
  0 <= j <= 15 -> load m b j = Ok (Vint qj) ->
  0 <= qj < 2 ^ 31 -> 0 <= base -> 0 <= qj - j - base < 64 ->
  exec zops call lf (spread_stmt j) (senv from b len base to) m =
  Ok (ONormal (senv from b len base (spread_upd from base j qj to)) m).
Proof.
  intros Hj Hl Hq Hb Hs. unfold spread_stmt, senv. cbn.
  if_true lia. cbn. rewrite Hl. cbn.
  if_true rng. cbn. if_true rng. cbn. if_true lia. cbn. reflexivity.
Qed.

Lemma shrink_stmt_exec call lf j from b len base to m qj :
  0 <= j <= 15 -> load m b j = Ok (Vint qj) ->
  0 <= qj < 2 ^ 31 -> 0 <= base -> 0 <= qj - j - base -> qj - base < 64 ->
  exec zops call lf (shrink_stmt j) (senv from b len base to) m =
  Ok (ONormal (senv from b len base (shrink_upd from base j qj to)) m).
Proof.
  intros Hj Hl Hq Hb Hs Hs'. unfold shrink_stmt, senv. cbn.
  rewrite Hl. cbn.
  if_true rng. cbn. if_true lia. cbn. if_true rng. cbn. if_true rng. cbn. if_true lia. cbn.
  reflexivity.
Qed.

(** * (3) dispatch and fall-through of the switch, generically in the case statement *)
Lemma exec_Sseq {V} (ops : vops V) call lf s1 s2 e m :
  exec ops call lf (Sseq s1 s2) e m =
  (do o <- exec ops call lf s1 e m;
   match o with ONormal e' m' => exec ops call lf s2 e' m' | _ => Ok o end).
Proof. reflexivity. Qed.

Definition tail0 (st : Z -> stmt) : cases := CCons (Some 0) (Sseq (st 0) Sbreak) (CCons None Sdie CNil).

Lemma has_label_cases st k : (k <= 15)%nat -> has_label (Some (Z.of_nat k)) (cases_from st 15 (tail0 st)) = true.
Proof. intros H. do 16 (destruct k as [|k]; [reflexivity|]). lia. Qed.

Lemma run_S p lf d f args (m : @mem Z) :
  run zops p lf (S d) f args m =
  match find_func p f with
  | None => UB "call of an unknown function"
  | Some fn =>
      do e <- bind_params (fn_params fn) args TLeaf;
      do o <- exec zops (run zops p lf d) lf (fn_body fn) e m;
      match o with
      | OReturn v m' => Ok (v, m')
      | ONormal _ m' => Ok (None, m')
      | _ => UB "break or continue outside of a loop"
      end
  end.
Proof. reflexivity. Qed.

Section SwitchSem.
  Variable call : string -> list (@val Z) -> @mem Z -> res (option (@val Z) * @mem Z).
  Variable lf : nat.
  Variable st : Z -> stmt.
  Variables (from : Z) (b : positive) (base : Z) (m : @mem Z).
  Variable upd : Z -> Z -> Z.
  Variable n : nat.
  Hypothesis Hn : (1 <= n <= 16)%nat.
  Let len := Z.of_nat n.
  Hypothesis Hstep : forall j to, 0 <= j < len ->
    exec zops call lf (st j) (senv from b len base to) m = Ok (ONormal (senv from b len base (upd j to)) m).

  (** [model k to]: the cases k-1, ..., 0 applied to [to] in this order *)
  Fixpoint model (k : nat) (to : Z) : Z :=
    match k with
    | O => to
    | S j => model j (upd (Z.of_nat j) to)
    end.

  Lemma fall i : forall sr to, (i < n)%nat ->
    match sr with None => true | Some tg => lbl_eqb tg (Some (Z.of_nat i)) end = true ->
    exec_cases zops call lf (cases_from st i (tail0 st)) sr (senv from b len base to) m =
    Ok (OBreak (senv from b len base (model (S i) to)) m).
  Proof.
    induction i as [|i IH]; intros sr to Hi Hsr.
    - cbn [cases_from]. unfold tail0. rewrite CMiniSim.exec_cases_CCons.
      change (Z.of_nat 0) with 0 in Hsr. rewrite Hsr. rewrite exec_Sseq, Hstep by (unfold len; lia).
      cbn [bind]. reflexivity.
    - cbn [cases_from]. rewrite CMiniSim.exec_cases_CCons. rewrite Hsr.
      rewrite Hstep by (unfold len; lia). cbn [bind].
      rewrite (IH None) by (reflexivity || lia). reflexivity.
  Qed.

  Lemma search i k e m' : (k <= i)%nat ->
    exec_cases zops call lf (cases_from st i (tail0 st)) (Some (Some (Z.of_nat k))) e m' =
    exec_cases zops call lf (cases_from st k (tail0 st)) (Some (Some (Z.of_nat k))) e m'.
  Proof.
    induction i as [|i IH]; intros Hk.
    - replace k with 0%nat by lia. reflexivity.
    - destruct (Nat.eq_dec k (S i)) as [->|Hne]; [reflexivity|].
      cbn [cases_from]. rewrite CMiniSim.exec_cases_CCons. cbn [lbl_eqb].
      destruct (Z.eqb_spec (Z.of_nat k) (Z.of_nat (S i))) as [E|_]; [lia|]. apply IH. lia.
  Qed.

  Lemma switch_sem to :
    -2147483648 <= len - 1 ->
    exec zops call lf (Sswitch (Ebinop Osub tint (Evar 3) (Econst 1)) (cases_from st 15 (tail0 st)))
         (senv from b len base to) m =
    Ok (ONormal (senv from b len base (model n to)) m).
  Proof.
    intros _. rewrite CMiniSim.exec_Sswitch.
    assert (Hsel : eval zops (senv from b len base to) m (Ebinop Osub tint (Evar 3) (Econst 1)) =
                   Ok (Vint (Z.of_nat (n - 1)))).
    { unfold senv. cbn. if_true ltac:(unfold in_range; cbn; unfold len; lia). cbn.
      do 3 f_equal. unfold len. lia. }
    rewrite Hsel. cbn [bind ctl as_int v_ctl zops].
    rewrite has_label_cases by lia. rewrite search by lia.
    rewrite fall; [|lia|cbn [lbl_eqb]; apply Z.eqb_refl]. cbn [bind end_switch].
    replace (S (n - 1)) with n by lia. reflexivity.
  Qed.

  Lemma body_sem :
    exec zops call lf (sw_body st)
         (tset 4 (Vint base) (tset 3 (Vint len) (tset 2 (Vptr b 0) (tset 1 (Vint from) TLeaf)))) m =
    Ok (OReturn (Some (Vint (model n 0))) m).
  Proof.
    unfold sw_body. rewrite exec_Sseq.
    assert (Hd : exec zops call lf (Sdecl 5 (Some (Ecast tulong (Econst 0))))
                   (tset 4 (Vint base) (tset 3 (Vint len) (tset 2 (Vptr b 0) (tset 1 (Vint from) TLeaf)))) m =
                 Ok (ONormal (senv from b len base 0) m)) by reflexivity.
    rewrite Hd. cbn [bind]. rewrite exec_Sseq.
    change (CCons (Some 0) (Sseq (st 0) Sbreak) (CCons None Sdie CNil)) with (tail0 st).
    rewrite switch_sem by (unfold len; lia). cbn [bind]. reflexivity.
  Qed.
End SwitchSem.

(** * Argument arrays *)
Lemma key_inj i j : 0 <= i -> 0 <= j -> key i = key j -> i = j.
Proof. unfold key. intros Hi Hj H. apply Z2Pos.inj in H; lia. Qed.

Lemma tget_data_of_list (l : list Z) : forall i t j, 0 <= i -> 0 <= j ->
  tget (key j) (data_of_list l i t) =
  if (i <=? j) && (j <? i + Z.of_nat (List.length l)) then Some (nth (Z.to_nat (j - i)) l 0)
  else tget (key j) t.
Proof.
  induction l as [|v l IH]; intros i t j Hi Hj; cbn [data_of_list List.length].
  - destruct (Z.leb_spec i j), (Z.ltb_spec j (i + Z.of_nat 0)); cbn [andb]; try reflexivity. lia.
  - rewrite IH by lia. rewrite Nat2Z.inj_succ.
    destruct (Z.leb_spec (i + 1) j), (Z.ltb_spec j (i + 1 + Z.of_nat (List.length l))); cbn [andb].
    + destruct (Z.leb_spec i j), (Z.ltb_spec j (i + Z.succ (Z.of_nat (List.length l)))); cbn [andb]; try lia.
      replace (Z.to_nat (j - i)) with (S (Z.to_nat (j - (i + 1)))) by lia. reflexivity.
    + destruct (Z.leb_spec i j), (Z.ltb_spec j (i + Z.succ (Z.of_nat (List.length l)))); cbn [andb]; try lia.
      all: rewrite tget_tset_other; [reflexivity|intros E; apply key_inj in E; lia].
    + destruct (Z.leb_spec i j), (Z.ltb_spec j (i + Z.succ (Z.of_nat (List.length l)))); cbn [andb]; try lia.
      * replace j with i by lia. rewrite tget_tset_same. replace (i - i) with 0 by lia. reflexivity.
      * rewrite tget_tset_other; [reflexivity|intros E; apply key_inj in E; lia].
    + destruct (Z.leb_spec i j), (Z.ltb_spec j (i + Z.succ (Z.of_nat (List.length l)))); cbn [andb]; try lia.
      all: rewrite tget_tset_other; [reflexivity|intros E; apply key_inj in E; lia].
Qed.

Lemma load_alloc_list (Q : list Z) j : 0 <= j < Z.of_nat (List.length Q) ->
  load (fst (alloc_list (@empty_mem Z) Q)) (snd (alloc_list (@empty_mem Z) Q)) j =
  Ok (Vint (nth (Z.to_nat j) Q 0)).
Proof.
  intros Hj. unfold alloc_list, alloc, load. cbn [fst snd m_blocks m_next empty_mem].
  rewrite tget_tset_same. unfold in_ext. cbn [b_ext b_data].
  destruct (Z.leb_spec 0 j); [|lia]. destruct (Z.ltb_spec j (Z.of_nat (List.length Q))); [|lia]. cbn [andb].
  rewrite tget_data_of_list by lia.
  destruct (Z.leb_spec 0 j); [|lia]. destruct (Z.ltb_spec j (0 + Z.of_nat (List.length Q))); [|lia]. cbn [andb].
  now rewrite Z.sub_0_r.
Qed.

(** * The documented domain of Q *)
(** length n; strictly increasing; base <= Q[0]; Q[n-1] < base + 64; entries are non-negative ints *)
Definition sorted_in_range (Q : list Z) (base : Z) (n : nat) : Prop :=
  List.length Q = n /\ 0 <= base /\
  (forall j, (j < n)%nat -> 0 <= nth j Q 0 < 2 ^ 31 /\ base <= nth j Q 0 < base + 64) /\
  (forall j k, (j < k < n)%nat -> nth j Q 0 < nth k Q 0).

Lemma sorted_lower Q base n : sorted_in_range Q base n ->
  forall j, (j < n)%nat -> base + Z.of_nat j <= nth j Q 0.
Proof.
  intros (Hl & Hb & Hr & Hs) j. induction j as [|j IH]; intros Hj.
  - destruct (Hr 0%nat Hj). lia.
  - specialize (IH ltac:(lia)). pose proof (Hs j (S j) ltac:(lia)). lia.
Qed.

Lemma sorted_inj Q base n : sorted_in_range Q base n ->
  forall j k, (j < n)%nat -> (k < n)%nat -> nth j Q 0 = nth k Q 0 -> j = k.
Proof.
  intros (Hl & Hb & Hr & Hs) j k Hj Hk E.
  destruct (Nat.lt_total j k) as [H|[H|H]]; [|assumption|].
  - pose proof (Hs j k ltac:(lia)). lia.
  - pose proof (Hs k j ltac:(lia)). lia.
Qed.

(** * (3b) the translated functions compute the recursive models *)
Definition run_sp (f : string) (from : Z) (Q : list Z) (len base : Z) : res Z :=
  let mb := alloc_list (@empty_mem Z) Q in
  ret_int (interp leaf_prog f [Vint from; Vptr (snd mb) 0; Vint len; Vint base] (fst mb)).

Definition spread_model (from base : Z) (Q : list Z) (n : nat) : Z :=
  model (fun j to => spread_upd from base j (nth (Z.to_nat j) Q 0) to) n 0.
Definition shrink_model (from base : Z) (Q : list Z) (n : nat) : Z :=
  model (fun j to => shrink_upd from base j (nth (Z.to_nat j) Q 0) to) n 0.

Theorem spread_run from Q n base : (1 <= n <= 16)%nat -> sorted_in_range Q base n ->
  run_sp "m4ri_spread_bits" from Q (Z.of_nat n) base = Ok (spread_model from base Q n).
Proof.
  intros Hn Hq. pose proof (sorted_lower _ _ _ Hq) as Hlow. destruct Hq as (Hl & Hb & Hr & Hs).
  unfold run_sp, interp. cbv zeta. change DEPTH with (S 11). rewrite run_S.
  change (find_func leaf_prog "m4ri_spread_bits") with (Some f_m4ri_spread_bits).
  cbv beta iota. rewrite spread_params, spread_syntax. cbn [bind_params bind].
  rewrite (body_sem _ _ spread_stmt from _ base _
             (fun j to => spread_upd from base j (nth (Z.to_nat j) Q 0) to) n Hn).
  - reflexivity.
  - intros j to Hj. specialize (Hr (Z.to_nat j) ltac:(lia)). specialize (Hlow (Z.to_nat j) ltac:(lia)).
    apply spread_stmt_exec; try lia. apply load_alloc_list. lia.
Qed.

Theorem shrink_run from Q n base : (1 <= n <= 16)%nat -> sorted_in_range Q base n ->
  run_sp "m4ri_shrink_bits" from Q (Z.of_nat n) base = Ok (shrink_model from base Q n).
Proof.
  intros Hn Hq. pose proof (sorted_lower _ _ _ Hq) as Hlow. destruct Hq as (Hl & Hb & Hr & Hs).
  unfold run_sp, interp. cbv zeta. change DEPTH with (S 11). rewrite run_S.
  change (find_func leaf_prog "m4ri_shrink_bits") with (Some f_m4ri_shrink_bits).
  cbv beta iota. rewrite shrink_params, shrink_syntax. cbn [bind_params bind].
  rewrite (body_sem _ _ shrink_stmt from _ base _
             (fun j to => shrink_upd from base j (nth (Z.to_nat j) Q 0) to) n Hn).
  - reflexivity.
  - intros j to Hj. specialize (Hr (Z.to_nat j) ltac:(lia)). specialize (Hlow (Z.to_nat j) ltac:(lia)).
    apply shrink_stmt_exec; try lia. apply load_alloc_list. lia.
Qed.

(** * (4) bit-level meaning of the models, and the inverse laws *)
Lemma tb_mod a i : 0 <= i -> Z.testbit (a mod M64) i = (i <? 64) && Z.testbit a i.
Proof.
  intros Hi. change M64 with (2 ^ 64). destruct (Z.ltb_spec i 64); cbn [andb].
  - apply Z.mod_pow2_bits_low. lia.
  - apply Z.mod_pow2_bits_high. lia.
Qed.

Lemma tb_one j k : 0 <= j -> Z.testbit (Z.shiftl 1 j) k = (k =? j).
Proof.
  intros Hj. rewrite Z.shiftl_1_l. destruct (Z.lt_ge_cases k 0).
  - rewrite Z.testbit_neg_r by lia. lia.
  - rewrite Z.pow2_bits_eqb by lia. apply Z.eqb_sym.
Qed.

Lemma w64_high a i : w64 a -> 64 <= i -> Z.testbit a i = false.
Proof.
  intros [H0 H1] Hi. destruct (Z.eq_dec a 0) as [->|Hne]; [apply Z.testbit_0_l|].
  apply Z.bits_above_log2; [lia|]. assert (Z.log2 a < 64) by (apply Z.log2_lt_pow2; lia). lia.
Qed.

Lemma w64_mod a : w64 (a mod M64).
Proof. unfold w64. change (2 ^ 64) with M64. apply Z.mod_pos_bound. reflexivity. Qed.

Lemma spread_upd_w64 from base j qj to : w64 (spread_upd from base j qj to).
Proof. apply w64_mod. Qed.
Lemma shrink_upd_w64 from base j qj to : w64 (shrink_upd from base j qj to).
Proof. apply w64_mod. Qed.

Lemma spread_upd_bits from base j qj to i :
  w64 to -> 0 <= j -> j <= qj - base < 64 -> 0 <= i ->
  Z.testbit (spread_upd from base j qj to) i = Z.testbit to i || ((i =? qj - base) && Z.testbit from j).
Proof.
  intros Hto Hj Hp Hi. unfold spread_upd. rewrite tb_mod, Z.lor_spec, tb_mod by lia.
  rewrite Z.shiftl_spec by lia.
  destruct (Z.ltb_spec i 64) as [Hlt|Hge]; cbn [andb].
  - f_equal. destruct (Z.lt_ge_cases (i - (qj - j - base)) 0) as [Hneg|Hnn].
    + rewrite Z.testbit_neg_r by lia. destruct (Z.eqb_spec i (qj - base)); [lia|reflexivity].
    + rewrite tb_mod, Z.land_spec, tb_mod, tb_one by lia.
      destruct (Z.eqb_spec i (qj - base)) as [->|Hne].
      * replace (qj - base - (qj - j - base)) with j by lia. rewrite Z.eqb_refl.
        destruct (Z.ltb_spec j 64); [|lia]. cbn [andb]. now rewrite andb_true_r.
      * destruct (Z.eqb_spec (i - (qj - j - base)) j); [lia|]. now rewrite !andb_false_r.
  - rewrite (w64_high to i) by assumption. destruct (Z.eqb_spec i (qj - base)); [lia|reflexivity].
Qed.

Lemma shrink_upd_bits from base j qj to i :
  w64 to -> 0 <= j < 64 -> j <= qj - base < 64 -> 0 <= i ->
  Z.testbit (shrink_upd from base j qj to) i = Z.testbit to i || ((i =? j) && Z.testbit from (qj - base)).
Proof.
  intros Hto Hj Hp Hi. unfold shrink_upd. rewrite tb_mod, Z.lor_spec by lia.
  rewrite Z.shiftr_spec by lia. rewrite tb_mod, Z.land_spec, tb_mod, tb_one by lia.
  destruct (Z.ltb_spec i 64) as [Hlt|Hge]; cbn [andb].
  - f_equal. destruct (Z.eqb_spec i j) as [->|Hne].
    + replace (j + (qj - j - base)) with (qj - base) by lia. rewrite Z.eqb_refl.
      destruct (Z.ltb_spec (qj - base) 64); [|lia]. cbn [andb]. now rewrite andb_true_r.
    + destruct (Z.eqb_spec (i + (qj - j - base)) (qj - base)); [lia|]. now rewrite !andb_false_r.
  - rewrite (w64_high to i) by assumption. destruct (Z.eqb_spec i j); [lia|reflexivity].
Qed.

Lemma model_w64 upd : (forall j to, w64 (upd j to)) -> forall k to, w64 to -> w64 (model upd k to).
Proof. intros H k. induction k as [|k IH]; intros to Hto; cbn [model]; auto. Qed.

(** bit i of the result = OR over the cases j < k of [f j i] *)
Lemma model_bits upd (f : nat -> Z -> bool) (n : nat) :
  (forall j to, w64 (upd j to)) ->
  (forall j to i, (j < n)%nat -> w64 to -> 0 <= i ->
                  Z.testbit (upd (Z.of_nat j) to) i = Z.testbit to i || f j i) ->
  forall k to i, (k <= n)%nat -> w64 to -> 0 <= i ->
    Z.testbit (model upd k to) i = Z.testbit to i || existsb (fun j => f j i) (seq 0 k).
Proof.
  intros Hw Hu k. induction k as [|k IH]; intros to i Hk Hto Hi; cbn [model].
  - cbn. now rewrite orb_false_r.
  - rewrite IH by (auto; lia). rewrite Hu by (auto; lia).
    rewrite seq_S, existsb_app. cbn [existsb Nat.add]. rewrite orb_false_r.
    rewrite <- orb_assoc. f_equal. apply orb_comm.
Qed.

Lemma existsb_seq_false (g : nat -> bool) n : (forall j, (j < n)%nat -> g j = false) -> existsb g (seq 0 n) = false.
Proof.
  intros H. destruct (existsb g (seq 0 n)) eqn:E; [|reflexivity].
  apply existsb_exists in E as (j & Hin & Hg). apply in_seq in Hin. rewrite H in Hg by lia. discriminate.
Qed.

Lemma existsb_seq_one (g : nat -> bool) n j0 : (j0 < n)%nat ->
  (forall j, (j < n)%nat -> j <> j0 -> g j = false) -> existsb g (seq 0 n) = g j0.
Proof.
  intros Hj H. destruct (g j0) eqn:E0.
  - apply existsb_exists. exists j0. split; [apply in_seq; lia|assumption].
  - apply existsb_seq_false. intros j Hlt. destruct (Nat.eq_dec j j0) as [->|Hne]; auto.
Qed.

Lemma w64_0 : w64 0.
Proof. unfold w64. lia. Qed.

Section Specs.
  Variables (Q : list Z) (base : Z) (n : nat).
  Hypothesis Hn : (1 <= n <= 16)%nat.
  Hypothesis Hq : sorted_in_range Q base n.
  Let pos (j : nat) : Z := nth j Q 0 - base.

  Lemma pos_range j : (j < n)%nat -> Z.of_nat j <= pos j < 64.
  Proof.
    intros Hj. pose proof (sorted_lower _ _ _ Hq j Hj). destruct Hq as (_ & _ & Hr & _).
    destruct (Hr j Hj). unfold pos. lia.
  Qed.

  Lemma pos_inj j k : (j < n)%nat -> (k < n)%nat -> pos j = pos k -> j = k.
  Proof. intros Hj Hk E. apply (sorted_inj _ _ _ Hq); auto. unfold pos in E. lia. Qed.

  Lemma spread_model_w64 from : w64 (spread_model from base Q n).
  Proof. apply model_w64; [intros; apply spread_upd_w64|apply w64_0]. Qed.
  Lemma shrink_model_w64 from : w64 (shrink_model from base Q n).
  Proof. apply model_w64; [intros; apply shrink_upd_w64|apply w64_0]. Qed.

  Lemma spread_model_bits from i : 0 <= i ->
    Z.testbit (spread_model from base Q n) i =
    existsb (fun j => (i =? pos j) && Z.testbit from (Z.of_nat j)) (seq 0 n).
  Proof.
    intros Hi. unfold spread_model.
    rewrite (model_bits _ (fun j i => (i =? pos j) && Z.testbit from (Z.of_nat j)) n) with (k := n);
      [rewrite Z.testbit_0_l; reflexivity| | |lia|apply w64_0|assumption].
    - intros; apply spread_upd_w64.
    - intros j to i' Hj Hto Hi'. rewrite Nat2Z.id. pose proof (pos_range j Hj). unfold pos in *.
      apply spread_upd_bits; auto; lia.
  Qed.

  Lemma shrink_model_bits from i : 0 <= i ->
    Z.testbit (shrink_model from base Q n) i =
    existsb (fun j => (i =? Z.of_nat j) && Z.testbit from (pos j)) (seq 0 n).
  Proof.
    intros Hi. unfold shrink_model.
    rewrite (model_bits _ (fun j i => (i =? Z.of_nat j) && Z.testbit from (pos j)) n) with (k := n);
      [rewrite Z.testbit_0_l; reflexivity| | |lia|apply w64_0|assumption].
    - intros; apply shrink_upd_w64.
    - intros j to i' Hj Hto Hi'. rewrite Nat2Z.id. pose proof (pos_range j Hj). unfold pos in *.
      apply shrink_upd_bits; auto; lia.
  Qed.

  (** spread: bit j of [from] goes to position Q[j] - base; every other position is 0 *)
  Theorem spread_spec from :
    (forall j, (j < n)%nat -> Z.testbit (spread_model from base Q n) (pos j) = Z.testbit from (Z.of_nat j)) /\
    (forall i, 0 <= i -> (forall j, (j < n)%nat -> i <> pos j) -> Z.testbit (spread_model from base Q n) i = false).
  Proof.
    split.
    - intros j Hj. pose proof (pos_range j Hj). rewrite spread_model_bits by lia.
      rewrite (existsb_seq_one _ n j Hj).
      + now rewrite Z.eqb_refl.
      + intros k Hk Hne. destruct (Z.eqb_spec (pos j) (pos k)) as [E|_]; [|reflexivity].
        apply pos_inj in E; auto. congruence.
    - intros i Hi Hno. rewrite spread_model_bits by lia. apply existsb_seq_false.
      intros j Hj. destruct (Z.eqb_spec i (pos j)) as [E|_]; [|reflexivity]. now apply Hno in E.
  Qed.

  (** shrink: bit j of the result is bit Q[j] - base of [from]; bits >= n are 0 *)
  Theorem shrink_spec from :
    (forall j, (j < n)%nat -> Z.testbit (shrink_model from base Q n) (Z.of_nat j) = Z.testbit from (pos j)) /\
    (forall i, Z.of_nat n <= i -> Z.testbit (shrink_model from base Q n) i = false).
  Proof.
    split.
    - intros j Hj. rewrite shrink_model_bits by lia. rewrite (existsb_seq_one _ n j Hj).
      + now rewrite Z.eqb_refl.
      + intros k Hk Hne. destruct (Z.eqb_spec (Z.of_nat j) (Z.of_nat k)); [lia|reflexivity].
    - intros i Hi. rewrite shrink_model_bits by lia. apply existsb_seq_false.
      intros j Hj. destruct (Z.eqb_spec i (Z.of_nat j)); [lia|reflexivity].
  Qed.

  (** shrink after spread is the identity on length-n bit strings *)
  Theorem shrink_spread_model x : 0 <= x < 2 ^ Z.of_nat n ->
    shrink_model (spread_model x base Q n) base Q n = x.
  Proof.
    intros Hx. apply Z.bits_inj'. intros i Hi.
    destruct (Z.lt_ge_cases i (Z.of_nat n)) as [Hlt|Hge].
    - replace i with (Z.of_nat (Z.to_nat i)) by lia.
      rewrite (proj1 (shrink_spec _)) by lia. now rewrite (proj1 (spread_spec _)) by lia.
    - rewrite (proj2 (shrink_spec _)) by lia. symmetry.
      destruct (Z.eq_dec x 0) as [->|Hne]; [apply Z.testbit_0_l|].
      apply Z.bits_above_log2; [lia|]. assert (Z.log2 x < Z.of_nat n) by (apply Z.log2_lt_pow2; lia). lia.
  Qed.

  (** spread after shrink keeps exactly the bits at the positions Q[j] - base *)
  Theorem spread_shrink_model y : 0 <= y ->
    (forall i, 0 <= i -> (forall j, (j < n)%nat -> i <> pos j) -> Z.testbit y i = false) ->
    spread_model (shrink_model y base Q n) base Q n = y.
  Proof.
    intros Hy Hsupp. apply Z.bits_inj'. intros i Hi.
    destruct (existsb (fun j => i =? pos j) (seq 0 n)) eqn:E.
    - apply existsb_exists in E as (j & Hin & Hj). apply in_seq in Hin. apply Z.eqb_eq in Hj. subst i.
      rewrite (proj1 (spread_spec _)) by lia. now rewrite (proj1 (shrink_spec _)) by lia.
    - assert (Hno : forall j, (j < n)%nat -> i <> pos j).
      { intros j Hj Heq. assert (existsb (fun j => i =? pos j) (seq 0 n) = true); [|congruence].
        apply existsb_exists. exists j. split; [apply in_seq; lia|now apply Z.eqb_eq]. }
      rewrite (proj2 (spread_spec _)) by auto. symmetry. now apply Hsupp.
  Qed.
End Specs.

(** * The statements about the translated programs *)
Theorem spread_shrink_inverse from Q n base : (1 <= n <= 16)%nat -> sorted_in_range Q base n ->
  0 <= from < 2 ^ Z.of_nat n ->
  exists s, run_sp "m4ri_spread_bits" from Q (Z.of_nat n) base = Ok s /\ w64 s /\
            run_sp "m4ri_shrink_bits" s Q (Z.of_nat n) base = Ok from.
Proof.
  intros Hn Hq Hx. exists (spread_model from base Q n). split; [now apply spread_run|split].
  - now apply spread_model_w64.
  - rewrite shrink_run by assumption. f_equal. now apply shrink_spread_model.
Qed.

Theorem shrink_spread_inverse y Q n base : (1 <= n <= 16)%nat -> sorted_in_range Q base n -> 0 <= y ->
  (forall i, 0 <= i -> (forall j, (j < n)%nat -> i <> nth j Q 0 - base) -> Z.testbit y i = false) ->
  exists s, run_sp "m4ri_shrink_bits" y Q (Z.of_nat n) base = Ok s /\ 0 <= s < 2 ^ Z.of_nat n /\
            run_sp "m4ri_spread_bits" s Q (Z.of_nat n) base = Ok y.
Proof.
  intros Hn Hq Hy Hsupp. exists (shrink_model y base Q n). split; [now apply shrink_run|split].
  - pose proof (shrink_model_w64 Q base n y) as [H0 _]. split; [assumption|].
    destruct (Z.eq_dec (shrink_model y base Q n) 0) as [->|Hne]; [apply Z.pow_pos_nonneg; lia|].
    apply Z.log2_lt_pow2; [lia|].
    destruct (Z.lt_ge_cases (Z.log2 (shrink_model y base Q n)) (Z.of_nat n)) as [|Hge]; [assumption|].
    pose proof (Z.bit_log2 (shrink_model y base Q n) ltac:(lia)) as Hb.
    rewrite (proj2 (shrink_spec Q base n Hn Hq y)) in Hb by lia. discriminate.
  - rewrite spread_run by assumption. f_equal. now apply spread_shrink_model.
Qed.

(** the translated functions, bit by bit *)
Theorem spread_bits_spec from Q n base : (1 <= n <= 16)%nat -> sorted_in_range Q base n ->
  exists r, run_sp "m4ri_spread_bits" from Q (Z.of_nat n) base = Ok r /\ w64 r /\
    (forall j, (j < n)%nat -> Z.testbit r (nth j Q 0 - base) = Z.testbit from (Z.of_nat j)) /\
    (forall i, 0 <= i -> (forall j, (j < n)%nat -> i <> nth j Q 0 - base) -> Z.testbit r i = false).
Proof.
  intros Hn Hq. exists (spread_model from base Q n). split; [now apply spread_run|split].
  - now apply spread_model_w64.
  - now apply spread_spec.
Qed.

Theorem shrink_bits_spec from Q n base : (1 <= n <= 16)%nat -> sorted_in_range Q base n ->
  exists r, run_sp "m4ri_shrink_bits" from Q (Z.of_nat n) base = Ok r /\ w64 r /\
    (forall j, (j < n)%nat -> Z.testbit r (Z.of_nat j) = Z.testbit from (nth j Q 0 - base)) /\
    (forall i, Z.of_nat n <= i -> Z.testbit r i = false).
Proof.
  intros Hn Hq. exists (shrink_model from base Q n). split; [now apply shrink_run|split].
  - now apply shrink_model_w64.
  - now apply shrink_spec.
Qed.

(** the hypotheses are satisfiable; a concrete instance *)
Example sorted_example : sorted_in_range [3; 7; 64; 66] 3 4.
Proof.
  split; [reflexivity|]. split; [lia|]. split.
  - intros j Hj. do 4 (destruct j as [|j]; [cbn; lia|]). lia.
  - intros j k Hjk. do 4 (destruct j as [|j]; [do 4 (destruct k as [|k]; [cbn; lia|]); lia|]). lia.
Qed.
