(* Leaf/LeafSpecs4.v — under construction (C19) *)
From M4 Require Import Leaf.CMini.
