(* Leaf/ObsSpecs7.v — mzd_find_pivot (m4ri/mzd.c:1686) as translated into Leaf/Gen_observers.v, part 2:
   the path for fewer than 64 remaining columns (mzd.c:1691-1712: mzd_read_bits per row, m4ri_lesser_LSB, the
   bit search), for all headers and array contents of the documented domain.  The output parameters `rci_t *r`,
   `rci_t *c` are the two cells of block 2 ([mem2 (words mem) 2 d]); r = (Vptr 2 0, offset 0), c = (Vptr 2 0, offset 1).

   Domain: besides [c_dom], start_col + 64 <= INT_MAX.  This is needed: `j += m4ri_radix` (mzd.c:1692) is evaluated
   after an unsuccessful scan, and overflows `int` when start_col > INT_MAX - 64 ([find_pivot_overflow] in
   Leaf/ObsSpecs8.v runs the translated function into that undefined behaviour on a 0 x (2^31-1) matrix). *)
From Coq Require Import ZArith NArith List String Bool Lia ZifyBool ZifyNat ZifyN.
From M4 Require Import Base.Bits Lin.Mat Lin.Ops Word.WMat Word.WMatLemmas Word.WOps
  Leaf.CMini Leaf.CMiniAcc Leaf.CMiniAcc2 Leaf.CMiniObs Leaf.AccessSpecs Leaf.Gen_observers Leaf.ObsSpecs Leaf.ObsSpecs6.
Import ListNotations.
Local Open Scope Z_scope.
Ltac Zify.zify_post_hook ::= Z.div_mod_to_equations.

Lemma w_read_bits_lt h x y n mem r : mem_ok mem -> (1 <= n)%nat ->
  w_read_bits h x y n mem = WMat.Ok r ->
  (r < 2 ^ 64)%N /\ forall j, (n <= j)%nat -> N.testbit r (N.of_nat j) = false.
Proof.
  intros Hm Hn Hw. unfold w_read_bits in Hw. destruct (Nat.ltb_spec 64 n); [discriminate|].
  destruct (bind_inv _ _ _ Hw) as (temp & Ht & Hr). clear Hw.
  assert (Htl : (temp < 2 ^ 64)%N).
  { destruct (Nat.leb_spec (y mod 64 + n) 64).
    - destruct (bind_inv _ _ _ Ht) as (w0 & _ & H2). rewrite shl64_ok in H2 by lia.
      injection H2 as <-. apply shl_lt.
    - destruct (bind_inv _ _ _ Ht) as (w1 & _ & H2). destruct (bind_inv _ _ _ H2) as (w0 & Hw0 & H3).
      destruct (bind_inv _ _ _ H3) as (hi & Hhi & H4). destruct (bind_inv _ _ _ H4) as (lo & Hlo & H5).
      injection H5 as <-. apply rd_inv in Hw0. subst w0.
      rewrite shl64_ok in Hhi by lia. injection Hhi as <-.
      rewrite shr64_ok in Hlo by lia. injection Hlo as <-.
      apply lor_lt; [apply shl_lt|]. apply shr_lt. now apply mem_ok_word. }
  rewrite shr64_ok in Hr by lia. apply wok_inj in Hr. subst r.
  split; [now apply shr_lt|]. intros j Hj. rewrite testbit_shr. apply testbit_word_high; [assumption|lia].
Qed.

Definition pivot_args (h : hdr) (fl : Z) (r0 c0 : nat) : list (@val Z) :=
  hbundle h fl [Vint (Z.of_nat r0); Vint (Z.of_nat c0); Vptr 2%positive 0; Vint 0; Vptr 2%positive 0; Vint 1].
Definition pivot_cells (res : option (nat * nat)) : trie Z :=
  match res with Some (r, c) => tset (key 1) (Z.of_nat c) (tset (key 0) (Z.of_nat r) TLeaf) | None => TLeaf end.


Lemma Z_to_N_of_nat k : Z.to_N (Z.of_nat k) = N.of_nat k.
Proof. lia. Qed.

Theorem obs_find_pivot_w_narrow h fl mem r0 c0 res :
  valid h mem -> c_dom h fl mem -> (r0 <= h_nrows h)%nat -> (c0 < h_ncols h)%nat ->
  (h_ncols h - c0 < 64)%nat -> Z.of_nat c0 + 64 <= 2147483647 ->
  w_find_pivot h r0 c0 mem = WMat.Ok res ->
  run zops obs_prog LFUEL DEPTH "mzd_find_pivot" (pivot_args h fl r0 c0) (mem2 (words mem) 2 TLeaf) =
  Ok (Some (Vint (match res with Some _ => 1 | None => 0 end)), mem2 (words mem) 2 (pivot_cells res)).
Proof.
  intros Hv Hd Hr0 Hc0 Hnar Hov Hw.
  pose proof (valid_hdr_ok _ _ Hv) as Hok. pose proof (valid_mem_ok _ _ Hv) as Hm.
  pose proof Hd as (D1 & D2 & D3 & D4 & D5 & D6).
  unfold w_find_pivot in Hw. cbv zeta in Hw.
  destruct (Nat.ltb_spec (h_ncols h - c0) 64) as [_|?]; [|lia].
  destruct (Nat.leb_spec (h_ncols h) c0) as [?|_]; [lia|].
  replace (Nat.min 64 (h_ncols h - c0)) with (h_ncols h - c0)%nat in Hw by lia.
  set (len := (h_ncols h - c0)%nat) in *.
  destruct (bind_inv _ _ _ Hw) as ([data cand] & Hscan & Hres). clear Hw.
  unfold pivot_args, hbundle. change DEPTH with (S (S (S (S 8)))).
  co_enter "mzd_find_pivot"%string f_mzd_find_pivot.
  match goal with |- context [exec zops ?cl ?lf ?s ?E0 ?M0] => rewrite <- (over_leaf E0) end.
  cm_run2. cm_release. cm_clear.
  (* the loop over j: one iteration *)
  match goal with |- context [exec zops ?cl LFUEL (Sloop ?cd ?bd ?st) (over ?A0 ?T0) ?M0] =>
    pose (E := fun (k : nat) (_ : unit) (t : @env Z) =>
      @pair (@env Z) (@CMini.mem Z) (over (tset 19%positive (Vint (Z.of_nat (c0 + 64 * k))) A0) t) M0);
    replace (exec zops cl LFUEL (Sloop cd bd st) (over A0 T0) M0)
      with (exec zops cl LFUEL (Sloop cd bd st) (fst (E 0%nat tt (over A0 T0))) (snd (E 0%nat tt (over A0 T0))))
      by (unfold E; cbn [fst snd]; f_equal; symmetry; apply over_sub_eq; sub_solve);
    destruct (loop_gen2 cl cd bd st unit (@env Z) (nat * nat) E 1%nat
                (fun _ _ => WMat.Ok (match res with Some rc => inr rc | None => inl tt end))
                (fun rc _ => OReturn (Some (Vint 1)) (mem2 (words mem) 2 (pivot_cells (Some rc))))
                (fun _ t => ONormal (fst (E 1%nat tt t)) M0)
                (fun _ _ => True))
      with (s0 := tt) (t0 := over A0 T0) (x := match res with Some rc => @inr unit _ rc | None => inl tt end)
      as (tj & Hloopj & _)
  end.
  6:{ rewrite Hloopj. destruct res as [rc|]; cm_run2; cm_release; [reflexivity|]. unfold E; cbn [fst snd]. cm_run2. reflexivity. }
  { intros k [] t y Hk _ HG. assert (k = 0)%nat by lia. subst k. apply wok_inj in HG. subst y.
    replace (c0 + 64 * 1)%nat with (c0 + 64)%nat by lia.
    match goal with |- context [loop_step ?o ?cc ?xb ?xs (E 0%nat tt t)] =>
    assert (Hrun : exists t', loop_step o cc xb xs (E 0%nat tt t) =
       Ok (match res with Some rc => LStop (OReturn (Some (Vint 1)) (mem2 (words mem) 2 (pivot_cells (Some rc))))
           | None => LCont (E 1%nat tt t') end)) end.
    2:{ destruct Hrun as (t' & Hrun). destruct res; [exists t'; exact Hrun|]. split; [exact I|]. exists t'. exact Hrun. }
    ex_late. loop_unfold E. replace (c0 + 64 * 0)%nat with c0 by lia.
    cm_run2. 
    replace (Z.of_nat (h_ncols h) - Z.of_nat c0) with (Z.of_nat len) by lia.
    cm_release.
    (* the scan over the rows *)
    destruct (pivot_scan_iterG _ _ _ _ _ _ Hscan) as (xs & Hxs & Hus).
    assert (Hload : forall i w, w_read_bits h i c0 len mem = WMat.Ok w ->
              (forall j, (len <= j)%nat -> N.testbit w (N.of_nat j) = false) /\ (w < 2 ^ 64)%N).
    { intros i w Hi. destruct (w_read_bits_lt h i c0 len mem w Hm ltac:(lia) Hi). now split. }
    pose proof (scanG_inv _ None r0 _ 0%nat Hload _ _ _ _ Hxs) as HQ. rewrite Hus in HQ.
    destruct HQ as (Qhi & Qlt & Qc); [repeat split; try reflexivity; intros; apply N.bits_0|]. cbn [fst snd] in Qhi, Qlt, Qc.
    match goal with |- context [exec zops ?cl LFUEL (Sloop ?cd ?bd ?st) (over ?A0 ?T0) ?M0] =>
      pose (Ks := fun (s : N * nat) => tdel 21%positive (tset 18%positive (Vint (Z.of_nat (snd s)))
                   (tset 17%positive (Vint (Z.of_N (fst s))) A0)));
      pose (Es := fun (k : nat) (s : N * nat) (t : @env Z) =>
        @pair (@env Z) (@CMini.mem Z)
          (over (tset 21%positive (Vint (Z.of_nat (r0 + k))) (tset 18%positive (Vint (Z.of_nat (snd s)))
                   (tset 17%positive (Vint (Z.of_N (fst s))) A0))) t) M0);
      replace (exec zops cl LFUEL (Sloop cd bd st) (over A0 T0) M0)
        with (exec zops cl LFUEL (Sloop cd bd st) (fst (Es 0%nat (0%N, 0%nat) (over A0 T0))) (snd (Es 0%nat (0%N, 0%nat) (over A0 T0))))
        by (unfold Es; cbn [fst snd]; f_equal; symmetry; apply over_sub_eq; sub_solve);
      destruct (loop_gen2 cl cd bd st (N * nat)%type (@env Z) (N * nat)%type Es (h_nrows h - r0)%nat
                  (scanG (fun i => w_read_bits h i c0 len mem) None r0)
                  (fun s t => ONormal (over (Ks s) t) M0)
                  (fun s t => ONormal (over (Ks s) t) M0)
                  (fun _ s => (fst s < 2 ^ 64)%N))
        with (s0 := (0%N, 0%nat)) (t0 := over A0 T0) (x := xs)
        as (ts & Hloops & _)
    end.
    { intros k [d c] ti y Hki HI HG. cbn [fst snd] in HI.
      unfold scanG in HG. cbn [fst] in HG. destruct (bind_inv _ _ _ HG) as (curr & Hl & Hy). clear HG.
      destruct (Hload _ _ Hl) as [_ Hcl].
      pose proof (run_read_bits_o 8 h fl mem TLeaf (r0 + k) c0 len curr Hv Hd ltac:(lia) ltac:(lia) ltac:(lia) Hl) as Hrb.
      unfold hbundle in Hrb.
      destruct (lesser_LSB curr d) eqn:EL; apply wok_inj in Hy; subst y.
      - split; [exact Hcl|]. ex_late. loop_unfold Es. cm_run2. rewrite Hrb. cm_run2.
        rewrite run_lesser_LSB_o by assumption. rewrite EL. cbn [Z.b2z]. cm_run2.
        ex_close.
      - split; [exact HI|]. ex_late. loop_unfold Es. cm_run2. rewrite Hrb. cm_run2.
        rewrite run_lesser_LSB_o by assumption. rewrite EL. cbn [Z.b2z]. cm_run2.
        ex_close. }
    { intros [d c] ti HI. ex_late. loop_unfold Es. cm_run2. unfold Ks. cbn [fst snd]. ex_close. }
    { reflexivity. }
    { exact Hxs. }
    { lia. }
    rewrite Hloops. clear Hloops.
    assert (Hx' : forall (f : N * nat -> @outcome Z), match xs with inl s' => f s' | inr r' => f r' end = f (data, cand))
      by (intros f; destruct xs; cbn [unsum] in Hus; subst; reflexivity).
    rewrite (Hx' (fun s => ONormal (over (Ks s) ts) (mem2 (words mem) 2 TLeaf))). clear Hx'.
    unfold Ks; cbn [fst snd]. clear Hxs Hus xs.
    cm_run2. rewrite of_N_eqb0. destruct (N.eqb_spec data 0) as [->|Hnz]; cbn [negb] in *.
    - apply wok_inj in Hres. subst res. rewrite (Qc eq_refl). cm_run2. ex_close.
    - destruct (first_set_bit_some data len Hnz Qhi) as (l & Hl & Hll). rewrite Hl in Hres.
      apply wok_inj in Hres. subst res. cm_run2. cm_release.
      pose proof (fsb_iterG data len 0) as Hfs. rewrite Hl in Hfs.
      match goal with |- context [exec zops ?cl LFUEL (Sloop ?cd ?bd ?st) (over ?A0 ?T0) ?M0] =>
        pose (Eb := fun (k : nat) (_ : unit) (t : @env Z) =>
          @pair (@env Z) (@CMini.mem Z) (over (tset 24%positive (Vint (Z.of_nat k)) A0) t) M0);
        pose (Kb := tdel 24%positive A0);
        replace (exec zops cl LFUEL (Sloop cd bd st) (over A0 T0) M0)
          with (exec zops cl LFUEL (Sloop cd bd st) (fst (Eb 0%nat tt (over A0 T0))) (snd (Eb 0%nat tt (over A0 T0))))
          by (unfold Eb; cbn [fst snd]; f_equal; symmetry; apply over_sub_eq; sub_solve);
        destruct (loop_gen2 cl cd bd st unit (@env Z) nat Eb len (fsbG data)
                    (fun b t => ONormal (over Kb t)
                       (mem2 (words mem) 2 (tset (key 1) (Z.of_nat (c0 + b)) (tset (key 0) (Z.of_nat cand) TLeaf))))
                    (fun _ t => ONormal (over Kb t) M0)
                    (fun _ _ => True))
          with (s0 := tt) (t0 := over A0 T0) (x := @inr unit nat l)
          as (tb & Hloopb & _)
      end.
      { intros k [] ti y Hkb _ HG. unfold fsbG in HG. apply wok_inj in HG. subst y.
        destruct (N.testbit data (N.of_nat k)) eqn:ET.
        - ex_late. loop_unfold Eb. cm_run2. rewrite get_bit_tb by lia. rewrite Z_to_N_of_nat, ET. cbn [Z.b2z]. cm_run2.
          unfold Kb. replace (Z.of_nat (c0 + k)) with (Z.of_nat c0 + Z.of_nat k) by lia. ex_close.
        - split; [exact I|]. ex_late. loop_unfold Eb. cm_run2. rewrite get_bit_tb by lia. rewrite Z_to_N_of_nat, ET. cbn [Z.b2z]. cm_run2.
          ex_close. }
      { intros [] ti _. ex_late. loop_unfold Eb. cm_run2. unfold Kb. ex_close. }
      { exact I. }
      { exact Hfs. }
      { lia. }
      rewrite Hloopb. cm_run2. cm_release. cm_run2.
      exists ts. reflexivity. }
  { intros [] t _. ex_late. loop_unfold E. cm_run2. ex_close. }
  { exact I. }
  { cbn [iterG WMat.bind]. destruct res; reflexivity. }
  { lia. }
Qed.
