(* Leaf/AccessSpecs4.v — loops.  [for_loop_mem]: a counted CMini loop over the word array computes the [forM]
   of the word-level model when one iteration does.  The T1-translated _mzd_row_swap (mzd.h:265) and
   mzd_row_swap (mzd.h:296) compute the word-level model Word/WOps.w_row_swap, for all arguments of the
   documented domain (conventions: Leaf/AccessSpecs.v).  The proofs name the CMini variables of the loop
   counter and of `tmp` by their numbers in Leaf/Gen_access.v (19 and 17): a change of the C text that
   renumbers the locals breaks them (loudly) even if it is harmless. *)
From Coq Require Import ZArith NArith List String Bool Lia ZifyBool ZifyNat ZifyN.
From M4 Require Import Base.Bits Lin.Mat Lin.Ops Word.WMat Word.WMatLemmas Word.WOps Word.WRefine
  Leaf.CMini Leaf.CMiniAcc Leaf.Gen_access Leaf.AccessSpecs.
Import ListNotations.
Local Open Scope Z_scope.
Ltac Zify.zify_post_hook ::= Z.div_mod_to_equations.

(** * Counted loops over the word array against a [forM] of the word-level model *)
Lemma forM_cons {S} k d (F : nat -> S -> WMat.res S) s :
  forM (seq k (Datatypes.S d)) F s = WMat.bind (F k s) (forM (seq (Datatypes.S k) d) F).
Proof. reflexivity. Qed.

Section ForLoop.
  Variable call : string -> list (@val Z) -> @mem Z -> res (option (@val Z) * @mem Z).
  Variables (c : option expr) (body step : stmt).
  Variable E : nat -> @val Z -> @env Z.          (* the environment before iteration k, with a scratch value *)
  Variable Efin : @val Z -> @env Z.              (* the environment after the loop *)
  Variable n : nat.
  Variable F : nat -> list N -> WMat.res (list N).
  Variable L : nat.
  Let f := loop_step zops c (exec zops call LFUEL body) (exec zops call LFUEL step).

  Hypothesis Hiter : forall k tv mk mk', (k < n)%nat -> List.length mk = L -> mem_ok mk -> F k mk = WMat.Ok mk' ->
    List.length mk' = L /\ mem_ok mk' /\
    exists tv', f (E k tv, mem_of (words mk)) = Ok (LCont (E (S k) tv', mem_of (words mk'))).
  Hypothesis Hstop : forall tv mk, List.length mk = L -> mem_ok mk ->
    f (E n tv, mem_of (words mk)) = Ok (LStop (ONormal (Efin tv) (mem_of (words mk)))).
  Hypothesis Hn : Z.of_nat n < 2 ^ 48.

  Lemma for_loop_mem mem m1 tv0 : List.length mem = L -> mem_ok mem ->
    forM (seq 0 n) F mem = WMat.Ok m1 ->
    List.length m1 = L /\ mem_ok m1 /\
    exists tv, exec zops call LFUEL (Sloop c body step) (E 0 tv0) (mem_of (words mem)) =
               Ok (ONormal (Efin tv) (mem_of (words m1))).
  Proof.
    intros HL Hok Hfor.
    set (P := fun (k : nat) (s : @env Z * @CMini.mem Z) =>
                exists tv mk, s = (E k tv, mem_of (words mk)) /\ List.length mk = L /\ mem_ok mk /\
                              forM (seq k (n - k)) F mk = WMat.Ok m1).
    assert (Hstep : forall k s, (k < n)%nat -> P k s -> exists s', f s = Ok (LCont s') /\ P (S k) s').
    { intros k s Hk (tv & mk & -> & Hl & Hm & Hf).
      replace (n - k)%nat with (S (n - S k)) in Hf by lia. rewrite forM_cons in Hf.
      destruct (bind_inv _ _ _ Hf) as (mk' & HF & Hf').
      destruct (Hiter k tv mk mk' Hk Hl Hm HF) as (Hl' & Hm' & tv' & Hs).
      eexists. split; [exact Hs|]. exists tv', mk'. auto. }
    destruct (reach_for f P n Hstep n 0%nat (E 0 tv0, mem_of (words mem)) ltac:(lia)) as (sN & (tv & mk & -> & Hl & Hm & Hf) & Hr).
    { exists tv0, mem. rewrite Nat.sub_0_r. auto. }
    rewrite Nat.sub_diag in Hf. cbn [seq forM] in Hf. apply wok_inj in Hf. subst mk.
    split; [assumption|]. split; [assumption|]. exists tv.
    apply (exec_Sloop_reach call LFUEL c body step _ _ n).
    - apply Hr. now apply Hstop.
    - now apply lfuel_enough.
  Qed.
End ForLoop.

(** * _mzd_row_swap (mzd.h:265) *)
Lemma run__mzd_row_swap d h fl mem a b sb m' :
  valid h mem -> c_dom h fl mem -> (a < h_nrows h)%nat -> (b < h_nrows h)%nat -> Z.of_nat sb < 2 ^ 62 ->
  w_row_swap h a b sb mem = WMat.Ok m' ->
  run zops access_prog LFUEL (S (S d)) "_mzd_row_swap"
      (hbundle h fl [Vint (Z.of_nat a); Vint (Z.of_nat b); Vint (Z.of_nat sb)]) (mem_of (words mem)) =
  Ok (None, mem_of (words m')).
Proof.
  intros Hv Hd Ha Hb Hsb Hw. pose proof (valid_hdr_ok _ _ Hv) as Hok. pose proof (valid_mem_ok _ _ Hv) as Hm.
  pose proof Hd as (D1 & D2 & D3 & D4 & D5 & D6). pose proof Hok as (Hwd & _ & Hrs).
  unfold w_row_swap in Hw. unfold hbundle.
  destruct (Nat.eqb_spec a b) as [Eab|Nab]; cbn [orb] in Hw.
  { apply wok_inj in Hw. subst m'.
    cm_enter "_mzd_row_swap"%string f__mzd_row_swap. cm_run. reflexivity. }
  destruct (Nat.leb_spec (h_width h) sb) as [Hle|Hgt].
  { apply wok_inj in Hw. subst m'.
    cm_enter "_mzd_row_swap"%string f__mzd_row_swap. cm_run. reflexivity. }
  assert (Hk : (h_width h - 1 < h_width h)%nat) by lia.
  destruct (dom_facts h fl mem a (h_width h - 1) Hv Hd Ha Hk) as (Hpa & Hria & Hraa & Hbiga & Hiia).
  destruct (dom_facts h fl mem b (h_width h - 1) Hv Hd Hb Hk) as (Hpb & Hrib & Hrab & Hbigb & Hiib).
  assert (Hne : row_addr h a <> row_addr h b).
  { intros E. destruct (row_addr_inj h a 0 b 0 ltac:(lia) ltac:(lia) ltac:(lia)). lia. }
  set (W := (h_width h - sb - 1)%nat) in *. set (a0 := (row_addr h a + sb)%nat) in *. set (b0 := (row_addr h b + sb)%nat) in *.
  destruct (bind_inv _ _ _ Hw) as (m1 & Hfor & Hw1). clear Hw.
  assert (HaW : (a0 + W < List.length mem)%nat) by (unfold a0, W; lia).
  assert (HbW : (b0 + W < List.length mem)%nat) by (unfold b0, W; lia).
  assert (Hza : Z.of_nat (h_off h) + Z.of_nat (h_rowstride h) * Z.of_nat a + Z.of_nat sb = Z.of_nat a0) by (unfold a0; lia).
  assert (Hzb : Z.of_nat (h_off h) + Z.of_nat (h_rowstride h) * Z.of_nat b + Z.of_nat sb = Z.of_nat b0) by (unfold b0; lia).
  assert (HzW : Z.of_nat (h_width h) - Z.of_nat sb - 1 = Z.of_nat W) by (unfold W; lia).
  assert (Hab0 : a0 <> b0) by (unfold a0, b0; lia).
    cm_enter "_mzd_row_swap"%string f__mzd_row_swap. cm_run.
    rewrite run_mzd_row by lia. cm_run. rewrite run_mzd_row by lia. cm_run.
    rewrite Hza, Hzb, HzW. cm_release.
    match goal with |- context [exec zops ?cl LFUEL (Sloop ?cd ?bd ?st) ?E0 ?M0] =>
      pose (E := fun (k : nat) (tv : @val Z) => tset 19%positive (Vint (Z.of_nat k)) (tset 17%positive tv E0));
      change E0 with (E 0%nat Vundef);
      destruct (for_loop_mem cl cd bd st E (E W) W
                  (fun i m => tmp <- rd m (a0 + i) ;; bi <- rd m (b0 + i) ;; m' <- wr m (a0 + i) bi ;; wr m' (b0 + i) tmp)%nat
                  (List.length mem)) with (mem := mem) (m1 := m1) (tv0 := @Vundef Z) as (Hl1 & Hok1 & tv & Hloop)
    end.
    { (* one iteration *)
      intros k tv mk mk' Hkk Hl Hmk HF.
      rewrite rd_ok in HF by lia. cbn [WMat.bind] in HF. rewrite rd_ok in HF by lia. cbn [WMat.bind] in HF.
      rewrite wr_ok in HF by lia. cbn [WMat.bind] in HF. rewrite wr_ok in HF by (rewrite upd_length; lia).
      apply wok_inj in HF. subst mk'.
      split; [now rewrite !upd_length|]. split; [now repeat apply mem_ok_upd|].
      eexists. rewrite loop_step_Some. unfold E. cm_run.
      replace (Z.of_nat k + 1) with (Z.of_nat (S k)) by lia.
      do 3 f_equal. rewrite !trunc_id by (now apply mem_ok_word). wfin. }
    { (* exit *)
      intros tv mk Hl Hmk. rewrite loop_step_Some. unfold E. cm_run. reflexivity. }
    { unfold W. lia. }
    { reflexivity. }
    { assumption. }
    { exact Hfor. }
    rewrite Hloop. unfold E. cm_run.
    cbv zeta in Hw1. pose proof (hmask_lt h Hok) as Hhm.
    rewrite !rd_ok in Hw1 by lia. cbn [WMat.bind] in Hw1.
    rewrite wr_ok in Hw1 by lia. cbn [WMat.bind] in Hw1.
    rewrite rd_ok in Hw1 by (rewrite upd_length; lia). cbn [WMat.bind] in Hw1.
    rewrite wr_ok in Hw1 by (rewrite upd_length; lia). apply wok_inj in Hw1. subst m'.
    rewrite word_at_upd_neq by lia. cbn [option_map]. wfin.
Qed.

Lemma w_row_swap_length h mem a b sb m' : valid h mem -> (a < h_nrows h)%nat -> (b < h_nrows h)%nat ->
  w_row_swap h a b sb mem = WMat.Ok m' -> List.length m' = List.length mem.
Proof.
  intros Hv Ha Hb Hw. destruct (w_row_swap_ok h mem a b sb Hv Ha Hb) as (m2 & E2 & L2 & _).
  rewrite Hw in E2. apply wok_inj in E2. now subst.
Qed.

Theorem acc__mzd_row_swap_w h fl mem a b sb m' :
  valid h mem -> c_dom h fl mem -> (a < h_nrows h)%nat -> (b < h_nrows h)%nat -> Z.of_nat sb < 2 ^ 62 ->
  w_row_swap h a b sb mem = WMat.Ok m' ->
  run_acc "_mzd_row_swap" (hbundle h fl [Vint (Z.of_nat a); Vint (Z.of_nat b); Vint (Z.of_nat sb)]) (words mem) =
  Ok (None, words m').
Proof.
  intros Hv Hd Ha Hb Hsb Hw. apply run_acc_intro.
  - rewrite !words_length. exact (w_row_swap_length h mem a b sb m' Hv Ha Hb Hw).
  - change DEPTH with (S (S 10)). now apply run__mzd_row_swap.
Qed.

(** * mzd_row_swap (mzd.h:296) = _mzd_row_swap(M, rowa, rowb, 0) *)
Theorem acc_mzd_row_swap_w h fl mem a b m' :
  valid h mem -> c_dom h fl mem -> (a < h_nrows h)%nat -> (b < h_nrows h)%nat ->
  w_row_swap h a b 0 mem = WMat.Ok m' ->
  run_acc "mzd_row_swap" (hbundle h fl [Vint (Z.of_nat a); Vint (Z.of_nat b)]) (words mem) = Ok (None, words m').
Proof.
  intros Hv Hd Ha Hb Hw. apply run_acc_intro.
  - rewrite !words_length. exact (w_row_swap_length h mem a b 0 m' Hv Ha Hb Hw).
  - change DEPTH with (S (S (S 9))). unfold hbundle.
    cm_enter "mzd_row_swap"%string f_mzd_row_swap. cm_run.
    pose proof (run__mzd_row_swap 9 h fl mem a b 0 m' Hv Hd Ha Hb ltac:(lia) Hw) as Hr.
    unfold hbundle in Hr. cbn [Z.of_nat] in Hr. rewrite Hr. cm_run. reflexivity.
Qed.
