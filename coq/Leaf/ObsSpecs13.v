(* Leaf/ObsSpecs13.v — mzd_find_pivot (m4ri/mzd.c:1686) as translated into Leaf/Gen_observers.v, part 6:
   the last word under mask_end (mzd.c:1770-1790), the assembly of the branch for at least 64 remaining columns,
   and the FULL theorems [obs_find_pivot_w], [mzd_find_pivot_spec]. *)
From Coq Require Import ZArith NArith List String Bool Lia ZifyBool ZifyNat ZifyN.
From M4 Require Import Base.Bits Lin.Mat Lin.Ops Word.WMat Word.WMatLemmas Word.WOps Word.WRefine12
  Leaf.CMini Leaf.CMiniAcc Leaf.CMiniAcc2 Leaf.CMiniObs Leaf.AccessSpecs Leaf.Gen_observers Leaf.ObsSpecs
  Leaf.ObsSpecs6 Leaf.ObsSpecs7 Leaf.ObsSpecs8 Leaf.ObsSpecs11 Leaf.ObsSpecs12.
Import ListNotations.
Local Open Scope Z_scope.
Ltac Zify.zify_post_hook ::= Z.div_mod_to_equations.


Lemma end_off_facts h : hdr_ok h -> (0 < h_ncols h)%nat ->
  (1 <= end_off h <= 64)%nat /\ (64 * (h_width h - 1) + end_off h = h_ncols h)%nat.
Proof.
  intros (HW & _) Hn. unfold end_off. rewrite HW. destruct (Nat.eqb_spec (h_ncols h mod 64) 0); cbn [negb]; lia.
Qed.

Section LastWord.
  Variables (h : hdr) (fl : Z) (mem : list N) (r0 c0 : nat).
  Hypothesis Hv : valid h mem.
  Hypothesis Hd : c_dom h fl mem.
  Hypothesis Hr0 : (r0 <= h_nrows h)%nat.
  Hypothesis Hc0 : (c0 < h_ncols h)%nat.
  Let M0 := mem2 (words mem) 2 TLeaf.

  Definition ld3 (i : nat) : WMat.res N :=
    WMat.bind (rd mem (row_addr h i + (h_width h - 1))) (fun w => WMat.Ok (N.land w (left_bitmask (end_off h mod 64)))).

  Lemma wide_scan3 data cand0 cand t :
    pivot_scan ld3 (Some 0%nat) (seq r0 (h_nrows h - r0)) (0%N, cand0) = WMat.Ok (data, cand) ->
    exists t', exec zops CALL LFUEL L_scan3 (over (tset 42%positive (Vint (Z.of_nat r0)) (Kl h fl r0 c0 0 cand0)) t) M0 =
               Ok (ONormal (over (Kl h fl r0 c0 data cand) t') M0).
  Proof.
    intros Hscan. pose proof (valid_hdr_ok _ _ Hv) as Hok. pose proof (valid_mem_ok _ _ Hv) as Hm.
    pose proof Hd as (D1 & D2 & D3 & D4 & D5 & D6). pose proof Hok as (HW & _).
    assert (HwW : (h_width h - 1 < h_width h)%nat) by (rewrite HW; lia).
    assert (Hld : forall i, (i < h_nrows h)%nat ->
              ld3 i = WMat.Ok (N.land (word_at mem (row_addr h i + (h_width h - 1))) (left_bitmask (end_off h mod 64)))).
    { intros i Hi. unfold ld3. rewrite rd_ok by (apply valid_word; assumption). reflexivity. }
    assert (Hffff : (ffff < 2 ^ 64)%N) by reflexivity.
    unfold L_scan3, M0.
    word_scan 42%positive h fl mem r0 ld3
      (fun i : nat => N.land (word_at mem (row_addr h i + (h_width h - 1))) (left_bitmask (end_off h mod 64)))
      (Some 0%nat) (h_width h - 1)%nat cand0 data cand Hv Hd Hm HwW Hld Hscan.
  Qed.

  Lemma wide_bits3 data cand l t :
    first_set_bit data 0 (end_off h) = Some l ->
    exists e', exec zops CALL LFUEL L_bits3 (over (tset 46%positive (Vint 0) (Kl h fl r0 c0 data cand)) t)
                 (mem2 (words mem) 2 (tset (key 0) (Z.of_nat cand) TLeaf)) =
               Ok (ONormal e' (mem2 (words mem) 2 (pivot_cells (Some (cand, ((h_width h - 1) * 64 + l)%nat))))).
  Proof.
    intros Hfs. pose proof Hd as (D1 & D2 & D3 & D4 & D5 & D6).
    destruct (end_off_facts h (valid_hdr_ok _ _ Hv) ltac:(lia)) as (Heo1 & Heo2).
    pose proof (first_set_bit_lt _ _ _ _ Hfs) as Hl.
    unfold L_bits3.
    bit_search 46%positive mem (end_off h) data (fun b : nat => ((h_width h - 1) * 64 + b)%nat) cand l Hfs.
  Qed.
End LastWord.

(** * The branch for at least 64 remaining columns, assembled *)

Lemma mask_end_Z e z : z = Z.of_nat e -> (1 <= e <= 64)%nat ->
  Z.shiftr ((-1) mod M64) ((64 - z mod 64) mod 64) = Z.of_N (left_bitmask (e mod 64)).
Proof.
  intros -> He. unfold left_bitmask. rewrite of_N_shr. change (Z.of_N ffff) with ((-1) mod M64). f_equal. lia.
Qed.

Theorem obs_find_pivot_w_wide h fl mem r0 c0 res :
  valid h mem -> c_dom h fl mem -> (r0 <= h_nrows h)%nat -> (c0 < h_ncols h)%nat ->
  (64 <= h_ncols h - c0)%nat ->
  w_find_pivot h r0 c0 mem = WMat.Ok res ->
  run zops obs_prog LFUEL DEPTH "mzd_find_pivot" (pivot_args h fl r0 c0) (mem2 (words mem) 2 TLeaf) =
  Ok (Some (Vint (match res with Some _ => 1 | None => 0 end)), mem2 (words mem) 2 (pivot_cells res)).
Proof.
  intros Hv Hd Hr0 Hc0 Hwide Hw.
  pose proof (valid_hdr_ok _ _ Hv) as Hok. pose proof (valid_mem_ok _ _ Hv) as Hm.
  pose proof Hd as (D1 & D2 & D3 & D4 & D5 & D6). pose proof Hok as (HW & _).
  destruct (end_off_facts h Hok ltac:(lia)) as (Heo1 & Heo2).
  unfold w_find_pivot in Hw. cbv zeta in Hw.
  destruct (Nat.ltb_spec (h_ncols h - c0) 64) as [?|_]; [lia|].
  assert (Hbo : (c0 mod 64 < 64)%nat) by lia.
  destruct (bind_inv _ _ _ Hw) as ([data cand] & Hscan & Hres). clear Hw.
  destruct (scan_facts _ _ _ _ (fun w => forall j, (j < c0 mod 64)%nat -> N.testbit w (N.of_nat j) = false) _ _ _ Hscan)
    as (Qlo & Qlt & _).
  { intros i w Hi. destruct (bind_inv _ _ _ Hi) as (w0 & H0 & H1). apply rd_inv in H0. subst w0.
    apply wok_inj in H1. subst w. split; [|apply land_lt_l; now apply mem_ok_word].
    intros j Hj. rewrite N.land_spec, testbit_right_bitmask.
    destruct (Nat.leb_spec (64 - (64 - c0 mod 64)) j); [lia|]. cbn [andb]. apply andb_false_r. }
  { intros; apply N.bits_0. }
  unfold pivot_args, hbundle. change DEPTH with (S (S (S (S 8)))).
  co_enter "mzd_find_pivot"%string f_mzd_find_pivot.
  match goal with |- context [exec zops ?cl ?lf ?s ?E0 ?M0] => rewrite <- (over_leaf E0) end.
  cm_run2. cm_release. cm_clear.
  replace (Z.of_nat c0 mod 64) with (Z.of_nat (c0 mod 64)) by lia.
  replace (Z.of_nat c0 / 64) with (Z.of_nat (c0 / 64)) by lia.
  rewrite mask_begin_Z by assumption.
  (* first word *)
  match goal with |- context [exec zops _ LFUEL (Sloop _ _ _) (over ?A0 ?T0) _] =>
    rewrite (over_sub_eq (tset 28%positive (Vint (Z.of_nat r0)) (Kw h fl r0 c0 0 0)) A0 T0) by (k_unfold; sub_solve);
    destruct (wide_scan1 h fl mem r0 c0 Hv Hd Hr0 Hc0 data cand (over A0 T0) Hscan) as (t1 & H1)
  end.
  unfold L_scan1 in H1. rewrite H1. clear H1. k_unfold. cm_run2.
  rewrite of_N_eqb0. destruct (N.eqb_spec data 0) as [->|Hnz]; cbn [negb] in *.
  2:{ cm_run2. cm_release. rewrite <- of_N_shr.
      assert (Hsh : shr data (c0 mod 64) <> 0%N).
      { intros E. apply Hnz. apply bits_ext_nat. intros j. rewrite N.bits_0.
        destruct (Nat.lt_ge_cases j (c0 mod 64)) as [Hj|Hj]; [now apply Qlo|].
        pose proof (f_equal (fun x => N.testbit x (N.of_nat (j - c0 mod 64))) E) as E'. cbv beta in E'.
        rewrite testbit_shr, N.bits_0 in E'. now replace (j - c0 mod 64 + c0 mod 64)%nat with j in E' by lia. }
      assert (Hhi : forall j, (64 - c0 mod 64 <= j)%nat -> N.testbit (shr data (c0 mod 64)) (N.of_nat j) = false).
      { intros j Hj. rewrite testbit_shr. apply testbit_word_high; [assumption|lia]. }
      destruct (first_set_bit_some _ _ Hsh Hhi) as (l & Hl & Hll). rewrite Hl in Hres. apply wok_inj in Hres. subst res.
      match goal with |- context [exec zops _ LFUEL (Sloop _ _ _) (over ?A0 ?T0) _] =>
        rewrite (over_sub_eq (tset 32%positive (Vint 0) (Kw h fl r0 c0 (shr data (c0 mod 64)) cand)) A0 T0) by (k_unfold; sub_solve);
        destruct (wide_bits1 h fl mem r0 c0 Hd Hr0 Hc0 (shr data (c0 mod 64)) cand l (over A0 T0) Hl) as (e1 & Hb1)
      end.
      unfold L_bits1 in Hb1. rewrite Hb1. clear Hb1. cm_run2. cm_release. cm_run2. reflexivity. }
  (* complete words *)
  destruct (bind_inv _ _ _ Hres) as (r & Hfirst & Hres'). clear Hres.
  cm_run2. cm_release.
  match goal with |- context [exec zops _ LFUEL (Sloop _ _ _) (over ?A0 ?T0) _] =>
    rewrite (over_sub_eq (tset 33%positive (Vint (Z.of_nat (c0 / 64 + 1))) (Kw h fl r0 c0 0 cand)) A0 T0) by (k_unfold; sub_solve);
    destruct (wide_words h fl mem r0 c0 Hv Hd Hr0 Hc0 cand r (over A0 T0) Hfirst) as (t2 & H2)
  end.
  unfold L_wi in H2. rewrite H2. clear H2.
  destruct r as [rc|].
  { apply wok_inj in Hres'. subst res. cm_run2. cm_release. cm_run2. reflexivity. }
  (* last word *)
  destruct (bind_inv _ _ _ Hres') as ([data3 cand3] & Hscan3 & Hres3). clear Hres'.
  k_unfold. cm_run2.
  replace (if Z.of_nat (h_ncols h) mod 64 =? 0 then Ok (Vint 64) else Ok (Vint (Z.of_nat (h_ncols h) mod 64)))
    with (@Ok (@val Z) (Vint (Z.of_nat (end_off h)))).
  2:{ unfold end_off. destruct (Z.eqb_spec (Z.of_nat (h_ncols h) mod 64) 0), (Nat.eqb_spec (h_ncols h mod 64) 0);
        cbn [negb]; try lia; [reflexivity|]. do 2 f_equal. lia. }
  cm_run2. cm_release.
  change (- (1)) with (-1).
  rewrite (mask_end_Z (end_off h) (Z.of_nat (end_off h)) eq_refl Heo1).
  replace (Z.of_nat (h_width h) - 1) with (Z.of_nat (h_width h - 1)) by lia.
  match goal with |- context [exec zops _ LFUEL (Sloop _ _ _) (over ?A0 ?T0) _] =>
    rewrite (over_sub_eq (tset 42%positive (Vint (Z.of_nat r0)) (Kl h fl r0 c0 0 cand)) A0 T0) by (k_unfold; sub_solve);
    destruct (wide_scan3 h fl mem r0 c0 Hv Hd Hr0 Hc0 data3 cand cand3 (over A0 T0) Hscan3) as (t3 & H3)
  end.
  unfold L_scan3 in H3. rewrite H3. clear H3. k_unfold. cm_run2.
  destruct (scan_facts _ _ _ _ (fun w => forall j, (end_off h <= j)%nat -> N.testbit w (N.of_nat j) = false) _ _ _ Hscan3)
    as (Qhi3 & Qlt3 & _).
  { intros i w Hi. destruct (bind_inv _ _ _ Hi) as (w0 & H0 & H1). apply rd_inv in H0. subst w0.
    apply wok_inj in H1. subst w. split; [|apply land_lt_l; now apply mem_ok_word].
    intros j Hj. rewrite N.land_spec, testbit_left_bitmask by lia. fold (end_off h).
    destruct (Nat.eqb_spec (end_off h mod 64) 0).
    - destruct (Nat.ltb_spec j 64); [lia|]. apply andb_false_r.
    - destruct (Nat.ltb_spec j (end_off h mod 64)); [lia|]. apply andb_false_r. }
  { intros; apply N.bits_0. }
  rewrite of_N_eqb0. destruct (N.eqb_spec data3 0) as [->|Hnz3]; cbn [negb] in *.
  - apply wok_inj in Hres3. subst res. cm_run2. cm_release. cm_run2. reflexivity.
  - destruct (first_set_bit_some _ _ Hnz3 Qhi3) as (l & Hl & Hll). fold (end_off h) in Hres3. rewrite Hl in Hres3.
    apply wok_inj in Hres3. subst res. cm_run2. cm_release.
    match goal with |- context [exec zops _ LFUEL (Sloop _ _ _) (over ?A0 ?T0) _] =>
      rewrite (over_sub_eq (tset 46%positive (Vint 0) (Kl h fl r0 c0 data3 cand3)) A0 T0) by (k_unfold; sub_solve);
      destruct (wide_bits3 h fl mem r0 c0 Hv Hd Hr0 Hc0 data3 cand3 l (over A0 T0) Hl) as (e3 & Hb3)
    end.
    unfold L_bits3 in Hb3. rewrite Hb3. clear Hb3. cm_run2. cm_release. cm_run2. reflexivity.
Qed.

(** * The full theorems *)
(** The translated C function computes the word-level model [w_find_pivot], for every header and array of the
    domain.  The hypothesis on start_col + 64 concerns only the branch for fewer than 64 remaining columns
    (`j += m4ri_radix`, mzd.c:1692, see [find_pivot_overflow] in Leaf/ObsSpecs8.v); the other branch computes
    `start_col + l` and `(int)(wi * 64 + l)` only for columns below ncols. *)
Theorem obs_find_pivot_w h fl mem r0 c0 res :
  valid h mem -> c_dom h fl mem -> (r0 <= h_nrows h)%nat -> (c0 < h_ncols h)%nat ->
  ((h_ncols h - c0 < 64)%nat -> Z.of_nat c0 + 64 <= 2147483647) ->
  w_find_pivot h r0 c0 mem = WMat.Ok res ->
  run zops obs_prog LFUEL DEPTH "mzd_find_pivot" (pivot_args h fl r0 c0) (mem2 (words mem) 2 TLeaf) =
  Ok (Some (Vint (match res with Some _ => 1 | None => 0 end)), mem2 (words mem) 2 (pivot_cells res)).
Proof.
  intros Hv Hd Hr0 Hc0 Hov Hw. destruct (Nat.lt_ge_cases (h_ncols h - c0) 64) as [Hn|Hn].
  - apply obs_find_pivot_w_narrow; auto.
  - apply obs_find_pivot_w_wide; auto.
Qed.

(** composed with Word/WRefine12.v: the function returns what Lin/Ops.v [find_pivot] returns on the viewed matrix
    [abs h mem]; when it returns 1 exactly the cells *r, *c are written (row and column of the pivot), when it
    returns 0 nothing is written; the word array is unchanged *)
Theorem mzd_find_pivot_spec h fl mem r0 c0 :
  valid h mem -> c_dom h fl mem -> (r0 <= h_nrows h)%nat -> (c0 < h_ncols h)%nat ->
  ((h_ncols h - c0 < 64)%nat -> Z.of_nat c0 + 64 <= 2147483647) ->
  run zops obs_prog LFUEL DEPTH "mzd_find_pivot" (pivot_args h fl r0 c0) (mem2 (words mem) 2 TLeaf) =
  Ok (Some (Vint (match find_pivot (abs h mem) r0 c0 with Some _ => 1 | None => 0 end)),
      mem2 (words mem) 2 (pivot_cells (find_pivot (abs h mem) r0 c0))).
Proof.
  intros Hv Hd Hr0 Hc0 Hov. apply obs_find_pivot_w; try assumption. now apply w_find_pivot_ok.
Qed.

(** the hypotheses are satisfiable, in both branches, on the 3 x 70 window at offset 5 of Leaf/ObsSpecs8.v;
    the theorem instantiated there gives the pivot that [find_pivot_run_example] obtained by evaluation *)
Example find_pivot_full_dom_example :
  let h := window_hdr (init_hdr 6 200) 1 64 4 134 in
  valid h ex_mem /\ c_dom h 4 ex_mem /\ (1 <= h_nrows h)%nat /\
  ((3 < h_ncols h)%nat /\ ((h_ncols h - 3 < 64)%nat -> Z.of_nat 3 + 64 <= 2147483647)) /\
  ((40 < h_ncols h)%nat /\ ((h_ncols h - 40 < 64)%nat -> Z.of_nat 40 + 64 <= 2147483647)) /\
  run zops obs_prog LFUEL DEPTH "mzd_find_pivot" (pivot_args h 4 1 3) (mem2 (words ex_mem) 2 TLeaf) =
  Ok (Some (Vint 1), mem2 (words ex_mem) 2 (pivot_cells (Some (2, 50)%nat))).
Proof.
  cbv zeta.
  assert (Hv : valid (window_hdr (init_hdr 6 200) 1 64 4 134) ex_mem) by (apply validb_spec; reflexivity).
  assert (Hd : c_dom (window_hdr (init_hdr 6 200) 1 64 4 134) 4 ex_mem) by (unfold c_dom; cbn; lia).
  split; [exact Hv|]. split; [exact Hd|]. split; [cbn; lia|]. split; [cbn; lia|]. split; [cbn; lia|].
  rewrite (mzd_find_pivot_spec _ 4 ex_mem 1 3 Hv Hd) by (cbn; lia).
  replace (find_pivot (abs (window_hdr (init_hdr 6 200) 1 64 4 134) ex_mem) 1 3) with (Some (2, 50)%nat)
    by (vm_compute; reflexivity).
  reflexivity.
Qed.

Print Assumptions mzd_find_pivot_spec.
