(* Leaf/ObsSpecs6.v — mzd_find_pivot (m4ri/mzd.c:1686) as translated into Leaf/Gen_observers.v, part 1:
   infrastructure and callees.

   * [over a t]: an environment whose known part is the concrete trie [a], on top of an arbitrary rest [t]
     (variables declared inside loop bodies persist in the CMini environment; the rest holds whatever earlier
     iterations left there).  [tget_over]/[tset_over] let a run proceed on [over a t] with [a] concrete.
   * [loop_gen2]: the loop rule of Leaf/CMiniObs.v with a scratch component in EVERY exit (a `break` leaves
     the loop with the environment of the current iteration).
   * [cm_run2]: [AccessSpecs.cm_run] plus the rules for [over] and for the two-block memory [mem2]
     (block 1 = the word array, block 2 = the two cells `*r`, `*c`).
   * m4ri_lesser_LSB (misc.h:466) and mzd_read_bits (mzd.h:893) as members of [obs_prog].
   * the bridges from the word-level model (Word/WOps.v: [pivot_scan], [first_set_bit]) to [iterG]. *)
From Coq Require Import ZArith NArith List String Bool Lia ZifyBool ZifyNat ZifyN.
From M4 Require Import Base.Bits Lin.Mat Lin.Ops Word.WMat Word.WMatLemmas Word.WOps
  Leaf.CMini Leaf.CMiniAcc Leaf.CMiniAcc2 Leaf.CMiniObs Leaf.AccessSpecs Leaf.Gen_observers Leaf.ObsSpecs.
Import ListNotations.
Local Open Scope Z_scope.
Ltac Zify.zify_post_hook ::= Z.div_mod_to_equations.

(** * Environments with an unknown rest *)
Definition tl_ {A} (t : trie A) : trie A := match t with TLeaf => TLeaf | TNode l _ _ => l end.
Definition tr_ {A} (t : trie A) : trie A := match t with TLeaf => TLeaf | TNode _ _ r => r end.
Definition tv_ {A} (t : trie A) : option A := match t with TLeaf => None | TNode _ o _ => o end.

Fixpoint over {A} (a t : trie A) : trie A :=
  match a with
  | TLeaf => t
  | TNode l o r => TNode (over l (tl_ t)) (match o with Some v => Some v | None => tv_ t end) (over r (tr_ t))
  end.

(** forget a variable (the loop counter, when the loop is left) *)
Fixpoint tdel {A} (x : positive) (t : trie A) : trie A :=
  match t with
  | TLeaf => TLeaf
  | TNode l o r => match x with xH => TNode l None r | xO q => TNode (tdel q l) o r | xI q => TNode l o (tdel q r) end
  end.

Lemma over_leaf {A} (a : trie A) : over a TLeaf = a.
Proof. induction a as [|l IHl o r IHr]; cbn; [reflexivity|]. rewrite IHl, IHr. now destruct o. Qed.

Lemma tget_over {A} x (a t : trie A) :
  tget x (over a t) = match tget x a with Some v => Some v | None => tget x t end.
Proof.
  revert x t. induction a as [|l IHl o r IHr]; intros x t; cbn [over]; [reflexivity|].
  destruct x as [x|x|]; cbn [tget].
  - rewrite IHr. destruct t; reflexivity.
  - rewrite IHl. destruct t; reflexivity.
  - destruct o; [reflexivity|]. destruct t; reflexivity.
Qed.

Lemma tset_over {A} x (v : A) (a t : trie A) : tset x v (over a t) = over (tset x v a) t.
Proof.
  revert a t. induction x as [x IH|x IH|]; intros a t.
  - destruct a as [|l o r]; cbn [over tset].
    + destruct t as [|l' o' r']; cbn [tl_ tr_ tv_ over].
      * now rewrite over_leaf.
      * f_equal. apply (IH TLeaf r').
    + now rewrite IH.
  - destruct a as [|l o r]; cbn [over tset].
    + destruct t as [|l' o' r']; cbn [tl_ tr_ tv_ over].
      * now rewrite over_leaf.
      * f_equal. apply (IH TLeaf l').
    + now rewrite IH.
  - destruct a as [|l o r]; cbn [over tset]; [|reflexivity].
    destruct t as [|l' o' r']; reflexivity.
Qed.

(** [sub k a]: wherever [k] has a node, [a] has one, with the same value where [k] has a value *)
Fixpoint sub {A} (k a : trie A) : Prop :=
  match k with
  | TLeaf => True
  | TNode l o r =>
      match a with
      | TLeaf => False
      | TNode l' o' r' => sub l l' /\ match o with Some v => o' = Some v | None => True end /\ sub r r'
      end
  end.

Lemma over_sub {A} (k a t : trie A) : sub k a -> over k (over a t) = over a t.
Proof.
  revert a t. induction k as [|l IHl o r IHr]; intros a t H; cbn [over]; [reflexivity|].
  destruct a as [|l' o' r']; cbn [sub] in H; [contradiction|]. destruct H as (Hl & Ho & Hr).
  cbn [over tl_ tr_ tv_]. rewrite IHl, IHr by assumption. f_equal. destruct o; [now subst o'|reflexivity].
Qed.

Lemma over_sub_eq {A} (k a t : trie A) : sub k a -> over a t = over k (over a t).
Proof. intros H. symmetry. now apply over_sub. Qed.

Lemma over_sub_self {A} (k a : trie A) : sub k a -> a = over k a.
Proof. intros H. rewrite <- (over_leaf a) at 2. rewrite over_sub by assumption. now rewrite over_leaf. Qed.

(** * The loop rule with a scratch component in every exit *)
Section LoopGen2.
  Variable call : string -> list (@val Z) -> @mem Z -> res (option (@val Z) * @mem Z).
  Variables (c : option expr) (body step : stmt).
  Variables (St T R : Type).
  Variable E : nat -> St -> T -> @env Z * @mem Z.
  Variable n : nat.
  Variable G : nat -> St -> WMat.res (St + R).
  Variable out : R -> T -> @outcome Z.
  Variable fin : St -> T -> @outcome Z.
  Variable Inv : nat -> St -> Prop.
  Let f := loop_step zops c (exec zops call LFUEL body) (exec zops call LFUEL step).

  Hypothesis Hiter : forall k s t y, (k < n)%nat -> Inv k s -> G k s = WMat.Ok y ->
    match y with
    | inl s' => Inv (S k) s' /\ exists t', f (E k s t) = Ok (LCont (E (S k) s' t'))
    | inr r => exists t', f (E k s t) = Ok (LStop (out r t'))
    end.
  Hypothesis Hstop : forall s t, Inv n s -> exists t', f (E n s t) = Ok (LStop (fin s t')).

  Lemma loop_gen2_reach : forall d k s t x, (k + d = n)%nat -> Inv k s -> iterG G k d s = WMat.Ok x ->
    exists j t', (j <= d)%nat /\
      reach f j (E k s t) (match x with inl s' => fin s' t' | inr r => out r t' end) /\
      match x with inl s' => Inv n s' | inr _ => True end.
  Proof.
    induction d as [|d IH]; intros k s t x Hk HI Hx; cbn [iterG] in Hx.
    - injection Hx as <-. replace k with n in * by lia. destruct (Hstop s t HI) as (t' & Ht').
      exists 0%nat, t'. split; [lia|]. split; [|assumption]. now constructor.
    - destruct (bind_inv _ _ _ Hx) as (y & Hy & Hx'). pose proof (Hiter k s t y ltac:(lia) HI Hy) as Hi.
      destruct y as [s'|r].
      + destruct Hi as (HI' & t' & Hf).
        destruct (IH (S k) s' t' x ltac:(lia) HI' Hx') as (j & t'' & Hj & Hr & HIn).
        exists (S j), t''. split; [lia|]. split; [|exact HIn]. econstructor; [exact Hf|exact Hr].
      + injection Hx' as <-. destruct Hi as (t' & Hf). exists 0%nat, t'. split; [lia|]. split; [|exact I].
        now constructor.
  Qed.

  Lemma loop_gen2 s0 t0 x : Inv 0%nat s0 -> iterG G 0 n s0 = WMat.Ok x -> Z.of_nat n < 2 ^ 48 ->
    exists t, exec zops call LFUEL (Sloop c body step) (fst (E 0%nat s0 t0)) (snd (E 0%nat s0 t0)) =
              Ok (match x with inl s' => fin s' t | inr r => out r t end) /\
              match x with inl s' => Inv n s' | inr _ => True end.
  Proof.
    intros HI Hx Hn. destruct (loop_gen2_reach n 0%nat s0 t0 x ltac:(lia) HI Hx) as (j & t & Hj & Hr & HIn).
    exists t. split; [|exact HIn]. apply (exec_Sloop_reach call LFUEL c body step _ _ j).
    - rewrite <- surjective_pairing. exact Hr.
    - apply lfuel_enough. lia.
  Qed.
End LoopGen2.

(** * Evaluation on [over] environments and the two-block memory *)
Ltac cm_step2 :=
  match goal with
  | |- context [tget ?x (over ?a ?t)] => rewrite (tget_over x a t)
  | |- context [tset ?x ?v (over ?a ?t)] => rewrite (tset_over x v a t)
  | |- context [over (tset ?x ?v ?a) ?t] =>
      let a' := eval cbn [tset] in (tset x v a) in change (tset x v a) with a'
  | |- context [over (tdel ?x ?a) ?t] =>
      let a' := eval cbn [tset tdel] in (tdel x a) in change (tdel x a) with a'
  | |- context [load (mem2 ?ws ?n ?d) 1%positive ?i] => rewrite (load_mem2_1 ws n d i) by cm_len
  | |- context [store (mem2 ?ws ?n ?d) 2%positive ?i (Vint ?v)] => rewrite (store_mem2_2 ws n d i v) by lia
  end.
(** [cm_eval] must not unfold [tset] on an [over] environment ([tset] recurses on the key): [tset] is computed
    only after [tset_over] has moved it to the concrete part (rule 3 of [cm_step2]) *)
Ltac cm_eval2 :=
  cbn [exec eval eval_list bind assign truth ctl as_int of_bool ptr_add
       v_const v_ctl v_unop v_binop v_shift v_cast zops c_binop c_unop c_shift arith cmpz
       signed wd tint tuint tlong tulong tschar tuchar tshort tushort
       tget fst snd negb andb orb bind_params fn_params fn_body fn_ret
       loop_step end_switch wbits].
(** on a concrete environment: as [cm_run], with the rules for [mem2] *)
Ltac cm_run2c :=
  repeat first [ cm_noloop; cm_split | cm_noloop; progress cm_eval' | cm_step2 | cm_step
               | progress cm_release; cm_noloop ].
Ltac cm_run2 :=
  repeat first [ cm_noloop; cm_split | cm_noloop; progress cm_eval2 | cm_step2 | cm_step
               | progress cm_release; cm_noloop ].

(** [sub k a] for two concrete tries whose values are equal up to [lia] *)
Ltac sub_solve :=
  cbn [tset tdel sub]; repeat split; try reflexivity; repeat f_equal; try lia.

(** * m4ri_lesser_LSB (misc.h:466) and mzd_read_bits (mzd.h:893) as members of [obs_prog] *)
Lemma pred_mod a : (a < 2 ^ 64)%N -> (Z.of_N a - 1) mod M64 = Z.of_N (trunc (a + ffff)).
Proof.
  intros Ha. rewrite of_N_trunc. rewrite N2Z.inj_add. change (Z.of_N ffff) with (M64 - 1).
  replace (Z.of_N a + (M64 - 1)) with (Z.of_N a - 1 + 1 * M64) by lia. now rewrite Z.mod_add by (unfold M64; lia).
Qed.

Lemma run_lesser_LSB_o d a b m : (a < 2 ^ 64)%N -> (b < 2 ^ 64)%N ->
  run zops obs_prog LFUEL (S d) "m4ri_lesser_LSB" [Vint (Z.of_N a); Vint (Z.of_N b)] m =
  Ok (Some (Vint (Z.b2z (lesser_LSB a b))), m).
Proof.
  intros Ha Hb. co_enter "m4ri_lesser_LSB"%string f_m4ri_lesser_LSB. cm_run.
  rewrite of_N_eqb0. unfold lesser_LSB. destruct (N.eqb_spec b 0) as [->|Hb0]; cbn [negb].
  - cm_run. rewrite of_N_eqb0. destruct (N.eqb_spec a 0); cbn [negb]; cm_run; reflexivity.
  - cm_run. rewrite pred_mod by assumption.
    rewrite <- !of_N_lxor.
    assert (Hx : (N.lxor (trunc (a + ffff)) a < 2 ^ 64)%N) by (apply lxor_lt; [apply trunc_lt|assumption]).
    rewrite (Z.mod_small (Z.of_N (N.lxor (trunc (a + ffff)) a))) by (now apply of_N_w64).
    rewrite <- of_N_land. rewrite Z.mod_small by (apply of_N_w64; now apply land_lt_l).
    rewrite of_N_eqb0, negb_involutive. destruct (N.eqb_spec (N.land (N.lxor (trunc (a + ffff)) a) b) 0); reflexivity.
Qed.

Lemma run_read_bits_o d h fl mem dd x y n r :
  valid h mem -> c_dom h fl mem -> (x < h_nrows h)%nat -> (1 <= n <= 64)%nat -> (y + n <= h_ncols h)%nat ->
  w_read_bits h x y n mem = WMat.Ok r ->
  run zops obs_prog LFUEL (S (S (S d))) "mzd_read_bits"
    (hbundle h fl [Vint (Z.of_nat x); Vint (Z.of_nat y); Vint (Z.of_nat n)]) (mem2 (words mem) 2 dd) =
  Ok (Some (Vint (Z.of_N r)), mem2 (words mem) 2 dd).
Proof.
  intros Hv Hd Hx Hn Hy Hw. pose proof (valid_hdr_ok _ _ Hv) as Hok. pose proof (valid_mem_ok _ _ Hv) as Hm.
  assert (Hk : (y / 64 < h_width h)%nat) by (apply width_pos; [assumption|lia]).
  destruct (dom_facts h fl mem x (y / 64) Hv Hd Hx Hk) as (Hp & Hri & Hra & Hbig & Hii).
  pose proof Hd as (D1 & D2 & D3 & D4 & D5 & D6).
  unfold w_read_bits in Hw. destruct (Nat.ltb_spec 64 n); [lia|].
  unfold hbundle.
  co_enter "mzd_read_bits"%string f_mzd_read_bits.
  destruct (Nat.leb_spec (y mod 64 + n) 64) as [Hs|Hs].
  - rewrite rd_ok in Hw by assumption. cbn [WMat.bind] in Hw. rewrite shl64_ok in Hw by lia. cbn [WMat.bind] in Hw.
    rewrite shr64_ok in Hw by lia. apply wok_inj in Hw. subst r.
    cm_run2c. rewrite run_mzd_row_const_o by lia. cm_run2c.
    res_eq. n2z; wnorm; weq.
  - assert (Hk1 : (y / 64 + 1 < h_width h)%nat).
    { assert ((y + n - 1) / 64 < h_width h)%nat by (apply width_pos; [assumption|lia]). lia. }
    pose proof (valid_word h mem x (y / 64 + 1) Hv Hx Hk1) as Hp1.
    rewrite rd_ok in Hw by lia. cbn [WMat.bind] in Hw. rewrite rd_ok in Hw by lia. cbn [WMat.bind] in Hw.
    rewrite shl64_ok in Hw by lia. cbn [WMat.bind] in Hw. rewrite shr64_ok in Hw by lia. cbn [WMat.bind] in Hw.
    rewrite shr64_ok in Hw by lia. apply wok_inj in Hw. subst r.
    cm_run2c. rewrite run_mzd_row_const_o by lia. cm_run2c.
    res_eq. n2z; wnorm; weq.
Qed.


(** * Bridges from the word-level model of mzd_find_pivot to [iterG] *)
Lemma rd_inv mem p w : rd mem p = WMat.Ok w -> w = word_at mem p.
Proof.
  unfold rd, word_at. destruct (nth_error mem p) as [v|] eqn:E; [|discriminate].
  intros H. injection H as <-. symmetry. now apply nth_error_nth.
Qed.

(** one row of a column-block scan: [inr] = the `break` *)
Definition scanG (load : nat -> WMat.res N) (brk : option nat) (r0 : nat) (k : nat) (s : N * nat)
  : WMat.res ((N * nat) + (N * nat)) :=
  WMat.bind (load (r0 + k)%nat) (fun curr =>
    if lesser_LSB curr (fst s) then
      if match brk with Some b => N.testbit curr (N.of_nat b) | None => false end
      then WMat.Ok (inr (curr, (r0 + k)%nat)) else WMat.Ok (inl (curr, (r0 + k)%nat))
    else WMat.Ok (inl s)).
Definition unsum {A} (x : A + A) : A := match x with inl a => a | inr a => a end.

Definition scanF (load : nat -> WMat.res N) (brk : option nat) := (fun i (s : N * nat * bool) =>
         let '(data, cand, stop) := s in
         if stop then WMat.Ok s else
         WMat.bind (load i) (fun curr =>
         if lesser_LSB curr data then
           let stop' := match brk with Some b => N.testbit curr (N.of_nat b) | None => false end in
           WMat.Ok (curr, i, stop')
         else WMat.Ok s)).

Lemma forM_stopped load brk l d c : forM l (scanF load brk) (d, c, true) = WMat.Ok (d, c, true).
Proof. induction l as [|i l IH]; cbn [forM]; [reflexivity|]. cbn [scanF WMat.bind]. exact IH. Qed.

Lemma scan_iterG load brk r0 : forall n k d c r,
  forM (seq (r0 + k) n) (scanF load brk) (d, c, false) = WMat.Ok r ->
  exists x, iterG (scanG load brk r0) k n (d, c) = WMat.Ok x /\ unsum x = fst r.
Proof.
  induction n as [|n IH]; intros k d c r H; cbn [seq forM iterG] in *.
  - injection H as <-. eexists. split; reflexivity.
  - destruct (bind_inv _ _ _ H) as (s1 & H1 & H2). clear H. unfold scanF in H1 at 1. cbv beta iota in H1.
    destruct (bind_inv _ _ _ H1) as (curr & Hl & H3). clear H1.
    unfold scanG at 1. rewrite Hl. cbn [WMat.bind fst].
    destruct (lesser_LSB curr d).
    + cbv zeta in H3. injection H3 as <-.
      destruct (match brk with Some b => N.testbit curr (N.of_nat b) | None => false end).
      * rewrite forM_stopped in H2. injection H2 as <-. eexists. split; reflexivity.
      * replace (S (r0 + k)) with (r0 + S k)%nat in H2 by lia. exact (IH _ _ _ _ H2).
    + injection H3 as <-. replace (S (r0 + k)) with (r0 + S k)%nat in H2 by lia. exact (IH _ _ _ _ H2).
Qed.

Lemma pivot_scan_iterG load brk r0 n st st' :
  pivot_scan load brk (seq r0 n) st = WMat.Ok st' ->
  exists x, iterG (scanG load brk r0) 0 n st = WMat.Ok x /\ unsum x = st'.
Proof.
  unfold pivot_scan. intros H. destruct (bind_inv _ _ _ H) as (r & H1 & H2). injection H2 as <-.
  destruct st as [d c]. cbn [fst snd] in H1. replace r0 with (r0 + 0)%nat in H1 by lia.
  destruct (scan_iterG load brk r0 n 0 d c r H1) as (x & Hx & Hu). exists x. split; [exact Hx|].
  rewrite Hu. now destruct r as [[a b] s].
Qed.

(** what a scan keeps invariant: the data word is one of the loaded words (or the initial one), and the
    candidate changes only together with the data word *)
Lemma lesser_LSB_nz a b : (b < 2 ^ 64)%N -> lesser_LSB a b = true -> a <> 0%N.
Proof.
  intros Hb H ->. unfold lesser_LSB in H. destruct (N.eqb_spec b 0) as [->|Hb0]; cbn [negb] in H; [discriminate|].
  change (trunc (0 + ffff)) with ffff in H. rewrite N.lxor_0_r in H.
  assert (E : N.land ffff b = b) by (rewrite N.land_comm; apply trunc_id; assumption).
  rewrite E in H. destruct (N.eqb_spec b 0); [contradiction|discriminate].
Qed.

Definition scanQ (P : N -> Prop) (c0 : nat) (s : N * nat) : Prop :=
  P (fst s) /\ (fst s < 2 ^ 64)%N /\ (fst s = 0%N -> snd s = c0).

Lemma scanG_inv load brk r0 (P : N -> Prop) c0 :
  (forall i w, load i = WMat.Ok w -> P w /\ (w < 2 ^ 64)%N) ->
  forall n k s x, iterG (scanG load brk r0) k n s = WMat.Ok x -> scanQ P c0 s -> scanQ P c0 (unsum x).
Proof.
  intros Hload. induction n as [|n IH]; intros k s x H Q; cbn [iterG] in H.
  - injection H as <-. exact Q.
  - destruct (bind_inv _ _ _ H) as (y & Hy & H'). clear H. unfold scanG in Hy.
    destruct (bind_inv _ _ _ Hy) as (curr & Hl & Hy'). clear Hy. destruct (Hload _ _ Hl) as [HP Hlt].
    destruct Q as (Q1 & Q2 & Q3).
    destruct (lesser_LSB curr (fst s)) eqn:EL.
    + assert (Qn : scanQ P c0 (curr, (r0 + k)%nat)).
      { split; [exact HP|]. split; [exact Hlt|]. cbn [fst snd]. intros ->. exfalso.
        exact (lesser_LSB_nz 0 (fst s) Q2 EL eq_refl). }
      destruct (match brk with Some b => N.testbit curr (N.of_nat b) | None => false end);
        injection Hy' as <-.
      * injection H' as <-. exact Qn.
      * exact (IH _ _ _ H' Qn).
    + injection Hy' as <-. apply (IH _ _ _ H'). now split.
Qed.

(** the bit search *)
Definition fsbG (data : N) (l : nat) (_ : unit) : WMat.res (unit + nat) :=
  WMat.Ok (if N.testbit data (N.of_nat l) then inr l else inl tt).

Lemma fsb_iterG data : forall len l,
  iterG (fsbG data) l len tt =
  WMat.Ok (match first_set_bit data l len with Some b => inr b | None => inl tt end).
Proof.
  induction len as [|len IH]; intros l; cbn [iterG first_set_bit]; [reflexivity|].
  unfold fsbG at 1. cbn [WMat.bind]. destruct (N.testbit data (N.of_nat l)); [reflexivity|]. apply IH.
Qed.

(** a non-zero word whose set bits are below [len] has a first set bit below [len] *)
Lemma first_set_bit_some data len : data <> 0%N ->
  (forall j, (len <= j)%nat -> N.testbit data (N.of_nat j) = false) ->
  exists l, first_set_bit data 0 len = Some l /\ (l < len)%nat.
Proof.
  intros Hnz Hhi. assert (G : forall len' l, (l + len' = len)%nat ->
    (forall j, (j < l)%nat -> N.testbit data (N.of_nat j) = false) ->
    exists b, first_set_bit data l len' = Some b /\ (b < len)%nat).
  { induction len' as [|len' IH]; intros l Hl Hlo.
    - exfalso. apply Hnz. apply bits_ext_nat. intros j. rewrite N.bits_0.
      destruct (Nat.lt_ge_cases j l); [now apply Hlo|apply Hhi; lia].
    - cbn [first_set_bit]. destruct (N.testbit data (N.of_nat l)) eqn:E.
      + exists l. split; [reflexivity|lia].
      + apply IH; [lia|]. intros j Hj. destruct (Nat.eq_dec j l) as [->|]; [assumption|apply Hlo; lia]. }
  apply (G len 0%nat); [lia|]. intros j Hj. lia.
Qed.

(** GET_BIT as the C text computes it *)
Lemma get_bit_tb w s : 0 <= s ->
  convert tint (Z.land (Z.shiftr (Z.of_N w) s) 1 mod M64) = Z.b2z (N.testbit w (Z.to_N s)).
Proof.
  intros Hs. change 1 with (Z.ones 1) at 1. rewrite Z.land_ones by lia. change (2 ^ 1) with 2.
  rewrite <- Z.bit0_mod. rewrite Z.shiftr_spec by lia. rewrite Z.add_0_l.
  rewrite <- (Z2N.id s) at 1 by lia. rewrite Z.testbit_of_N.
  destruct (N.testbit w (Z.to_N s)); reflexivity.
Qed.

(** * Existential scratch components, instantiated late
    A goal [exists t', L = R t'] is run as [ex_res R L]: the run rewrites inside [L]; the witness is given only when
    [L] is a value (it mentions the scratch components of the loops met on the way). *)
Definition ex_res {T B : Type} (R : T -> B) (x : B) : Prop := exists t', x = R t'.
Ltac ex_late := match goal with |- exists t', ?L = @?R t' => change (ex_res R L) end.
Ltac over_close :=
  repeat match goal with
         | |- Ok _ = Ok _ => f_equal
         | |- LCont _ = LCont _ => f_equal
         | |- LStop _ = LStop _ => f_equal
         | |- ONormal _ _ = ONormal _ _ => f_equal
         | |- (_, _) = (_, _) => f_equal
         end; try reflexivity; (apply over_sub_eq; sub_solve).
Ltac ex_close := unfold ex_res; eexists; over_close.
Ltac cm_clear := repeat match goal with HK : ?K = exec _ _ _ _ |- _ => clear HK K end.
