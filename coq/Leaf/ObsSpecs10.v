(* Leaf/ObsSpecs10.v — the T1-translated writer mzd_copy_row (mzd.c:1666; CMini term
   Leaf/Gen_observers.f_mzd_copy_row, regenerated from the repository on every check run; the `assert` is compiled
   out, -DNDEBUG) computes the word-level model Word/WOps.w_copy_row, for ALL pairs of headers into the ONE word
   array (windows included, B and A may be the same matrix or overlap arbitrarily: the word-level statement needs
   no aliasing hypothesis), array contents and arguments of the documented domain; composed with
   Word/WRefine3.w_copy_row_refines (which needs [alias_ok hB hA]): the array after the run abstracts to
   Lin/Ops.copy_row, and every bit outside the view of B is unchanged.
   Conventions, harness and tactics: Leaf/AccessSpecs.v, Leaf/ObsSpecs.v; loop rule: AccessSpecs4.for_loop_mem.

   C text vs model, statement for statement (no difference found):
     width = MIN(B->width, A->width) - 1          Econd (B->width < A->width) ? B->width : A->width
     a = mzd_row_const(A, j); b = mzd_row(B, i)
     mask_end = LEFT_BITMASK(A->ncols % 64)                                       = model's [mask_end]
     if (width != 0) { for (k = 0; k < width; ++k) b[k] = a[k];     loads from the CURRENT array   = forM .. rd m ;; wr m
                       b[width] = (b[width] & ~mask_end) | (a[width] & mask_end) }   b read first  = bw <- rd ;; aw <- rd
     else              b[0] = (a[0] & mask_end) | (b[0] & ~mask_end)                 a read first  = aw <- rd ;; bw <- rd
   Under ncols A <= ncols B (the compiled-out assert) MIN(..) is A->width.
   The proof names the CMini locals by number (Gen_observers.v): 19 width, 20 a, 21 b, 22 mask_end, 23 k. *)
From Coq Require Import ZArith NArith List String Bool Lia ZifyBool ZifyNat ZifyN.
From M4 Require Import Base.Bits Lin.Mat Lin.Ops Word.WMat Word.WMatLemmas Word.WOps Word.WRefine3
  Leaf.CMini Leaf.CMiniAcc Leaf.CMiniObs Leaf.AccessSpecs Leaf.AccessSpecs4 Leaf.Gen_observers Leaf.ObsSpecs
  Leaf.ObsSpecs9.
Import ListNotations.
Local Open Scope Z_scope.
Ltac Zify.zify_post_hook ::= Z.div_mod_to_equations.

Lemma width_mono hA hB : hdr_ok hA -> hdr_ok hB -> (h_ncols hA <= h_ncols hB)%nat -> (h_width hA <= h_width hB)%nat.
Proof.
  intros (HA & _) (HB & _) H. rewrite HA, HB. apply Nat.div_le_mono; lia.
Qed.

(** * mzd_copy_row (mzd.c:1666); the array is [mm] because [mem] is also the name of a global type *)
Lemma run_mzd_copy_row d hB flB hA flA mm i j m' :
  valid hB mm -> valid hA mm -> c_dom hB flB mm -> c_dom hA flA mm ->
  (i < h_nrows hB)%nat -> (j < h_nrows hA)%nat -> (0 < h_ncols hA)%nat -> (h_ncols hA <= h_ncols hB)%nat ->
  w_copy_row hB i hA j mm = WMat.Ok m' ->
  run zops obs_prog LFUEL (S (S (S d))) "mzd_copy_row"
      (hbundle hB flB (Vint (Z.of_nat i) :: hbundle hA flA [Vint (Z.of_nat j)])) (mem_of (words mm)) =
  Ok (None, mem_of (words m')).
Proof.
  intros HvB HvA HdB HdA Hi Hj Hc0 Hc Hw.
  pose proof (valid_hdr_ok _ _ HvB) as HokB. pose proof (valid_hdr_ok _ _ HvA) as HokA.
  pose proof (valid_mem_ok _ _ HvB) as Hm.
  pose proof HdB as (B1 & B2 & B3 & B4 & B5 & B6). pose proof HdA as (A1 & A2 & A3 & A4 & _ & A6).
  pose proof (width_mono hA hB HokA HokB Hc) as HwAB.
  pose proof (width_pos_of_ncols hA HokA Hc0) as HwA.
  pose proof (left_bitmask_lt (h_ncols hA mod 64)) as Hlb.
  set (W := (h_width hA - 1)%nat).
  assert (HkA : (W < h_width hA)%nat) by (unfold W; lia).
  assert (HkB : (W < h_width hB)%nat) by (unfold W; lia).
  destruct (dom_facts hA flA mm j W HvA HdA Hj HkA) as (HpA & HriA & HraA & HbigA & HiiA).
  destruct (dom_facts hB flB mm i W HvB HdB Hi HkB) as (HpB & HriB & HraB & HbigB & HiiB).
  unfold w_copy_row in Hw. rewrite Nat.min_r in Hw by exact HwAB.
  destruct (Nat.eqb_spec (h_width hA) 0) as [?|_]; [lia|]. cbv zeta in Hw. fold W in Hw.
  set (a := row_addr hA j) in *. set (b := row_addr hB i) in *.
  unfold hbundle.
  co_enter "mzd_copy_row"%string f_mzd_copy_row.
  destruct (Nat.eqb_spec W 0) as [HW0|HW0]; cbn [negb] in Hw.
  - cm_run. rewrite run_mzd_row_const_o by lia. cm_run. rewrite run_mzd_row_o by lia. cm_run.
    rewrite left_bitmask_Zc, HraA, HraB, !Z.add_0_r.
    rewrite !rd_ok in Hw by lia. cbn [WMat.bind] in Hw. rewrite wr_ok in Hw by lia.
    apply wok_inj in Hw. subst m'. wfin.
  - assert (HzW : Z.of_nat (h_width hA) - 1 = Z.of_nat W) by (unfold W; lia).
    destruct (bind_inv _ _ _ Hw) as (m1 & Hfor & Hw1). clear Hw.
    cm_run. rewrite run_mzd_row_const_o by lia. cm_run. rewrite run_mzd_row_o by lia. cm_run.
    rewrite left_bitmask_Zc, HraA, HraB, HzW. cm_release.
    match goal with |- context [exec zops ?cl LFUEL (Sloop ?cd ?bd ?st) ?E0 ?M0] =>
      pose (E := fun (k : nat) (tv : @val Z) => tset 23%positive (Vint (Z.of_nat k)) E0);
      change E0 with (E 0%nat Vundef);
      destruct (for_loop_mem cl cd bd st E (E W) W
                  (fun k m => x <- rd m (a + k) ;; wr m (b + k) x)%nat
                  (List.length mm)) with (mem := mm) (m1 := m1) (tv0 := @Vundef Z) as (Hl1 & Hok1 & tv & Hloop)
    end.
    { intros k tv mk mk' Hkk Hl Hmk HF.
      pose proof (valid_word hA mm j k HvA Hj ltac:(lia)) as Hak.
      pose proof (valid_word hB mm i k HvB Hi ltac:(lia)) as Hbk. fold a in Hak. fold b in Hbk.
      rewrite rd_ok in HF by lia. cbn [WMat.bind] in HF. rewrite wr_ok in HF by lia.
      apply wok_inj in HF. subst mk'.
      split; [now rewrite !upd_length|]. split; [now repeat apply mem_ok_upd|].
      exists (@Vundef Z). rewrite loop_step_Some. unfold E. cm_run.
      replace (Z.of_nat k + 1) with (Z.of_nat (S k)) by lia.
      do 3 f_equal. rewrite !trunc_id by (now apply mem_ok_word). wfin. }
    { intros tv mk Hl Hmk. rewrite loop_step_Some. unfold E. cm_run. reflexivity. }
    { unfold W. lia. }
    { reflexivity. }
    { assumption. }
    { exact Hfor. }
    rewrite Hloop. unfold E. cm_run.
    rewrite !rd_ok in Hw1 by lia. cbn [WMat.bind] in Hw1. rewrite wr_ok in Hw1 by lia.
    apply wok_inj in Hw1. subst m'. wfin.
Qed.

Lemma wr_len m0 p v m1 : wr m0 p v = WMat.Ok m1 -> List.length m1 = List.length m0.
Proof.
  unfold wr. intros H. destruct (Nat.ltb_spec p (List.length m0)); [|discriminate].
  apply wok_inj in H. subst m1. apply upd_length.
Qed.

Lemma forM_len (body : nat -> list N -> WMat.res (list N)) l :
  (forall k m m2, body k m = WMat.Ok m2 -> List.length m2 = List.length m) ->
  forall m0 m1, forM l body m0 = WMat.Ok m1 -> List.length m1 = List.length m0.
Proof.
  intros Hb. induction l as [|x l IH]; intros m0 m1 H; cbn [forM] in H.
  - apply wok_inj in H. now subst.
  - destruct (bind_inv _ _ _ H) as (m2 & H2 & H3). rewrite (IH _ _ H3). exact (Hb _ _ _ H2).
Qed.

Lemma w_copy_row_ok_len hB hA mm i j m' :
  w_copy_row hB i hA j mm = WMat.Ok m' -> List.length m' = List.length mm.
Proof.
  intros Hw. unfold w_copy_row in Hw.
  destruct (Nat.min (h_width hB) (h_width hA) =? 0)%nat; [discriminate|]. cbv zeta in Hw.
  destruct (negb (Nat.min (h_width hB) (h_width hA) - 1 =? 0)%nat).
  - destruct (bind_inv _ _ _ Hw) as (m1 & H1 & Hw1). destruct (bind_inv _ _ _ Hw1) as (bw & _ & Hw2).
    destruct (bind_inv _ _ _ Hw2) as (aw & _ & Hw3). rewrite (wr_len _ _ _ _ Hw3).
    revert H1. apply forM_len. intros k m m2 HF. destruct (bind_inv _ _ _ HF) as (x & _ & Hwr).
    exact (wr_len _ _ _ _ Hwr).
  - destruct (bind_inv _ _ _ Hw) as (aw & _ & Hw1). destruct (bind_inv _ _ _ Hw1) as (bw & _ & Hw2).
    exact (wr_len _ _ _ _ Hw2).
Qed.

(** the C text computes the word-level model (no aliasing hypothesis: whatever the overlap of the two views, the
    C text and the model perform the same loads and stores in the same order) *)
Theorem obs_copy_row_w hB flB hA flA mem i j m' :
  valid hB mem -> valid hA mem -> c_dom hB flB mem -> c_dom hA flA mem ->
  (i < h_nrows hB)%nat -> (j < h_nrows hA)%nat -> (0 < h_ncols hA)%nat -> (h_ncols hA <= h_ncols hB)%nat ->
  w_copy_row hB i hA j mem = WMat.Ok m' ->
  run_obs "mzd_copy_row" (hbundle hB flB (Vint (Z.of_nat i) :: hbundle hA flA [Vint (Z.of_nat j)])) (words mem) =
  Ok (None, words m').
Proof.
  intros HvB HvA HdB HdA Hi Hj Hc0 Hc Hw. apply run_obs_intro.
  - rewrite !words_length. exact (w_copy_row_ok_len hB hA mem i j m' Hw).
  - change DEPTH with (S (S (S 9))). now apply run_mzd_copy_row.
Qed.

(** ... and hence the matrix-level specification, for a source that is the destination itself or shares no word
    with it: row i of B receives the ncols(A) columns of row j of A and keeps its other columns; nothing outside
    the view of B changes *)
Theorem mzd_copy_row_spec hB flB hA flA mem i j :
  valid hB mem -> valid hA mem -> c_dom hB flB mem -> c_dom hA flA mem ->
  (i < h_nrows hB)%nat -> (j < h_nrows hA)%nat -> (0 < h_ncols hA)%nat -> (h_ncols hA <= h_ncols hB)%nat ->
  alias_ok hB hA ->
  exists m', run_obs "mzd_copy_row" (hbundle hB flB (Vint (Z.of_nat i) :: hbundle hA flA [Vint (Z.of_nat j)]))
                     (words mem) = Ok (None, words m') /\
    List.length m' = List.length mem /\ mem_ok m' /\
    abs hB m' = copy_row (abs hB mem) i (abs hA mem) j /\ outside hB mem m'.
Proof.
  intros HvB HvA HdB HdA Hi Hj Hc0 Hc Al.
  destruct (w_copy_row_refines hB i hA j mem HvB HvA Hi Hj Hc0 Hc Al) as (m' & E & L & O & A & F).
  exists m'. split; [now apply obs_copy_row_w|]. auto.
Qed.

(** the hypotheses are satisfiable: two 2 x 70 windows (columns 64..133) of ONE 4 x 200 matrix, B = rows 0..1
    (offset 1), A = rows 2..3 (offset 9); they share no word; the last word of each window row holds 58 foreign
    bits of the parent.  Equal headers satisfy [alias_ok] too. *)
Definition cr_hB : hdr := window_hdr (init_hdr 4 200) 0 64 2 134.
Definition cr_hA : hdr := window_hdr (init_hdr 4 200) 2 64 4 134.
(** B's half of the parent all ones; row 1 of A = words 13, 14: 70 columns 0xABCD, 0x15 and the foreign bit 2^40 *)
Definition cr_mem : list N :=
  (repeat ffff 8 ++ [0; 0; 0; 0; 0; 43981; 21 + 2 ^ 40; 0])%N.

Lemma cr_disjoint : wdisjoint cr_hB cr_hA.
Proof.
  intros p (i & k & Hi & Hk & ->) (i' & k' & Hi' & Hk' & E). revert E.
  unfold row_addr. change (h_off cr_hB) with 1%nat. change (h_rowstride cr_hB) with 4%nat.
  change (h_off cr_hA) with 9%nat. change (h_rowstride cr_hA) with 4%nat.
  change (h_nrows cr_hB) with 2%nat in Hi. change (h_width cr_hB) with 2%nat in Hk. lia.
Qed.

Example obs_copy_row_dom_example :
  valid cr_hB cr_mem /\ valid cr_hA cr_mem /\ c_dom cr_hB 4 cr_mem /\ c_dom cr_hA 4 cr_mem /\
  (1 < h_nrows cr_hB)%nat /\ (1 < h_nrows cr_hA)%nat /\ (0 < h_ncols cr_hA)%nat /\
  (h_ncols cr_hA <= h_ncols cr_hB)%nat /\ alias_ok cr_hB cr_hA /\ alias_ok cr_hB cr_hB /\
  h_off cr_hB = 1%nat /\ h_off cr_hA = 9%nat /\ h_ncols cr_hA = 70%nat.
Proof.
  split; [apply validb_spec; reflexivity|]. split; [apply validb_spec; reflexivity|].
  split; [unfold c_dom; cbn; lia|]. split; [unfold c_dom; cbn; lia|].
  split; [cbn; lia|]. split; [cbn; lia|]. split; [cbn; lia|]. split; [cbn; lia|].
  split; [right; exact cr_disjoint|]. split; [left; reflexivity|]. cbn. auto.
Qed.

(** one run of the CMini term: row 1 of A into row 1 of B.  Word 5 := word 13; in word 6 the six columns 64..69
    become 0x15 while the 58 foreign bits of the parent above them survive (all ones), and the foreign bit 2^40 of
    A's last word is not copied; all other words are unchanged *)
Example obs_copy_row_run :
  run_obs "mzd_copy_row" (hbundle cr_hB 4 (Vint 1 :: hbundle cr_hA 4 [Vint 1])) (words cr_mem) =
  Ok (None, [18446744073709551615; 18446744073709551615; 18446744073709551615; 18446744073709551615;
             18446744073709551615; 43981; 18446744073709551573; 18446744073709551615;
             0; 0; 0; 0; 0; 43981; 1099511627797; 0]).
Proof. vm_compute. reflexivity. Qed.

(** a run with B = A (equal headers, the window of rows 2..3): row 1 into row 0; word 9 := word 13, in word 10
    only the six columns 64..69 are written *)
Example obs_copy_row_run_same :
  run_obs "mzd_copy_row" (hbundle cr_hA 4 (Vint 0 :: hbundle cr_hA 4 [Vint 1])) (words cr_mem) =
  Ok (None, [18446744073709551615; 18446744073709551615; 18446744073709551615; 18446744073709551615;
             18446744073709551615; 18446744073709551615; 18446744073709551615; 18446744073709551615;
             0; 43981; 21; 0; 0; 43981; 1099511627797; 0]).
Proof. vm_compute. reflexivity. Qed.
