(* Leaf/AccessSpecs7.v — mzd_col_swap_in_rows (mzd.h:325), part 1: the general counted-loop lemma [for_loop_gen]
   (scratch state), loops of the form while (1) { ...; break; }, and the branch of the T1-translated function for
   two columns in DIFFERENT words (a_word != b_word): it computes the word-level model
   Word/WOps.w_col_swap_in_rows.  Conventions: Leaf/AccessSpecs.v.  The proof names CMini variables of
   Leaf/Gen_access.v by number (25 count, 33 min_ptr, 36 xor_v, 37 the loop-condition temporary). *)
From Coq Require Import ZArith NArith List String Bool Lia ZifyBool ZifyNat ZifyN.
From M4 Require Import Base.Bits Lin.Mat Lin.Ops Word.WMat Word.WMatLemmas Word.WOps
  Leaf.CMini Leaf.CMiniAcc Leaf.Gen_access Leaf.AccessSpecs Leaf.AccessSpecs4.
Import ListNotations.
Local Open Scope Z_scope.
Ltac Zify.zify_post_hook ::= Z.div_mod_to_equations.

(** * Counted loops, general form: a scratch state [T] (locals that change in every iteration, a local array) *)
Section ForLoopG.
  Variable call : string -> list (@val Z) -> @CMini.mem Z -> res (option (@val Z) * @CMini.mem Z).
  Variables (c : option expr) (body step : stmt).
  Variable T : Type.
  Variable E : nat -> T -> @env Z.               (* the environment before iteration k *)
  Variable Efin : T -> @env Z.                   (* the environment after the loop *)
  Variable MM : T -> list Z -> @CMini.mem Z.     (* the memory: the word array and what else the scratch state describes *)
  Variable n : nat.
  Variable F : nat -> list N -> WMat.res (list N).
  Variable L : nat.
  Let f := loop_step zops c (exec zops call LFUEL body) (exec zops call LFUEL step).

  Hypothesis Hiter : forall k t mk mk', (k < n)%nat -> List.length mk = L -> mem_ok mk -> F k mk = WMat.Ok mk' ->
    List.length mk' = L /\ mem_ok mk' /\
    exists t', f (E k t, MM t (words mk)) = Ok (LCont (E (S k) t', MM t' (words mk'))).
  Hypothesis Hstop : forall t mk, List.length mk = L -> mem_ok mk ->
    exists t', f (E n t, MM t (words mk)) = Ok (LStop (ONormal (Efin t') (MM t' (words mk)))).
  Hypothesis Hn : Z.of_nat n < 2 ^ 48.

  Lemma for_loop_gen mem0 m1 t0 : List.length mem0 = L -> mem_ok mem0 ->
    forM (seq 0 n) F mem0 = WMat.Ok m1 ->
    List.length m1 = L /\ mem_ok m1 /\
    exists t, exec zops call LFUEL (Sloop c body step) (E 0 t0) (MM t0 (words mem0)) =
              Ok (ONormal (Efin t) (MM t (words m1))).
  Proof.
    intros HL Hok Hfor.
    set (P := fun (k : nat) (s : @env Z * @CMini.mem Z) =>
                exists t mk, s = (E k t, MM t (words mk)) /\ List.length mk = L /\ mem_ok mk /\
                             forM (seq k (n - k)) F mk = WMat.Ok m1).
    assert (Hstep : forall k s, (k < n)%nat -> P k s -> exists s', f s = Ok (LCont s') /\ P (S k) s').
    { intros k s Hk (t & mk & -> & Hl & Hm & Hf).
      replace (n - k)%nat with (S (n - S k)) in Hf by lia. rewrite forM_cons in Hf.
      destruct (bind_inv _ _ _ Hf) as (mk' & HF & Hf').
      destruct (Hiter k t mk mk' Hk Hl Hm HF) as (Hl' & Hm' & t' & Hs).
      eexists. split; [exact Hs|]. exists t', mk'. auto. }
    destruct (reach_for f P n Hstep n 0%nat (E 0 t0, MM t0 (words mem0)) ltac:(lia)) as (sN & (t & mk & -> & Hl & Hm & Hf) & Hr).
    { exists t0, mem0. rewrite Nat.sub_0_r. auto. }
    rewrite Nat.sub_diag in Hf. cbn [seq forM] in Hf. apply wok_inj in Hf. subst mk.
    split; [assumption|]. split; [assumption|].
    destruct (Hstop t m1 Hl Hm) as (t' & Hs). exists t'.
    apply (exec_Sloop_reach call LFUEL c body step _ _ n).
    - apply Hr. exact Hs.
    - now apply lfuel_enough.
  Qed.
End ForLoopG.

(** a loop  while (1) { ...; break; } *)
Lemma exec_loop_once call c body step e m e' m' :
  loop_step zops c (exec zops call LFUEL body) (exec zops call LFUEL step) (e, m) = Ok (LStop (ONormal e' m')) ->
  exec zops call LFUEL (Sloop c body step) e m = Ok (ONormal e' m').
Proof.
  intros H. apply (exec_Sloop_reach call LFUEL c body step e m 0).
  - now constructor.
  - apply lfuel_enough. reflexivity.
Qed.

Lemma mul_bound rs r n len : 0 <= rs -> 0 <= r <= n -> 1 <= n -> rs * (n - 1) <= len -> 0 <= rs * r <= len + rs.
Proof. intros. split; nia. Qed.

Lemma if_max a b : (if (if b <? a then 1 else 0) =? 0 then @Ok (@val Z) (Vint b) else Ok (Vint a)) = Ok (Vint (Z.max a b)).
Proof. destruct (Z.ltb_spec b a); cbn; f_equal; f_equal; lia. Qed.

Ltac env_eq :=
  repeat match goal with
         | |- TNode _ _ _ = TNode _ _ _ => f_equal
         | |- Some _ = Some _ => f_equal
         | |- Vint _ = Vint _ => f_equal
         end; try reflexivity; try lia.

Lemma run_col_swap_diff d h fl mem cola colb r0 r1 m' :
  valid h mem -> c_dom h fl mem -> (cola < h_ncols h)%nat -> (colb < h_ncols h)%nat -> (r0 <= r1)%nat -> (r1 <= h_nrows h)%nat ->
  (cola / 64 <> colb / 64)%nat ->
  w_col_swap_in_rows h cola colb r0 r1 mem = WMat.Ok m' ->
  run zops access_prog LFUEL (S (S d)) "mzd_col_swap_in_rows"
      (hbundle h fl [Vint (Z.of_nat cola); Vint (Z.of_nat colb); Vint (Z.of_nat r0); Vint (Z.of_nat r1)]) (mem_of (words mem)) =
  Ok (None, mem_of (words m')).
Proof.
  intros Hv Hd Ha Hb Hr01 Hr1 Hab Hw. pose proof (valid_hdr_ok _ _ Hv) as Hok. pose proof (valid_mem_ok _ _ Hv) as Hm.
  pose proof Hd as (D1 & D2 & D3 & D4 & D5 & D6). pose proof Hok as (Hwd & _ & Hrs).
  unfold w_col_swap_in_rows in Hw. unfold hbundle.
  destruct (Nat.eqb_spec cola colb) as [Eab|Nab]; [subst; lia|]. cbv zeta in Hw.
  assert (Hwpos : (0 < h_width h)%nat) by (pose proof (width_pos h cola Hok Ha); lia).
  assert (Hrr : 0 <= Z.of_nat (h_rowstride h) * Z.of_nat r0 <= Z.of_nat (List.length mem) + Z.of_nat (h_rowstride h)).
  { destruct (Nat.eq_dec (h_nrows h) 0) as [E0|N0]; [replace r0 with 0%nat by lia; lia|].
    destruct (dom_facts h fl mem (h_nrows h - 1) 0 Hv Hd ltac:(lia) Hwpos) as (_ & Hx & _).
    apply (mul_bound _ _ (Z.of_nat (h_nrows h))); try lia.
    replace (Z.of_nat (h_nrows h) - 1) with (Z.of_nat (h_nrows h - 1)) by lia. lia. }
  destruct (Nat.eqb_spec (r1 - r0) 0) as [Ec|Nc].
  { apply wok_inj in Hw. subst m'.
    cm_enter "mzd_col_swap_in_rows"%string f_mzd_col_swap_in_rows. cm_run.
    rewrite run_mzd_row by lia. cm_run. rewrite if_max. cm_run. reflexivity. }
  destruct (Nat.eqb_spec (cola / 64) (colb / 64)) as [Ew|_]; [lia|].
  assert (Hr0 : (r0 < h_nrows h)%nat) by lia.
  destruct (dom_facts h fl mem r0 0 Hv Hd Hr0 Hwpos) as (_ & _ & Hra0 & Hbig0 & Hii0).
  set (ab := (cola mod 64)%nat) in *. set (bb := (colb mod 64)%nat) in *.
  set (aw := (cola / 64)%nat) in *. set (bw := (colb / 64)%nat) in *.
  assert (Hawl : (aw < h_width h)%nat) by (apply width_pos; assumption).
  assert (Hbwl : (bw < h_width h)%nat) by (apply width_pos; assumption).
  set (cnt := (r1 - r0)%nat) in *.
  set (amin := (ab <=? bb)%nat).
  assert (Hamin : (ab + bb - Nat.max ab bb =? ab)%nat = amin) by (unfold amin; lia).
  rewrite !Hamin in Hw.
  set (wmin := if amin then aw else bw) in *. set (wmax := if amin then bw else aw) in *.
  assert (Hzab : Z.of_nat cola mod 64 = Z.of_nat ab) by (unfold ab; lia).
  assert (Hzbb : Z.of_nat colb mod 64 = Z.of_nat bb) by (unfold bb; lia).
  assert (Hzaw : Z.of_nat cola / 64 = Z.of_nat aw) by (unfold aw; lia).
  assert (Hzbw : Z.of_nat colb / 64 = Z.of_nat bw) by (unfold bw; lia).
  assert (Hab64 : (ab < 64)%nat) by (unfold ab; lia). assert (Hbb64 : (bb < 64)%nat) by (unfold bb; lia).
  cm_enter "mzd_col_swap_in_rows"%string f_mzd_col_swap_in_rows. cm_run.
  rewrite run_mzd_row by lia. rewrite Hzab, Hzbb, Hzaw, Hzbw, Hra0. cm_run. rewrite if_max. cm_run.
  set (mx := Nat.max ab bb) in *. set (mn := (ab + bb - mx)%nat) in *. set (offs := (mx - mn)%nat) in *.
  replace (Z.max (Z.of_nat ab) (Z.of_nat bb)) with (Z.of_nat mx) by (unfold mx; lia).
  replace (Z.of_nat ab + Z.of_nat bb - Z.of_nat mx) with (Z.of_nat mn) by (unfold mn, mx; lia).
  replace (Z.of_nat mx - Z.of_nat mn) with (Z.of_nat offs) by (unfold offs, mn, mx; lia).
  replace (Z.of_nat r1 - Z.of_nat r0) with (Z.of_nat cnt) by (unfold cnt; lia).
  set (p0 := row_addr h r0) in *.
  assert (Hcnt : exists c', cnt = S c') by (exists (cnt - 1)%nat; lia).
  assert (Hoffs : (offs < 64)%nat) by (unfold offs, mn, mx; lia). assert (Hmn : (mn < 64)%nat) by (unfold mn, mx; lia).
  assert (Hcn : (r0 + cnt <= h_nrows h)%nat) by (unfold cnt; lia).
  assert (Hmm : (ab <= bb /\ mn = ab /\ mx = bb \/ bb < ab /\ mn = bb /\ mx = ab)%nat) by (unfold mn, mx; lia).
  clear Hwd Hzab Hzbb Hzaw Hzbw Hamin Hr01 Hr1 Nc Ha Hb Nab Hrr Hra0.
  clearbody ab bb aw bw cnt mx mn offs. destruct Hcnt as (c' & ->). set (cnt := S c') in *.
  assert (Hcase : (amin = true /\ (ab <= bb)%nat) \/ (amin = false /\ (bb < ab)%nat)).
  { unfold amin. destruct (Nat.leb_spec ab bb); [left|right]; split; auto. }
  destruct Hcase as [[Ea Hle]|[Ea Hgt]]; unfold wmin, wmax in Hw; rewrite Ea in Hw; clear wmin wmax.
  - cbv beta iota in Hw. cm_run. cm_release.
    match goal with |- context [exec zops ?cl LFUEL (Sloop ?cd ?bd ?st) ?E0 ?MM] =>
      set (X := loop_step zops cd (exec zops cl LFUEL bd) (exec zops cl LFUEL st) (E0, MM))
    end.
    eassert (Hpre : X = _).
    { unfold X. rewrite (loop_step_Some zops). cm_run. cm_release.
      replace (Z.of_nat cnt - Z.of_nat cnt) with 0 by lia.
      repeat match goal with HK : ?K = exec _ _ _ _ |- _ => subst K end. reflexivity. }
    match type of Hpre with context [exec zops ?cl LFUEL (Sloop ?cd ?bd ?st) ?E0 ?MM] =>
        pose (E := fun (k : nat) (t : @val Z * @val Z) =>
                     let e1 := tset 37%positive (fst t) (tset 33%positive (Vint (Z.of_nat p0 + Z.of_nat aw + Z.of_nat k * Z.of_nat (h_rowstride h)))
                                 (tset 25%positive (Vint (Z.of_nat cnt - Z.of_nat k)) E0)) in
                     match k with O => e1 | S _ => tset 36%positive (snd t) e1 end);
        assert (HE0 : E0 = E 0%nat (Vundef, Vundef)) by (unfold E; cbn [tset fst snd]; env_eq);
        destruct (for_loop_gen cl cd bd st _ E
                    (fun t => tset 25%positive (Vint (-1)) (tset 37%positive (Vint 0) (E cnt t)))
                    (fun _ ws => mem_of ws) cnt
                    (fun r m => let pmin := p0 + aw + r * h_rowstride h in
                                let pmax := p0 + bw + r * h_rowstride h in
                                lo <- rd m pmin ;; hi <- rd m pmax ;;
                                let xor_v := N.land (N.lxor lo (shr hi offs)) (shl 1 mn) in
                                lo' <- rd m pmin ;; m1 <- wr m pmin (N.lxor lo' xor_v) ;;
                                hi' <- rd m1 pmax ;; wr m1 pmax (N.lxor hi' (shl xor_v offs)))%nat
                    (List.length mem)) with (mem0 := mem) (m1 := m') (t0 := (@Vundef Z, @Vundef Z)) as (Hl1 & Hok1 & t & Hloop)
    end.
    { (* one iteration *)
      intros k t mk mk' Hkk Hl Hmk HF. cbv zeta in HF.
      assert (Hrow : (r0 + k < h_nrows h)%nat) by lia.
      pose proof (valid_word h mem (r0 + k) aw Hv Hrow Hawl) as Hpa.
      pose proof (valid_word h mem (r0 + k) bw Hv Hrow Hbwl) as Hpb.
      assert (Hea : (p0 + aw + k * h_rowstride h = row_addr h (r0 + k) + aw)%nat) by (unfold p0, row_addr; lia).
      assert (Heb : (p0 + bw + k * h_rowstride h = row_addr h (r0 + k) + bw)%nat) by (unfold p0, row_addr; lia).
      rewrite !rd_ok in HF by lia. cbn [WMat.bind] in HF. rewrite wr_ok in HF by lia. cbn [WMat.bind] in HF.
      rewrite rd_ok in HF by (rewrite upd_length; lia). cbn [WMat.bind] in HF.
      rewrite wr_ok in HF by (rewrite upd_length; lia). apply wok_inj in HF. subst mk'.
      rewrite word_at_upd_neq by lia.
      split; [now rewrite !upd_length|]. split; [now repeat apply mem_ok_upd|].
      eexists (_, _). rewrite (loop_step_None zops). unfold E. destruct k; cbn [fst snd]; cm_run.
      all: do 3 f_equal; [cbn [tset]; env_eq | wfin]. }
    { (* exit *)
      intros t mk Hl Hmk. exists t. rewrite (loop_step_None zops). unfold E, cnt. cbn [fst snd]. cm_run.
      replace (Z.of_nat (S c') - Z.of_nat (S c')) with 0 by lia.
      cm_run. do 3 f_equal; try (cbn [tset]; env_eq). }
    { unfold cnt in *. lia. }
    { reflexivity. }
    { assumption. }
    { exact Hw. }
    eassert (Hpost : X = _).
    { rewrite Hpre, HE0, Hloop. cm_run. reflexivity. }
    unfold X in Hpost. rewrite (exec_loop_once _ _ _ _ _ _ _ _ Hpost). cm_run. reflexivity.
  - cbv beta iota in Hw. cm_run. cm_release.
    match goal with |- context [exec zops ?cl LFUEL (Sloop ?cd ?bd ?st) ?E0 ?MM] =>
      set (X := loop_step zops cd (exec zops cl LFUEL bd) (exec zops cl LFUEL st) (E0, MM))
    end.
    eassert (Hpre : X = _).
    { unfold X. rewrite (loop_step_Some zops). cm_run. cm_release.
      replace (Z.of_nat cnt - Z.of_nat cnt) with 0 by lia.
      repeat match goal with HK : ?K = exec _ _ _ _ |- _ => subst K end. reflexivity. }
    match type of Hpre with context [exec zops ?cl LFUEL (Sloop ?cd ?bd ?st) ?E0 ?MM] =>
        pose (E := fun (k : nat) (t : @val Z * @val Z) =>
                     let e1 := tset 37%positive (fst t) (tset 33%positive (Vint (Z.of_nat p0 + Z.of_nat bw + Z.of_nat k * Z.of_nat (h_rowstride h)))
                                 (tset 25%positive (Vint (Z.of_nat cnt - Z.of_nat k)) E0)) in
                     match k with O => e1 | S _ => tset 36%positive (snd t) e1 end);
        assert (HE0 : E0 = E 0%nat (Vundef, Vundef)) by (unfold E; cbn [tset fst snd]; env_eq);
        destruct (for_loop_gen cl cd bd st _ E
                    (fun t => tset 25%positive (Vint (-1)) (tset 37%positive (Vint 0) (E cnt t)))
                    (fun _ ws => mem_of ws) cnt
                    (fun r m => let pmin := p0 + bw + r * h_rowstride h in
                                let pmax := p0 + aw + r * h_rowstride h in
                                lo <- rd m pmin ;; hi <- rd m pmax ;;
                                let xor_v := N.land (N.lxor lo (shr hi offs)) (shl 1 mn) in
                                lo' <- rd m pmin ;; m1 <- wr m pmin (N.lxor lo' xor_v) ;;
                                hi' <- rd m1 pmax ;; wr m1 pmax (N.lxor hi' (shl xor_v offs)))%nat
                    (List.length mem)) with (mem0 := mem) (m1 := m') (t0 := (@Vundef Z, @Vundef Z)) as (Hl1 & Hok1 & t & Hloop)
    end.
    { (* one iteration *)
      intros k t mk mk' Hkk Hl Hmk HF. cbv zeta in HF.
      assert (Hrow : (r0 + k < h_nrows h)%nat) by lia.
      pose proof (valid_word h mem (r0 + k) aw Hv Hrow Hawl) as Hpa.
      pose proof (valid_word h mem (r0 + k) bw Hv Hrow Hbwl) as Hpb.
      assert (Hea : (p0 + aw + k * h_rowstride h = row_addr h (r0 + k) + aw)%nat) by (unfold p0, row_addr; lia).
      assert (Heb : (p0 + bw + k * h_rowstride h = row_addr h (r0 + k) + bw)%nat) by (unfold p0, row_addr; lia).
      rewrite !rd_ok in HF by lia. cbn [WMat.bind] in HF. rewrite wr_ok in HF by lia. cbn [WMat.bind] in HF.
      rewrite rd_ok in HF by (rewrite upd_length; lia). cbn [WMat.bind] in HF.
      rewrite wr_ok in HF by (rewrite upd_length; lia). apply wok_inj in HF. subst mk'.
      rewrite word_at_upd_neq by lia.
      split; [now rewrite !upd_length|]. split; [now repeat apply mem_ok_upd|].
      eexists (_, _). rewrite (loop_step_None zops). unfold E. destruct k; cbn [fst snd]; cm_run.
      all: do 3 f_equal; [cbn [tset]; env_eq | wfin]. }
    { (* exit *)
      intros t mk Hl Hmk. exists t. rewrite (loop_step_None zops). unfold E, cnt. cbn [fst snd]. cm_run.
      replace (Z.of_nat (S c') - Z.of_nat (S c')) with 0 by lia.
      cm_run. do 3 f_equal; try (cbn [tset]; env_eq). }
    { unfold cnt in *. lia. }
    { reflexivity. }
    { assumption. }
    { exact Hw. }
    eassert (Hpost : X = _).
    { rewrite Hpre, HE0, Hloop. cm_run. reflexivity. }
    unfold X in Hpost. rewrite (exec_loop_once _ _ _ _ _ _ _ _ Hpost). cm_run. reflexivity.
Qed.
