(* Leaf/ObsSpecs4.v — mzd_cmp (mzd.c:1352), T1-translated (Leaf/Gen_observers.v), computes the word-level model
   Word/WOps.w_cmp for all headers and array contents of the domain (conventions: Leaf/ObsSpecs.v, ObsSpecs3.v).
   Per row: the masked last words are compared first, then the words n-1 .. 0 (iteration kk of the inner loop
   handles word n - 1 - kk).  Result -1 / 0 / 1 = [cz] of Lt / Eq / Gt.
   CMini variables: 1-8 = A, 9-16 = B, 17 = mask_end, 18 = n, 19 = i, 20 = rowa, 21 = rowb, 22 = j. *)
From Coq Require Import ZArith NArith List String Bool Lia ZifyBool ZifyNat ZifyN.
From M4 Require Import Base.Bits Lin.Mat Lin.Ops Word.WMat Word.WMatLemmas Word.WOps
  Leaf.CMini Leaf.CMiniAcc Leaf.CMiniObs Leaf.AccessSpecs Leaf.Gen_observers Leaf.ObsSpecs.
Import ListNotations.
Local Open Scope Z_scope.
Ltac Zify.zify_post_hook ::= Z.div_mod_to_equations.

Definition cz (c : comparison) : Z := match c with Lt => -1 | Eq => 0 | Gt => 1 end.

Lemma truth_of_bool (b : bool) : negb ((if b then 1 else 0) =? 0) = b.
Proof. destruct b; reflexivity. Qed.

Theorem obs_cmp_w hA flA hB flB mem c :
  valid hA mem -> valid hB mem -> c_dom hA flA mem -> c_dom hB flB mem -> (0 < h_width hA)%nat ->
  w_cmp hA hB mem = WMat.Ok c ->
  run_obs "mzd_cmp" (hbundle hA flA (hbundle hB flB [])) (words mem) = Ok (Some (cz c), words mem).
Proof.
  intros HvA HvB HdA HdB Hw0 Hw.
  pose proof (valid_hdr_ok _ _ HvA) as HokA. pose proof (valid_hdr_ok _ _ HvB) as HokB.
  pose proof (valid_mem_ok _ _ HvA) as Hm.
  pose proof HdA as (A1 & A2 & A3 & A4 & A5 & A6). pose proof HdB as (B1 & B2 & B3 & B4 & B5 & B6).
  pose proof HokA as (HwdA & _ & HrsA). pose proof HokB as (HwdB & _ & HrsB).
  pose proof (hmask_lt hA HokA) as Hhm.
  apply run_obs_intro; [reflexivity|]. unfold hbundle. change DEPTH with (S (S (S 9))).
  co_enter "mzd_cmp"%string f_mzd_cmp.
  unfold w_cmp in Hw.
  destruct (Nat.ltb_spec (h_nrows hA) (h_nrows hB)); [apply wok_inj in Hw; subst c; cm_run; reflexivity|].
  destruct (Nat.ltb_spec (h_nrows hB) (h_nrows hA)); [apply wok_inj in Hw; subst c; cm_run; reflexivity|].
  destruct (Nat.ltb_spec (h_ncols hA) (h_ncols hB)); [apply wok_inj in Hw; subst c; cm_run; reflexivity|].
  destruct (Nat.ltb_spec (h_ncols hB) (h_ncols hA)); [apply wok_inj in Hw; subst c; cm_run; reflexivity|].
  assert (En : h_nrows hA = h_nrows hB) by lia. assert (Ec : h_ncols hA = h_ncols hB) by lia.
  assert (Eww : h_width hB = h_width hA) by (rewrite HwdA, HwdB, Ec; reflexivity).
  destruct (Nat.eqb_spec (h_width hA) 0) as [?|_]; [lia|]. cbn [andb] in Hw. cbv zeta in Hw.
  destruct (bind_inv _ _ _ Hw) as (r & Hfirst & Hr). apply wok_inj in Hr. subst c. clear Hw.
  apply iterG_firstM in Hfirst.
  cm_run. cm_release.
  match goal with |- context [exec zops ?cl LFUEL (Sloop ?cd ?bd ?st) ?E0 ?M0] =>
    pose (E := fun (k : nat) (_ : unit) (t : option (@val Z * @val Z * @val Z)) =>
      @pair (@env Z) (@CMini.mem Z) (match t with
       | None => tset 19%positive (Vint (Z.of_nat k)) E0
       | Some (a, b, c) => tset 22%positive c (tset 21%positive b (tset 20%positive a
                             (tset 19%positive (Vint (Z.of_nat k)) E0)))
       end) M0);
    change (exec zops cl LFUEL (Sloop cd bd st) E0 M0)
      with (exec zops cl LFUEL (Sloop cd bd st) (fst (E 0%nat tt None)) (snd (E 0%nat tt None)));
    match type of Hfirst with iterG ?G _ _ _ = _ =>
      destruct (loop_gen' cl cd bd st unit (option (@val Z * @val Z * @val Z)) comparison E (h_nrows hA) G
                  (fun v => OReturn (Some (Vint (cz v))) M0)
                  (fun _ t => ONormal (fst (E (h_nrows hA) tt t)) M0)
                  (fun _ _ => True)) with (s0 := tt) (t0 := @None (@val Z * @val Z * @val Z)) (x := opt_sum r) as (t & Hloop & _)
    end
  end.
  { intros k [] t y Hk _ HG.
    assert (HkB : (k < h_nrows hB)%nat) by lia.
    assert (Hkw : (h_width hA - 1 < h_width hA)%nat) by lia.
    assert (HkwB : (h_width hA - 1 < h_width hB)%nat) by lia.
    destruct (dom_facts hA flA mem k (h_width hA - 1) HvA HdA Hk Hkw) as (HpA & HriA & HraA & HbigA & HiiA).
    destruct (dom_facts hB flB mem k (h_width hA - 1) HvB HdB HkB HkwB) as (HpB & HriB & HraB & HbigB & HiiB).
    destruct (bind_inv _ _ _ HG) as (x & Hg & Hy). apply wok_inj in Hy. subst y. clear HG.
    rewrite !rd_ok in Hg by lia. cbn [WMat.bind] in Hg.
    set (xa := word_at mem (row_addr hA k + (h_width hA - 1))) in *.
    set (xb := word_at mem (row_addr hB k + (h_width hA - 1))) in *.
    assert (Hxa : (xa < 2 ^ 64)%N) by (apply mem_ok_word; assumption).
    assert (Hxb : (xb < 2 ^ 64)%N) by (apply mem_ok_word; assumption).
    match goal with |- context [loop_step ?o ?cc ?xb ?xs (E k tt t)] =>
      assert (Hrun : exists t', loop_step o cc xb xs (E k tt t) =
                Ok (match x with
                    | Some v => LStop (OReturn (Some (Vint (cz v))) (mem_of (words mem)))
                    | None => LCont (E (S k) tt t')
                    end))
    end.
    { exists (Some (@Vint Z (Z.of_nat (h_off hA) + Z.of_nat (h_rowstride hA) * Z.of_nat k),
                    @Vint Z (Z.of_nat (h_off hB) + Z.of_nat (h_rowstride hB) * Z.of_nat k),
                    @Vint Z (Z.of_nat (h_width hA - 1) - 1 - Z.of_nat (h_width hA - 1)))).
      destruct t as [[[ta tb] tc]|]; unfold E; cbn [fst snd]; unfold loop_step, truth; cbn [fst snd].
      all: cm_run; rewrite run_mzd_row_const_o by lia; cm_run; rewrite run_mzd_row_const_o by lia; cm_run.
      all: rewrite !(nth_words_Z mem _ (row_addr hA k + (h_width hA - 1))) by lia;
           rewrite !(nth_words_Z mem _ (row_addr hB k + (h_width hA - 1))) by lia; fold xa xb.
      all: replace (Z.land (Z.of_N xa) (Z.of_N (h_hmask hA)) mod M64) with (Z.of_N (N.land xa (h_hmask hA)))
             by (rewrite of_N_land; wnorm; reflexivity);
           replace (Z.land (Z.of_N xb) (Z.of_N (h_hmask hA)) mod M64) with (Z.of_N (N.land xb (h_hmask hA)))
             by (rewrite of_N_land; wnorm; reflexivity).
      all: rewrite !truth_of_bool, !of_N_ltb.
      all: destruct (N.ltb_spec (N.land xa (h_hmask hA)) (N.land xb (h_hmask hA))) as [L1|L1];
             [apply wok_inj in Hg; subst x; cm_run; reflexivity|].
      all: destruct (N.ltb_spec (N.land xb (h_hmask hA)) (N.land xa (h_hmask hA))) as [L2|L2];
             [apply wok_inj in Hg; subst x; cm_run; reflexivity|].
      all: cm_run; cm_release.
      all: rewrite firstM_rev_seq in Hg; apply iterG_firstM in Hg.
      all: match goal with |- context [exec zops ?cl LFUEL (Sloop ?cd ?bd ?st) ?E0 ?M0] =>
        pose (Ei := fun (kk : nat) (_ : unit) (_ : unit) =>
          @pair (@env Z) (@CMini.mem Z)
            (tset 22%positive (Vint (Z.of_nat (h_width hA - 1) - 1 - Z.of_nat kk)) E0) M0);
        replace (exec zops cl LFUEL (Sloop cd bd st) E0 M0)
          with (exec zops cl LFUEL (Sloop cd bd st) (fst (Ei 0%nat tt tt)) (snd (Ei 0%nat tt tt)))
          by (unfold Ei; cbn [fst snd tset]; f_equal; env_eq; lia);
        match type of Hg with iterG ?G _ _ _ = _ =>
          destruct (loop_gen' cl cd bd st unit unit comparison Ei (h_width hA - 1) G
                      (fun v => OReturn (Some (Vint (cz v))) M0)
                      (fun _ _ => ONormal (fst (Ei (h_width hA - 1)%nat tt tt)) M0)
                      (fun _ _ => True)) with (s0 := tt) (t0 := tt) (x := opt_sum x) as (ti & Hloopi & _);
          [ intros kk [] [] y Hkk _ HG;
            set (j := (h_width hA - 1 - 1 - kk)%nat) in *;
            assert (HjZ : Z.of_nat (h_width hA - 1) - 1 - Z.of_nat kk = Z.of_nat j) by (unfold j; lia);
            pose proof (valid_word hA mem k j HvA Hk ltac:(unfold j; lia)) as HpjA;
            pose proof (valid_word hB mem k j HvB HkB ltac:(unfold j; lia)) as HpjB;
            rewrite !rd_ok in HG by lia; cbn [WMat.bind] in HG; apply wok_inj in HG; subst y;
            unfold Ei; cbn [fst snd]; rewrite HjZ; unfold loop_step, truth; cbn [fst snd]; cm_run;
            rewrite !(nth_words_Z mem _ (row_addr hA k + j)) by lia;
            rewrite !(nth_words_Z mem _ (row_addr hB k + j)) by lia;
            rewrite !truth_of_bool, !of_N_ltb;
            destruct (N.ltb_spec (word_at mem (row_addr hA k + j)) (word_at mem (row_addr hB k + j)));
            [ cbn [opt_sum]; cm_run; reflexivity | ];
            destruct (N.ltb_spec (word_at mem (row_addr hB k + j)) (word_at mem (row_addr hA k + j)));
            [ cbn [opt_sum]; cm_run; reflexivity | ];
            cbn [opt_sum]; cm_run; split; [exact I|]; exists tt; env_eq; lia
          | intros [] [] _; loop_unfold Ei; cm_run; reflexivity
          | exact I
          | exact Hg
          | lia
          | ]
        end
      end.
      all: rewrite Hloopi; destruct x as [v|]; cbn [opt_sum]; unfold Ei; cbn [fst snd]; cm_run.
      all: env_eq; try reflexivity; lia. }
    destruct Hrun as (t' & Hrun). destruct x as [v|]; cbn [opt_sum].
    - exact Hrun.
    - split; [exact I|]. exists t'. exact Hrun. }
  { intros [] t _. destruct t as [[[ta tb] tc]|]; loop_unfold E; cm_run; reflexivity. }
  { exact I. }
  { exact Hfirst. }
  { lia. }
  rewrite Hloop. destruct r as [v|]; cbn [opt_sum opt_default].
  - cm_run. cm_release. reflexivity.
  - destruct t as [[[ta tb] tc]|]; unfold E; cbn [fst snd]; cm_run; cm_release; cm_run; reflexivity.
Qed.
