(* Leaf/TransposeSpecs3a.v — _mzd_copy_transpose_small (mzd.c:944), size class 32 < maxsize < 64
   (_mzd_copy_transpose_le64xle64, mzd.c:924, which pads to 64 rows and calls _mzd_copy_transpose_64x64 in
   place): every (nrows, ncols) of the class with nrows in 1..36, row strides 1.  The sweep is split over
   three files to keep each well under three minutes.  See Leaf/TransposeSpecs2.v. *)
From Coq Require Import ZArith NArith List String Bool Lia.
From M4 Require Import Leaf.CMini Leaf.CMiniSymS Leaf.Gen_transpose Leaf.TransposeSpecs Leaf.TransposeSpecs2.
Import ListNotations.
Local Open Scope Z_scope.

Lemma small_le64_sweep_a :
  forallb (fun n => forallb (fun m => (Nat.max n m <=? 32)%nat || chk_small 1 1 n m) (seq 1 63)) (seq 1 36) = true.
Proof. vm_cast_no_check (eq_refl true). Qed.
