(* Leaf/ObsSpecs12.v — mzd_find_pivot (m4ri/mzd.c:1686) as translated into Leaf/Gen_observers.v, part 5:
   the complete words (mzd.c:1745-1768): the scan of one word over the rows, its bit search, and the loop over wi. *)
From Coq Require Import ZArith NArith List String Bool Lia ZifyBool ZifyNat ZifyN.
From M4 Require Import Base.Bits Lin.Mat Lin.Ops Word.WMat Word.WMatLemmas Word.WOps
  Leaf.CMini Leaf.CMiniAcc Leaf.CMiniAcc2 Leaf.CMiniObs Leaf.AccessSpecs Leaf.Gen_observers Leaf.ObsSpecs
  Leaf.ObsSpecs6 Leaf.ObsSpecs7 Leaf.ObsSpecs11.
Import ListNotations.
Local Open Scope Z_scope.
Ltac Zify.zify_post_hook ::= Z.div_mod_to_equations.

(** the body of the model's loop over the complete words (Word/WOps.v, [w_find_pivot]) *)
Definition words_body (h : hdr) (mem : list N) (r0 cand : nat) (wi : nat) : WMat.res (option (nat * nat)) :=
  WMat.bind (pivot_scan (fun i => rd mem (row_addr h i + wi)) (Some 0%nat) (seq r0 (h_nrows h - r0)) (0%N, cand))
    (fun st => let '(data, cand) := st in
       if negb (data =? 0)%N then
         WMat.Ok (Some (match first_set_bit data 0 64 with
                        | Some l => (cand, (wi * 64 + l)%nat) | None => (cand, 0%nat) end))
       else WMat.Ok None).

Section Words.
  Variables (h : hdr) (fl : Z) (mem : list N) (r0 c0 : nat).
  Hypothesis Hv : valid h mem.
  Hypothesis Hd : c_dom h fl mem.
  Hypothesis Hr0 : (r0 <= h_nrows h)%nat.
  Hypothesis Hc0 : (c0 < h_ncols h)%nat.
  Let M0 := mem2 (words mem) 2 TLeaf.

  Lemma wide_scan2 wi data cand0 cand t : (wi < h_width h)%nat ->
    pivot_scan (fun i => rd mem (row_addr h i + wi)) (Some 0%nat) (seq r0 (h_nrows h - r0)) (0%N, cand0) = WMat.Ok (data, cand) ->
    exists t', exec zops CALL LFUEL L_scan2
                 (over (tset 34%positive (Vint (Z.of_nat r0)) (tset 33%positive (Vint (Z.of_nat wi)) (Kw h fl r0 c0 0 cand0))) t) M0 =
               Ok (ONormal (over (tset 33%positive (Vint (Z.of_nat wi)) (Kw h fl r0 c0 data cand)) t') M0).
  Proof.
    intros Hwi Hscan. pose proof (valid_hdr_ok _ _ Hv) as Hok. pose proof (valid_mem_ok _ _ Hv) as Hm.
    pose proof Hd as (D1 & D2 & D3 & D4 & D5 & D6). pose proof Hok as (HW & _).
    assert (Hld : forall i, (i < h_nrows h)%nat ->
              rd mem (row_addr h i + wi) = WMat.Ok (word_at mem (row_addr h i + wi))).
    { intros i Hi. apply rd_ok. apply valid_word; assumption. }
    unfold L_scan2, M0.
    word_scan 34%positive h fl mem r0 (fun i : nat => rd mem (row_addr h i + wi))
      (fun i : nat => word_at mem (row_addr h i + wi)) (Some 0%nat) wi cand0 data cand Hv Hd Hm Hwi Hld Hscan.
  Qed.

  Lemma wide_bits2 wi data cand l t : (wi * 64 + 64 <= h_ncols h)%nat ->
    first_set_bit data 0 64 = Some l ->
    exists e', exec zops CALL LFUEL L_bits2
                 (over (tset 38%positive (Vint 0) (tset 33%positive (Vint (Z.of_nat wi)) (Kw h fl r0 c0 data cand))) t)
                 (mem2 (words mem) 2 (tset (key 0) (Z.of_nat cand) TLeaf)) =
               Ok (ONormal e' (mem2 (words mem) 2 (pivot_cells (Some (cand, (wi * 64 + l)%nat))))).
  Proof.
    intros Hwi Hfs. pose proof Hd as (D1 & D2 & D3 & D4 & D5 & D6).
    pose proof (first_set_bit_lt _ _ _ _ Hfs) as Hl.
    unfold L_bits2.
    bit_search 38%positive mem 64%nat data (fun b : nat => (wi * 64 + b)%nat) cand l Hfs.
  Qed.
End Words.

(** * The loop over the complete words (mzd.c:1745) *)
(** [sub_solve] of Leaf/ObsSpecs6.v decomposes too far when both sides are sums; from here on only the constructors *)
Ltac sub_solve ::=
  cbn [tset tdel sub]; repeat split; try reflexivity;
  repeat match goal with |- Some _ = Some _ => f_equal | |- Vint _ = Vint _ => f_equal end; try lia.

Section Words2.
  Variables (h : hdr) (fl : Z) (mem : list N) (r0 c0 : nat).
  Hypothesis Hv : valid h mem.
  Hypothesis Hd : c_dom h fl mem.
  Hypothesis Hr0 : (r0 <= h_nrows h)%nat.
  Hypothesis Hc0 : (c0 < h_ncols h)%nat.
  Let M0 := mem2 (words mem) 2 TLeaf.
  Let wo := (c0 / 64)%nat.

  Lemma wide_words cand r t :
    firstM (seq (wo + 1) (h_width h - 1 - (wo + 1))) (words_body h mem r0 cand) = WMat.Ok r ->
    exists t', exec zops CALL LFUEL L_wi (over (tset 33%positive (Vint (Z.of_nat (wo + 1))) (Kw h fl r0 c0 0 cand)) t) M0 =
               Ok (match r with
                   | Some rc => OReturn (Some (Vint 1)) (mem2 (words mem) 2 (pivot_cells (Some rc)))
                   | None => ONormal (over (Kw h fl r0 c0 0 cand) t') M0
                   end).
  Proof.
    intros Hfirst. pose proof (valid_hdr_ok _ _ Hv) as Hok. pose proof (valid_mem_ok _ _ Hv) as Hm.
    pose proof Hd as (D1 & D2 & D3 & D4 & D5 & D6). pose proof Hok as (HW & _).
    apply iterG_firstM in Hfirst. rewrite <- (Nat.add_0_r (wo + 1)) in Hfirst at 1. rewrite <- iterG_shift in Hfirst.
    unfold L_wi, M0. ex_late. k_unfold. cbn [tset].
    match goal with |- context [exec zops ?cl LFUEL (Sloop ?cd ?bd ?st) (over ?A0 ?T0) ?M0] =>
      pose (Eo := fun (k : nat) (_ : unit) (t : @env Z) =>
        @pair (@env Z) (@CMini.mem Z) (over (tset 33%positive (Vint (Z.of_nat (wo + 1 + k))) A0) t) M0);
      pose (Ko := tdel 33%positive A0);
      replace (exec zops cl LFUEL (Sloop cd bd st) (over A0 T0) M0)
        with (exec zops cl LFUEL (Sloop cd bd st) (fst (Eo 0%nat tt (over A0 T0))) (snd (Eo 0%nat tt (over A0 T0))))
        by (unfold Eo; cbn [fst snd]; f_equal; symmetry; apply over_sub_eq; sub_solve);
      match type of Hfirst with iterG ?G _ _ _ = _ =>
      destruct (loop_gen2 cl cd bd st unit (@env Z) (nat * nat)%type Eo (h_width h - 1 - (wo + 1))%nat G
                  (fun rc _ => OReturn (Some (Vint 1)) (mem2 (words mem) 2 (pivot_cells (Some rc))))
                  (fun _ t => ONormal (over Ko t) M0)
                  (fun _ _ => True))
        with (s0 := tt) (t0 := over A0 T0) (x := opt_sum r)
        as (to & Hloopo & _) end
    end.
    { intros k [] ti y Hk _ HG.
      destruct (bind_inv _ _ _ HG) as (x & Hbody & Hy). apply wok_inj in Hy. subst y. clear HG.
      set (wi := (wo + 1 + k)%nat) in *.
      unfold words_body in Hbody. destruct (bind_inv _ _ _ Hbody) as ([data cand'] & Hscan & Hx). clear Hbody.
      destruct (scan_facts _ _ _ _ (fun _ => True) _ _ _ Hscan) as (_ & Hdl & Hdc).
      { intros i w Hi. split; [exact I|]. apply rd_inv in Hi. subst w. now apply mem_ok_word. }
      { exact I. }
      match goal with |- context [loop_step ?o ?cc ?xb ?xs (Eo k tt ti)] =>
      assert (Hrun : ex_res (fun t' => Ok (if (data =? 0)%N then LCont (Eo (S k) tt t')
                      else LStop (OReturn (Some (Vint 1)) (mem2 (words mem) 2 (pivot_cells x)))))
                (loop_step o cc xb xs (Eo k tt ti))) end.
      2:{ destruct Hrun as (t' & Hrun). destruct (N.eqb_spec data 0); cbn [negb] in Hx; apply wok_inj in Hx; subst x; cbn [opt_sum].
          - split; [exact I|]. exists t'. exact Hrun.
          - exists t'. exact Hrun. }
      assert (Hwi : (wi < h_width h - 1)%nat) by (subst wi; lia).
      loop_unfold Eo. fold wi. cm_run2. cm_release.
      match goal with |- context [exec zops _ LFUEL (Sloop _ _ _) (over ?A0 ?T0) _] =>
        rewrite (over_sub_eq (tset 34%positive (Vint (Z.of_nat r0)) (tset 33%positive (Vint (Z.of_nat wi)) (Kw h fl r0 c0 0 cand))) A0 T0)
          by (k_unfold; sub_solve);
        destruct (wide_scan2 h fl mem r0 c0 Hv Hd Hr0 Hc0 wi data cand cand' (over A0 T0) ltac:(lia) Hscan) as (t2 & H2)
      end.
      unfold L_scan2 in H2. rewrite H2. clear H2. k_unfold. cm_run2.
      rewrite of_N_eqb0. destruct (N.eqb_spec data 0) as [->|Hnz]; cbn [negb] in *.
      - rewrite (Hdc eq_refl). cm_run2. ex_close.
      - assert (Hhi : forall j, (64 <= j)%nat -> N.testbit data (N.of_nat j) = false)
          by (intros j Hj; now apply testbit_word_high).
        destruct (first_set_bit_some data 64 Hnz Hhi) as (l & Hl & Hll). rewrite Hl in Hx.
        cm_release.
        match goal with |- context [exec zops _ LFUEL (Sloop _ _ _) (over ?A0 ?T0) _] =>
          rewrite (over_sub_eq (tset 38%positive (Vint 0) (tset 33%positive (Vint (Z.of_nat wi)) (Kw h fl r0 c0 data cand'))) A0 T0)
            by (k_unfold; sub_solve);
          destruct (wide_bits2 h fl mem r0 c0 Hd Hr0 Hc0 wi data cand' l (over A0 T0) ltac:(lia) Hl) as (e2 & Hb2)
        end.
        unfold L_bits2 in Hb2. rewrite Hb2. clear Hb2. cm_run2. cm_release. cm_run2.
        apply wok_inj in Hx. subst x. unfold ex_res. exists t2. reflexivity. }
    { intros [] ti _. ex_late. loop_unfold Eo. cm_run2. unfold Ko. ex_close. }
    { exact I. }
    { exact Hfirst. }
    { lia. }
    rewrite Hloopo. unfold ex_res. destruct r as [rc|]; cbn [opt_sum].
    - exists t. reflexivity.
    - unfold Ko. eexists. over_close.
  Qed.
End Words2.
