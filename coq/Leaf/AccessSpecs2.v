(* Leaf/AccessSpecs2.v — the T1-translated mzd_xor_bits (mzd.h:472), mzd_clear_bits (mzd.h:514) and
   mzd_and_bits (mzd.h:492) compute the word-level models of Word/WOps.v, for all arguments of the
   documented domain (see Leaf/AccessSpecs.v for the conventions). *)
From Coq Require Import ZArith NArith List String Bool Lia ZifyBool ZifyNat ZifyN.
From M4 Require Import Base.Bits Lin.Mat Lin.Ops Word.WMat Word.WMatLemmas Word.WOps
  Leaf.CMini Leaf.CMiniAcc Leaf.Gen_access Leaf.AccessSpecs.
Import ListNotations.
Local Open Scope Z_scope.
Ltac Zify.zify_post_hook ::= Z.div_mod_to_equations.

(** addresses of the one or two words a bit range [y, y+n) of row x touches *)
Lemma range_facts h fl mem x y n : valid h mem -> c_dom h fl mem ->
  (x < h_nrows h)%nat -> (1 <= n <= 64)%nat -> (y + n <= h_ncols h)%nat ->
  (row_addr h x + y / 64 < List.length mem)%nat /\
  ((64 < y mod 64 + n)%nat -> (row_addr h x + y / 64 + 1 < List.length mem)%nat) /\
  0 <= Z.of_nat (h_rowstride h) * Z.of_nat x <= Z.of_nat (List.length mem) /\
  Z.of_nat (h_off h) + Z.of_nat (h_rowstride h) * Z.of_nat x = Z.of_nat (row_addr h x) /\
  Z.of_nat (row_addr h x) < 2 ^ 62 /\ Z.of_nat x <= 2147483647 /\ Z.of_nat y <= 2147483647.
Proof.
  intros Hv Hd Hx Hn Hy. pose proof (valid_hdr_ok _ _ Hv) as Hok.
  assert (Hk : (y / 64 < h_width h)%nat) by (apply width_pos; [assumption|lia]).
  destruct (dom_facts h fl mem x (y / 64) Hv Hd Hx Hk) as (Hp & Hri & Hra & Hbig & Hii).
  destruct Hd as (D1 & D2 & D3 & D4 & D5 & D6).
  repeat split; try lia.
  intros Hs. assert (Hk1 : (y / 64 + 1 < h_width h)%nat).
  { assert ((y + n - 1) / 64 < h_width h)%nat by (apply width_pos; [assumption|lia]). lia. }
  pose proof (valid_word h mem x (y / 64 + 1) Hv Hx Hk1). lia.
Qed.

(** * mzd_xor_bits (mzd.h:472); [v] is any 64-bit word *)
Theorem acc_xor_bits_w h fl mem x y n v m' :
  valid h mem -> c_dom h fl mem -> (x < h_nrows h)%nat -> (1 <= n <= 64)%nat -> (y + n <= h_ncols h)%nat ->
  (v < 2 ^ 64)%N ->
  w_xor_bits h x y n v mem = WMat.Ok m' ->
  run_acc "mzd_xor_bits" (hbundle h fl [Vint (Z.of_nat x); Vint (Z.of_nat y); Vint (Z.of_nat n); Vint (Z.of_N v)])
          (words mem) = Ok (None, words m').
Proof.
  intros Hv Hd Hx Hn Hy Hvv Hw. pose proof (valid_mem_ok _ _ Hv) as Hm.
  destruct (range_facts h fl mem x y n Hv Hd Hx Hn Hy) as (Hp & Hp1 & Hri & Hra & Hbig & Hii & Hyy).
  pose proof Hd as (D1 & D2 & D3 & D4 & D5 & D6). pose proof (w64_of_N v Hvv) as Hvz.
  unfold w_xor_bits in Hw. rewrite rd_ok in Hw by assumption. cbn [WMat.bind] in Hw.
  rewrite wr_ok in Hw by assumption. cbn [WMat.bind] in Hw.
  unfold hbundle.
  destruct (Nat.ltb_spec (64 - y mod 64) n) as [Hs|Hs].
  - specialize (Hp1 ltac:(lia)).
    rewrite rd_ok in Hw by (rewrite upd_length; lia). cbn [WMat.bind] in Hw.
    rewrite shr64_ok in Hw by lia. cbn [WMat.bind] in Hw.
    rewrite wr_ok in Hw by (rewrite upd_length; lia). apply wok_inj in Hw. subst m'.
    rewrite word_at_upd_neq by lia.
    apply run_acc_intro; [now rewrite !words_length, !upd_length|]. change DEPTH with (S (S 10)).
    cm_enter "mzd_xor_bits"%string f_mzd_xor_bits. cm_run.
    rewrite run_mzd_row by lia. cm_run. wfin.
  - apply wok_inj in Hw. subst m'.
    apply run_acc_intro; [now rewrite !words_length, !upd_length|]. change DEPTH with (S (S 10)).
    cm_enter "mzd_xor_bits"%string f_mzd_xor_bits. cm_run.
    rewrite run_mzd_row by lia. cm_run. wfin.
Qed.

(** * mzd_clear_bits (mzd.h:514) *)
Theorem acc_clear_bits_w h fl mem x y n m' :
  valid h mem -> c_dom h fl mem -> (x < h_nrows h)%nat -> (1 <= n <= 64)%nat -> (y + n <= h_ncols h)%nat ->
  w_clear_bits h x y n mem = WMat.Ok m' ->
  run_acc "mzd_clear_bits" (hbundle h fl [Vint (Z.of_nat x); Vint (Z.of_nat y); Vint (Z.of_nat n)])
          (words mem) = Ok (None, words m').
Proof.
  intros Hv Hd Hx Hn Hy Hw. pose proof (valid_mem_ok _ _ Hv) as Hm.
  destruct (range_facts h fl mem x y n Hv Hd Hx Hn Hy) as (Hp & Hp1 & Hri & Hra & Hbig & Hii & Hyy).
  pose proof Hd as (D1 & D2 & D3 & D4 & D5 & D6).
  unfold w_clear_bits in Hw. rewrite shr64_ok in Hw by lia. cbn [WMat.bind] in Hw.
  rewrite rd_ok in Hw by assumption. cbn [WMat.bind] in Hw.
  rewrite wr_ok in Hw by assumption. cbn [WMat.bind] in Hw.
  unfold hbundle.
  destruct (Nat.ltb_spec (64 - y mod 64) n) as [Hs|Hs].
  - specialize (Hp1 ltac:(lia)).
    rewrite rd_ok in Hw by (rewrite upd_length; lia). cbn [WMat.bind] in Hw.
    rewrite shr64_ok in Hw by lia. cbn [WMat.bind] in Hw.
    rewrite wr_ok in Hw by (rewrite upd_length; lia). apply wok_inj in Hw. subst m'.
    rewrite word_at_upd_neq by lia.
    apply run_acc_intro; [now rewrite !words_length, !upd_length|]. change DEPTH with (S (S 10)).
    cm_enter "mzd_clear_bits"%string f_mzd_clear_bits. cm_run.
    rewrite run_mzd_row by lia. cm_run. wfin.
  - apply wok_inj in Hw. subst m'.
    apply run_acc_intro; [now rewrite !words_length, !upd_length|]. change DEPTH with (S (S 10)).
    cm_enter "mzd_clear_bits"%string f_mzd_clear_bits. cm_run.
    rewrite run_mzd_row by lia. cm_run. wfin.
Qed.

(** * mzd_and_bits (mzd.h:492).  Word/WOps.v has no model of it (no library routine calls it); [w_and_bits]
    follows the C text statement by statement in the style of WOps.  Note what the text does (finding F13 of
    DESIGN.md, not claimed by any property): the TOP n bits of [values] are used, and the AND with
    `values << spot` / `values >> space` also clears every other bit of the one or two words it touches,
    including bits of the row outside [y, y+n) and, in a last word, the padding bits ([and_bits_frame_fails]). *)
Definition w_and_bits (h : hdr) (x y n : nat) (values : N) (mem : list N) : WMat.res (list N) :=
  (v <- shr64 values (64 - n) ;;
   let spot := y mod 64 in
   let block := y / 64 in
   let p := row_addr h x + block in
   w0 <- rd mem p ;;
   m1 <- wr mem p (N.land w0 (shl v spot)) ;;
   let space := 64 - spot in
   if space <? n then
     w1 <- rd m1 (p + 1) ;; v' <- shr64 v space ;; wr m1 (p + 1) (N.land w1 v')
   else WMat.Ok m1)%nat.

Theorem acc_and_bits_w h fl mem x y n v m' :
  valid h mem -> c_dom h fl mem -> (x < h_nrows h)%nat -> (1 <= n <= 64)%nat -> (y + n <= h_ncols h)%nat ->
  (v < 2 ^ 64)%N ->
  w_and_bits h x y n v mem = WMat.Ok m' ->
  run_acc "mzd_and_bits" (hbundle h fl [Vint (Z.of_nat x); Vint (Z.of_nat y); Vint (Z.of_nat n); Vint (Z.of_N v)])
          (words mem) = Ok (None, words m').
Proof.
  intros Hv Hd Hx Hn Hy Hvv Hw. pose proof (valid_mem_ok _ _ Hv) as Hm.
  destruct (range_facts h fl mem x y n Hv Hd Hx Hn Hy) as (Hp & Hp1 & Hri & Hra & Hbig & Hii & Hyy).
  pose proof Hd as (D1 & D2 & D3 & D4 & D5 & D6). pose proof (w64_of_N v Hvv) as Hvz.
  unfold w_and_bits in Hw. rewrite shr64_ok in Hw by lia. cbn [WMat.bind] in Hw.
  rewrite rd_ok in Hw by assumption. cbn [WMat.bind] in Hw.
  rewrite wr_ok in Hw by assumption. cbn [WMat.bind] in Hw.
  unfold hbundle.
  destruct (Nat.ltb_spec (64 - y mod 64) n) as [Hs|Hs].
  - specialize (Hp1 ltac:(lia)).
    rewrite rd_ok in Hw by (rewrite upd_length; lia). cbn [WMat.bind] in Hw.
    rewrite shr64_ok in Hw by lia. cbn [WMat.bind] in Hw.
    rewrite wr_ok in Hw by (rewrite upd_length; lia). apply wok_inj in Hw. subst m'.
    rewrite word_at_upd_neq by lia.
    apply run_acc_intro; [now rewrite !words_length, !upd_length|]. change DEPTH with (S (S 10)).
    cm_enter "mzd_and_bits"%string f_mzd_and_bits. cm_run.
    rewrite run_mzd_row by lia. cm_run. wfin.
  - apply wok_inj in Hw. subst m'.
    apply run_acc_intro; [now rewrite !words_length, !upd_length|]. change DEPTH with (S (S 10)).
    cm_enter "mzd_and_bits"%string f_mzd_and_bits. cm_run.
    rewrite run_mzd_row by lia. cm_run. wfin.
Qed.

(** the model succeeds on the documented domain (so the theorem above is not vacuous) *)
Lemma w_and_bits_ok h mem x y n v : valid h mem -> (x < h_nrows h)%nat -> (1 <= n <= 64)%nat ->
  (y + n <= h_ncols h)%nat -> exists m', w_and_bits h x y n v mem = WMat.Ok m' /\ List.length m' = List.length mem.
Proof.
  intros Hv Hx Hn Hy. pose proof (valid_hdr_ok _ _ Hv) as Hok.
  assert (Hk : (y / 64 < h_width h)%nat) by (apply width_pos; [assumption|lia]).
  pose proof (valid_word h mem x (y / 64) Hv Hx Hk) as Hp.
  unfold w_and_bits. rewrite shr64_ok by lia. cbn [WMat.bind]. rewrite rd_ok by assumption. cbn [WMat.bind].
  rewrite wr_ok by assumption. cbn [WMat.bind].
  destruct (Nat.ltb_spec (64 - y mod 64) n) as [Hs|Hs].
  - assert (Hk1 : (y / 64 + 1 < h_width h)%nat).
    { assert ((y + n - 1) / 64 < h_width h)%nat by (apply width_pos; [assumption|lia]). lia. }
    pose proof (valid_word h mem x (y / 64 + 1) Hv Hx Hk1) as Hp1.
    rewrite rd_ok by (rewrite upd_length; lia). cbn [WMat.bind]. rewrite shr64_ok by lia. cbn [WMat.bind].
    rewrite wr_ok by (rewrite upd_length; lia). eexists. split; [reflexivity|]. now rewrite !upd_length.
  - eexists. split; [reflexivity|]. now rewrite upd_length.
Qed.

(** F13 made concrete on the translated text: 1 x 64 matrix with all bits set, AND of the 1 bit at column 8 with
    a word whose top bit is 1 — all other 63 bits of the row are cleared as well. *)
Example and_bits_frame_fails :
  run_acc "mzd_and_bits" (hbundle (init_hdr 1 64) 0 [Vint 0; Vint 8; Vint 1; Vint (Z.of_N ffff)]) [Z.of_N ffff; 0]
  = Ok (None, [256; 0]).
Proof. vm_compute. reflexivity. Qed.
