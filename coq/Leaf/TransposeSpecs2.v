(* Leaf/TransposeSpecs2.v — _mzd_copy_transpose_small (mzd.c:944) on the T1-translated text, size classes
   maxsize <= 8 (_mzd_copy_transpose_le8xle8, mzd.c:722), <= 16 (_le16xle16, mzd.c:770) and <= 32
   (_le32xle32, mzd.c:873): EVERY (nrows, ncols) with 1 <= nrows, ncols <= 32, maxsize = max(nrows, ncols)
   as all callers pass it (mzd.c:1064, 1113), for the row-stride pairs (dst, src) = (1,1) and (2,3).
   One symbolic run per (nrows, ncols, strides); see Leaf/TransposeSpecs.v for the technique.

   Precondition found by the symbolic run (and necessary: the kernels OR shifted source words together):
   the bits of the source words beyond column ncols are 0 — buffer shape (., ncols).
   Every destination row is written as a whole word (bits >= nrows are cleared). *)
From Coq Require Import ZArith NArith List String Bool Lia.
From M4 Require Import Leaf.CMini Leaf.CMiniSymS Leaf.Gen_transpose Leaf.TransposeSpecs.
Import ListNotations.
Local Open Scope Z_scope.

Definition args_small (rd rs n m : nat) : list arg :=
  args_T rd rs [Z.of_nat n; Z.of_nat m; Z.of_nat (Nat.max n m)].

Definition chk_small (rd rs n m : nat) : bool :=
  check "_mzd_copy_transpose_small" (args_small rd rs n m) (shape_T n m rd rs m) (exp_Tn n m rd rs m).

Definition strides_small : list (nat * nat) := [(1, 1); (2, 3)]%nat.

Lemma small_le32_sweep :
  forallb (fun s => forallb (fun n => forallb (fun m => chk_small (fst s) (snd s) n m) (seq 1 32)) (seq 1 32))
          strides_small = true.
Proof. vm_cast_no_check (eq_refl true). Qed.

Theorem transpose_small_le32_bits rd rs n m :
  In (rd, rs) strides_small -> (1 <= n <= 32)%nat -> (1 <= m <= 32)%nat ->
  forall src dst, fits src (((n - 1) * rs + 1)%nat, m) -> fits dst (((m - 1) * rd + 1)%nat, 64%nat) ->
  exists outs, runz "_mzd_copy_transpose_small" (args_small rd rs n m) [src; dst] = Ok outs /\
               post [src; dst] outs (exp_Tn n m rd rs m).
Proof.
  intros Hin Hn Hm src dst Hs Hd.
  pose proof (forallb_In _ _ _ (forallb_In _ _ _ (forallb_In _ _ _ small_le32_sweep Hin)
                (proj2 (in_seq 32 1 n) ltac:(lia))) (proj2 (in_seq 32 1 m) ltac:(lia))) as H.
  apply (kernel_bits _ _ _ _ H). repeat (first [assumption | apply Forall2_cons | apply Forall2_nil]).
Qed.

(** the three classes are really exercised: which helper runs is decided by maxsize alone (mzd.c:948-956);
    e.g. a 3 x 8 matrix goes through le8xle8, a 9 x 2 one through le16xle16, a 17 x 32 one through le32xle32 *)
Example small_example :
  runz "_mzd_copy_transpose_small" (args_small 1 1 3 8) [[1; 130; 255]; [9; 9; 9; 9; 9; 9; 9; 9]]
  = Ok [[1; 130; 255]; [5; 6; 4; 4; 4; 4; 4; 6]].
Proof. vm_compute. reflexivity. Qed.
