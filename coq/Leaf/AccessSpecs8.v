(* Leaf/AccessSpecs8.v — mzd_col_swap_in_rows (mzd.h:325), part 2: two columns in the SAME word (a_word == b_word),
   at least one row.  The C text processes the rows four at a time through a local array `word xor_v[4]`
   (block 2 of the CMini memory, Leaf/CMiniAcc2.v) and the remaining count % 4 rows one by one; the word-level
   model Word/WOps.w_col_swap_in_rows processes them one by one ("4-row unrolling not modelled") — here the
   unrolled C text is proved to compute that model: [forM_four] regroups the model's loop.
   Conventions: Leaf/AccessSpecs.v.  CMini variables named by number: 19 ptr, 26 fast_count, 27 rest_count,
   28 xor_v[4], 30/32 loop-condition temporaries, 31 the scalar xor_v. *)
From Coq Require Import ZArith NArith List String Bool Lia ZifyBool ZifyNat ZifyN.
From M4 Require Import Base.Bits Lin.Mat Lin.Ops Word.WMat Word.WMatLemmas Word.WOps
  Leaf.CMini Leaf.CMiniAcc Leaf.CMiniAcc2 Leaf.Gen_access Leaf.AccessSpecs Leaf.AccessSpecs4 Leaf.AccessSpecs7.
Import ListNotations.
Local Open Scope Z_scope.
Ltac Zify.zify_post_hook ::= Z.div_mod_to_equations.

(** * [forM] over a range: splitting, regrouping by four, shifting *)
Lemma forM_app {St} (F : nat -> St -> WMat.res St) n m : forall a s,
  forM (seq a (n + m)) F s = WMat.bind (forM (seq a n) F s) (forM (seq (a + n) m) F).
Proof.
  induction n as [|n IH]; intros a s.
  - cbn [Nat.add seq forM WMat.bind]. now rewrite Nat.add_0_r.
  - cbn [Nat.add seq forM]. destruct (F a s) as [s'|e]; cbn [WMat.bind]; [|reflexivity].
    rewrite IH. now replace (S a + n)%nat with (a + S n)%nat by lia.
Qed.

Definition four {St} (F : nat -> St -> WMat.res St) (j : nat) (s : St) : WMat.res St :=
  (s1 <- F (4 * j) s ;; s2 <- F (4 * j + 1) s1 ;; s3 <- F (4 * j + 2) s2 ;; F (4 * j + 3) s3)%nat.

Lemma forM_four {St} (F : nat -> St -> WMat.res St) n : forall a s,
  forM (seq (4 * a) (4 * n)) F s = forM (seq a n) (four F) s.
Proof.
  induction n as [|n IH]; intros a s; [reflexivity|].
  replace (4 * S n)%nat with (S (S (S (S (4 * n))))) by lia. cbn [seq forM]. unfold four at 1.
  replace (S (4 * a)) with (4 * a + 1)%nat by lia. replace (S (4 * a + 1)) with (4 * a + 2)%nat by lia.
  replace (S (4 * a + 2)) with (4 * a + 3)%nat by lia. replace (S (4 * a + 3)) with (4 * S a)%nat by lia.
  destruct (F (4 * a)%nat s) as [s1|e]; cbn [WMat.bind]; [|reflexivity].
  destruct (F (4 * a + 1)%nat s1) as [s2|e]; cbn [WMat.bind]; [|reflexivity].
  destruct (F (4 * a + 2)%nat s2) as [s3|e]; cbn [WMat.bind]; [|reflexivity].
  destruct (F (4 * a + 3)%nat s3) as [s4|e]; cbn [WMat.bind]; [|reflexivity].
  apply IH.
Qed.

Lemma forM_shift {St} (F : nat -> St -> WMat.res St) a n : forall b s,
  forM (seq (a + b) n) F s = forM (seq b n) (fun r => F (a + r)%nat) s.
Proof.
  induction n as [|n IH]; intros b s; [reflexivity|]. cbn [seq forM].
  destruct (F (a + b)%nat s) as [s'|e]; cbn [WMat.bind]; [|reflexivity].
  replace (S (a + b)) with (a + S b)%nat by lia. apply IH.
Qed.

(** one row of the same-word column swap (the body of the model's loop) *)
Definition swap_word (offs mn : nat) (x : N) : N :=
  let xor_v := N.land (N.lxor x (shr x offs)) (shl 1 mn) in N.lxor x (N.lor xor_v (shl xor_v offs)).

Lemma swap_row_ok (mk : list N) p offs mn : (p < List.length mk)%nat ->
  (x <- rd mk p ;;
   let xor_v := N.lxor x (shr x offs) in
   let xor_v := N.land xor_v (shl 1 mn) in
   cur <- rd mk p ;; wr mk p (N.lxor cur (N.lor xor_v (shl xor_v offs)))) =
  WMat.Ok (upd p (trunc (swap_word offs mn (word_at mk p))) mk).
Proof. intros Hp. rewrite !rd_ok by assumption. cbn [WMat.bind]. now rewrite wr_ok by assumption. Qed.

Lemma key_neq i j : 0 <= i -> 0 <= j -> i <> j -> key i <> key j.
Proof. intros Hi Hj Hne E. apply key_inj in E; lia. Qed.

(** keep the contents of the local array sorted by index (largest outermost) and without overwritten entries *)
Ltac tset_norm :=
  match goal with
  | |- context [tset (key ?i) ?v (tset (key ?i) ?w ?t)] => rewrite (tset_tset_same (key i) v w t)
  | |- context [tset (key ?i) ?v (tset (key ?j) ?w ?t)] =>
      let b := eval compute in (Z.ltb i j) in
      lazymatch b with true => rewrite (tset_comm (key i) (key j) v w t) by (vm_compute; discriminate) end
  end.

Ltac cm_step2 :=
  match goal with
  | |- context [tset (key _) _ (tset (key _) _ _)] => tset_norm
  | |- context [alloc (mem_of ?ws) ?n TLeaf] => rewrite (alloc_mem_of ws n)
  | |- context [load (mem2 ?ws ?n ?d) 1%positive ?i] => rewrite (load_mem2_1 ws n d i) by cm_len
  | |- context [store (mem2 ?ws ?n ?d) 1%positive ?i (Vint ?v)] => rewrite (store_mem2_1 ws n d i v) by cm_len
  | |- context [load (mem2 ?ws ?n ?d) 2%positive ?i] => rewrite (load_mem2_2 ws n d i) by lia
  | |- context [store (mem2 ?ws ?n ?d) 2%positive ?i (Vint ?v)] => rewrite (store_mem2_2 ws n d i v) by lia
  | |- context [tget ?p (tset ?p ?v ?t)] => rewrite (tget_tset_same p v t)
  | |- context [tget (key ?i) (tset (key ?j) ?v ?t)] => rewrite (tget_tset_other (key i) (key j) v t) by (vm_compute; discriminate)
  end.
(** hide a continuation that is exposed under a binder (after rewriting with an equation about the loop step) *)
Ltac cm_hide :=
  repeat match goal with
         | |- context [exec zops ?c ?lf (Sseq ?a ?b)] =>
             let K := fresh "K" in let HK := fresh "HK" in remember (exec zops c lf (Sseq a b)) as K eqn:HK
         end.
Ltac cm_run2 :=
  repeat first [ cm_noloop; cm_split | cm_noloop; progress cm_eval' | cm_step | cm_step2 | progress cm_release; cm_noloop ].

Ltac Zify.zify_post_hook ::= idtac.
Ltac dlia := Z.div_mod_to_equations; lia.

Lemma run_col_swap_same d h fl mem cola colb r0 r1 m' :
  valid h mem -> c_dom h fl mem -> (cola < h_ncols h)%nat -> (colb < h_ncols h)%nat -> (r0 <= r1)%nat -> (r1 <= h_nrows h)%nat ->
  (cola / 64 = colb / 64)%nat -> cola <> colb -> (r0 < r1)%nat ->
  w_col_swap_in_rows h cola colb r0 r1 mem = WMat.Ok m' ->
  exists dfin, run zops access_prog LFUEL (S (S d)) "mzd_col_swap_in_rows"
      (hbundle h fl [Vint (Z.of_nat cola); Vint (Z.of_nat colb); Vint (Z.of_nat r0); Vint (Z.of_nat r1)]) (mem_of (words mem)) =
  Ok (None, mem2 (words m') 4 dfin).
Proof.
  intros Hv Hd Ha Hb Hr01 Hr1 Hab Nab Hlt Hw. pose proof (valid_hdr_ok _ _ Hv) as Hok. pose proof (valid_mem_ok _ _ Hv) as Hm.
  pose proof Hd as (D1 & D2 & D3 & D4 & D5 & D6). pose proof Hok as (Hwd & _ & Hrs).
  unfold w_col_swap_in_rows in Hw. unfold hbundle.
  destruct (Nat.eqb_spec cola colb) as [Eab|_]; [lia|]. cbv zeta in Hw.
  destruct (Nat.eqb_spec (r1 - r0) 0) as [Ec|Nc]; [lia|].
  destruct (Nat.eqb_spec (cola / 64) (colb / 64)) as [_|Ew]; [|lia].
  assert (Hwpos : (0 < h_width h)%nat) by (pose proof (width_pos h cola Hok Ha); lia).
  assert (Hr0 : (r0 < h_nrows h)%nat) by lia.
  destruct (dom_facts h fl mem r0 0 Hv Hd Hr0 Hwpos) as (_ & Hrr & Hra0 & Hbig0 & Hii0).
  set (ab := (cola mod 64)%nat) in *. set (bb := (colb mod 64)%nat) in *.
  set (aw := (cola / 64)%nat) in *.
  assert (Hawl : (aw < h_width h)%nat) by (apply width_pos; assumption).
  set (cnt := (r1 - r0)%nat) in *.
  assert (Hzab : Z.of_nat cola mod 64 = Z.of_nat ab) by (unfold ab; dlia).
  assert (Hzbb : Z.of_nat colb mod 64 = Z.of_nat bb) by (unfold bb; dlia).
  assert (Hzaw : Z.of_nat cola / 64 = Z.of_nat aw) by (unfold aw; dlia).
  assert (Hzbw : Z.of_nat colb / 64 = Z.of_nat aw) by (unfold aw; dlia).
  assert (Hab64 : (ab < 64)%nat) by (unfold ab; dlia). assert (Hbb64 : (bb < 64)%nat) by (unfold bb; dlia).
  cm_enter "mzd_col_swap_in_rows"%string f_mzd_col_swap_in_rows. cm_run.
  rewrite run_mzd_row by lia. rewrite Hzab, Hzbb, Hzaw, Hzbw, Hra0. cm_run. rewrite if_max. cm_run.
  set (mx := Nat.max ab bb) in *. set (mn := (ab + bb - mx)%nat) in *. set (offs := (mx - mn)%nat) in *.
  replace (Z.max (Z.of_nat ab) (Z.of_nat bb)) with (Z.of_nat mx) by (unfold mx; lia).
  replace (Z.of_nat ab + Z.of_nat bb - Z.of_nat mx) with (Z.of_nat mn) by (unfold mn, mx; lia).
  replace (Z.of_nat mx - Z.of_nat mn) with (Z.of_nat offs) by (unfold offs, mn, mx; lia).
  replace (Z.of_nat r1 - Z.of_nat r0) with (Z.of_nat cnt) by (unfold cnt; lia).
  set (p0 := row_addr h r0) in *.
  assert (Hoffs : (offs < 64)%nat) by (unfold offs, mn, mx; lia). assert (Hmn : (mn < 64)%nat) by (unfold mn, mx; lia).
  assert (Hcn : (r0 + cnt <= h_nrows h)%nat) by (unfold cnt; lia).
  assert (Hcpos : (0 < cnt)%nat) by (unfold cnt; lia).
  clear Hwd Hzab Hzbb Hzaw Hzbw Hr01 Hr1 Nc Ha Hb Nab Hrr Hra0 Hlt Hab.
  clearbody ab bb aw cnt mx mn offs.
  cm_release.
  (* the model: count = 4 * fc + rc, fast part regrouped by four *)
  set (fc := (cnt / 4)%nat). set (rc := (cnt mod 4)%nat).
  assert (Hcnt4 : cnt = (4 * fc + rc)%nat) by (unfold fc, rc; dlia).
  assert (Hrc : (rc < 4)%nat) by (unfold rc; dlia).
  assert (Hzfc : Z.of_nat cnt / 4 = Z.of_nat fc) by (unfold fc; dlia).
  clearbody fc rc.
  rewrite Hcnt4, forM_app in Hw. destruct (bind_inv _ _ _ Hw) as (m1 & Hfast & Hrest). clear Hw.
  change (4 * fc)%nat with (4 * fc)%nat in Hfast. replace (seq 0 (4 * fc)) with (seq (4 * 0) (4 * fc)) in Hfast by reflexivity.
  rewrite forM_four in Hfast. rewrite Nat.add_0_l in Hrest.
  replace (4 * fc)%nat with (4 * fc + 0)%nat in Hrest at 1 by lia. rewrite forM_shift in Hrest.
  match goal with |- context [exec zops ?cl LFUEL (Sloop ?cd ?bd ?st) ?E0 ?MM] =>
    set (X := loop_step zops cd (exec zops cl LFUEL bd) (exec zops cl LFUEL st) (E0, MM))
  end.
  eassert (Hpre : X = _).
  { unfold X. rewrite (loop_step_Some zops). cm_run2. cm_release.
    replace (Z.of_nat cnt - Z.of_nat cnt) with 0 by lia. rewrite Hzfc.
    repeat match goal with HK : ?K = exec _ _ _ _ |- _ => subst K end. reflexivity. }
  match type of Hpre with context [exec zops ?cl LFUEL (Sloop ?cd ?bd ?st) ?E0 ?MM] =>
      pose (E := fun (j : nat) (t : @val Z * trie Z) =>
                   tset 30%positive (fst t) (tset 19%positive (Vint (Z.of_nat p0 + Z.of_nat aw + 4 * Z.of_nat j * Z.of_nat (h_rowstride h)))
                               (tset 26%positive (Vint (Z.of_nat fc - Z.of_nat j)) E0)));
      assert (HE0 : E0 = E 0%nat (Vundef, TLeaf)) by (unfold E; cbn [tset fst snd]; env_eq);
      destruct (for_loop_gen cl cd bd st _ E
                  (fun t => tset 26%positive (Vint (-1)) (tset 30%positive (Vint 0) (E fc t)))
                  (fun t ws => mem2 ws 4 (snd t)) fc
                  (four (fun r m => let p := p0 + aw + r * h_rowstride h in
                                    x <- rd m p ;;
                                    let xor_v := N.lxor x (shr x offs) in
                                    let xor_v := N.land xor_v (shl 1 mn) in
                                    cur <- rd m p ;; wr m p (N.lxor cur (N.lor xor_v (shl xor_v offs)))))%nat
                  (List.length mem)) with (mem0 := mem) (m1 := m1) (t0 := (@Vundef Z, @TLeaf Z)) as (Hl1 & Hok1 & t & Hloop)
  end.
  { (* four rows *)
    intros j t mk mk' Hjj Hl Hmk HF. unfold four in HF. cbv zeta in HF.
    assert (Hrs1 : (1 <= h_rowstride h)%nat) by lia.
    assert (Hrow : (r0 + (4 * j + 3) < h_nrows h)%nat) by lia.
    pose proof (valid_word h mem (r0 + 4 * j) aw Hv ltac:(lia) Hawl) as Hq0.
    pose proof (valid_word h mem (r0 + (4 * j + 1)) aw Hv ltac:(lia) Hawl) as Hq1.
    pose proof (valid_word h mem (r0 + (4 * j + 2)) aw Hv ltac:(lia) Hawl) as Hq2.
    pose proof (valid_word h mem (r0 + (4 * j + 3)) aw Hv ltac:(lia) Hawl) as Hq3.
    assert (He0 : (p0 + aw + 4 * j * h_rowstride h = row_addr h (r0 + 4 * j) + aw)%nat) by (unfold p0, row_addr; lia).
    assert (He1 : (p0 + aw + (4 * j + 1) * h_rowstride h = row_addr h (r0 + (4 * j + 1)) + aw)%nat) by (unfold p0, row_addr; lia).
    assert (He2 : (p0 + aw + (4 * j + 2) * h_rowstride h = row_addr h (r0 + (4 * j + 2)) + aw)%nat) by (unfold p0, row_addr; lia).
    assert (He3 : (p0 + aw + (4 * j + 3) * h_rowstride h = row_addr h (r0 + (4 * j + 3)) + aw)%nat) by (unfold p0, row_addr; lia).
    rewrite swap_row_ok in HF by lia. cbn [WMat.bind] in HF.
    rewrite swap_row_ok in HF by (rewrite ?upd_length; lia). cbn [WMat.bind] in HF.
    rewrite swap_row_ok in HF by (rewrite ?upd_length; lia). cbn [WMat.bind] in HF.
    rewrite swap_row_ok in HF by (rewrite ?upd_length; lia). apply wok_inj in HF. subst mk'.
    rewrite !word_at_upd_neq by lia.
    split; [now rewrite !upd_length|]. split; [now repeat apply mem_ok_upd|].
    eexists (_, _). rewrite (loop_step_None zops). unfold E. cbn [fst snd]. cm_run2.
    do 3 f_equal; [cbn [tset]; env_eq|].
    f_equal. unfold swap_word. wfin. }
  { (* exit of the fast loop *)
    intros t mk Hl Hmk. exists t. rewrite (loop_step_None zops). unfold E. cbn [fst snd]. cm_run2.
    replace (Z.of_nat fc - Z.of_nat fc) with 0 by lia.
    cm_run2. do 3 f_equal; try (cbn [tset]; env_eq). }
  { lia. }
  { reflexivity. }
  { assumption. }
  { exact Hfast. }
  eassert (Hmid : X = _).
  { cbv beta in Hloop. cbn [snd] in Hloop. rewrite Hpre, HE0, Hloop. cm_hide. unfold E. cbn [fst snd]. cm_run2. cm_release.
    repeat match goal with HK : ?K = exec _ _ _ _ |- _ => subst K end. reflexivity. }
  clear Hpre Hloop HE0. clear E.
  replace (Z.of_nat cnt - 4 * Z.of_nat fc) with (Z.of_nat rc) in Hmid by lia.
  set (dd := snd t) in *. clearbody dd. clear t.
  match type of Hmid with context [exec zops ?cl LFUEL (Sloop ?cd ?bd ?st) ?E0 ?MM] =>
      pose (E := fun (r : nat) (t : @val Z * @val Z) =>
                   let e1 := tset 32%positive (fst t)
                               (tset 19%positive (Vint (Z.of_nat p0 + Z.of_nat aw + 4 * Z.of_nat fc * Z.of_nat (h_rowstride h) + Z.of_nat r * Z.of_nat (h_rowstride h)))
                               (tset 27%positive (Vint (Z.of_nat rc - Z.of_nat r)) E0)) in
                   match r with O => e1 | S _ => tset 31%positive (snd t) e1 end);
      assert (HE0 : E0 = E 0%nat (Vundef, Vundef)) by (unfold E; cbn [tset fst snd]; env_eq);
      destruct (for_loop_gen cl cd bd st _ E
                  (fun t => tset 27%positive (Vint (-1)) (tset 32%positive (Vint 0) (E rc t)))
                  (fun _ ws => mem2 ws 4 dd) rc
                  (fun r m => let p := p0 + aw + (4 * fc + r) * h_rowstride h in
                              x <- rd m p ;;
                              let xor_v := N.lxor x (shr x offs) in
                              let xor_v := N.land xor_v (shl 1 mn) in
                              cur <- rd m p ;; wr m p (N.lxor cur (N.lor xor_v (shl xor_v offs))))%nat
                  (List.length mem)) with (mem0 := m1) (m1 := m') (t0 := (@Vundef Z, @Vundef Z)) as (Hl2 & Hok2 & t & Hloop)
  end.
  { (* one row *)
    intros r t mk mk' Hrr Hl Hmk HF. cbv zeta in HF.
    pose proof (valid_word h mem (r0 + (4 * fc + r)) aw Hv ltac:(lia) Hawl) as Hq0.
    assert (He0 : (p0 + aw + (4 * fc + r) * h_rowstride h = row_addr h (r0 + (4 * fc + r)) + aw)%nat) by (unfold p0, row_addr; lia).
    rewrite swap_row_ok in HF by lia. apply wok_inj in HF. subst mk'.
    split; [now rewrite !upd_length|]. split; [now repeat apply mem_ok_upd|].
    eexists (_, _). rewrite (loop_step_None zops). unfold E. destruct r; cbn [fst snd]; cm_run2.
    all: do 3 f_equal; [cbn [tset]; env_eq|]; f_equal; unfold swap_word; wfin. }
  { (* exit of the rest loop *)
    intros t mk Hl Hmk. exists t. rewrite (loop_step_None zops). unfold E. destruct rc; cbn [fst snd]; cm_run2.
    all: match goal with |- context [?a - ?a] => replace (a - a) with 0 by lia end.
    all: cm_run2; do 3 f_equal; try (cbn [tset]; env_eq). }
  { lia. }
  { congruence. }
  { assumption. }
  { exact Hrest. }
  eassert (Hpost : X = _).
  { cbv beta in Hloop. rewrite Hmid, HE0, Hloop. cm_hide. cm_run2. reflexivity. }
  unfold X in Hpost. rewrite (exec_loop_once _ _ _ _ _ _ _ _ Hpost). cm_run2. eexists. reflexivity.
Qed.
