(* Leaf/AccessSpecs.v — theorems about the T1-TRANSLATED accessor family of m4ri/mzd.h
   (Leaf/Gen_access.v, regenerated from the repository by tools/translate_acc.py on every check run),
   executed by the CMini interpreter on ONE word array, for ALL arguments of the documented domain.

   Shape of every theorem here ("the C text computes the word-level model"):
       w_f h args mem = Ok result   ->   run_acc "f" (bundle of h ++ args) (words mem) = Ok (result as Z)
   where [w_f] is the hand-written word-level model of Word/WOps.v (until now tied to the C code by
   differential testing only), [h : hdr] is the header of Word/WMat.v (the fields of mzd_t; [h_off] = offset
   of M->data inside the word array, > 0 for windows) and [mem : list N] is the whole word array.
   Leaf/AccessSpecs3.v composes these with the refinement theorems of Word/WRefine*.v: the result is the
   one the matrix-level model of Lin/Ops.v returns on [abs h mem], and every bit of the array outside the
   view (other rows, words between the rows, padding bits beyond ncols) is unchanged.

   Domain hypotheses ([c_dom]): the integer members fit their C types (rci_t = int, wi_t = int64_t) and
   the array has fewer than 2^48 words (2 PiB), so that no `int`/`long` computation of the C text overflows
   — row * rowstride and all word offsets stay below the array length (mzd.h:186 multiplies in wi_t) — and
   the interpreter's loop fuel (2^48 iterations, CMini.LFUEL) is never exhausted by a loop over a row.

   This file: the harness, N <-> Z word arithmetic, the evaluation tactic, mzd_row (mzd.h:185),
   mzd_row_const (:189), mzd_read_bit (:440), mzd_write_bit (:457), mzd_read_bits (:893).
   AccessSpecs2.v: mzd_xor_bits (:472), mzd_clear_bits (:514), mzd_and_bits (:492). *)
From Coq Require Import ZArith NArith List String Bool Lia ZifyBool ZifyNat ZifyN.
From M4 Require Import Base.Bits Lin.Mat Lin.Ops Word.WMat Word.WMatLemmas Word.WOps
  Leaf.CMini Leaf.CMiniAcc Leaf.Gen_access.
Import ListNotations.
Local Open Scope Z_scope.
Ltac Zify.zify_post_hook ::= Z.div_mod_to_equations.

(** * The harness *)
(** the bundle that stands for `mzd_t *M` (order: [Gen_access.mzd_t_bundle]), followed by the other arguments.
    The block of the word array is block 1 of [mem_of]. *)
Notation bundle nrows ncols width rs fl hm d0 tail :=
  (@Vint Z nrows :: @Vint Z ncols :: @Vint Z width :: @Vint Z rs :: @Vint Z fl :: @Vint Z hm ::
   @Vptr Z 1%positive 0 :: @Vint Z d0 :: tail).

(** the layout assumed by [bundle] is the one the translator printed *)
Lemma bundle_layout : map fst mzd_t_bundle =
  ["nrows"; "ncols"; "width"; "rowstride"; "flags"; "high_bitmask"; "data"; "data_off"]%string.
Proof. reflexivity. Qed.

Definition hbundle (h : hdr) (fl : Z) (tail : list (@val Z)) : list (@val Z) :=
  bundle (Z.of_nat (h_nrows h)) (Z.of_nat (h_ncols h)) (Z.of_nat (h_width h)) (Z.of_nat (h_rowstride h))
         fl (Z.of_N (h_hmask h)) (Z.of_nat (h_off h)) tail.

Definition words (mem : list N) : list Z := map Z.of_N mem.

(** run [f] on the array [ws]; result: the integer returned (if any) and the array afterwards *)
Definition run_acc (f : string) (args : list (@val Z)) (ws : list Z) : res (option Z * list Z) :=
  do r <- run zops access_prog LFUEL DEPTH f args (mem_of ws);
  match read_back (snd r) (List.length ws), fst r with
  | Some ws', None => Ok (None, ws')
  | Some ws', Some (Vint v) => Ok (Some v, ws')
  | Some _, Some _ => UB "non-integer result"
  | None, _ => UB "a word of the array is uninitialised after the run"
  end.

Lemma run_acc_intro f args ws (r : option Z) ws' :
  List.length ws' = List.length ws ->
  run zops access_prog LFUEL DEPTH f args (mem_of ws) = Ok (option_map (@Vint Z) r, mem_of ws') ->
  run_acc f args ws = Ok (r, ws').
Proof.
  intros Hl Hr. unfold run_acc. rewrite Hr. cbn [bind snd fst]. rewrite <- Hl, read_back_mem_of.
  destruct r; reflexivity.
Qed.

(** the domain on which the C integer types hold the members and every offset; M->data points into the array *)
Definition c_dom (h : hdr) (fl : Z) (mem : list N) : Prop :=
  Z.of_nat (h_nrows h) <= 2147483647 /\ Z.of_nat (h_ncols h) <= 2147483647 /\
  Z.of_nat (h_rowstride h) < 2 ^ 62 /\ 0 <= fl <= 255 /\ Z.of_nat (List.length mem) < 2 ^ 48 /\
  (h_off h <= List.length mem)%nat.

(** * 64-bit words in Z and in N *)
Definition w64 (z : Z) : Prop := 0 <= z < M64.

Lemma M64_eq : M64 = 2 ^ 64. Proof. reflexivity. Qed.

Lemma tb_mod a k : 0 <= k -> Z.testbit (a mod M64) k = (k <? 64) && Z.testbit a k.
Proof.
  intros Hk. rewrite M64_eq. destruct (Z.ltb_spec k 64).
  - now rewrite Z.mod_pow2_bits_low by lia.
  - now rewrite Z.mod_pow2_bits_high by lia.
Qed.

Lemma w64_high a k : w64 a -> 64 <= k -> Z.testbit a k = false.
Proof.
  intros [H0 H1] Hk. destruct (Z.eq_dec a 0) as [->|Hne]; [apply Z.testbit_0_l|].
  apply Z.bits_above_log2; [lia|]. apply Z.lt_le_trans with 64; [|lia]. apply Z.log2_lt_pow2; [lia|].
  now rewrite <- M64_eq.
Qed.

Lemma w64_intro a : 0 <= a -> (forall k, 64 <= k -> Z.testbit a k = false) -> w64 a.
Proof.
  intros H0 Hb. split; [assumption|]. destruct (Z.eq_dec a 0) as [->|Hne]; [reflexivity|].
  rewrite M64_eq. apply Z.log2_lt_pow2; [lia|].
  destruct (Z.lt_ge_cases (Z.log2 a) 64) as [Hl|Hl]; [assumption|].
  pose proof (Z.bit_log2 a ltac:(lia)) as Hbit. rewrite (Hb _ Hl) in Hbit. discriminate.
Qed.

Lemma w64_mod z : w64 (z mod M64).
Proof. unfold w64, M64. lia. Qed.
Lemma mod_w64 z : w64 z -> z mod M64 = z.
Proof. intros H. apply Z.mod_small. exact H. Qed.
Lemma w64_land a b : w64 a -> w64 b -> w64 (Z.land a b).
Proof.
  intros Ha Hb. apply w64_intro; [apply Z.land_nonneg; left; apply Ha|].
  intros k Hk. now rewrite Z.land_spec, (w64_high a k Ha Hk).
Qed.
Lemma w64_lor a b : w64 a -> w64 b -> w64 (Z.lor a b).
Proof.
  intros Ha Hb. apply w64_intro; [apply Z.lor_nonneg; split; [apply Ha|apply Hb]|].
  intros k Hk. now rewrite Z.lor_spec, (w64_high a k Ha Hk), (w64_high b k Hb Hk).
Qed.
Lemma w64_lxor a b : w64 a -> w64 b -> w64 (Z.lxor a b).
Proof.
  intros Ha Hb. apply w64_intro; [apply Z.lxor_nonneg; split; intros _; [apply Hb|apply Ha]|].
  intros k Hk. now rewrite Z.lxor_spec, (w64_high a k Ha Hk), (w64_high b k Hb Hk).
Qed.
Lemma w64_shiftr a n : w64 a -> 0 <= n -> w64 (Z.shiftr a n).
Proof.
  intros Ha Hn. apply w64_intro; [apply Z.shiftr_nonneg, Ha|].
  intros k Hk. rewrite Z.shiftr_spec by lia. apply w64_high; [assumption|lia].
Qed.
Lemma w64_of_N w : (w < 2 ^ 64)%N -> w64 (Z.of_N w).
Proof. intros H. unfold w64, M64. lia. Qed.
Lemma w64_const z : (0 <=? z) && (z <? M64) = true -> w64 z.
Proof. unfold w64. lia. Qed.

Lemma of_N_lxor a b : Z.of_N (N.lxor a b) = Z.lxor (Z.of_N a) (Z.of_N b).
Proof. destruct a, b; reflexivity. Qed.
Lemma of_N_land a b : Z.of_N (N.land a b) = Z.land (Z.of_N a) (Z.of_N b).
Proof. destruct a, b; reflexivity. Qed.
Lemma of_N_lor a b : Z.of_N (N.lor a b) = Z.lor (Z.of_N a) (Z.of_N b).
Proof. destruct a, b; reflexivity. Qed.
Lemma of_N_shr a n : Z.of_N (shr a n) = Z.shiftr (Z.of_N a) (Z.of_nat n).
Proof.
  unfold shr. apply Z.bits_inj'. intros k Hk. rewrite Z.shiftr_spec, !Z.testbit_of_N' by lia.
  rewrite N.shiftr_spec by lia. f_equal. lia.
Qed.
Lemma of_N_trunc a : Z.of_N (trunc a) = Z.of_N a mod M64.
Proof.
  unfold trunc, ffff. rewrite of_N_land. change (Z.of_N (N.ones 64)) with (Z.ones 64).
  rewrite Z.land_ones by lia. reflexivity.
Qed.
Lemma of_N_shiftl a n : Z.of_N (N.shiftl a n) = Z.shiftl (Z.of_N a) (Z.of_N n).
Proof.
  apply Z.bits_inj'. intros k Hk. rewrite Z.shiftl_spec, Z.testbit_of_N' by lia.
  destruct (Z.lt_ge_cases k (Z.of_N n)).
  - rewrite N.shiftl_spec_low by lia. symmetry. apply Z.testbit_neg_r. lia.
  - rewrite N.shiftl_spec_high by lia. rewrite Z.testbit_of_N' by lia. f_equal. lia.
Qed.
Lemma of_N_shl a n : Z.of_N (shl a n) = Z.shiftl (Z.of_N a) (Z.of_nat n) mod M64.
Proof. unfold shl. rewrite of_N_trunc, of_N_shiftl. do 2 f_equal. lia. Qed.
Lemma of_N_wnot a : (a < 2 ^ 64)%N -> Z.of_N (wnot a) = Z.lnot (Z.of_N a) mod M64.
Proof.
  intros Ha. apply Z.bits_inj'. intros k Hk. rewrite tb_mod, Z.lnot_spec, !Z.testbit_of_N' by lia.
  unfold wnot, ffff. rewrite N.ldiff_spec.
  destruct (Z.ltb_spec k 64); cbn [andb].
  - rewrite N.ones_spec_low by lia. reflexivity.
  - rewrite N.ones_spec_high by lia. reflexivity.
Qed.

Lemma shl_lt a n : (shl a n < 2 ^ 64)%N. Proof. apply trunc_lt. Qed.
Lemma wnot_lt a : (wnot a < 2 ^ 64)%N.
Proof.
  unfold wnot. change 64%N with (N.of_nat 64). apply bounded_lt. intros j Hj.
  rewrite N.ldiff_spec. unfold ffff. change 64%N with (N.of_nat 64).
  rewrite testbit_ones_nat. destruct (Nat.ltb_spec j 64); [lia|reflexivity].
Qed.

(** the words of the array *)
Lemma words_length mem : List.length (words mem) = List.length mem.
Proof. apply map_length. Qed.
Lemma nth_words mem p : nth p (words mem) 0 = Z.of_N (word_at mem p).
Proof. unfold words, word_at. change 0 with (Z.of_N 0). apply map_nth. Qed.
Lemma words_upd mem p v : words (upd p v mem) = upd p (Z.of_N v) (words mem).
Proof.
  unfold words. revert p; induction mem as [|x l IH]; intros [|p]; cbn; try reflexivity. now rewrite IH.
Qed.
Lemma word_at_w64 mem p : mem_ok mem -> w64 (Z.of_N (word_at mem p)).
Proof. intros H. apply w64_of_N. now apply mem_ok_word. Qed.

Lemma w64_nth_words mem i : mem_ok mem -> w64 (nth i (words mem) 0).
Proof. intros H. rewrite nth_words. now apply word_at_w64. Qed.
Lemma nth_words_Z mem z p : z = Z.of_nat p -> nth (Z.to_nat z) (words mem) 0 = Z.of_N (word_at mem p).
Proof. intros ->. now rewrite Nat2Z.id, nth_words. Qed.

Lemma land_mod a b : w64 a -> w64 b -> Z.land a b mod M64 = Z.land a b.
Proof. intros. apply mod_w64. now apply w64_land. Qed.
Lemma lor_mod a b : w64 a -> w64 b -> Z.lor a b mod M64 = Z.lor a b.
Proof. intros. apply mod_w64. now apply w64_lor. Qed.
Lemma lxor_mod a b : w64 a -> w64 b -> Z.lxor a b mod M64 = Z.lxor a b.
Proof. intros. apply mod_w64. now apply w64_lxor. Qed.
Lemma shiftr_mod a n : w64 a -> 0 <= n -> Z.shiftr a n mod M64 = Z.shiftr a n.
Proof. intros. apply mod_w64. now apply w64_shiftr. Qed.

Lemma wok_inj {T} (a b : T) : WMat.Ok a = WMat.Ok b -> a = b.
Proof. congruence. Qed.

(** * Evaluation *)
Ltac cm_side := first [ apply in_range_tlong; lia | apply in_range_tint; lia | lia ].

(** [0 <= e < M64] for word expressions *)
Ltac w64_solve :=
  repeat first [ assumption
               | apply w64_mod | apply w64_land | apply w64_lor | apply w64_lxor
               | apply w64_shiftr; [|lia]
               | apply word_at_w64; assumption
               | apply w64_nth_words; assumption
               | apply w64_of_N; first [assumption | apply shl_lt | apply wnot_lt | apply trunc_lt | apply shr_lt; assumption | lia]
               | apply w64_const; reflexivity ].

Ltac cm_eval' := cm_eval; cbn [wbits].
Ltac cm_len := rewrite ?upd_length_Z, ?words_length; lia.
Ltac cm_step :=
  match goal with
  | |- context [0 + ?z] => rewrite (Z.add_0_l z)
  | |- context [wmod W64] => progress change (wmod W64) with M64
  | |- context [Z.quot ?a ?b] => rewrite (quot_nonneg a b) by lia
  | |- context [Z.rem ?a ?b] => rewrite (rem_nonneg a b) by lia
  | |- context [convert tulong ?z] =>
      first [rewrite (convert_tulong_id z) by (unfold M64; lia) | rewrite (convert_tulong z)]
  | |- context [convert tlong ?z] => rewrite (convert_tlong z) by lia
  | |- context [convert tint ?z] => rewrite (convert_tint z) by lia
  | |- context [nth ?j (upd ?i ?x ?l) ?d] => rewrite (nth_upd_neq i j x d l) by lia
  | |- context [load (mem_of ?ws) _ ?i] => rewrite (load_mem_of ws i) by cm_len
  | |- context [store (mem_of ?ws) _ ?i (Vint ?v)] => rewrite (store_mem_of ws i v) by cm_len
  | |- _ => cm_if cm_side
  end.
(** never steps into a loop: loops are entered by [exec_Sloop_reach] with an invariant *)
Ltac cm_noloop :=
  lazymatch goal with
  | |- context [exec zops _ _ (Sloop _ _ _) _ _] => fail
  | |- _ => idtac
  end.
Ltac cm_run :=
  repeat first [ cm_noloop; cm_split | cm_noloop; progress cm_eval' | cm_step | progress cm_release; cm_noloop ].

(** the closing steps: both sides are the same word expression, one over Z (the C semantics: every unsigned
    operation is followed by mod 2^64), one over N (the model: truncation only where a bit can leave the word) *)
Ltac nlt_solve :=
  repeat first [ assumption | apply shl_lt | apply wnot_lt | apply trunc_lt | apply shr_lt
               | apply mem_ok_word; assumption | reflexivity ].
Ltac n2z := repeat first [ rewrite of_N_trunc | rewrite of_N_lor | rewrite of_N_land | rewrite of_N_lxor
                         | rewrite of_N_shl | rewrite of_N_shr
                         | rewrite of_N_wnot by nlt_solve ].
Ltac wnorm := repeat first [ rewrite land_mod by w64_solve | rewrite lor_mod by w64_solve
                           | rewrite lxor_mod by w64_solve | rewrite shiftr_mod by first [lia | w64_solve] ].
Ltac weq :=
  lazymatch goal with
  | |- Z.land _ _ = Z.land _ _ => f_equal; weq
  | |- Z.lor _ _ = Z.lor _ _ => f_equal; weq
  | |- Z.lxor _ _ = Z.lxor _ _ => f_equal; weq
  | |- Z.shiftl _ _ = Z.shiftl _ _ => f_equal; weq
  | |- Z.shiftr _ _ = Z.shiftr _ _ => f_equal; weq
  | |- Z.lnot _ = Z.lnot _ => f_equal; weq
  | |- _ mod M64 = _ mod M64 => f_equal; weq
  | |- nth (Z.to_nat _) (words _) 0 = Z.of_N (word_at _ _) => apply nth_words_Z; lia
  | |- _ => first [reflexivity | lia | idtac]
  end.
Ltac res_eq := repeat match goal with
  | |- Ok _ = Ok _ => f_equal
  | |- (_, _) = (_, _) => f_equal
  | |- Some _ = Some _ => f_equal
  | |- Vint _ = Vint _ => f_equal
  | |- mem_of _ = mem_of _ => f_equal
  | |- upd _ _ _ = upd _ _ _ => f_equal
  end.
Ltac wfin := cbn [option_map]; rewrite ?words_upd; res_eq; n2z; wnorm; weq.

(** enter a function of [access_prog] *)
Ltac cm_enter f fdef :=
  rewrite run_S; change (find_func access_prog f) with (Some fdef); cbv beta iota; unfold fdef;
  cbn [fn_params fn_body bind_params bind tset].

(** * mzd_row (mzd.h:185) and mzd_row_const (mzd.h:189): offset of row [row] = data offset + rowstride * row.
    The product is computed in wi_t = int64_t. *)
Lemma run_mzd_row d nrows ncols width rs fl hm d0 row m :
  -2147483648 <= row <= 2147483647 ->
  -9223372036854775808 <= rs * row <= 9223372036854775807 ->
  -9223372036854775808 <= d0 + rs * row <= 9223372036854775807 ->
  run zops access_prog LFUEL (S d) "mzd_row" (bundle nrows ncols width rs fl hm d0 [Vint row]) m =
  Ok (Some (Vint (d0 + rs * row)), m).
Proof. intros Hr H1 H2. cm_enter "mzd_row"%string f_mzd_row. cm_run. reflexivity. Qed.

Lemma run_mzd_row_const d nrows ncols width rs fl hm d0 row m :
  -2147483648 <= row <= 2147483647 ->
  -9223372036854775808 <= rs * row <= 9223372036854775807 ->
  -9223372036854775808 <= d0 + rs * row <= 9223372036854775807 ->
  run zops access_prog LFUEL (S (S d)) "mzd_row_const" (bundle nrows ncols width rs fl hm d0 [Vint row]) m =
  Ok (Some (Vint (d0 + rs * row)), m).
Proof.
  intros Hr H1 H2. cm_enter "mzd_row_const"%string f_mzd_row_const. cm_run.
  rewrite run_mzd_row by assumption. cm_run. reflexivity.
Qed.

(** in terms of the header: the offset of row i is [row_addr h i] *)
Lemma row_offset h i : Z.of_nat (h_off h) + Z.of_nat (h_rowstride h) * Z.of_nat i = Z.of_nat (row_addr h i).
Proof. unfold row_addr. lia. Qed.

(** facts every accessor proof starts from: the address of word k of row i is inside the array *)
Lemma dom_facts h fl mem i k : valid h mem -> c_dom h fl mem -> (i < h_nrows h)%nat -> (k < h_width h)%nat ->
  (row_addr h i + k < List.length mem)%nat /\
  0 <= Z.of_nat (h_rowstride h) * Z.of_nat i <= Z.of_nat (List.length mem) /\
  Z.of_nat (h_off h) + Z.of_nat (h_rowstride h) * Z.of_nat i = Z.of_nat (row_addr h i) /\
  Z.of_nat (row_addr h i) < 2 ^ 62 /\ Z.of_nat i <= 2147483647.
Proof.
  intros Hv Hd Hi Hk. pose proof (valid_word h mem i k Hv Hi Hk) as Hp.
  destruct Hd as (H1 & H2 & H3 & H4 & H5 & H6). unfold row_addr in *. repeat split; try lia; nia.
Qed.

(** * mzd_read_bit (mzd.h:440) *)
Lemma get_bit_value w s :
  convert tint (Z.land (Z.shiftr (Z.of_N w) (Z.of_nat s)) 1 mod M64) = Z.b2z (N.testbit (N.land (shr w s) 1) 0).
Proof.
  change 0%N with (N.of_nat 0). rewrite N.land_spec, testbit_shr. cbn [Nat.add N.of_nat N.testbit N.odd].
  rewrite andb_true_r.
  change 1 with (Z.ones 1) at 1. rewrite Z.land_ones by lia. change (2 ^ 1) with 2.
  rewrite <- Z.bit0_mod. rewrite Z.shiftr_spec by lia. rewrite Z.add_0_l.
  rewrite <- nat_N_Z, Z.testbit_of_N.
  destruct (N.testbit w (N.of_nat s)); reflexivity.
Qed.

Theorem acc_read_bit_w h fl mem i j b :
  valid h mem -> c_dom h fl mem -> (i < h_nrows h)%nat -> (j < h_ncols h)%nat ->
  w_read_bit h i j mem = WMat.Ok b ->
  run_acc "mzd_read_bit" (hbundle h fl [Vint (Z.of_nat i); Vint (Z.of_nat j)]) (words mem) =
  Ok (Some (Z.b2z b), words mem).
Proof.
  intros Hv Hd Hi Hj Hw. pose proof (valid_hdr_ok _ _ Hv) as Hok. pose proof (valid_mem_ok _ _ Hv) as Hm.
  assert (Hk : (j / 64 < h_width h)%nat) by now apply width_pos.
  destruct (dom_facts h fl mem i (j / 64) Hv Hd Hi Hk) as (Hp & Hri & Hra & Hbig & Hii).
  pose proof Hd as (D1 & D2 & D3 & D4 & D5 & D6).
  unfold w_read_bit in Hw. rewrite rd_ok in Hw by assumption. cbn [WMat.bind] in Hw. apply wok_inj in Hw. subst b.
  apply run_acc_intro; [reflexivity|]. unfold hbundle. change DEPTH with (S (S (S 9))).
  cm_enter "mzd_read_bit"%string f_mzd_read_bit. cm_run.
  rewrite run_mzd_row_const by lia. cm_run.
  replace (Z.of_nat (h_off h) + Z.of_nat (h_rowstride h) * Z.of_nat i + Z.of_nat j / 64)
    with (Z.of_nat (row_addr h i + j / 64)) by lia.
  rewrite Nat2Z.id, nth_words. replace (Z.of_nat j mod 64) with (Z.of_nat (j mod 64)) by lia.
  cbn [option_map]. now rewrite get_bit_value.
Qed.

(** * mzd_write_bit (mzd.h:457); the BIT argument is 0 or 1 *)
Theorem acc_write_bit_w h fl mem i j v m' :
  valid h mem -> c_dom h fl mem -> (i < h_nrows h)%nat -> (j < h_ncols h)%nat ->
  w_write_bit h i j v mem = WMat.Ok m' ->
  run_acc "mzd_write_bit" (hbundle h fl [Vint (Z.of_nat i); Vint (Z.of_nat j); Vint (Z.b2z v)]) (words mem) =
  Ok (None, words m').
Proof.
  intros Hv Hd Hi Hj Hw. pose proof (valid_hdr_ok _ _ Hv) as Hok. pose proof (valid_mem_ok _ _ Hv) as Hm.
  assert (Hk : (j / 64 < h_width h)%nat) by now apply width_pos.
  destruct (dom_facts h fl mem i (j / 64) Hv Hd Hi Hk) as (Hp & Hri & Hra & Hbig & Hii).
  pose proof Hd as (D1 & D2 & D3 & D4 & D5 & D6).
  unfold w_write_bit in Hw. rewrite rd_ok in Hw by assumption. cbn [WMat.bind] in Hw.
  rewrite wr_ok in Hw by assumption. apply wok_inj in Hw. subst m'.
  assert (Hvb : 0 <= Z.b2z v <= 1) by (destruct v; cbn; lia).
  apply run_acc_intro; [now rewrite !words_length, upd_length|]. unfold hbundle. change DEPTH with (S (S 10)).
  cm_enter "mzd_write_bit"%string f_mzd_write_bit. cm_run.
  rewrite run_mzd_row by lia. cm_run.
  replace (Z.of_nat (h_off h) + Z.of_nat (h_rowstride h) * Z.of_nat i + Z.of_nat j / 64)
    with (Z.of_nat (row_addr h i + j / 64)) by lia.
  rewrite Nat2Z.id, nth_words. replace (Z.of_nat j mod 64) with (Z.of_nat (j mod 64)) by lia.
  wfin. destruct v; reflexivity.
Qed.

(** * mzd_read_bits (mzd.h:893), documented domain 1 <= n <= 64 *)
Theorem acc_read_bits_w h fl mem x y n r :
  valid h mem -> c_dom h fl mem -> (x < h_nrows h)%nat -> (1 <= n <= 64)%nat -> (y + n <= h_ncols h)%nat ->
  w_read_bits h x y n mem = WMat.Ok r ->
  run_acc "mzd_read_bits" (hbundle h fl [Vint (Z.of_nat x); Vint (Z.of_nat y); Vint (Z.of_nat n)]) (words mem) =
  Ok (Some (Z.of_N r), words mem).
Proof.
  intros Hv Hd Hx Hn Hy Hw. pose proof (valid_hdr_ok _ _ Hv) as Hok. pose proof (valid_mem_ok _ _ Hv) as Hm.
  assert (Hk : (y / 64 < h_width h)%nat) by (apply width_pos; [assumption|lia]).
  destruct (dom_facts h fl mem x (y / 64) Hv Hd Hx Hk) as (Hp & Hri & Hra & Hbig & Hii).
  pose proof Hd as (D1 & D2 & D3 & D4 & D5 & D6).
  unfold w_read_bits in Hw. destruct (Nat.ltb_spec 64 n); [lia|].
  apply run_acc_intro; [reflexivity|]. unfold hbundle. change DEPTH with (S (S (S 9))).
  cm_enter "mzd_read_bits"%string f_mzd_read_bits.
  destruct (Nat.leb_spec (y mod 64 + n) 64) as [Hs|Hs].
  - rewrite rd_ok in Hw by assumption. cbn [WMat.bind] in Hw. rewrite shl64_ok in Hw by lia. cbn [WMat.bind] in Hw.
    rewrite shr64_ok in Hw by lia. apply wok_inj in Hw. subst r.
    cm_run. rewrite run_mzd_row_const by lia. cm_run.
    wfin.
  - assert (Hk1 : (y / 64 + 1 < h_width h)%nat).
    { assert ((y + n - 1) / 64 < h_width h)%nat by (apply width_pos; [assumption|lia]). lia. }
    pose proof (valid_word h mem x (y / 64 + 1) Hv Hx Hk1) as Hp1.
    rewrite rd_ok in Hw by lia. cbn [WMat.bind] in Hw. rewrite rd_ok in Hw by lia. cbn [WMat.bind] in Hw.
    rewrite shl64_ok in Hw by lia. cbn [WMat.bind] in Hw. rewrite shr64_ok in Hw by lia. cbn [WMat.bind] in Hw.
    rewrite shr64_ok in Hw by lia. apply wok_inj in Hw. subst r.
    cm_run. rewrite run_mzd_row_const by lia. cm_run.
    wfin.
Qed.
