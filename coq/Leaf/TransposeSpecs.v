(* Leaf/TransposeSpecs.v — theorems about the T1-TRANSLATED transpose kernels of m4ri/mzd.c
   (Leaf/Gen_transpose.v, regenerated from the repository by `tools/translate.py --transpose` on every
   check run), executed by the CMini interpreter on word arrays.

   Technique (that of LeafSpecs.parity64_spec, with the sparse forms of Leaf/CMiniSymS.v): ONE symbolic run
   of a kernel for fixed control arguments (row strides, sizes) on buffers whose bits are distinct
   variables yields, through [sym_sound], a statement about EVERY content of the buffers: the run
   succeeds (no UB, no out-of-bounds access, no uninitialised read — the interpreter checks all three
   against the stated buffer extents) and every bit of every word of every buffer afterwards is a given
   bit of a given input word, or 0.  [kernel_bits] is that lifting, proved once; per kernel there is a
   boolean [check] evaluated by [vm_compute] against an explicit table [expected] of bit sources.

   Calling convention of offset-mode functions (tools/translate.py, class FnP): a C pointer parameter is
   two parameters, the block and a `long` offset into it.  Buffers are allocated in order and get the
   block numbers 1, 2, ...; [AP b o] passes block b with block-pointer offset o.

   This file: the generic part, _mzd_copy_transpose_64x64 (mzd.c:252), _mzd_copy_transpose_64x64_2
   (mzd.c:330), _mzd_copy_transpose_lt64x64 (mzd.c:474) and _mzd_copy_transpose_64xlt64 (mzd.c:607).
   TransposeSpecs2.v ...: _mzd_copy_transpose_small (mzd.c:944) with its four size classes. *)
From Coq Require Import ZArith NArith List String Bool Lia ZifyBool ZifyNat ZifyN.
From M4 Require Import Leaf.CMini Leaf.CMiniSim Leaf.CMiniSymS Leaf.Gen_transpose.
Import ListNotations.
Local Open Scope Z_scope.
Ltac Zify.zify_post_hook ::= Z.div_mod_to_equations.

(** * Running a translated function on a list of buffers *)
Inductive arg := AP (b : positive) (o : Z) | AI (z : Z).

Section Harness.
  Context {V : Type} (ops : vops V).

  Definition mkarg (a : arg) : @val V :=
    match a with
    | AP b o => Vptr b o
    | AI z => Vint (v_const ops z)
    end.

  Fixpoint alloc_all (m : @mem V) (bufs : list (list V)) : @mem V :=
    match bufs with
    | [] => m
    | b :: r => alloc_all (fst (alloc_list m b)) r
    end.

  Definition read_block (m : @mem V) (b : positive) (n : nat) : list (option V) :=
    map (fun i => read_elem m b (Z.of_nat i)) (seq 0 n).

  Fixpoint read_all (m : @mem V) (b : positive) (lens : list nat) : list (list (option V)) :=
    match lens with
    | [] => []
    | n :: r => read_block m b n :: read_all m (Pos.succ b) r
    end.

  (** run [f] on freshly allocated buffers; result: the contents of all buffers afterwards *)
  Definition runk (f : string) (args : list arg) (bufs : list (list V)) : res (list (list (option V))) :=
    do r <- run ops transpose_prog LFUEL DEPTH f (map mkarg args) (alloc_all empty_mem bufs);
    Ok (read_all (snd r) 1%positive (map (@List.length V) bufs)).
End Harness.

(** concrete runs: every element read back must be initialised *)
Fixpoint all_some {A} (l : list (option A)) : option (list A) :=
  match l with
  | [] => Some []
  | None :: _ => None
  | Some a :: r => match all_some r with Some r' => Some (a :: r') | None => None end
  end.

Fixpoint all_some2 {A} (l : list (list (option A))) : option (list (list A)) :=
  match l with
  | [] => Some []
  | x :: r => match all_some x, all_some2 r with
              | Some x', Some r' => Some (x' :: r')
              | _, _ => None
              end
  end.

Definition runz (f : string) (args : list arg) (bufs : list (list Z)) : res (list (list Z)) :=
  do o <- runk zops f args bufs;
  match all_some2 o with
  | Some l => Ok l
  | None => UB "a buffer element is uninitialised after the run"
  end.

(** * Simulation for the harness *)
Section HarnessSim.
  Variable rho : N -> bool.
  Let h := den rho.

  Lemma mkarg_sim a : hval h (mkarg sops a) = mkarg zops a.
  Proof. destruct a; reflexivity. Qed.

  Lemma alloc_all_sim m bufs :
    hmem h (alloc_all m bufs) = alloc_all (hmem h m) (map (map h) bufs).
  Proof.
    revert m; induction bufs as [|b r IH]; intros m; [reflexivity|].
    cbn [alloc_all map]. rewrite IH. destruct (hmem_alloc_list h m b) as [Hm _]. now rewrite Hm.
  Qed.

  Lemma read_elem_sim (m : @mem sval) b i : read_elem (hmem h m) b i = option_map h (read_elem m b i).
  Proof.
    unfold read_elem, hmem; cbn [m_blocks]. rewrite tget_tmap.
    destruct (tget b (m_blocks m)) as [bl|]; cbn [option_map]; [|reflexivity].
    unfold hblock; cbn [b_data]. apply tget_tmap.
  Qed.

  Lemma read_all_sim (m : @mem sval) b lens :
    read_all (hmem h m) b lens = map (map (option_map h)) (read_all m b lens).
  Proof.
    revert b; induction lens as [|n r IH]; intros b; [reflexivity|].
    cbn [read_all map]. rewrite IH. f_equal. unfold read_block. rewrite map_map.
    apply map_ext. intros i. apply read_elem_sim.
  Qed.

  Lemma runk_sim f args bufs out :
    runk sops f args bufs = Ok out ->
    runk zops f args (map (map h) bufs) = Ok (map (map (option_map h)) out).
  Proof.
    unfold runk. intros H. inv_binds. apply (sym_sound rho) in E. fold h in E.
    rewrite map_map in E. rewrite (map_ext _ _ mkarg_sim) in E.
    rewrite alloc_all_sim in E.
    assert (He : hmem h (@empty_mem sval) = @empty_mem Z) by reflexivity. rewrite He in E.
    rewrite E. cbn [bind]. inversion H; subst. f_equal.
    unfold hres; cbn [snd]. rewrite read_all_sim. do 2 f_equal.
    rewrite !map_map. apply map_ext. intros l. now rewrite map_length.
  Qed.
End HarnessSim.

(** * Input bits as variables *)
Definition BIG : N := 1048576.    (* 2^20: bound on the number of words of a buffer *)

(** variable of bit j of word p of buffer b (indices in N: they are computed with in the sweeps) *)
Definition enc (b p j : N) : N := ((b * BIG + p) * 64 + j)%N.

Definition rho_of (bufs : list (list Z)) (k : N) : bool :=
  let q := (k / 64)%N in
  Z.testbit (nth (N.to_nat (q mod BIG)) (nth (N.to_nat (q / BIG)) bufs []) 0) (Z.of_N (k mod 64)).

Lemma rho_enc bufs b p j : (p < BIG)%N -> (j < 64)%N ->
  rho_of bufs (enc b p j) = Z.testbit (nth (N.to_nat p) (nth (N.to_nat b) bufs []) 0) (Z.of_N j).
Proof.
  intros Hp Hj. unfold rho_of, enc, BIG in *.
  replace (((b * 1048576 + p) * 64 + j) / 64)%N with (b * 1048576 + p)%N by lia.
  replace (((b * 1048576 + p) * 64 + j) mod 64)%N with j by lia.
  replace ((b * 1048576 + p) mod 1048576)%N with p by lia.
  replace ((b * 1048576 + p) / 1048576)%N with b by lia.
  reflexivity.
Qed.

(** the symbolic word for word p of buffer b: bits below [width] are variables, the others 0 *)
Definition symw (b p : N) (width : nat) : sval :=
  SS (map (fun j => if (j <? width)%nat then fvar (enc b p (N.of_nat j)) else fzero) (seq 0 64)).

Definition symbuf (b : nat) (sh : nat * nat) : list sval :=
  map (fun p => symw (N.of_nat b) (N.of_nat p) (snd sh)) (seq 0 (fst sh)).

Fixpoint symbufs (b : nat) (shape : list (nat * nat)) : list (list sval) :=
  match shape with
  | [] => []
  | sh :: r => symbuf b sh :: symbufs (S b) r
  end.

(** a concrete buffer fits a shape (number of words, width): words below 2^width *)
Definition fits (buf : list Z) (sh : nat * nat) : Prop :=
  List.length buf = fst sh /\ Forall (fun x => 0 <= x < 2 ^ Z.of_nat (snd sh)) buf.

Lemma den_symw bufs b p width x :
  (N.of_nat p < BIG)%N -> (width <= 64)%nat -> x = nth p (nth b bufs []) 0 -> 0 <= x < 2 ^ Z.of_nat width ->
  den (rho_of bufs) (symw (N.of_nat b) (N.of_nat p) width) = x.
Proof.
  intros Hp Hw Hx Hr. unfold symw; cbn [den].
  assert (H64 : 0 <= x < 2 ^ Z.of_nat 64).
  { split; [lia|]. apply Z.lt_le_trans with (2 ^ Z.of_nat width); [lia|]. apply Z.pow_le_mono_r; lia. }
  rewrite <- (Z.mod_small x (2 ^ Z.of_nat 64)) by assumption.
  apply bits_eq_mod; [now rewrite !map_length, seq_length|].
  intros i Hi. rewrite nth_map_evalf.
  rewrite (nth_indep _ fzero ((fun j => if (j <? width)%nat then fvar (enc (N.of_nat b) (N.of_nat p) (N.of_nat j)) else fzero) 0%nat))
    by now rewrite map_length, seq_length.
  rewrite (map_nth (fun j => if (j <? width)%nat then fvar (enc (N.of_nat b) (N.of_nat p) (N.of_nat j)) else fzero)).
  rewrite seq_nth by assumption. cbn [Nat.add].
  destruct (Nat.ltb_spec i width) as [Hlt|Hge].
  - rewrite evalf_fvar, rho_enc by lia. rewrite !Nnat.Nat2N.id. subst. f_equal. lia.
  - rewrite evalf_fzero. destruct (Z.eq_dec x 0) as [->|Hne]; [apply Z.testbit_0_l|].
    apply Z.bits_above_log2; [lia|]. apply Z.lt_le_trans with (Z.of_nat width); [|lia].
    apply Z.log2_lt_pow2; lia.
Qed.

Lemma den_symbufs bufs shape :
  Forall2 fits bufs shape -> Forall (fun sh => (N.of_nat (fst sh) <= BIG)%N /\ (snd sh <= 64)%nat) shape ->
  forall pre, map (map (den (rho_of (pre ++ bufs)))) (symbufs (List.length pre) shape) = bufs.
Proof.
  intros Hf. induction Hf as [|buf sh bufs shape [Hlen Hw] Hf IH]; intros Hs pre; [reflexivity|].
  inversion Hs as [|? ? [Hb Hw64] Hs']; subst. cbn [symbufs map]. f_equal.
  - unfold symbuf. rewrite map_map. apply (nth_ext _ _ 0 0).
    + now rewrite map_length, seq_length.
    + intros p Hp. rewrite map_length, seq_length in Hp.
      rewrite (nth_indep _ 0 ((fun p => den (rho_of (pre ++ buf :: bufs)) (symw (N.of_nat (List.length pre)) (N.of_nat p) (snd sh))) 0%nat))
        by now rewrite map_length, seq_length.
      rewrite (map_nth (fun p => den (rho_of (pre ++ buf :: bufs)) (symw (N.of_nat (List.length pre)) (N.of_nat p) (snd sh)))).
      rewrite seq_nth by assumption. cbn [Nat.add].
      apply den_symw; [lia|assumption| |].
      * rewrite app_nth2 by lia. now rewrite Nat.sub_diag.
      * rewrite Forall_forall in Hw. apply Hw, nth_In. lia.
  - specialize (IH Hs' (pre ++ [buf])). rewrite <- app_assoc in IH. cbn [app] in IH.
    rewrite app_length in IH. cbn [List.length] in IH. rewrite Nat.add_1_r in IH. exact IH.
Qed.

(** * Bit sources *)
(** where a bit of an output word comes from: constant 0, or bit j of word p of input buffer b *)
Definition bsrc := option (N * N * N).

Definition src_form (s : bsrc) : form :=
  match s with
  | None => fzero
  | Some (b, p, j) => fvar (enc b p j)
  end.

Definition src_ok (s : bsrc) : bool :=
  match s with
  | None => true
  | Some (b, p, j) => (p <? BIG)%N && (j <? 64)%N
  end.

Definition src_val (bufs : list (list Z)) (s : bsrc) : bool :=
  match s with
  | None => false
  | Some (b, p, j) => Z.testbit (nth (N.to_nat p) (nth (N.to_nat b) bufs []) 0) (Z.of_N j)
  end.

Fixpoint leqb (a b : list N) : bool :=
  match a, b with
  | [], [] => true
  | x :: a', y :: b' => (x =? y)%N && leqb a' b'
  | _, _ => false
  end.
Lemma leqb_eq a b : leqb a b = true -> a = b.
Proof.
  revert b; induction a as [|x a IH]; intros [|y b]; cbn; try discriminate; [reflexivity|].
  intros H. apply andb_prop in H as [H1 H2]. apply N.eqb_eq in H1. apply IH in H2. now subst.
Qed.

Definition form_eqb (a b : form) : bool := Bool.eqb (fc a) (fc b) && leqb (fv a) (fv b).
Lemma form_eqb_eq a b : form_eqb a b = true -> a = b.
Proof.
  destruct a as [c s], b as [c' s']. unfold form_eqb; cbn [fc fv]. intros H.
  apply andb_prop in H as [H1 H2]. apply eqb_prop in H1. apply leqb_eq in H2. now subst.
Qed.

Definition in_w64 (v : sval) : bool :=
  match v with
  | SC z => (0 <=? z) && (z <? 2 ^ 64)
  | SS l => (List.length l <=? 64)%nat
  end.

(** output word [o] has exactly the bit sources [e] *)
Definition chk_word (o : option sval) (e : N -> bsrc) : bool :=
  match o with
  | Some v => in_w64 v && forallb (fun j => let s := e (N.of_nat j) in src_ok s && form_eqb (bitf v j) (src_form s)) (seq 0 64)
  | None => false
  end.

Definition chk_buf (o : list (option sval)) (e : N -> N -> bsrc) : bool :=
  forallb (fun p => chk_word (nth p o None) (e (N.of_nat p))) (seq 0 (List.length o)).

Fixpoint chk_all (b : nat) (out : list (list (option sval))) (e : nat -> N -> N -> bsrc) : bool :=
  match out with
  | [] => true
  | o :: r => chk_buf o (e b) && chk_all (S b) r e
  end.

(** the check evaluated by [vm_compute]: the symbolic run on buffers of the given [shape] succeeds and the
    buffers afterwards have the [expected] bit sources *)
Definition check (f : string) (args : list arg) (shape : list (nat * nat)) (expected : nat -> N -> N -> bsrc) : bool :=
  forallb (fun sh => (N.of_nat (fst sh) <=? BIG)%N && (snd sh <=? 64)%nat) shape &&
  match runk sops f args (symbufs 0 shape) with
  | Ok out => chk_all 0 out expected
  | _ => false
  end.

Definition w64 (z : Z) : Prop := 0 <= z < 2 ^ 64.

Lemma den_in_w64 rho v : in_w64 v = true -> w64 (den rho v).
Proof.
  destruct v as [z|l]; cbn [in_w64 den]; intros H; unfold w64.
  - lia.
  - split; [apply bitsZ_nonneg|].
    assert (Hb : forall bs, bitsZ bs < 2 ^ Z.of_nat (List.length bs)).
    { induction bs as [|b r IH]; cbn [bitsZ List.length]; [reflexivity|].
      rewrite Nat2Z.inj_succ, Z.pow_succ_r by lia. destruct b; cbn [Z.b2z]; lia. }
    apply Z.lt_le_trans with (2 ^ Z.of_nat (List.length (map (evalf rho) l))); [apply Hb|].
    rewrite map_length. apply Z.pow_le_mono_r; lia.
Qed.

Lemma chk_word_sound bufs o e :
  chk_word o e = true ->
  exists v, option_map (den (rho_of bufs)) o = Some v /\ w64 v /\
            forall j, (j < 64)%nat -> Z.testbit v (Z.of_nat j) = src_val bufs (e (N.of_nat j)).
Proof.
  destruct o as [v|]; cbn [chk_word]; [|discriminate]. intros H. apply andb_prop in H as [Hw H].
  exists (den (rho_of bufs) v). split; [reflexivity|]. split; [now apply den_in_w64|].
  intros j Hj. rewrite forallb_forall in H. specialize (H j ltac:(apply in_seq; lia)). cbv zeta in H.
  apply andb_prop in H as [Hok Hf]. apply form_eqb_eq in Hf.
  rewrite testbit_den, Hf. destruct (e (N.of_nat j)) as [[[b p] jj]|]; cbn [src_form src_val src_ok] in *.
  - rewrite evalf_fvar. apply rho_enc; lia.
  - apply evalf_fzero.
Qed.

(** the post-condition in terms of the concrete buffers *)
Definition post (bufs outs : list (list Z)) (e : nat -> N -> N -> bsrc) : Prop :=
  List.length outs = List.length bufs /\
  forall b, (b < List.length bufs)%nat ->
    List.length (nth b outs []) = List.length (nth b bufs []) /\
    forall p, (p < List.length (nth b bufs []))%nat ->
      w64 (nth p (nth b outs []) 0) /\
      forall j, (j < 64)%nat ->
        Z.testbit (nth p (nth b outs []) 0) (Z.of_nat j) = src_val bufs (e b (N.of_nat p) (N.of_nat j)).

Lemma chk_buf_sound bufs o e :
  chk_buf o e = true ->
  exists l, all_some (map (option_map (den (rho_of bufs))) o) = Some l /\ List.length l = List.length o /\
    forall p, (p < List.length o)%nat -> w64 (nth p l 0) /\
      forall j, (j < 64)%nat -> Z.testbit (nth p l 0) (Z.of_nat j) = src_val bufs (e (N.of_nat p) (N.of_nat j)).
Proof.
  unfold chk_buf. intros H. rewrite forallb_forall in H.
  assert (H' : forall p, (p < List.length o)%nat -> chk_word (nth p o None) (e (N.of_nat p)) = true).
  { intros p Hp. apply H, in_seq. lia. }
  clear H. revert e H'. induction o as [|x o IH]; intros e H.
  - exists []. repeat split; try reflexivity; cbn in *; lia.
  - destruct (chk_word_sound bufs _ _ (H 0%nat ltac:(cbn; lia))) as (v & Hv & Hw & Hb). cbn [nth] in Hv.
    destruct (IH (fun p => e (N.succ p))) as (l & Hl & Hlen & Hp).
    { intros p Hp. rewrite <- Nnat.Nat2N.inj_succ. apply (H (S p)). cbn. lia. }
    exists (v :: l). cbn [map all_some]. rewrite Hv, Hl. split; [reflexivity|]. split; [cbn; lia|].
    intros [|p] Hlt; cbn [nth]; [auto|]. rewrite Nnat.Nat2N.inj_succ. apply Hp. cbn in Hlt. lia.
Qed.

Lemma chk_all_sound bufs b out e :
  chk_all b out e = true ->
  exists outs, all_some2 (map (map (option_map (den (rho_of bufs)))) out) = Some outs /\
    List.length outs = List.length out /\
    forall i, (i < List.length out)%nat ->
      List.length (nth i outs []) = List.length (nth i out []) /\
      forall p, (p < List.length (nth i out []))%nat -> w64 (nth p (nth i outs []) 0) /\
        forall j, (j < 64)%nat ->
          Z.testbit (nth p (nth i outs []) 0) (Z.of_nat j) = src_val bufs (e (b + i)%nat (N.of_nat p) (N.of_nat j)).
Proof.
  revert b; induction out as [|o out IH]; intros b H.
  - exists []. repeat split; try reflexivity; cbn in *; lia.
  - cbn [chk_all] in H. apply andb_prop in H as [H1 H2].
    destruct (chk_buf_sound bufs _ _ H1) as (l & Hl & Hlen & Hp).
    destruct (IH _ H2) as (outs & Ho & Hlo & Hi).
    exists (l :: outs). cbn [map all_some2]. rewrite Hl, Ho. split; [reflexivity|]. split; [cbn; lia|].
    intros [|i] Hlt; cbn [nth].
    + rewrite Nat.add_0_r. auto.
    + replace (b + S i)%nat with (S b + i)%nat by lia. apply Hi. cbn in Hlt. lia.
Qed.

Lemma read_all_lengths {V} (m : @mem V) b lens :
  List.length (read_all m b lens) = List.length lens /\
  forall i, (i < List.length lens)%nat -> List.length (nth i (read_all m b lens) []) = nth i lens 0%nat.
Proof.
  revert b; induction lens as [|n r IH]; intros b; [split; [reflexivity|cbn; lia]|].
  cbn [read_all List.length]. destruct (IH (Pos.succ b)) as [H1 H2]. split; [lia|].
  intros [|i] Hi; cbn [nth].
  - unfold read_block. now rewrite map_length, seq_length.
  - apply H2. lia.
Qed.

Lemma symbufs_length b0 shape : List.length (symbufs b0 shape) = List.length shape.
Proof. revert b0; induction shape as [|sh r IHs]; intros b0; cbn; [reflexivity|]. now rewrite IHs. Qed.

Lemma symbufs_nth_length shape i b0 : (i < List.length shape)%nat ->
  List.length (nth i (symbufs b0 shape) []) = fst (nth i shape (0%nat, 0%nat)).
Proof.
  revert i b0; induction shape as [|sh r IH]; intros i b0 Hi; cbn in Hi; [lia|].
  destruct i; cbn [symbufs nth].
  - unfold symbuf. now rewrite map_length, seq_length.
  - apply IH. lia.
Qed.

(** ONE successful check speaks about every content of the buffers. *)
Theorem kernel_bits f args shape expected :
  check f args shape expected = true ->
  forall bufs, Forall2 fits bufs shape ->
  exists outs, runz f args bufs = Ok outs /\ post bufs outs expected.
Proof.
  unfold check. intros H bufs Hfit. apply andb_prop in H as [Hsh H].
  destruct (runk sops f args (symbufs 0 shape)) as [out| | | |] eqn:Hrun; try discriminate.
  assert (Hsh' : Forall (fun sh => (N.of_nat (fst sh) <= BIG)%N /\ (snd sh <= 64)%nat) shape).
  { rewrite Forall_forall. intros sh Hin. rewrite forallb_forall in Hsh. specialize (Hsh sh Hin). lia. }
  pose proof (den_symbufs bufs shape Hfit Hsh' []) as Hden. cbn [app List.length] in Hden.
  pose proof (runk_sim (rho_of bufs) _ _ _ _ Hrun) as Hz. rewrite Hden in Hz.
  destruct (chk_all_sound bufs _ _ _ H) as (outs & Ho & Hlo & Hi).
  exists outs. split.
  - unfold runz. rewrite Hz. cbn [bind]. now rewrite Ho.
  - (* lengths: the symbolic run reads back every buffer in full *)
    unfold runk in Hrun. inv_binds. inversion Hrun; subst out. clear Hrun.
    destruct (read_all_lengths (snd a) 1%positive (map (@List.length sval) (symbufs 0 shape))) as [L1 L2].
    rewrite map_length in L1, L2.
    pose proof (fun b0 => symbufs_length b0 shape) as Hsl.
    pose proof (fun i b0 => symbufs_nth_length shape i b0) as Hsn.
    assert (Hbl : List.length bufs = List.length shape).
    { clear -Hfit. induction Hfit; cbn; congruence. }
    assert (Hfl : forall i, (i < List.length shape)%nat -> List.length (nth i bufs []) = fst (nth i shape (0%nat, 0%nat))).
    { clear -Hfit. induction Hfit as [|x y l l' [Hxy _] _ IH]; intros i Hi; cbn in Hi; [lia|].
      destruct i; cbn [nth]; [assumption|]. apply IH. lia. }
    rewrite Hsl in L1, L2.
    split; [lia|]. intros b Hb. rewrite Hbl in Hb.
    destruct (Hi b ltac:(lia)) as [Hlen Hp]. rewrite L2 in Hlen, Hp by assumption.
    rewrite (nth_indep _ 0%nat (List.length (@nil sval))) in Hlen, Hp by (rewrite map_length, Hsl; assumption).
    rewrite (map_nth (@List.length sval)) in Hlen, Hp. rewrite Hsn in Hlen, Hp by assumption.
    rewrite Hfl by assumption. split; [assumption|]. exact Hp.
Qed.

(** * Bit sources of a transposition.
    Buffer 0 = source: [n] rows at word stride [rs], of which the low [wsrc] bits may be non-zero;
    buffer 1 = destination: [m] rows at word stride [rd].  Afterwards the source is unchanged, row i < m of
    the destination is the WHOLE word whose bit j is bit i of source row j (j < n) and 0 for j >= n, and the
    destination words between the rows are unchanged. *)
Definition exp_T (n m rd rs wsrc : N) (b : nat) (p : N) : N -> bsrc :=
  match b with
  | O => fun j => if (j <? wsrc)%N then Some (0, p, j)%N else None
  | _ => let q := (p / rd)%N in
         if ((p mod rd =? 0) && (q <? m))%N
         then fun j => if (j <? n)%N then Some (0, j * rs, q)%N else None
         else fun j => Some (1, p, j)%N
  end.
Definition exp_Tn (n m rd rs wsrc : nat) :=
  exp_T (N.of_nat n) (N.of_nat m) (N.of_nat rd) (N.of_nat rs) (N.of_nat wsrc).

Lemma exp_T_src n m rd rs w p j :
  exp_Tn n m rd rs w 0 (N.of_nat p) (N.of_nat j) = if (j <? w)%nat then Some (0, N.of_nat p, N.of_nat j)%N else None.
Proof.
  unfold exp_Tn, exp_T. destruct (N.ltb_spec (N.of_nat j) (N.of_nat w)), (Nat.ltb_spec j w); try reflexivity; lia.
Qed.

Lemma exp_T_row n m rd rs w i j : (0 < rd)%nat -> (i < m)%nat ->
  exp_Tn n m rd rs w 1 (N.of_nat (i * rd)) (N.of_nat j) =
  if (j <? n)%nat then Some (0, N.of_nat (j * rs), N.of_nat i)%N else None.
Proof.
  intros Hrd Hi. unfold exp_Tn, exp_T. cbv zeta.
  rewrite Nnat.Nat2N.inj_mul. rewrite N.mod_mul, N.div_mul by lia. rewrite N.eqb_refl. cbn [andb].
  destruct (N.ltb_spec (N.of_nat i) (N.of_nat m)); [|lia].
  destruct (N.ltb_spec (N.of_nat j) (N.of_nat n)), (Nat.ltb_spec j n); try lia; [|reflexivity].
  now rewrite Nnat.Nat2N.inj_mul.
Qed.

Lemma exp_T_frame n m rd rs w p j : (0 < rd)%nat -> (p mod rd <> 0 \/ m <= p / rd)%nat ->
  exp_Tn n m rd rs w 1 (N.of_nat p) (N.of_nat j) = Some (1, N.of_nat p, N.of_nat j)%N.
Proof.
  intros Hrd Hp. unfold exp_Tn, exp_T. cbv zeta. rewrite <- Nnat.Nat2N.inj_mod, <- Nnat.Nat2N.inj_div.
  destruct (N.eqb_spec (N.of_nat (p mod rd)) 0) as [He|He]; cbn [andb]; [|reflexivity].
  destruct (N.ltb_spec (N.of_nat (p / rd)) (N.of_nat m)) as [Hl|Hl]; [|reflexivity].
  exfalso. destruct Hp as [Hp|Hp]; lia.
Qed.

(** shape of the two buffers: the minimal extents that contain the rows *)
Definition shape_T (n m rd rs wsrc : nat) : list (nat * nat) :=
  [((n - 1) * rs + 1, wsrc); ((m - 1) * rd + 1, 64)]%nat.

(** arguments dst, src, rowstride_dst, rowstride_src (then the kernel's size arguments) *)
Definition args_T (rd rs : nat) (extra : list Z) : list arg :=
  [AP 2 0; AI 0; AP 1 0; AI 0; AI (Z.of_nat rd); AI (Z.of_nat rs)] ++ map AI extra.

(** * _mzd_copy_transpose_64x64 (mzd.c:252) *)
Definition strides : list (nat * nat) :=
  [(1, 1); (1, 2); (1, 3); (2, 1); (2, 2); (2, 3); (3, 1); (3, 2); (3, 3); (5, 7)]%nat.

Lemma t64_sweep :
  forallb (fun s => check "_mzd_copy_transpose_64x64" (args_T (fst s) (snd s) [])
                          (shape_T 64 64 (fst s) (snd s) 64) (exp_Tn 64 64 (fst s) (snd s) 64)) strides = true.
Proof. vm_cast_no_check (eq_refl true). Qed.

(** dst == src (the note at mzd.c:249 and the call at mzd.c:935): one buffer, transposed in place *)
Definition exp_T_inplace (r : nat) (b : nat) (p j : N) : bsrc :=
  if ((p mod N.of_nat r =? 0) && (p / N.of_nat r <? 64))%N then Some (0, j * N.of_nat r, p / N.of_nat r)%N else Some (0, p, j)%N.

Lemma t64_inplace_sweep :
  forallb (fun r => check "_mzd_copy_transpose_64x64" [AP 1 0; AI 0; AP 1 0; AI 0; AI (Z.of_nat r); AI (Z.of_nat r)]
                          [(63 * r + 1, 64)%nat] (exp_T_inplace r)) [1; 2; 3]%nat = true.
Proof. vm_cast_no_check (eq_refl true). Qed.

(** * _mzd_copy_transpose_64x64_2 (mzd.c:330): two independent 64x64 transpositions.
    Buffers 0, 1 = src1, src2; buffers 2, 3 = dst1, dst2. *)
Definition exp_T2 (rd rs : nat) (b : nat) (p j : N) : bsrc :=
  match b with
  | 0%nat | 1%nat => Some (N.of_nat b, p, j)
  | _ => if ((p mod N.of_nat rd =? 0) && (p / N.of_nat rd <? 64))%N
         then Some (N.of_nat (b - 2), j * N.of_nat rs, p / N.of_nat rd)%N else Some (N.of_nat b, p, j)
  end.

Lemma t64_2_sweep :
  forallb (fun s =>
     check "_mzd_copy_transpose_64x64_2"
           [AP 3 0; AI 0; AP 4 0; AI 0; AP 1 0; AI 0; AP 2 0; AI 0; AI (Z.of_nat (fst s)); AI (Z.of_nat (snd s))]
           [(63 * snd s + 1, 64); (63 * snd s + 1, 64); (63 * fst s + 1, 64); (63 * fst s + 1, 64)]%nat
           (exp_T2 (fst s) (snd s))) strides = true.
Proof. vm_cast_no_check (eq_refl true). Qed.

(** * _mzd_copy_transpose_lt64x64 (mzd.c:474): n < 64 source rows of 64 columns -> 64 destination rows,
      every destination word written in full (bits >= n cleared);
    * _mzd_copy_transpose_64xlt64 (mzd.c:607): 64 source rows of n < 64 columns -> n destination rows.
      For n <= 32 the kernel ORs shifted source words together: the bits of the source words beyond
      column n must be 0 (width n); for n > 32 it goes through the 64x64 kernel and they are ignored. *)
Definition sizes63 : list nat := seq 1 63.
Definition strides2 : list (nat * nat) := [(1, 1); (2, 3); (3, 2)]%nat.

Lemma lt64x64_sweep :
  forallb (fun s => forallb (fun n =>
     check "_mzd_copy_transpose_lt64x64" (args_T (fst s) (snd s) [Z.of_nat n])
           (shape_T n 64 (fst s) (snd s) 64) (exp_Tn n 64 (fst s) (snd s) 64)) sizes63) strides2 = true.
Proof. vm_cast_no_check (eq_refl true). Qed.

Definition w64xlt (n : nat) : nat := if (32 <? n)%nat then 64%nat else n.

Lemma t64xlt64_sweep :
  forallb (fun s => forallb (fun n =>
     check "_mzd_copy_transpose_64xlt64" (args_T (fst s) (snd s) [Z.of_nat n])
           (shape_T 64 n (fst s) (snd s) (w64xlt n)) (exp_Tn 64 n (fst s) (snd s) (w64xlt n))) sizes63) strides2 = true.
Proof. vm_cast_no_check (eq_refl true). Qed.

(** * The theorems *)
Lemma forallb_In {A} (P : A -> bool) l x : forallb P l = true -> In x l -> P x = true.
Proof. intros H Hin. rewrite forallb_forall in H. auto. Qed.

Theorem transpose64_bits rd rs : In (rd, rs) strides ->
  forall src dst, fits src ((63 * rs + 1)%nat, 64%nat) -> fits dst ((63 * rd + 1)%nat, 64%nat) ->
  exists outs, runz "_mzd_copy_transpose_64x64" (args_T rd rs []) [src; dst] = Ok outs /\
               post [src; dst] outs (exp_Tn 64 64 rd rs 64).
Proof.
  intros Hin src dst Hs Hd.
  apply (kernel_bits _ _ _ _ (forallb_In _ _ _ t64_sweep Hin)). repeat (first [assumption | apply Forall2_cons | apply Forall2_nil]).
Qed.

Theorem transpose64_inplace_bits r : In r [1; 2; 3]%nat ->
  forall buf, fits buf ((63 * r + 1)%nat, 64%nat) ->
  exists outs, runz "_mzd_copy_transpose_64x64" [AP 1 0; AI 0; AP 1 0; AI 0; AI (Z.of_nat r); AI (Z.of_nat r)] [buf] = Ok outs /\
               post [buf] outs (exp_T_inplace r).
Proof.
  intros Hin buf Hb.
  apply (kernel_bits _ _ _ _ (forallb_In _ _ _ t64_inplace_sweep Hin)). repeat (first [assumption | apply Forall2_cons | apply Forall2_nil]).
Qed.

Theorem transpose64_2_bits rd rs : In (rd, rs) strides ->
  forall src1 src2 dst1 dst2,
  fits src1 ((63 * rs + 1)%nat, 64%nat) -> fits src2 ((63 * rs + 1)%nat, 64%nat) ->
  fits dst1 ((63 * rd + 1)%nat, 64%nat) -> fits dst2 ((63 * rd + 1)%nat, 64%nat) ->
  exists outs, runz "_mzd_copy_transpose_64x64_2"
                    [AP 3 0; AI 0; AP 4 0; AI 0; AP 1 0; AI 0; AP 2 0; AI 0; AI (Z.of_nat rd); AI (Z.of_nat rs)]
                    [src1; src2; dst1; dst2] = Ok outs /\
               post [src1; src2; dst1; dst2] outs (exp_T2 rd rs).
Proof.
  intros Hin s1 s2 d1 d2 H1 H2 H3 H4.
  apply (kernel_bits _ _ _ _ (forallb_In _ _ _ t64_2_sweep Hin)). repeat (first [assumption | apply Forall2_cons | apply Forall2_nil]).
Qed.

Lemma In_sizes63 n : (1 <= n < 64)%nat -> In n sizes63.
Proof. intros H. apply in_seq. lia. Qed.

Theorem transpose_lt64x64_bits rd rs n : In (rd, rs) strides2 -> (1 <= n < 64)%nat ->
  forall src dst, fits src (((n - 1) * rs + 1)%nat, 64%nat) -> fits dst ((63 * rd + 1)%nat, 64%nat) ->
  exists outs, runz "_mzd_copy_transpose_lt64x64" (args_T rd rs [Z.of_nat n]) [src; dst] = Ok outs /\
               post [src; dst] outs (exp_Tn n 64 rd rs 64).
Proof.
  intros Hin Hn src dst Hs Hd.
  pose proof (forallb_In _ _ _ (forallb_In _ _ _ lt64x64_sweep Hin) (In_sizes63 n Hn)) as H.
  apply (kernel_bits _ _ _ _ H). repeat (first [assumption | apply Forall2_cons | apply Forall2_nil]).
Qed.

Theorem transpose_64xlt64_bits rd rs n : In (rd, rs) strides2 -> (1 <= n < 64)%nat ->
  forall src dst, fits src ((63 * rs + 1)%nat, w64xlt n) -> fits dst (((n - 1) * rd + 1)%nat, 64%nat) ->
  exists outs, runz "_mzd_copy_transpose_64xlt64" (args_T rd rs [Z.of_nat n]) [src; dst] = Ok outs /\
               post [src; dst] outs (exp_Tn 64 n rd rs (w64xlt n)).
Proof.
  intros Hin Hn src dst Hs Hd.
  pose proof (forallb_In _ _ _ (forallb_In _ _ _ t64xlt64_sweep Hin) (In_sizes63 n Hn)) as H.
  apply (kernel_bits _ _ _ _ H). repeat (first [assumption | apply Forall2_cons | apply Forall2_nil]).
Qed.

(** * [transpose64_spec]: the readable form for the 64x64 kernel.
    For all 64 source rows and any prior content of the destination: the call succeeds, leaves the source
    as it was, destination row i has bit j = source row j bit i, and the destination words between the rows
    are untouched. *)
Lemma w64_high x k : w64 x -> 64 <= k -> Z.testbit x k = false.
Proof.
  intros [Hx0 Hx1] Hk. destruct (Z.eq_dec x 0) as [->|]; [apply Z.testbit_0_l|].
  apply Z.bits_above_log2; [lia|]. apply Z.lt_le_trans with 64; [|lia]. apply Z.log2_lt_pow2; lia.
Qed.

Lemma w64_ext x y : w64 x -> w64 y ->
  (forall j, (j < 64)%nat -> Z.testbit x (Z.of_nat j) = Z.testbit y (Z.of_nat j)) -> x = y.
Proof.
  intros Hx Hy H. apply Z.bits_inj'. intros k Hk. destruct (Z.lt_ge_cases k 64) as [Hlt|Hge].
  - specialize (H (Z.to_nat k) ltac:(lia)). now rewrite Z2Nat.id in H by lia.
  - now rewrite !w64_high.
Qed.

Lemma src_val_some bufs b p j :
  src_val bufs (Some (N.of_nat b, N.of_nat p, N.of_nat j)) = Z.testbit (nth p (nth b bufs []) 0) (Z.of_nat j).
Proof. cbn [src_val]. now rewrite !Nnat.Nat2N.id, nat_N_Z. Qed.

Lemma fits64 l n : List.length l = n -> Forall w64 l -> fits l (n, 64%nat).
Proof. intros H1 H2. split; assumption. Qed.

(** the source buffer of a two-buffer transposition is unchanged *)
Lemma post_T_src n m rd rs src dst outs :
  Forall w64 src -> post [src; dst] outs (exp_Tn n m rd rs 64) -> nth 0 outs [] = src.
Proof.
  intros Hws (Hlen & Hpost). destruct (Hpost 0%nat ltac:(cbn; lia)) as [Hl0 Hp0]. cbn [nth] in Hl0, Hp0.
  apply (nth_ext _ _ 0 0); [assumption|]. intros p Hp. rewrite Hl0 in Hp. destruct (Hp0 p Hp) as [Hw Hb].
  apply w64_ext; [assumption| |].
  - rewrite Forall_forall in Hws. apply Hws, nth_In. lia.
  - intros j Hj. rewrite (Hb j Hj), exp_T_src. destruct (Nat.ltb_spec j 64); [|lia].
    exact (src_val_some [src; dst] 0 p j).
Qed.

Theorem transpose64_spec rd rs : In (rd, rs) strides ->
  forall src dst, List.length src = (63 * rs + 1)%nat -> List.length dst = (63 * rd + 1)%nat ->
  Forall w64 src -> Forall w64 dst ->
  exists dst', runz "_mzd_copy_transpose_64x64" (args_T rd rs []) [src; dst] = Ok [src; dst'] /\
    List.length dst' = List.length dst /\ Forall w64 dst' /\
    (forall i j, (i < 64)%nat -> (j < 64)%nat ->
       Z.testbit (nth (i * rd) dst' 0) (Z.of_nat j) = Z.testbit (nth (j * rs) src 0) (Z.of_nat i)) /\
    (forall p, (p < List.length dst)%nat -> (p mod rd <> 0)%nat -> nth p dst' 0 = nth p dst 0).
Proof.
  intros Hin src dst Hls Hld Hws Hwd.
  assert (Hrd : (1 <= rd)%nat /\ (1 <= rs)%nat).
  { unfold strides in Hin. cbn [In] in Hin. repeat (destruct Hin as [Hin|Hin]; [inversion Hin; lia|]). contradiction. }
  destruct (transpose64_bits rd rs Hin src dst (fits64 _ _ Hls Hws) (fits64 _ _ Hld Hwd)) as (outs & Hrun & Hpost).
  pose proof (post_T_src _ _ _ _ _ _ _ Hws Hpost) as Hsrc.
  destruct Hpost as (Hlen & Hpost).
  destruct outs as [|src' [|dst' [|? ?]]]; cbn [List.length] in Hlen; try lia.
  cbn [nth] in Hsrc. subst src'.
  destruct (Hpost 1%nat ltac:(cbn; lia)) as [Hl1 Hp1]. cbn [nth] in Hl1, Hp1.
  exists dst'. split; [exact Hrun|]. split; [exact Hl1|]. split; [|split].
  - rewrite Forall_forall. intros x Hx. destruct (In_nth _ _ 0 Hx) as (p & Hp & <-).
    apply Hp1. lia.
  - intros i j Hi Hj. destruct (Hp1 (i * rd)%nat ltac:(nia)) as [_ Hb]. rewrite (Hb j Hj).
    rewrite exp_T_row by lia. destruct (Nat.ltb_spec j 64); [|lia].
    exact (src_val_some [src; dst] 0 (j * rs) i).
  - intros p Hp Hmod. destruct (Hp1 p Hp) as [Hw Hb].
    apply w64_ext; [assumption| |].
    + rewrite Forall_forall in Hwd. apply Hwd, nth_In. lia.
    + intros j Hj. rewrite (Hb j Hj), exp_T_frame by (try lia; now left).
      exact (src_val_some [src; dst] 1 p j).
Qed.

(** hypotheses are satisfiable; a concrete run: the identity pattern stays, a single bit moves *)
Example transpose64_example :
  runz "_mzd_copy_transpose_64x64" (args_T 1 1 []) [map (fun i => if (i =? 3)%nat then 32 else 0) (seq 0 64); repeat 7 64]
  = Ok [map (fun i => if (i =? 3)%nat then 32 else 0) (seq 0 64); map (fun i => if (i =? 5)%nat then 8 else 0) (seq 0 64)].
Proof. vm_compute. reflexivity. Qed.
