(* Leaf/TransposeSpecs4.v — _mzd_copy_transpose_small (mzd.c:944) for EVERY size it is dispatched on:
   1 <= nrows, ncols <= 63 with maxsize = max(nrows, ncols) (mzd.c:1064, 1113), row strides 1; the four
   size classes le8xle8 / le16xle16 / le32xle32 / le64xle64 are those of Leaf/TransposeSpecs2.v (<= 32, also
   for strides (2,3)) and Leaf/TransposeSpecs3a.v, 3b.v, 3c.v (> 32). *)
From Coq Require Import ZArith NArith List String Bool Lia.
From M4 Require Import Leaf.CMini Leaf.CMiniSymS Leaf.Gen_transpose Leaf.TransposeSpecs Leaf.TransposeSpecs2
  Leaf.TransposeSpecs3a Leaf.TransposeSpecs3b Leaf.TransposeSpecs3c.
Import ListNotations.
Local Open Scope Z_scope.

Lemma chk_small_all n m : (1 <= n < 64)%nat -> (1 <= m < 64)%nat -> chk_small 1 1 n m = true.
Proof.
  intros Hn Hm. destruct (Nat.leb_spec (Nat.max n m) 32) as [Hle|Hgt].
  - assert (Hin : In (1, 1)%nat strides_small) by now left.
    exact (forallb_In _ _ _ (forallb_In _ _ _ (forallb_In _ _ _ small_le32_sweep Hin)
             (proj2 (in_seq 32 1 n) ltac:(lia))) (proj2 (in_seq 32 1 m) ltac:(lia))).
  - assert (H : ((Nat.max n m <=? 32)%nat || chk_small 1 1 n m) = true).
    { destruct (Nat.le_gt_cases n 36) as [Ha|Hb]; [|destruct (Nat.le_gt_cases n 50) as [Hb'|Hc]].
      - exact (forallb_In _ _ _ (forallb_In _ _ _ small_le64_sweep_a (proj2 (in_seq 36 1 n) ltac:(lia)))
                 (proj2 (in_seq 63 1 m) ltac:(lia))).
      - exact (forallb_In _ _ _ (forallb_In _ _ _ small_le64_sweep_b (proj2 (in_seq 14 37 n) ltac:(lia)))
                 (proj2 (in_seq 63 1 m) ltac:(lia))).
      - exact (forallb_In _ _ _ (forallb_In _ _ _ small_le64_sweep_c (proj2 (in_seq 13 51 n) ltac:(lia)))
                 (proj2 (in_seq 63 1 m) ltac:(lia))). }
    destruct (Nat.leb_spec (Nat.max n m) 32); [lia|]. exact H.
Qed.

(** every size class of the small kernels: for all source words whose bits beyond column ncols are 0 and
    any prior destination content the call succeeds (no UB, no access outside the ncols x nrows words), the
    source is unchanged and destination row i is the whole word with bit j = source row j bit i (j < nrows),
    0 above *)
Theorem transpose_small_bits n m : (1 <= n < 64)%nat -> (1 <= m < 64)%nat ->
  forall src dst, fits src (n, m) -> fits dst (m, 64%nat) ->
  exists outs, runz "_mzd_copy_transpose_small" (args_small 1 1 n m) [src; dst] = Ok outs /\
               post [src; dst] outs (exp_Tn n m 1 1 m).
Proof.
  intros Hn Hm src dst Hs Hd. apply (kernel_bits _ _ _ _ (chk_small_all n m Hn Hm)).
  unfold shape_T. replace ((n - 1) * 1 + 1)%nat with n by lia. replace ((m - 1) * 1 + 1)%nat with m by lia.
  repeat (first [assumption | apply Forall2_cons | apply Forall2_nil]).
Qed.

(** the precondition on the source is needed: with a bit beyond the last column set, the le8xle8 kernel ORs
    it into the next row's byte — a 2 x 2 source [1 + 256; 0] yields row 0 = 1 + 2 = 3 instead of 1 *)
Example small_needs_zero_excess :
  runz "_mzd_copy_transpose_small" (args_small 1 1 2 2) [[257; 0]; [0; 0]] = Ok [[257; 0]; [3; 0]].
Proof. vm_compute. reflexivity. Qed.
