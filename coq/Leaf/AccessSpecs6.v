(* Leaf/AccessSpecs6.v — continuation of Leaf/AccessSpecs3.v for the accessors with loops: the T1-translated
   mzd_row_swap / _mzd_row_swap (mzd.h:296, :265) and mzd_row_add_offset (mzd.h:537, scalar branch) against the
   matrix models Ops.row_swap and Ops.row_add_offset, with the frame [outside]. *)
From Coq Require Import ZArith NArith List String Bool Lia ZifyBool ZifyNat ZifyN.
From M4 Require Import Base.Bits Lin.Mat Lin.Ops Lin.OpsProofs Word.WMat Word.WMatLemmas Word.WOps Word.WOps2 Word.WRefine
  Word.WRefine14 Leaf.CMini Leaf.CMiniAcc Leaf.Gen_access Leaf.AccessSpecs Leaf.AccessSpecs3 Leaf.AccessSpecs4
  Leaf.AccessSpecs5.
Import ListNotations.
Local Open Scope Z_scope.

Theorem mzd_row_swap_spec h fl mem a b :
  valid h mem -> c_dom h fl mem -> (a < h_nrows h)%nat -> (b < h_nrows h)%nat ->
  exists m', run_acc "mzd_row_swap" (hbundle h fl [zi a; zi b]) (words mem) = Ok (None, words m') /\
    List.length m' = List.length mem /\ mem_ok m' /\
    abs h m' = row_swap (abs h mem) a b /\ outside h mem m'.
Proof.
  intros Hv Hd Ha Hb. destruct (w_row_swap_refines h mem a b Hv Ha Hb) as (m' & E & R).
  exists m'. split; [|exact R]. now apply acc_mzd_row_swap_w.
Qed.

(** _mzd_row_swap with a start block: the words from [sb] on are swapped (under high_bitmask in the last one) *)
Theorem _mzd_row_swap_spec h fl mem a b sb :
  valid h mem -> c_dom h fl mem -> (a < h_nrows h)%nat -> (b < h_nrows h)%nat -> Z.of_nat sb < 2 ^ 62 ->
  exists m', run_acc "_mzd_row_swap" (hbundle h fl [zi a; zi b; zi sb]) (words mem) = Ok (None, words m') /\
    List.length m' = List.length mem /\ mem_ok m' /\ outside h mem m' /\
    forall i j, N.testbit (rowval h m' i) (N.of_nat j) =
      if (64 * sb <=? j)%nat then N.testbit (rowval h mem (transp a b i)) (N.of_nat j)
      else N.testbit (rowval h mem i) (N.of_nat j).
Proof.
  intros Hv Hd Ha Hb Hsb. destruct (w_row_swap_ok h mem a b sb Hv Ha Hb) as (m' & E & R).
  exists m'. split; [|exact R]. now apply acc__mzd_row_swap_w.
Qed.

(** dstrow == srcrow is allowed *)
Theorem mzd_row_add_offset_spec h fl mem dst src co :
  valid h mem -> c_dom h fl mem -> (dst < h_nrows h)%nat -> (src < h_nrows h)%nat -> (co < h_ncols h)%nat ->
  exists m', run_acc "mzd_row_add_offset" (hbundle h fl [zi dst; zi src; zi co]) (words mem) = Ok (None, words m') /\
    List.length m' = List.length mem /\ mem_ok m' /\
    abs h m' = row_add_offset (abs h mem) dst src co /\ outside h mem m'.
Proof.
  intros Hv Hd Hdst Hsrc Hco. destruct (w2_row_add_offset_refines h mem dst src co Hv Hdst Hsrc Hco) as (m' & E & R).
  exists m'. split; [|exact R]. now apply acc_row_add_offset_w.
Qed.
