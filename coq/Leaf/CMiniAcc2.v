(* Leaf/CMiniAcc2.v — continuation of Leaf/CMiniAcc.v: the word array (block 1) plus ONE local array of the
   function (block 2, `word xor_v[4]` of mzd_col_swap_in_rows).  [mem2 ws n d]: block 1 holds the words [ws],
   block 2 has extent n and the (partially initialised) contents [d].  Nothing here depends on a generated file. *)
From Coq Require Import ZArith NArith List String Bool Lia ZifyBool ZifyNat ZifyN.
From M4 Require Import Lin.Ops Leaf.CMini Leaf.CMiniAcc.
Import ListNotations.
Local Open Scope Z_scope.

Definition mem2 (ws : list Z) (n : Z) (d : trie Z) : @mem Z :=
  {| m_next := 3%positive;
     m_blocks := TNode (TNode TLeaf (Some {| b_ext := n; b_data := d |}) TLeaf)
                       (Some {| b_ext := Z.of_nat (List.length ws); b_data := data_of_list ws 0 TLeaf |}) TLeaf |}.

(** what `T x[n];` does to the one-array memory *)
Lemma alloc_mem_of ws n : alloc (mem_of ws) n TLeaf = (mem2 ws n TLeaf, 2%positive).
Proof. reflexivity. Qed.

Lemma load_mem2_1 ws n d i : 0 <= i < Z.of_nat (List.length ws) ->
  load (mem2 ws n d) 1%positive i = Ok (Vint (nth (Z.to_nat i) ws 0)).
Proof.
  intros Hi. pose proof (load_mem_of ws i Hi) as H. rewrite mem_of_eq in H. exact H.
Qed.

Lemma store_mem2_1 ws n d i v : 0 <= i < Z.of_nat (List.length ws) ->
  store (mem2 ws n d) 1%positive i (Vint v) = Ok (mem2 (upd (Z.to_nat i) v ws) n d).
Proof.
  intros Hi. unfold store, mem2. cbn [tget m_blocks]. unfold in_ext. cbn [b_ext b_data m_next].
  destruct (Z.leb_spec 0 i); [|lia]. destruct (Z.ltb_spec i (Z.of_nat (List.length ws))); [|lia]. cbn [andb tset].
  rewrite upd_length_Z. do 5 f_equal.
  replace i with (0 + Z.of_nat (Z.to_nat i)) at 1 by lia. apply data_of_list_upd; lia.
Qed.

Lemma load_mem2_2 ws n d i : 0 <= i < n ->
  load (mem2 ws n d) 2%positive i =
  match tget (key i) d with Some v => Ok (Vint v) | None => UB "read of an uninitialised array element" end.
Proof.
  intros Hi. unfold load, mem2. cbn [tget m_blocks]. unfold in_ext. cbn [b_ext b_data].
  destruct (Z.leb_spec 0 i); [|lia]. destruct (Z.ltb_spec i n); [|lia]. reflexivity.
Qed.

Lemma store_mem2_2 ws n d i v : 0 <= i < n ->
  store (mem2 ws n d) 2%positive i (Vint v) = Ok (mem2 ws n (tset (key i) v d)).
Proof.
  intros Hi. unfold store, mem2. cbn [tget m_blocks]. unfold in_ext. cbn [b_ext b_data m_next].
  destruct (Z.leb_spec 0 i); [|lia]. destruct (Z.ltb_spec i n); [|lia]. reflexivity.
Qed.

Lemma read_back_mem2 ws n d : read_back (mem2 ws n d) (List.length ws) = Some ws.
Proof. exact (read_back_mem_of ws). Qed.

Lemma key_0 : key 0 = 1%positive. Proof. reflexivity. Qed.
Lemma key_1 : key 1 = 2%positive. Proof. reflexivity. Qed.
Lemma key_2 : key 2 = 3%positive. Proof. reflexivity. Qed.
Lemma key_3 : key 3 = 4%positive. Proof. reflexivity. Qed.
