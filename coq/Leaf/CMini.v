(* Leaf/CMini.v — a deliberately small deep embedding of the C subset used by m4ri's leaf
   functions (graycode.c, parity.h, misc.h bit kernels, the bit-mask macros) and a total,
   fuelled definitional interpreter.  tools/translate.py prints terms of type [func] from the
   clang AST of the working tree into Leaf/Gen_leaf.v on every run.

   Target: LP64 (int 32, long 64), two's complement.  Integer values are mathematical integers
   [Z] that always lie in the range of their C type; the type is carried by the *operation*
   (clang's AST gives the type of every expression and every implicit conversion, and the
   translator keeps all of them).

   - unsigned arithmetic wraps modulo 2^width;
   - signed overflow, shift count negative or >= width, left shift of a negative value or out
     of the result type, division by zero (and INT_MIN / -1) are [UB];
   - conversions to a signed type that does not hold the value and [>>] of negative values are
     implementation-defined in C; they follow gcc/clang (modular reduction, arithmetic shift);
   - array objects are blocks with a declared extent; every access is bounds-checked ([OOB]),
     reads of uninitialised variables / elements are [UB].

   The interpreter is written once, generically in the carrier [V] of integer *values*
   ([vops]); [zops] (V = Z) is the C semantics.  Leaf/CMiniSym.v instantiates it a second time
   with bit-level affine forms to obtain universally quantified statements about GF(2)-linear
   kernels from one symbolic run (Leaf/CMiniSim.v is the simulation theorem between instances).
   Everything control-related (conditions, indices, shift counts, switch selectors) goes through
   [v_ctl] and is a concrete [Z] in every instance. *)
From Coq Require Import ZArith List String Bool.
Import ListNotations.
Local Open Scope Z_scope.

(** * Results *)
Inductive res (A : Type) : Type :=
| Ok (a : A)
| UB (reason : string)
| OOB
| Die
| OutOfFuel.
Arguments Ok {A} a.
Arguments UB {A} reason.
Arguments OOB {A}.
Arguments Die {A}.
Arguments OutOfFuel {A}.

Definition bind {A B} (r : res A) (f : A -> res B) : res B :=
  match r with
  | Ok a => f a
  | UB s => UB s
  | OOB => OOB
  | Die => Die
  | OutOfFuel => OutOfFuel
  end.

Notation "'do' x <- a ; b" := (bind a (fun x => b))
  (at level 200, x name, a at level 100, b at level 200, right associativity).

(** * Integer types *)
Inductive width := W8 | W16 | W32 | W64.
Record ity := Ity { signed : bool; wd : width }.

Definition wbits (w : width) : Z :=
  match w with W8 => 8 | W16 => 16 | W32 => 32 | W64 => 64 end.
Definition wmod (w : width) : Z :=
  match w with W8 => 256 | W16 => 65536 | W32 => 4294967296 | W64 => 18446744073709551616 end.
Definition whalf (w : width) : Z :=
  match w with W8 => 128 | W16 => 32768 | W32 => 2147483648 | W64 => 9223372036854775808 end.

Lemma wmod_eq w : wmod w = 2 ^ wbits w.
Proof. destruct w; reflexivity. Qed.
Lemma whalf_eq w : whalf w = 2 ^ (wbits w - 1).
Proof. destruct w; reflexivity. Qed.

Definition tschar := Ity true W8.
Definition tuchar := Ity false W8.
Definition tshort := Ity true W16.
Definition tushort := Ity false W16.
Definition tint := Ity true W32.
Definition tuint := Ity false W32.
Definition tlong := Ity true W64.
Definition tulong := Ity false W64.

Definition tmin (t : ity) : Z := if signed t then - whalf (wd t) else 0.
Definition tmax (t : ity) : Z := if signed t then whalf (wd t) - 1 else wmod (wd t) - 1.
Definition in_range (t : ity) (z : Z) : bool := (tmin t <=? z) && (z <=? tmax t).

(** result [z] of an arithmetic operation carried out in type [t] *)
Definition arith (t : ity) (z : Z) : res Z :=
  if signed t then (if in_range t z then Ok z else UB "signed overflow")
  else Ok (z mod wmod (wd t)).

(** conversion of an integer value to type [t] (C11 6.3.1.3) *)
Definition convert (t : ity) (z : Z) : Z :=
  if signed t then (z + whalf (wd t)) mod wmod (wd t) - whalf (wd t)
  else z mod wmod (wd t).

Inductive unop := Oneg | Obitnot.
Inductive binop := Oadd | Osub | Omul | Odiv | Omod | Oand | Oor | Oxor.
Inductive shop := Oshl | Oshr.
Inductive cmpop := Ceq | Cne | Clt | Cle | Cgt | Cge.

Definition c_unop (op : unop) (t : ity) (a : Z) : res Z :=
  match op with
  | Oneg => arith t (- a)
  | Obitnot => arith t (Z.lnot a)
  end.

Definition c_binop (op : binop) (t : ity) (a b : Z) : res Z :=
  match op with
  | Oadd => arith t (a + b)
  | Osub => arith t (a - b)
  | Omul => arith t (a * b)
  | Odiv => if b =? 0 then UB "division by zero" else arith t (Z.quot a b)
  | Omod => if b =? 0 then UB "division by zero"
            else if in_range t (Z.quot a b) then arith t (Z.rem a b) else UB "signed overflow"
  | Oand => arith t (Z.land a b)
  | Oor => arith t (Z.lor a b)
  | Oxor => arith t (Z.lxor a b)
  end.

(** [n] is the shift count, already checked to satisfy 0 <= n < width of the promoted left
    operand type [t] *)
Definition c_shift (op : shop) (t : ity) (a n : Z) : res Z :=
  match op with
  | Oshl => if signed t && (a <? 0) then UB "left shift of a negative value"
            else arith t (Z.shiftl a n)
  | Oshr => Ok (Z.shiftr a n)
  end.

Definition cmpz (c : cmpop) (a b : Z) : bool :=
  match c with
  | Ceq => a =? b
  | Cne => negb (a =? b)
  | Clt => a <? b
  | Cle => a <=? b
  | Cgt => b <? a
  | Cge => b <=? a
  end.

(** * The carrier of integer values *)
Record vops (V : Type) : Type := {
  v_const : Z -> V;                         (* a constant that lies in the range of its type *)
  v_ctl : V -> res Z;                       (* the concrete value, when used for control *)
  v_unop : unop -> ity -> V -> res V;
  v_binop : binop -> ity -> V -> V -> res V;
  v_shift : shop -> ity -> V -> Z -> res V;
  v_cast : ity -> V -> res V }.
Arguments v_const {V}. Arguments v_ctl {V}. Arguments v_unop {V}. Arguments v_binop {V}.
Arguments v_shift {V}. Arguments v_cast {V}.

(** The C semantics. *)
Definition zops : vops Z := {|
  v_const := fun z => z;
  v_ctl := fun z => Ok z;
  v_unop := c_unop;
  v_binop := c_binop;
  v_shift := c_shift;
  v_cast := fun t z => Ok (convert t z) |}.

(** * Finite maps keyed by [positive] *)
Inductive trie (A : Type) : Type :=
| TLeaf
| TNode (l : trie A) (o : option A) (r : trie A).
Arguments TLeaf {A}.
Arguments TNode {A} l o r.

Fixpoint tget {A} (p : positive) (t : trie A) {struct t} : option A :=
  match t with
  | TLeaf => None
  | TNode l o r => match p with xH => o | xO q => tget q l | xI q => tget q r end
  end.

Fixpoint tset {A} (p : positive) (v : A) (t : trie A) : trie A :=
  match p with
  | xH => match t with TLeaf => TNode TLeaf (Some v) TLeaf | TNode l _ r => TNode l (Some v) r end
  | xO q => match t with
            | TLeaf => TNode (tset q v TLeaf) None TLeaf
            | TNode l o r => TNode (tset q v l) o r
            end
  | xI q => match t with
            | TLeaf => TNode TLeaf None (tset q v TLeaf)
            | TNode l o r => TNode l o (tset q v r)
            end
  end.

Fixpoint tmap {A B} (f : A -> B) (t : trie A) : trie B :=
  match t with
  | TLeaf => TLeaf
  | TNode l o r => TNode (tmap f l) (option_map f o) (tmap f r)
  end.

Lemma tget_tmap {A B} (f : A -> B) p t : tget p (tmap f t) = option_map f (tget p t).
Proof.
  revert p; induction t as [|l IHl o r IHr]; intros p; [reflexivity|].
  destruct p; cbn; auto.
Qed.

Lemma tmap_tset {A B} (f : A -> B) p v t : tmap f (tset p v t) = tset p (f v) (tmap f t).
Proof.
  revert t; induction p as [q IH|q IH|]; intros [|l o r]; cbn; try reflexivity;
    try (rewrite IH; reflexivity).
Qed.

Lemma tget_tset_same {A} p (v : A) t : tget p (tset p v t) = Some v.
Proof. revert t; induction p as [q IH|q IH|]; intros [|l o r]; cbn; auto. Qed.

Lemma tget_leaf {A} p : tget p (@TLeaf A) = None.
Proof. reflexivity. Qed.

Lemma tget_tset_other {A} p q (v : A) t : p <> q -> tget p (tset q v t) = tget p t.
Proof.
  revert p t; induction q as [q IH|q IH|]; intros [p|p|] [|l o r] Hne; cbn; try reflexivity;
    try congruence;
    try (rewrite IH by congruence; try rewrite tget_leaf; reflexivity);
    try (destruct p; reflexivity).
Qed.

(** * Abstract syntax *)
Inductive expr : Type :=
| Econst (z : Z)                                  (* literal / enum constant, in range of its type *)
| Evar (x : positive)                             (* value of a scalar or pointer variable *)
| Eindex (a i : expr)                             (* a[i], *a is a[0] *)
| Eptradd (a i : expr)                            (* pointer + integer *)
| Eunop (op : unop) (t : ity) (a : expr)          (* t: (promoted) operand = result type *)
| Ebinop (op : binop) (t : ity) (a b : expr)      (* t: common type after the usual conversions *)
| Eshift (op : shop) (t : ity) (a b : expr)       (* t: promoted type of the left operand *)
| Ecmp (c : cmpop) (a b : expr)                   (* both operands of one common type; int result *)
| Enot (a : expr)                                 (* !a *)
| Eandalso (a b : expr)                           (* a && b *)
| Eorelse (a b : expr)                            (* a || b *)
| Econd (c a b : expr)                            (* c ? a : b *)
| Ecast (t : ity) (a : expr).                     (* conversion to t (explicit or implicit) *)

Inductive lval : Type :=
| Lvar (x : positive)
| Lindex (a i : expr).

Inductive stmt : Type :=
| Sskip
| Sdecl (x : positive) (init : option expr)               (* scalar / pointer local *)
| Sdeclarr (x : positive) (n : Z) (init : option (list expr)) (* T x[n] (= {…}, rest zero) *)
| Sassign (l : lval) (e : expr)                           (* op= and ++/-- arrive desugared *)
| Scall (dst : option lval) (f : string) (args : list expr)
| Sseq (s1 s2 : stmt)
| Sif (c : expr) (s1 s2 : stmt)
| Sloop (c : option expr) (body step : stmt)              (* while (c) { body; step }, [continue] jumps to step *)
| Sreturn (e : option expr)
| Sbreak
| Scontinue
| Sswitch (e : expr) (cs : cases)                         (* fall-through semantics *)
| Sdie                                                    (* abort() / m4ri_die(…) *)
with cases : Type :=
| CNil
| CCons (lbl : option Z) (body : stmt) (rest : cases).   (* None = default *)

Inductive pkind := Pint (t : ity) | Pptr (t : ity).
Record func := { fn_params : list (positive * pkind); fn_ret : option ity; fn_body : stmt }.
Definition program := list (string * func).

Fixpoint find_func (p : program) (f : string) : option func :=
  match p with
  | [] => None
  | (g, fn) :: p' => if String.eqb f g then Some fn else find_func p' f
  end.

Definition lbl_eqb (a b : option Z) : bool :=
  match a, b with
  | None, None => true
  | Some x, Some y => x =? y
  | _, _ => false
  end.

Fixpoint has_label (l : option Z) (cs : cases) : bool :=
  match cs with
  | CNil => false
  | CCons l' _ rest => lbl_eqb l l' || has_label l rest
  end.

(** * Loops: [iter_log n f s] iterates [f] at most 2^n times (logarithmic fuel) *)
Inductive lstep (S R : Type) : Type := LCont (s : S) | LStop (r : R).
Arguments LCont {S R} s.
Arguments LStop {S R} r.

Fixpoint iter_log {S R} (n : nat) (f : S -> res (lstep S R)) (s : S) : res (lstep S R) :=
  match n with
  | O => f s
  | Datatypes.S n' =>
      match iter_log n' f s with
      | Ok (LCont s') => iter_log n' f s'
      | r => r
      end
  end.

(** * Semantics, generic in the carrier of integer values *)
Section Sem.
  Context {V : Type} (ops : vops V).

  Inductive val : Type :=
  | Vundef
  | Vint (v : V)
  | Vptr (b : positive) (ofs : Z).

  Record block : Type := { b_ext : Z; b_data : trie V }.
  Record mem : Type := { m_next : positive; m_blocks : trie block }.
  Definition env := trie val.

  Definition empty_mem : mem := {| m_next := 1%positive; m_blocks := TLeaf |}.

  Definition key (i : Z) : positive := Z.to_pos (i + 1).

  Definition in_ext (bl : block) (i : Z) : bool := (0 <=? i) && (i <? b_ext bl).

  Definition load (m : mem) (b : positive) (i : Z) : res val :=
    match tget b (m_blocks m) with
    | None => UB "access through a dangling pointer"
    | Some bl =>
        if in_ext bl i then
          match tget (key i) (b_data bl) with
          | Some v => Ok (Vint v)
          | None => UB "read of an uninitialised array element"
          end
        else OOB
    end.

  Definition store (m : mem) (b : positive) (i : Z) (v : val) : res mem :=
    match v with
    | Vint x =>
        match tget b (m_blocks m) with
        | None => UB "access through a dangling pointer"
        | Some bl =>
            if in_ext bl i then
              Ok {| m_next := m_next m;
                    m_blocks := tset b {| b_ext := b_ext bl; b_data := tset (key i) x (b_data bl) |}
                                     (m_blocks m) |}
            else OOB
        end
    | _ => UB "array element assigned a non-integer"
    end.

  Definition alloc (m : mem) (n : Z) (data : trie V) : mem * positive :=
    ({| m_next := Pos.succ (m_next m);
        m_blocks := tset (m_next m) {| b_ext := n; b_data := data |} (m_blocks m) |}, m_next m).

  Definition as_int (v : val) : res V :=
    match v with
    | Vint x => Ok x
    | Vundef => UB "read of an uninitialised variable"
    | Vptr _ _ => UB "pointer used as an integer"
    end.

  Definition ctl (v : val) : res Z := do x <- as_int v; v_ctl ops x.

  Definition of_bool (b : bool) : val := Vint (v_const ops (if b then 1 else 0)).

  Definition ptr_add (m : mem) (p : val) (z : Z) : res val :=
    match p with
    | Vptr b o =>
        match tget b (m_blocks m) with
        | None => UB "access through a dangling pointer"
        | Some bl => if (0 <=? o + z) && (o + z <=? b_ext bl) then Ok (Vptr b (o + z))
                     else UB "pointer arithmetic leaves the array"
        end
    | _ => UB "pointer arithmetic on a non-pointer"
    end.

  Fixpoint eval (e : env) (m : mem) (ex : expr) {struct ex} : res val :=
    match ex with
    | Econst z => Ok (Vint (v_const ops z))
    | Evar x =>
        match tget x e with
        | Some Vundef => UB "read of an uninitialised variable"
        | Some v => Ok v
        | None => UB "undeclared variable"
        end
    | Eindex a i =>
        do p <- eval e m a;
        do iv <- eval e m i;
        do z <- ctl iv;
        match p with
        | Vptr b o => load m b (o + z)
        | _ => UB "subscript of a non-pointer"
        end
    | Eptradd a i =>
        do p <- eval e m a;
        do iv <- eval e m i;
        do z <- ctl iv;
        ptr_add m p z
    | Eunop op t a =>
        do va <- eval e m a;
        do x <- as_int va;
        do r <- v_unop ops op t x;
        Ok (Vint r)
    | Ebinop op t a b =>
        do va <- eval e m a;
        do vb <- eval e m b;
        do x <- as_int va;
        do y <- as_int vb;
        do r <- v_binop ops op t x y;
        Ok (Vint r)
    | Eshift op t a b =>
        do va <- eval e m a;
        do vb <- eval e m b;
        do x <- as_int va;
        do n <- ctl vb;
        if (0 <=? n) && (n <? wbits (wd t)) then
          do r <- v_shift ops op t x n; Ok (Vint r)
        else UB "shift count negative or not less than the width"
    | Ecmp c a b =>
        do va <- eval e m a;
        do vb <- eval e m b;
        do x <- ctl va;
        do y <- ctl vb;
        Ok (of_bool (cmpz c x y))
    | Enot a =>
        do va <- eval e m a;
        do x <- ctl va;
        Ok (of_bool (x =? 0))
    | Eandalso a b =>
        do va <- eval e m a;
        do x <- ctl va;
        if x =? 0 then Ok (of_bool false)
        else do vb <- eval e m b; do y <- ctl vb; Ok (of_bool (negb (y =? 0)))
    | Eorelse a b =>
        do va <- eval e m a;
        do x <- ctl va;
        if x =? 0 then do vb <- eval e m b; do y <- ctl vb; Ok (of_bool (negb (y =? 0)))
        else Ok (of_bool true)
    | Econd c a b =>
        do vc <- eval e m c;
        do x <- ctl vc;
        if x =? 0 then eval e m b else eval e m a
    | Ecast t a =>
        do va <- eval e m a;
        do x <- as_int va;
        do r <- v_cast ops t x;
        Ok (Vint r)
    end.

  Fixpoint eval_list (e : env) (m : mem) (l : list expr) : res (list val) :=
    match l with
    | [] => Ok []
    | ex :: l' => do v <- eval e m ex; do vs <- eval_list e m l'; Ok (v :: vs)
    end.

  Fixpoint ints_of (l : list val) : res (list V) :=
    match l with
    | [] => Ok []
    | v :: l' => do x <- as_int v; do xs <- ints_of l'; Ok (x :: xs)
    end.

  (** contents of [T x[n] = {v0, …}]: the given values, then zeros up to n *)
  Fixpoint fill (vs : list V) (i : Z) (k : nat) (t : trie V) : trie V :=
    match k with
    | O => t
    | S k' =>
        match vs with
        | [] => fill [] (i + 1) k' (tset (key i) (v_const ops 0) t)
        | v :: vs' => fill vs' (i + 1) k' (tset (key i) v t)
        end
    end.

  Definition assign (e : env) (m : mem) (l : lval) (v : val) : res (env * mem) :=
    match l with
    | Lvar x =>
        match tget x e with
        | Some _ => Ok (tset x v e, m)
        | None => UB "undeclared variable"
        end
    | Lindex a i =>
        do p <- eval e m a;
        do iv <- eval e m i;
        do z <- ctl iv;
        match p with
        | Vptr b o => do m' <- store m b (o + z) v; Ok (e, m')
        | _ => UB "subscript of a non-pointer"
        end
    end.

  Inductive outcome : Type :=
  | ONormal (e : env) (m : mem)
  | OBreak (e : env) (m : mem)
  | OContinue (e : env) (m : mem)
  | OReturn (v : option val) (m : mem).

  Section Exec.
    Variable call : string -> list val -> mem -> res (option val * mem).
    Variable lfuel : nat.

    Definition truth (e : env) (m : mem) (c : expr) : res bool :=
      do v <- eval e m c; do z <- ctl v; Ok (negb (z =? 0)).

    (** [break] leaves the switch *)
    Definition end_switch (o : outcome) : outcome :=
      match o with
      | OBreak e m => ONormal e m
      | _ => o
      end.

    (** one iteration of  while (c) { body; step }  given the meaning of body and step *)
    Definition loop_step (c : option expr) (xbody xstep : env -> mem -> res outcome)
               (st : env * mem) : res (lstep (env * mem) outcome) :=
      do go <- match c with None => Ok true | Some cx => truth (fst st) (snd st) cx end;
      if go then
        do o <- xbody (fst st) (snd st);
        match o with
        | ONormal e2 m2 | OContinue e2 m2 =>
            do o2 <- xstep e2 m2;
            match o2 with
            | ONormal e3 m3 => Ok (LCont (e3, m3))
            | _ => UB "control transfer out of a for-step"
            end
        | OBreak e2 m2 => Ok (LStop (ONormal e2 m2))
        | OReturn v m2 => Ok (LStop (OReturn v m2))
        end
      else Ok (LStop (ONormal (fst st) (snd st))).

    Fixpoint exec (s : stmt) (e : env) (m : mem) {struct s} : res outcome :=
      match s with
      | Sskip => Ok (ONormal e m)
      | Sdecl x None => Ok (ONormal (tset x Vundef e) m)
      | Sdecl x (Some ex) => do v <- eval e m ex; Ok (ONormal (tset x v e) m)
      | Sdeclarr x n init =>
          if (n <? 0) then UB "negative array size" else
          do data <- match init with
                     | None => Ok TLeaf
                     | Some l => do vs <- eval_list e m l; do xs <- ints_of vs;
                                 if (Z.of_nat (List.length xs) <=? n) then Ok (fill xs 0 (Z.to_nat n) TLeaf)
                                 else UB "too many initialisers"
                     end;
          let mb := alloc m n data in
          Ok (ONormal (tset x (Vptr (snd mb) 0) e) (fst mb))
      | Sassign l ex =>
          do v <- eval e m ex;
          do em <- assign e m l v;
          Ok (ONormal (fst em) (snd em))
      | Scall dst f args =>
          do vs <- eval_list e m args;
          do r <- call f vs m;
          match dst with
          | None => Ok (ONormal e (snd r))
          | Some l =>
              match fst r with
              | Some v => do em <- assign e (snd r) l v; Ok (ONormal (fst em) (snd em))
              | None => UB "value of a void call used"
              end
          end
      | Sseq s1 s2 =>
          do o <- exec s1 e m;
          match o with
          | ONormal e' m' => exec s2 e' m'
          | _ => Ok o
          end
      | Sif c s1 s2 =>
          do b <- truth e m c;
          if b then exec s1 e m else exec s2 e m
      | Sloop c body step =>
          do r <- iter_log lfuel (loop_step c (exec body) (exec step)) (e, m);
          match r with
          | LStop o => Ok o
          | LCont _ => OutOfFuel
          end
      | Sreturn None => Ok (OReturn None m)
      | Sreturn (Some ex) => do v <- eval e m ex; Ok (OReturn (Some v) m)
      | Sbreak => Ok (OBreak e m)
      | Scontinue => Ok (OContinue e m)
      | Sswitch ex cs =>
          do v <- eval e m ex;
          do z <- ctl v;
          if has_label (Some z) cs then
            do o <- exec_cases cs (Some (Some z)) e m; Ok (end_switch o)
          else if has_label None cs then
            do o <- exec_cases cs (Some None) e m; Ok (end_switch o)
          else Ok (ONormal e m)
      | Sdie => Die
      end
    (* [search = Some l]: still looking for label l; [None]: executing (fall-through) *)
    with exec_cases (cs : cases) (search : option (option Z)) (e : env) (m : mem) {struct cs}
      : res outcome :=
      match cs with
      | CNil => Ok (ONormal e m)
      | CCons lbl body rest =>
          if match search with None => true | Some tg => lbl_eqb tg lbl end then
            do o <- exec body e m;
            match o with
            | ONormal e' m' => exec_cases rest None e' m'
            | _ => Ok o
            end
          else exec_cases rest search e m
      end.
  End Exec.

  Fixpoint bind_params (ps : list (positive * pkind)) (vs : list val) (e : env) : res env :=
    match ps, vs with
    | [], [] => Ok e
    | (x, _) :: ps', v :: vs' => bind_params ps' vs' (tset x v e)
    | _, _ => UB "wrong number of arguments"
    end.

  (** [depth] bounds the nesting of calls (syntactic: the call graph of leaf functions is
      acyclic and shallow); [lfuel] is the logarithm of the bound on loop iterations. *)
  Fixpoint run (p : program) (lfuel depth : nat) (f : string) (args : list val) (m : mem)
    : res (option val * mem) :=
    match depth with
    | O => OutOfFuel
    | S d =>
        match find_func p f with
        | None => UB "call of an unknown function"
        | Some fn =>
            do e <- bind_params (fn_params fn) args TLeaf;
            do o <- exec (run p lfuel d) lfuel (fn_body fn) e m;
            match o with
            | OReturn v m' => Ok (v, m')
            | ONormal _ m' => Ok (None, m')
            | _ => UB "break or continue outside of a loop"
            end
        end
    end.

  (** building argument arrays and reading them back *)
  Fixpoint data_of_list (l : list V) (i : Z) (t : trie V) : trie V :=
    match l with
    | [] => t
    | v :: l' => data_of_list l' (i + 1) (tset (key i) v t)
    end.

  Definition alloc_list (m : mem) (l : list V) : mem * positive :=
    alloc m (Z.of_nat (List.length l)) (data_of_list l 0 TLeaf).

  (** an array of [n] elements with indeterminate contents (an output parameter) *)
  Definition alloc_uninit (m : mem) (n : Z) : mem * positive := alloc m n TLeaf.

  Definition read_elem (m : mem) (b : positive) (i : Z) : option V :=
    match tget b (m_blocks m) with
    | None => None
    | Some bl => tget (key i) (b_data bl)
    end.
End Sem.

Arguments Vundef {V}.
Arguments Vint {V} v.
Arguments Vptr {V} b ofs.
Arguments empty_mem {V}.

(** * The concrete interpreter *)
Definition LFUEL : nat := 48.   (* loops: at most 2^48 iterations *)
Definition DEPTH : nat := 12.   (* nesting of calls *)

Definition interp (p : program) (f : string) (args : list (val (V:=Z))) (m : mem (V:=Z))
  : res (option (val (V:=Z)) * mem (V:=Z)) :=
  run zops p LFUEL DEPTH f args m.

(** the integer returned by a call, if it returned one *)
Definition ret_int {V} (r : res (option (@val V) * @mem V)) : res V :=
  do x <- r;
  match fst x with
  | Some (Vint v) => Ok v
  | _ => UB "no integer result"
  end.
