(* Leaf/TransposeMat.v — the bridge between the two halves of C08t:
   the T1-translated kernels (theorems about words, Leaf/TransposeSpecs*.v) seen as functions on Lin/Mat.v
   matrices satisfy the kernel hypotheses of the dispatcher theorem (Alg/TransposeDispatchProofs.v).  Hence the
   dispatcher model instantiated with the INTERPRETED C TEXT of the kernels computes mtrans A for all shapes.

   [Kc f extra B]: run the translated function f by the CMini interpreter on the rows of B (as 64-bit words
   at row stride 1, excess bits zero — the representation of a non-window matrix) and a zeroed destination
   of nc B words; read the destination back as an (nc B) x (nr B) matrix.

   What this does NOT cover (modelled, not verified): the kernels run here on private copies of the blocks
   at row stride 1 (strides 1..3 and (5,7) are covered at word level for the 64x64 kernels, (2,3)/(3,2) for
   the tails, (2,3) for the small kernels up to 32), whereas the C dispatcher runs them in place inside the
   matrices' word arrays. *)
From Coq Require Import ZArith NArith List String Bool Lia.
From M4 Require Import Base.Bits Lin.Mat Lin.Ops Leaf.CMini Leaf.Gen_transpose Leaf.TransposeSpecs
  Leaf.TransposeSpecs2 Leaf.TransposeSpecs4 Alg.TransposeDispatch Alg.TransposeDispatchProofs.
Import ListNotations.

Definition words_of (B : mat) : list Z := map Z.of_N (rows B).
Definition mat_of (r c : nat) (ws : list Z) : mat := mk r c (map Z.to_N ws).

Definition Kc (f : string) (extra : list Z) (B : mat) : mat :=
  match runz f (args_T 1 1 extra) [words_of B; repeat 0%Z (nc B)] with
  | Ok [_; d] => mat_of (nc B) (nr B) d
  | _ => mzero 0 0
  end.

Lemma nth_words_of B j : nth j (words_of B) 0%Z = Z.of_N (row B j).
Proof. unfold words_of, row. now rewrite <- (map_nth Z.of_N). Qed.

Lemma testbit_to_N z k : (0 <= z)%Z -> N.testbit (Z.to_N z) (N.of_nat k) = Z.testbit z (Z.of_nat k).
Proof.
  intros Hz. rewrite <- (Z2N.id z) at 2 by assumption. rewrite <- nat_N_Z. now rewrite Z.testbit_of_N.
Qed.

Lemma fits_words_of B w : wf B -> nc B <= w -> fits (words_of B) (nr B, w).
Proof.
  intros [Hl Hb] Hw. split; [unfold words_of; cbn [fst]; now rewrite map_length|].
  unfold words_of. cbn [snd]. rewrite Forall_forall. intros x Hx. apply in_map_iff in Hx as (a & <- & Ha).
  rewrite Forall_forall in Hb. specialize (Hb a Ha). apply bounded_lt in Hb.
  split; [apply N2Z.is_nonneg|].
  assert (H2 : (2 ^ N.of_nat (nc B) <= 2 ^ N.of_nat w)%N) by (apply N.pow_le_mono_r; lia).
  replace (2 ^ Z.of_nat w)%Z with (Z.of_N (2 ^ N.of_nat w)) by (rewrite N2Z.inj_pow, nat_N_Z; reflexivity).
  lia.
Qed.

Lemma fits_zero n : fits (repeat 0%Z n) (n, 64).
Proof.
  split; [cbn [fst]; apply repeat_length|]. cbn [snd]. rewrite Forall_forall. intros x Hx.
  apply repeat_spec in Hx. subst. cbn. lia.
Qed.

Lemma src_val_0 bufs p j :
  src_val bufs (Some (0%N, N.of_nat p, N.of_nat j)) = Z.testbit (nth p (nth 0 bufs []) 0%Z) (Z.of_nat j).
Proof. exact (src_val_some bufs 0 p j). Qed.

(** a two-buffer transposition post-condition at strides 1 is [mtrans] *)
Lemma post_T_mat B dst outs w :
  wf B -> 0 < nr B <= 64 -> 0 < nc B <= 64 -> List.length dst = nc B ->
  post [words_of B; dst] outs (exp_Tn (nr B) (nc B) 1 1 w) ->
  exists s d, outs = [s; d] /\ mat_of (nc B) (nr B) d = mtrans B.
Proof.
  intros HB Hn Hm Hld (Hlen & Hpost).
  destruct outs as [|s [|d [|? ?]]]; cbn [List.length] in Hlen; try lia.
  exists s, d. split; [reflexivity|].
  destruct (Hpost 1 ltac:(cbn; lia)) as [Hl1 Hp1]. cbn [nth] in Hl1, Hp1. rewrite Hld in Hl1, Hp1.
  assert (Hbit : forall i j, i < nc B -> j < 64 ->
            Z.testbit (nth i d 0%Z) (Z.of_nat j) = if j <? nr B then get B j i else false).
  { intros i j Hi Hj. destruct (Hp1 i Hi) as [_ Hb]. rewrite (Hb j Hj).
    replace i with (i * 1) at 1 by lia. rewrite exp_T_row by lia.
    destruct (Nat.ltb_spec j (nr B)); [|reflexivity].
    rewrite src_val_0. cbn [nth]. rewrite Nat.mul_1_r, nth_words_of.
    unfold get. rewrite <- nat_N_Z. apply Z.testbit_of_N. }
  assert (Hw : forall i, i < nc B -> (0 <= nth i d 0)%Z).
  { intros i Hi. destruct (Hp1 i Hi) as [[H0 _] _]. exact H0. }
  assert (Hrow : forall i, i < nc B -> row (mat_of (nc B) (nr B) d) i = Z.to_N (nth i d 0%Z)).
  { intros i Hi. unfold row, mat_of; cbn [rows]. change 0%N with (Z.to_N 0). now rewrite map_nth. }
  apply mat_ext.
  - apply wf_mk; [now rewrite map_length|]. intros i Hi.
    change (nth i (map Z.to_N d) 0%N) with (row (mat_of (nc B) (nr B) d) i). rewrite Hrow by assumption.
    intros j Hj. rewrite testbit_to_N by now apply Hw.
    destruct (Nat.lt_ge_cases j 64) as [H64|H64].
    + rewrite Hbit by assumption. destruct (Nat.ltb_spec j (nr B)); [lia|reflexivity].
    + destruct (Hp1 i Hi) as [Hw64 _]. apply w64_high; [assumption|lia].
  - now apply wf_mtrans.
  - reflexivity.
  - reflexivity.
  - intros i j Hi Hj. cbn [nr nc mat_of] in Hi, Hj. rewrite get_mtrans by assumption.
    unfold get at 1. rewrite Hrow by assumption. rewrite testbit_to_N by now apply Hw.
    rewrite Hbit by lia. destruct (Nat.ltb_spec j (nr B)); [reflexivity|lia].
Qed.

Lemma Kc_of_post f extra B w :
  wf B -> 0 < nr B <= 64 -> 0 < nc B <= 64 ->
  (exists outs, runz f (args_T 1 1 extra) [words_of B; repeat 0%Z (nc B)] = Ok outs /\
                post [words_of B; repeat 0%Z (nc B)] outs (exp_Tn (nr B) (nc B) 1 1 w)) ->
  Kc f extra B = mtrans B.
Proof.
  intros HB Hn Hm (outs & Hrun & Hpost). unfold Kc. rewrite Hrun.
  destruct (post_T_mat B _ outs w HB Hn Hm (repeat_length _ _) Hpost) as (s & d & -> & Hd). exact Hd.
Qed.

(** * The five kernels as matrix functions *)
Definition K64c : mat -> mat := Kc "_mzd_copy_transpose_64x64" [].
Definition Klt64x64c (B : mat) : mat := Kc "_mzd_copy_transpose_lt64x64" [Z.of_nat (nr B)] B.
Definition K64xlt64c (B : mat) : mat := Kc "_mzd_copy_transpose_64xlt64" [Z.of_nat (nc B)] B.
Definition Ksmallc (maxsize : nat) (B : mat) : mat :=
  Kc "_mzd_copy_transpose_small" [Z.of_nat (nr B); Z.of_nat (nc B); Z.of_nat maxsize] B.
Definition K64_2c (B1 B2 : mat) : mat * mat :=
  match runz "_mzd_copy_transpose_64x64_2"
             [AP 3 0; AI 0; AP 4 0; AI 0; AP 1 0; AI 0; AP 2 0; AI 0; AI 1; AI 1]
             [words_of B1; words_of B2; repeat 0%Z 64; repeat 0%Z 64] with
  | Ok [_; _; d1; d2] => (mat_of 64 64 d1, mat_of 64 64 d2)
  | _ => (mzero 0 0, mzero 0 0)
  end.

Lemma In_11_strides : In (1, 1) strides. Proof. now left. Qed.
Lemma In_11_strides2 : In (1, 1) strides2. Proof. now left. Qed.

Theorem K64c_spec B : wf B -> nr B = 64 -> nc B = 64 -> K64c B = mtrans B.
Proof.
  intros HB Hn Hm. apply (Kc_of_post _ _ B 64 HB); try lia. rewrite Hn, Hm.
  apply (transpose64_bits 1 1 In_11_strides).
  - pose proof (fits_words_of B 64 HB ltac:(lia)) as H. now rewrite Hn in H.
  - apply fits_zero.
Qed.

Theorem Klt64x64c_spec B : wf B -> 0 < nr B < 64 -> nc B = 64 -> Klt64x64c B = mtrans B.
Proof.
  intros HB Hn Hm. apply (Kc_of_post _ _ B 64 HB); try lia. rewrite Hm.
  apply (transpose_lt64x64_bits 1 1 (nr B) In_11_strides2); [lia| |apply fits_zero].
  pose proof (fits_words_of B 64 HB ltac:(lia)) as H. replace ((nr B - 1) * 1 + 1) with (nr B) by lia. exact H.
Qed.

Theorem K64xlt64c_spec B : wf B -> nr B = 64 -> 0 < nc B < 64 -> K64xlt64c B = mtrans B.
Proof.
  intros HB Hn Hm. apply (Kc_of_post _ _ B (w64xlt (nc B)) HB); try lia. rewrite Hn.
  apply (transpose_64xlt64_bits 1 1 (nc B) In_11_strides2); [lia| |].
  - pose proof (fits_words_of B (w64xlt (nc B)) HB) as H. rewrite Hn in H. apply H.
    unfold w64xlt. destruct (32 <? nc B); lia.
  - replace ((nc B - 1) * 1 + 1) with (nc B) by lia. apply fits_zero.
Qed.

Theorem Ksmallc_spec B : wf B -> 0 < nr B < 64 -> 0 < nc B < 64 ->
  Ksmallc (Nat.max (nr B) (nc B)) B = mtrans B.
Proof.
  intros HB Hn Hm. apply (Kc_of_post _ _ B (nc B) HB); try lia.
  apply (transpose_small_bits (nr B) (nc B)); [lia|lia| |apply fits_zero].
  apply fits_words_of; [assumption|lia].
Qed.

Theorem K64_2c_spec B1 B2 : wf B1 -> nr B1 = 64 -> nc B1 = 64 -> wf B2 -> nr B2 = 64 -> nc B2 = 64 ->
  K64_2c B1 B2 = (mtrans B1, mtrans B2).
Proof.
  intros H1 Hn1 Hm1 H2 Hn2 Hm2.
  destruct (transpose64_2_bits 1 1 In_11_strides (words_of B1) (words_of B2) (repeat 0%Z 64) (repeat 0%Z 64))
    as (outs & Hrun & Hlen & Hpost).
  { pose proof (fits_words_of B1 64 H1 ltac:(lia)) as H. now rewrite Hn1 in H. }
  { pose proof (fits_words_of B2 64 H2 ltac:(lia)) as H. now rewrite Hn2 in H. }
  { apply fits_zero. } { apply fits_zero. }
  unfold K64_2c. change [AI (Z.of_nat 1); AI (Z.of_nat 1)] with [AI 1%Z; AI 1%Z] in Hrun.
  rewrite Hrun. destruct outs as [|s1 [|s2 [|d1 [|d2 [|? ?]]]]]; cbn [List.length] in Hlen; try lia.
  (* each destination against its source: reuse post_T_mat through a two-buffer post *)
  assert (Hd : forall b d B, (b = 2 /\ d = d1 /\ B = B1) \/ (b = 3 /\ d = d2 /\ B = B2) ->
                             mat_of 64 64 d = mtrans B).
  { intros b d B Hb.
    assert (HB : wf B /\ nr B = 64 /\ nc B = 64) by (destruct Hb as [(_ & _ & ->)|(_ & _ & ->)]; auto).
    destruct HB as (HwB & HnB & HmB).
    assert (Hpost2 : post [words_of B; repeat 0%Z 64] [words_of B; d] (exp_Tn 64 64 1 1 64)).
    { split; [reflexivity|]. intros b' Hb'. cbn [List.length] in Hb'.
      assert (Hb2 : b < 4) by (destruct Hb as [(-> & _)|(-> & _)]; lia).
      destruct (Hpost b ltac:(cbn; lia)) as [HL HP].
      assert (HdL : List.length d = 64).
      { destruct Hb as [(-> & -> & _)|(-> & -> & _)]; cbn [nth] in HL; rewrite HL; apply repeat_length. }
      destruct b' as [|[|]]; [| |lia]; cbn [nth].
      - split; [reflexivity|]. intros p Hp. unfold words_of in Hp. rewrite map_length in Hp.
        pose proof (fits_words_of B 64 HwB ltac:(lia)) as [_ Hf]. cbn [snd] in Hf. rewrite Forall_forall in Hf.
        split; [apply Hf, nth_In; unfold words_of; now rewrite map_length|].
        intros j Hj. rewrite exp_T_src. destruct (Nat.ltb_spec j 64); [|lia].
        now rewrite src_val_0.
      - split; [rewrite HdL; now rewrite repeat_length|]. intros p Hp. rewrite repeat_length in Hp.
        assert (Hnth : nth p (nth b [s1; s2; d1; d2] []) 0%Z = nth p d 0%Z)
          by (destruct Hb as [(-> & -> & _)|(-> & -> & _)]; reflexivity).
        destruct (HP p) as [Hw Hbits].
        { destruct Hb as [(-> & _)|(-> & _)]; cbn [nth]; now rewrite repeat_length. }
        rewrite Hnth in Hw, Hbits. split; [exact Hw|]. intros j Hj. rewrite (Hbits j Hj).
        replace p with (p * 1) at 2 by lia. rewrite exp_T_row by lia. destruct (Nat.ltb_spec j 64); [|lia].
        rewrite src_val_0. cbn [nth].
        unfold exp_T2. assert (Hb3 : exists b0, b = S (S b0) /\ b - 2 = b0) by (destruct Hb as [(-> & _)|(-> & _)]; eexists; split; reflexivity).
        destruct Hb3 as (b0 & -> & Hb0).
        replace (N.of_nat p mod N.of_nat 1)%N with 0%N by (cbn; now rewrite N.mod_1_r).
        replace (N.of_nat p / N.of_nat 1)%N with (N.of_nat p) by (cbn; now rewrite N.div_1_r).
        destruct (N.ltb_spec (N.of_nat p) 64); [|lia]. cbn [N.eqb andb].
        replace (N.of_nat j * N.of_nat 1)%N with (N.of_nat (j * 1)) by lia.
        rewrite (src_val_some _ (S (S b0) - 2) (j * 1) p).
        destruct Hb as [(Hb & _ & ->)|(Hb & _ & ->)]; inversion Hb; subst; reflexivity. }
    assert (Hpost3 : post [words_of B; repeat 0%Z 64] [words_of B; d] (exp_Tn (nr B) (nc B) 1 1 64))
      by (rewrite HnB, HmB; exact Hpost2).
    destruct (post_T_mat B (repeat 0%Z 64) [words_of B; d] 64 HwB ltac:(lia) ltac:(lia)
                         ltac:(rewrite repeat_length; lia) Hpost3) as (s & d' & He & Hm').
    inversion He; subst d'. rewrite HmB, HnB in Hm'. exact Hm'. }
  f_equal; [apply (Hd 2); left; auto|apply (Hd 3); right; auto].
Qed.

(** * The dispatcher over the interpreted C text of the kernels: all shapes *)
Theorem transpose_dispatch_c_spec dangerA dangerD DST A :
  wf A -> wf DST -> nr DST = nc A -> nc DST = nr A -> 0 < nr A -> 0 < nc A ->
  mzd_transpose_model K64c K64_2c Klt64x64c K64xlt64c Ksmallc dangerA dangerD DST A = Some (mtrans A).
Proof.
  apply transpose_dispatch_spec.
  - exact K64c_spec.
  - exact K64_2c_spec.
  - exact Klt64x64c_spec.
  - exact K64xlt64c_spec.
  - exact Ksmallc_spec.
Qed.
