(* Leaf/CMiniSim.v — simulation between two instances of the generic CMini interpreter.

   If [h : VA -> VB] commutes with every value operation whenever the A-side succeeds, then a
   successful A-run of any program is mirrored by the B-run on the [h]-images of the arguments
   and of the memory, with the [h]-image of the result.  Used with A = bit-level affine forms
   (Leaf/CMiniSym.v), B = Z (the C semantics) and h = "evaluate the forms at a given input":
   one symbolic run then speaks about all concrete inputs. *)
From Coq Require Import ZArith List String Bool.
From M4 Require Import Leaf.CMini.
Import ListNotations.
Local Open Scope Z_scope.

Lemma bind_ok {A B} (r : res A) (f : A -> res B) b :
  bind r f = Ok b -> exists a, r = Ok a /\ f a = Ok b.
Proof. destruct r; cbn; try discriminate. eauto. Qed.

Ltac inv_bind H :=
  let a := fresh "a" in
  let E := fresh "E" in
  apply bind_ok in H; destruct H as (a & E & H).

Ltac inv_binds :=
  repeat match goal with
         | H : bind _ _ = Ok _ |- _ => inv_bind H
         end.

Lemma exec_Sswitch {V} (ops : vops V) call lf ex cs e m :
  exec ops call lf (Sswitch ex cs) e m =
  (do v <- eval ops e m ex;
   do z <- ctl ops v;
   if has_label (Some z) cs then
     do o <- exec_cases ops call lf cs (Some (Some z)) e m; Ok (end_switch o)
   else if has_label None cs then
     do o <- exec_cases ops call lf cs (Some None) e m; Ok (end_switch o)
   else Ok (ONormal e m)).
Proof. reflexivity. Qed.

Lemma exec_cases_CCons {V} (ops : vops V) call lf lbl body rest sr e m :
  exec_cases ops call lf (CCons lbl body rest) sr e m =
  (if match sr with None => true | Some tg => lbl_eqb tg lbl end then
     do o <- exec ops call lf body e m;
     match o with
     | ONormal e' m' => exec_cases ops call lf rest None e' m'
     | _ => Ok o
     end
   else exec_cases ops call lf rest sr e m).
Proof. reflexivity. Qed.

Section Sim.
  Context {VA VB : Type} (A : vops VA) (B : vops VB) (h : VA -> VB).

  Hypothesis h_const : forall z, h (v_const A z) = v_const B z.
  Hypothesis h_ctl : forall a z, v_ctl A a = Ok z -> v_ctl B (h a) = Ok z.
  Hypothesis h_unop : forall op t a r, v_unop A op t a = Ok r -> v_unop B op t (h a) = Ok (h r).
  Hypothesis h_binop : forall op t a b r,
      v_binop A op t a b = Ok r -> v_binop B op t (h a) (h b) = Ok (h r).
  Hypothesis h_shift : forall op t a n r,
      v_shift A op t a n = Ok r -> v_shift B op t (h a) n = Ok (h r).
  Hypothesis h_cast : forall t a r, v_cast A t a = Ok r -> v_cast B t (h a) = Ok (h r).

  Definition hval (v : @val VA) : @val VB :=
    match v with
    | Vundef => Vundef
    | Vint a => Vint (h a)
    | Vptr b o => Vptr b o
    end.
  Definition hblock (bl : @block VA) : @block VB :=
    {| b_ext := b_ext bl; b_data := tmap h (b_data bl) |}.
  Definition hmem (m : @mem VA) : @mem VB :=
    {| m_next := m_next m; m_blocks := tmap hblock (m_blocks m) |}.
  Definition henv (e : @env VA) : @env VB := tmap hval e.
  Definition hout (o : @outcome VA) : @outcome VB :=
    match o with
    | ONormal e m => ONormal (henv e) (hmem m)
    | OBreak e m => OBreak (henv e) (hmem m)
    | OContinue e m => OContinue (henv e) (hmem m)
    | OReturn v m => OReturn (option_map hval v) (hmem m)
    end.
  Definition hres (r : option (@val VA) * @mem VA) : option (@val VB) * @mem VB :=
    (option_map hval (fst r), hmem (snd r)).

  Lemma as_int_sim v a : as_int v = Ok a -> as_int (hval v) = Ok (h a).
  Proof. destruct v; cbn; intros H; inversion H; reflexivity. Qed.

  Lemma ctl_sim v z : ctl A v = Ok z -> ctl B (hval v) = Ok z.
  Proof.
    unfold ctl. intros H. inv_binds. rewrite (as_int_sim _ _ E). cbn. auto.
  Qed.

  Lemma of_bool_sim b : hval (of_bool A b) = of_bool B b.
  Proof. unfold of_bool. cbn. now rewrite h_const. Qed.

  Lemma in_ext_sim bl i : in_ext (hblock bl) i = in_ext bl i.
  Proof. reflexivity. Qed.

  Lemma load_sim m b i v : load m b i = Ok v -> load (hmem m) b i = Ok (hval v).
  Proof.
    unfold load. cbn [hmem m_blocks]. rewrite tget_tmap.
    destruct (tget b (m_blocks m)) as [bl|]; cbn [option_map]; [|discriminate].
    rewrite in_ext_sim. destruct (in_ext bl i); [|discriminate].
    cbn [hblock b_data]. rewrite tget_tmap.
    destruct (tget (key i) (b_data bl)); cbn [option_map]; [|discriminate].
    intros H; inversion H; reflexivity.
  Qed.

  Lemma store_sim m b i v m' : store m b i v = Ok m' -> store (hmem m) b i (hval v) = Ok (hmem m').
  Proof.
    unfold store. destruct v as [|x|]; cbn [hval]; try discriminate.
    cbn [hmem m_blocks]. rewrite tget_tmap.
    destruct (tget b (m_blocks m)) as [bl|]; cbn [option_map]; [|discriminate].
    rewrite in_ext_sim. destruct (in_ext bl i); [|discriminate].
    intros H; inversion H; subst; clear H. unfold hmem; cbn [m_next m_blocks].
    rewrite tmap_tset. unfold hblock; cbn [b_ext b_data]. rewrite tmap_tset. reflexivity.
  Qed.

  Lemma ptr_add_sim m p z v : ptr_add m p z = Ok v -> ptr_add (hmem m) (hval p) z = Ok (hval v).
  Proof.
    unfold ptr_add. destruct p as [| |b o]; cbn [hval]; try discriminate.
    cbn [hmem m_blocks]. rewrite tget_tmap.
    destruct (tget b (m_blocks m)) as [bl|]; cbn [option_map]; [|discriminate].
    cbn [hblock b_ext]. destruct ((0 <=? o + z) && (o + z <=? b_ext bl)); [|discriminate].
    intros H; inversion H; reflexivity.
  Qed.

  Lemma alloc_sim m n data :
    alloc (hmem m) n (tmap h data) = (hmem (fst (alloc m n data)), snd (alloc m n data)).
  Proof.
    unfold alloc, hmem; cbn [fst snd m_next m_blocks]. rewrite tmap_tset. reflexivity.
  Qed.

  Lemma eval_sim e m ex v : eval A e m ex = Ok v -> eval B (henv e) (hmem m) ex = Ok (hval v).
  Proof.
    revert v; induction ex; intros v H; cbn [eval] in H |- *.
    - inversion H; subst. cbn. now rewrite h_const.
    - unfold henv. rewrite tget_tmap. destruct (tget x e) as [[| |]|]; cbn [option_map hval];
        try discriminate; inversion H; reflexivity.
    - inv_binds. rewrite (IHex1 _ E), (IHex2 _ E0). cbn [bind]. rewrite (ctl_sim _ _ E1). cbn [bind].
      destruct a as [| |b o]; try discriminate. cbn [hval]. now apply load_sim.
    - inv_binds. rewrite (IHex1 _ E), (IHex2 _ E0). cbn [bind]. rewrite (ctl_sim _ _ E1). cbn [bind].
      now apply ptr_add_sim.
    - inv_binds. rewrite (IHex _ E). cbn [bind]. rewrite (as_int_sim _ _ E0). cbn [bind].
      rewrite (h_unop _ _ _ _ E1). cbn [bind]. inversion H; reflexivity.
    - inv_binds. rewrite (IHex1 _ E), (IHex2 _ E0). cbn [bind].
      rewrite (as_int_sim _ _ E1), (as_int_sim _ _ E2). cbn [bind].
      rewrite (h_binop _ _ _ _ _ E3). cbn [bind]. inversion H; reflexivity.
    - inv_binds. rewrite (IHex1 _ E), (IHex2 _ E0). cbn [bind].
      rewrite (as_int_sim _ _ E1). cbn [bind]. rewrite (ctl_sim _ _ E2). cbn [bind].
      destruct ((0 <=? a2) && (a2 <? wbits (wd t))); [|discriminate].
      inv_binds. rewrite (h_shift _ _ _ _ _ E3). cbn [bind]. inversion H; reflexivity.
    - inv_binds. rewrite (IHex1 _ E), (IHex2 _ E0). cbn [bind].
      rewrite (ctl_sim _ _ E1), (ctl_sim _ _ E2). cbn [bind]. inversion H. now rewrite of_bool_sim.
    - inv_binds. rewrite (IHex _ E). cbn [bind]. rewrite (ctl_sim _ _ E0). cbn [bind].
      inversion H. now rewrite of_bool_sim.
    - inv_binds. rewrite (IHex1 _ E). cbn [bind]. rewrite (ctl_sim _ _ E0). cbn [bind].
      destruct (a0 =? 0).
      + inversion H. now rewrite of_bool_sim.
      + inv_binds. rewrite (IHex2 _ E1). cbn [bind]. rewrite (ctl_sim _ _ E2). cbn [bind].
        inversion H. now rewrite of_bool_sim.
    - inv_binds. rewrite (IHex1 _ E). cbn [bind]. rewrite (ctl_sim _ _ E0). cbn [bind].
      destruct (a0 =? 0).
      + inv_binds. rewrite (IHex2 _ E1). cbn [bind]. rewrite (ctl_sim _ _ E2). cbn [bind].
        inversion H. now rewrite of_bool_sim.
      + inversion H. now rewrite of_bool_sim.
    - inv_binds. rewrite (IHex1 _ E). cbn [bind]. rewrite (ctl_sim _ _ E0). cbn [bind].
      destruct (a0 =? 0); auto.
    - inv_binds. rewrite (IHex _ E). cbn [bind]. rewrite (as_int_sim _ _ E0). cbn [bind].
      rewrite (h_cast _ _ _ E1). cbn [bind]. inversion H; reflexivity.
  Qed.

  Lemma eval_list_sim e m l vs :
    eval_list A e m l = Ok vs -> eval_list B (henv e) (hmem m) l = Ok (map hval vs).
  Proof.
    revert vs; induction l as [|ex l IH]; intros vs H; cbn [eval_list] in H |- *.
    - inversion H; reflexivity.
    - inv_binds. rewrite (eval_sim _ _ _ _ E). cbn [bind]. rewrite (IH _ E0). cbn [bind].
      inversion H; reflexivity.
  Qed.

  Lemma ints_of_sim vs xs : ints_of vs = Ok xs -> ints_of (map hval vs) = Ok (map h xs).
  Proof.
    revert xs; induction vs as [|v vs IH]; intros xs H; cbn [ints_of map] in H |- *.
    - inversion H; reflexivity.
    - inv_binds. rewrite (as_int_sim _ _ E). cbn [bind]. rewrite (IH _ E0). cbn [bind].
      inversion H; reflexivity.
  Qed.

  Lemma fill_sim xs i k t : tmap h (fill A xs i k t) = fill B (map h xs) i k (tmap h t).
  Proof.
    revert xs i t; induction k as [|k IH]; intros xs i t; [reflexivity|].
    destruct xs as [|x xs]; cbn [fill map]; rewrite IH, tmap_tset; [now rewrite h_const|reflexivity].
  Qed.

  Lemma assign_sim e m l v em :
    assign A e m l v = Ok em ->
    assign B (henv e) (hmem m) l (hval v) = Ok (henv (fst em), hmem (snd em)).
  Proof.
    destruct l as [x|a i]; cbn [assign]; intros H.
    - unfold henv at 1. rewrite tget_tmap. destruct (tget x e); cbn [option_map]; [|discriminate].
      inversion H; subst; cbn [fst snd]. unfold henv. now rewrite tmap_tset.
    - inv_binds. rewrite (eval_sim _ _ _ _ E), (eval_sim _ _ _ _ E0). cbn [bind].
      rewrite (ctl_sim _ _ E1). cbn [bind]. destruct a0 as [| |b o]; try discriminate.
      inv_binds. cbn [hval]. rewrite (store_sim _ _ _ _ _ E2). cbn [bind].
      inversion H; reflexivity.
  Qed.

  Lemma truth_sim e m c b : truth A e m c = Ok b -> truth B (henv e) (hmem m) c = Ok b.
  Proof.
    unfold truth. intros H. inv_binds. rewrite (eval_sim _ _ _ _ E). cbn [bind].
    rewrite (ctl_sim _ _ E0). cbn [bind]. assumption.
  Qed.

  Definition hstep {SA SB RA RB} (hs : SA -> SB) (hr : RA -> RB) (x : lstep SA RA) : lstep SB RB :=
    match x with
    | LCont s => LCont (hs s)
    | LStop r => LStop (hr r)
    end.

  Lemma iter_log_sim {SA SB RA RB} (hs : SA -> SB) (hr : RA -> RB)
        (fA : SA -> res (lstep SA RA)) (fB : SB -> res (lstep SB RB)) :
    (forall s r, fA s = Ok r -> fB (hs s) = Ok (hstep hs hr r)) ->
    forall n s r, iter_log n fA s = Ok r -> iter_log n fB (hs s) = Ok (hstep hs hr r).
  Proof.
    intros Hf. induction n as [|n IH]; intros s r H; cbn [iter_log] in H |- *; [auto|].
    destruct (iter_log n fA s) as [[s'|r']| | | |] eqn:E; try discriminate.
    - rewrite (IH _ _ E). cbn [hstep]. auto.
    - rewrite (IH _ _ E). cbn [hstep]. inversion H; reflexivity.
  Qed.

  Section ExecSim.
    Variable callA : string -> list (@val VA) -> @mem VA -> res (option (@val VA) * @mem VA).
    Variable callB : string -> list (@val VB) -> @mem VB -> res (option (@val VB) * @mem VB).
    Variable lfuel : nat.
    Hypothesis call_sim : forall f vs m r,
        callA f vs m = Ok r -> callB f (map hval vs) (hmem m) = Ok (hres r).

    Scheme stmt_mut := Induction for stmt Sort Prop
      with cases_mut := Induction for cases Sort Prop.
    Combined Scheme stmt_cases_ind from stmt_mut, cases_mut.

    Lemma loop_step_sim c xbA xsA xbB xsB :
      (forall e m o, xbA e m = Ok o -> xbB (henv e) (hmem m) = Ok (hout o)) ->
      (forall e m o, xsA e m = Ok o -> xsB (henv e) (hmem m) = Ok (hout o)) ->
      forall st r, loop_step A c xbA xsA st = Ok r ->
                   loop_step B c xbB xsB (henv (fst st), hmem (snd st))
                   = Ok (hstep (fun st : @env VA * @mem VA => (henv (fst st), hmem (snd st))) hout r).
    Proof.
      intros IHb IHs [e1 m1] r Hr. unfold loop_step in *. cbn [fst snd] in *. inv_binds.
      assert (Hgo : match c with None => Ok true | Some cx => truth B (henv e1) (hmem m1) cx end = Ok a).
      { destruct c as [cx|]; [now apply truth_sim|assumption]. }
      rewrite Hgo. cbn [bind]. destruct a.
      - inv_binds. rewrite (IHb _ _ _ E0). cbn [bind].
        destruct a as [e2 m2|e2 m2|e2 m2|v m2]; cbn [hout].
        + inv_binds. rewrite (IHs _ _ _ E1). cbn [bind].
          destruct a; cbn [hout]; try discriminate. inversion Hr; reflexivity.
        + inversion Hr; reflexivity.
        + inv_binds. rewrite (IHs _ _ _ E1). cbn [bind].
          destruct a; cbn [hout]; try discriminate. inversion Hr; reflexivity.
        + inversion Hr; reflexivity.
      - inversion Hr; reflexivity.
    Qed.

    Lemma exec_sim_both :
      (forall s e m o, exec A callA lfuel s e m = Ok o ->
                       exec B callB lfuel s (henv e) (hmem m) = Ok (hout o)) /\
      (forall cs sr e m o, exec_cases A callA lfuel cs sr e m = Ok o ->
                           exec_cases B callB lfuel cs sr (henv e) (hmem m) = Ok (hout o)).
    Proof.
      apply stmt_cases_ind.
      - (* Sskip *) intros e m o H; cbn in *. inversion H; reflexivity.
      - (* Sdecl *) intros x [ex|] e m o H; cbn [exec] in *.
        + inv_binds. rewrite (eval_sim _ _ _ _ E). cbn [bind]. inversion H; subst. cbn [hout].
          unfold henv. now rewrite tmap_tset.
        + inversion H; subst. cbn [hout]. unfold henv. now rewrite tmap_tset.
      - (* Sdeclarr *) intros x n init e m o H; cbn [exec] in *.
        destruct (n <? 0); [discriminate|]. inv_binds.
        assert (Hd : match init with
                     | None => Ok TLeaf
                     | Some l => do vs <- eval_list B (henv e) (hmem m) l; do xs <- ints_of vs;
                                 if (Z.of_nat (List.length xs) <=? n)
                                 then Ok (fill B xs 0 (Z.to_nat n) TLeaf)
                                 else UB "too many initialisers"
                     end = Ok (tmap h a)).
        { destruct init as [l|].
          - inv_binds. rewrite (eval_list_sim _ _ _ _ E0). cbn [bind].
            rewrite (ints_of_sim _ _ E1). cbn [bind]. rewrite map_length.
            destruct (Z.of_nat (List.length a1) <=? n); [|discriminate].
            inversion E; subst. now rewrite fill_sim.
          - inversion E; reflexivity. }
        rewrite Hd. cbn [bind]. rewrite alloc_sim. cbn [fst snd].
        inversion H; subst. cbn [hout]. unfold henv. rewrite tmap_tset. reflexivity.
      - (* Sassign *) intros l ex e m o H; cbn [exec] in *. inv_binds.
        rewrite (eval_sim _ _ _ _ E). cbn [bind]. rewrite (assign_sim _ _ _ _ _ E0). cbn [bind fst snd].
        inversion H; reflexivity.
      - (* Scall *) intros dst f args e m o H; cbn [exec] in *. inv_binds.
        rewrite (eval_list_sim _ _ _ _ E). cbn [bind]. rewrite (call_sim _ _ _ _ E0). cbn [bind].
        unfold hres; cbn [fst snd]. destruct dst as [l|].
        + destruct (fst a0) as [v|]; [|discriminate]. cbn [option_map]. inv_binds.
          rewrite (assign_sim _ _ _ _ _ E1). cbn [bind fst snd]. inversion H; reflexivity.
        + inversion H; reflexivity.
      - (* Sseq *) intros s1 IH1 s2 IH2 e m o H; cbn [exec] in *. inv_binds.
        rewrite (IH1 _ _ _ E). cbn [bind]. destruct a; cbn [hout]; try (inversion H; reflexivity).
        now apply IH2.
      - (* Sif *) intros c s1 IH1 s2 IH2 e m o H; cbn [exec] in *. inv_binds.
        rewrite (truth_sim _ _ _ _ E). cbn [bind]. destruct a; auto.
      - (* Sloop *) intros c body IHb step IHs e m o H; cbn [exec] in *. inv_binds.
        change (henv e, hmem m) with (henv (fst (e, m)), hmem (snd (e, m))).
        rewrite (iter_log_sim (fun st : @env VA * @mem VA => (henv (fst st), hmem (snd st))) hout
                   (loop_step A c (exec A callA lfuel body) (exec A callA lfuel step))
                   (loop_step B c (exec B callB lfuel body) (exec B callB lfuel step))
                   (loop_step_sim c _ _ _ _ IHb IHs) _ (e, m) _ E).
        cbn [bind]. destruct a; cbn [hstep]; [discriminate|]. inversion H; reflexivity.
      - (* Sreturn *) intros [ex|] e m o H; cbn [exec] in *.
        + inv_binds. rewrite (eval_sim _ _ _ _ E). cbn [bind]. inversion H; reflexivity.
        + inversion H; reflexivity.
      - (* Sbreak *) intros e m o H; cbn in *. inversion H; reflexivity.
      - (* Scontinue *) intros e m o H; cbn in *. inversion H; reflexivity.
      - (* Sswitch *) intros ex cs IH e m o H; rewrite (exec_Sswitch A) in H; rewrite (exec_Sswitch B). inv_binds.
        rewrite (eval_sim _ _ _ _ E). cbn [bind]. rewrite (ctl_sim _ _ E0). cbn [bind].
        destruct (has_label (Some a0) cs).
        + inv_binds. rewrite (IH _ _ _ _ E1). cbn [bind].
          destruct a1; cbn [hout end_switch]; inversion H; reflexivity.
        + destruct (has_label None cs).
          * inv_binds. rewrite (IH _ _ _ _ E1). cbn [bind].
            destruct a1; cbn [hout end_switch]; inversion H; reflexivity.
          * inversion H; reflexivity.
      - (* Sdie *) intros e m o H; cbn in H. discriminate.
      - (* CNil *) intros sr e m o H; cbn in *. inversion H; reflexivity.
      - (* CCons *) intros lbl body IHb rest IHr sr e m o H; rewrite (exec_cases_CCons A) in H; rewrite (exec_cases_CCons B).
        destruct (match sr with None => true | Some tg => lbl_eqb tg lbl end).
        + inv_binds. rewrite (IHb _ _ _ E). cbn [bind].
          destruct a; cbn [hout]; try (inversion H; reflexivity). now apply IHr.
        + now apply IHr.
    Qed.

    Definition exec_sim := proj1 exec_sim_both.
  End ExecSim.

  Lemma bind_params_sim ps vs e e' :
    bind_params ps vs e = Ok e' -> bind_params ps (map hval vs) (henv e) = Ok (henv e').
  Proof.
    revert vs e; induction ps as [|[x k] ps IH]; intros [|v vs] e H; cbn [bind_params map] in *;
      try discriminate.
    - inversion H; reflexivity.
    - rewrite <- (IH _ _ H). unfold henv. now rewrite tmap_tset.
  Qed.

  Theorem run_sim p lfuel depth f vs m r :
    run A p lfuel depth f vs m = Ok r ->
    run B p lfuel depth f (map hval vs) (hmem m) = Ok (hres r).
  Proof.
    revert f vs m r; induction depth as [|d IH]; intros f vs m r H; cbn [run] in *; [discriminate|].
    destruct (find_func p f) as [fn|]; [|discriminate]. inv_binds.
    assert (E' := bind_params_sim _ _ _ _ E). change (henv TLeaf) with (@TLeaf (@val VB)) in E'.
    rewrite E'. cbn [bind].
    rewrite (exec_sim _ _ lfuel IH _ _ _ _ E0). cbn [bind].
    destruct a0; cbn [hout]; try discriminate; inversion H; reflexivity.
  Qed.
End Sim.
