(* Leaf/LeafSpecs.v — theorems about the T1-TRANSLATED leaf functions (Leaf/Gen_leaf.v, regenerated
   from /repo on every run), executed by the CMini interpreter [interp leaf_prog].

   This file: generic plumbing (finite sweeps, argument arrays, logarithmic-fuel loops), the three
   bit-mask macros (all 65 lengths x 64 offsets, UB-free domain explicit), m4ri_swap_bits and
   m4ri_parity64 (one symbolic run each + CMiniSym.sym_sound => all inputs).
   LeafSpecs2.v: Gray code / code book.  LeafSpecs3.v: spread/shrink, lesser_LSB, log2_floor. *)
From Coq Require Import ZArith NArith List String Bool Lia ZifyBool ZifyNat ZifyN.
From M4 Require Import Base.Bits Leaf.CMini Leaf.CMiniSim Leaf.CMiniSym Leaf.Gen_leaf.
Import ListNotations.
Local Open Scope Z_scope.

(** * Finite sweeps over integer ranges *)
Definition zrange (lo : Z) (n : nat) : list Z := map (fun i => lo + Z.of_nat i) (seq 0 n).

Lemma In_zrange lo n z : lo <= z < lo + Z.of_nat n -> In z (zrange lo n).
Proof.
  intros H. unfold zrange. apply in_map_iff. exists (Z.to_nat (z - lo)). split; [lia|].
  apply in_seq. lia.
Qed.

Lemma sweep_range (P : Z -> bool) lo n :
  forallb P (zrange lo n) = true -> forall z, lo <= z < lo + Z.of_nat n -> P z = true.
Proof. intros H z Hz. rewrite forallb_forall in H. apply H, In_zrange, Hz. Qed.

Lemma sweep_range2 (P : Z -> Z -> bool) lo1 n1 lo2 n2 :
  forallb (fun a => forallb (P a) (zrange lo2 n2)) (zrange lo1 n1) = true ->
  forall a b, lo1 <= a < lo1 + Z.of_nat n1 -> lo2 <= b < lo2 + Z.of_nat n2 -> P a b = true.
Proof.
  intros H a b Ha Hb. apply (sweep_range (fun a => forallb (P a) (zrange lo2 n2))) with (z := a) in H; [|exact Ha].
  now apply (sweep_range (P a)) with (z := b) in H.
Qed.

Definition res_eqb (r : res Z) (z : Z) : bool := match r with Ok x => x =? z | _ => false end.
Lemma res_eqb_eq r z : res_eqb r z = true -> r = Ok z.
Proof. destruct r; cbn; try discriminate. intros H. apply Z.eqb_eq in H. now subst. Qed.

Definition is_UB {A} (r : res A) : bool := match r with UB _ => true | _ => false end.

(** 64-bit words *)
Definition w64 (z : Z) : Prop := 0 <= z < 2 ^ 64.

(** * Calling a translated function *)
Definition call_int (f : string) (args : list Z) : res Z :=
  ret_int (interp leaf_prog f (map (fun z => Vint z) args) empty_mem).

(** * Bit-mask macros (misc.h:272 __M4RI_LEFT_BITMASK, :297 __M4RI_RIGHT_BITMASK, :315
      __M4RI_MIDDLE_BITMASK), translated through the stubs of tools/translate.py.

    Documented domains (misc.h):  LEFT: 0 <= n <= 64 with "0 = 64" (n is taken modulo 64);
    RIGHT: 0 < n <= 64 ("n == 0 is never passed and would fail");  MIDDLE: 0 < n <= 64 - offset,
    0 <= offset < 64. *)
Definition left_n (n : Z) : Z := if n =? 0 then 64 else n.

Lemma left_bitmask_sweep :
  forallb (fun n => res_eqb (call_int "stub_left_bitmask" [n]) (Z.ones (left_n n))) (zrange 0 65) = true.
Proof. vm_compute. reflexivity. Qed.

Lemma right_bitmask_sweep :
  forallb (fun n => res_eqb (call_int "stub_right_bitmask" [n]) (Z.shiftl (Z.ones n) (64 - n))) (zrange 1 64) = true.
Proof. vm_compute. reflexivity. Qed.

Lemma middle_bitmask_sweep :
  forallb (fun n => forallb (fun off =>
     res_eqb (call_int "stub_middle_bitmask" [n; off]) (Z.shiftl (Z.ones (left_n n)) off mod 2 ^ 64))
     (zrange 0 64)) (zrange 0 65) = true.
Proof. vm_compute. reflexivity. Qed.

(** bit i of the mask with bits [lo, lo+n) set *)
Lemma testbit_range_mask n lo i : 0 <= n -> 0 <= lo -> 0 <= i ->
  Z.testbit (Z.shiftl (Z.ones n) lo) i = (lo <=? i) && (i <? lo + n).
Proof.
  intros Hn Hlo Hi. rewrite Z.shiftl_spec by assumption.
  destruct (Z.leb_spec lo i) as [Hle|Hlt]; cbn [andb].
  - rewrite Z.testbit_ones_nonneg by lia. lia.
  - apply Z.testbit_neg_r. lia.
Qed.

Theorem left_bitmask_spec n : 0 <= n <= 64 ->
  exists r, call_int "stub_left_bitmask" [n] = Ok r /\ r = Z.ones (left_n n) /\
            forall i, 0 <= i -> Z.testbit r i = (i <? left_n n).
Proof.
  intros Hn. exists (Z.ones (left_n n)). split; [|split; [reflexivity|]].
  - apply res_eqb_eq. apply (sweep_range _ 0 65 left_bitmask_sweep). lia.
  - intros i Hi. rewrite Z.testbit_ones_nonneg by (unfold left_n; destruct (n =? 0); lia). lia.
Qed.

Theorem right_bitmask_spec n : 0 < n <= 64 ->
  exists r, call_int "stub_right_bitmask" [n] = Ok r /\ r = Z.shiftl (Z.ones n) (64 - n) /\
            forall i, 0 <= i -> Z.testbit r i = (64 - n <=? i) && (i <? 64).
Proof.
  intros Hn. exists (Z.shiftl (Z.ones n) (64 - n)). split; [|split; [reflexivity|]].
  - apply res_eqb_eq. apply (sweep_range _ 1 64 right_bitmask_sweep). lia.
  - intros i Hi. rewrite testbit_range_mask by lia. do 2 f_equal. lia.
Qed.

(** the argument the documentation excludes is indeed undefined behaviour (shift by 64) *)
Theorem right_bitmask_0_UB : is_UB (call_int "stub_right_bitmask" [0]) = true.
Proof. vm_compute. reflexivity. Qed.

(** every (n, offset) of the 65 x 64 grid: no UB, value = the LEFT mask shifted and truncated *)
Theorem middle_bitmask_grid n off : 0 <= n <= 64 -> 0 <= off < 64 ->
  call_int "stub_middle_bitmask" [n; off] = Ok (Z.shiftl (Z.ones (left_n n)) off mod 2 ^ 64).
Proof.
  intros Hn Ho. apply res_eqb_eq.
  apply (sweep_range2 (fun n off => res_eqb (call_int "stub_middle_bitmask" [n; off])
                                            (Z.shiftl (Z.ones (left_n n)) off mod 2 ^ 64))
                      0 65 0 64 middle_bitmask_sweep); lia.
Qed.

(** on the documented domain it selects exactly the bits [offset, offset + n) *)
Theorem middle_bitmask_spec n off : 0 <= off < 64 -> 0 < n <= 64 - off ->
  exists r, call_int "stub_middle_bitmask" [n; off] = Ok r /\ r = Z.shiftl (Z.ones n) off /\
            forall i, 0 <= i -> Z.testbit r i = (off <=? i) && (i <? off + n).
Proof.
  intros Ho Hn. exists (Z.shiftl (Z.ones n) off). split; [|split; [reflexivity|]].
  - rewrite middle_bitmask_grid by lia. f_equal. unfold left_n.
    destruct (Z.eqb_spec n 0); [lia|]. apply Z.mod_small. split.
    + apply Z.shiftl_nonneg. rewrite Z.ones_equiv. pose proof (Z.pow_pos_nonneg 2 n). lia.
    + rewrite Z.shiftl_mul_pow2, Z.ones_equiv by lia.
      replace (2 ^ 64) with (2 ^ n * 2 ^ (64 - n)) by (rewrite <- Z.pow_add_r by lia; f_equal; lia).
      pose proof (Z.pow_pos_nonneg 2 n). pose proof (Z.pow_pos_nonneg 2 off).
      assert (2 ^ off <= 2 ^ (64 - n)) by (apply Z.pow_le_mono_r; lia). nia.
  - intros i Hi. apply testbit_range_mask; lia.
Qed.

(** MIDDLE(n, offset) = LEFT(n + offset) & RIGHT(64 - offset), as misc.h states *)
Lemma middle_is_left_and_right_sweep :
  forallb (fun off => forallb (fun n =>
     match call_int "stub_middle_bitmask" [n; off], call_int "stub_left_bitmask" [n + off],
           call_int "stub_right_bitmask" [64 - off] with
     | Ok m, Ok l, Ok r => (n + off <=? 64) && (m =? Z.land l r) || (64 <? n + off)
     | _, _, _ => (64 <? n + off)
     end) (zrange 1 64)) (zrange 0 64) = true.
Proof. vm_compute. reflexivity. Qed.

Theorem middle_is_left_and_right n off : 0 <= off < 64 -> 0 < n <= 64 - off ->
  exists m l r, call_int "stub_middle_bitmask" [n; off] = Ok m /\
                call_int "stub_left_bitmask" [n + off] = Ok l /\
                call_int "stub_right_bitmask" [64 - off] = Ok r /\ m = Z.land l r.
Proof.
  intros Ho Hn.
  pose proof (sweep_range2 _ 0 64 1 64 middle_is_left_and_right_sweep off n ltac:(lia) ltac:(lia)) as H.
  cbv beta in H.
  destruct (call_int "stub_middle_bitmask" [n; off]) as [m| | | |];
    destruct (call_int "stub_left_bitmask" [n + off]) as [l| | | |];
    destruct (call_int "stub_right_bitmask" [64 - off]) as [r| | | |]; try lia.
  exists m, l, r. repeat split; try reflexivity. lia.
Qed.

(** __M4RI_TWOPOW (as used by m4ri_build_code, cast to int) and __M4RI_GET_BIT *)
Lemma twopow_sweep :
  forallb (fun i => res_eqb (call_int "stub_twopow_int" [i]) (2 ^ i)) (zrange 0 31) = true.
Proof. vm_compute. reflexivity. Qed.

Theorem twopow_spec i : 0 <= i <= 30 -> call_int "stub_twopow_int" [i] = Ok (2 ^ i).
Proof. intros H. apply res_eqb_eq. apply (sweep_range _ 0 31 twopow_sweep). lia. Qed.

(** * Symbolic runs: equality test of symbolic values *)
Definition form_eqb (a b : form) : bool := Bool.eqb (fc a) (fc b) && (fv a =? fv b)%N.
Lemma form_eqb_eq a b : form_eqb a b = true -> a = b.
Proof.
  destruct a as [c s], b as [c' s']. unfold form_eqb; cbn [fc fv]. intros H.
  apply andb_prop in H as [H1 H2]. apply eqb_prop in H1. apply N.eqb_eq in H2. now subst.
Qed.

Fixpoint forms_eqb (l l' : list form) : bool :=
  match l, l' with
  | [], [] => true
  | a :: r, b :: r' => form_eqb a b && forms_eqb r r'
  | _, _ => false
  end.
Lemma forms_eqb_eq l l' : forms_eqb l l' = true -> l = l'.
Proof.
  revert l'; induction l as [|a r IH]; intros [|b r']; cbn; try discriminate; [reflexivity|].
  intros H. apply andb_prop in H as [H1 H2]. apply form_eqb_eq in H1. apply IH in H2. now subst.
Qed.

(** "the symbolic run returned the data word with bit forms [l]" *)
Definition sym_ret_is (r : res (option (@val sval) * @mem sval)) (l : list form) : bool :=
  match r with
  | Ok (Some (Vint (SS l')), _) => forms_eqb l' l
  | _ => false
  end.
Lemma sym_ret_is_true r l : sym_ret_is r l = true -> exists m, r = Ok (Some (Vint (SS l)), m).
Proof.
  destruct r as [[[[|[z|l']|] |] m]| | | |]; cbn; try discriminate.
  intros H. apply forms_eqb_eq in H. subst. now exists m.
Qed.

Lemma bitsZ_bound bs : bitsZ bs < 2 ^ Z.of_nat (List.length bs).
Proof.
  induction bs as [|b r IH]; cbn [bitsZ List.length]; [reflexivity|].
  rewrite Nat2Z.inj_succ, Z.pow_succ_r by lia. destruct b; cbn [Z.b2z]; lia.
Qed.

Lemma hmem_empty {A B} (h : A -> B) : hmem h (@empty_mem A) = @empty_mem B.
Proof. reflexivity. Qed.

(** * m4ri_swap_bits (misc.h:323) reverses the 64 bits of a word — every word.
    One symbolic run on the word of the 64 input bits; [sym_sound] lifts it to all inputs. *)
Definition swap_expected : list form := map (fun i => fvar (N.of_nat (63 - i))) (seq 0 64).

Lemma swap_bits_sym :
  sym_ret_is (run sops leaf_prog LFUEL DEPTH "m4ri_swap_bits" [Vint (symword 0 64)] empty_mem)
             swap_expected = true.
Proof. vm_compute. reflexivity. Qed.

Theorem swap_bits_spec v : w64 v ->
  exists r, call_int "m4ri_swap_bits" [v] = Ok r /\ w64 r /\
            forall i, 0 <= i < 64 -> Z.testbit r i = Z.testbit v (63 - i).
Proof.
  intros Hv. destruct (sym_ret_is_true _ _ swap_bits_sym) as [m Hrun].
  set (rho := fun k : nat => Z.testbit v (Z.of_nat k)).
  apply (sym_sound 64 rho) in Hrun. cbn [map hval] in Hrun. rewrite hmem_empty in Hrun.
  rewrite (den_symword 64 rho 0 64 v) in Hrun; [|lia|exact Hv|intros j Hj; reflexivity].
  exists (den 64 rho (SS swap_expected)). split; [|split].
  - unfold call_int, interp. cbn [map]. rewrite Hrun. reflexivity.
  - cbn [den]. split; [apply bitsZ_nonneg|].
    pose proof (bitsZ_bound (map (evalf 64 rho) swap_expected)) as Hb.
    rewrite map_length in Hb. exact Hb.
  - intros i Hi. replace i with (Z.of_nat (Z.to_nat i)) at 1 by lia.
    rewrite testbit_den. cbn [bitf]. unfold swap_expected.
    rewrite (nth_indep _ fzero ((fun i => fvar (N.of_nat (63 - i))) 0%nat)) by (rewrite map_length, seq_length; lia).
    rewrite (map_nth (fun i => fvar (N.of_nat (63 - i)))). rewrite seq_nth by lia. cbn [Nat.add].
    rewrite evalf_fvar by lia. unfold rho. f_equal. lia.
Qed.

(** * m4ri_parity64 (parity.h:113): bit i of the result is the parity of buf[i] — for every
    content of the 64 words.  One symbolic run over 64 x 64 = 4096 input bits. *)
Definition parity_of (w : Z) : bool := xsum 64 (fun j => Z.testbit w (Z.of_nat j)).

Definition parity_sym_buf : list sval := map (fun i => symword (64 * i) 64) (seq 0 64).
Definition parity_expected : list form :=
  map (fun i => F false (N.shiftl (N.ones 64) (N.of_nat (64 * i)))) (seq 0 64).

Lemma parity64_sym :
  sym_ret_is (let mb := alloc_list (@empty_mem sval) parity_sym_buf in
              run sops leaf_prog LFUEL DEPTH "m4ri_parity64" [Vptr (snd mb) 0] (fst mb))
             parity_expected = true.
Proof. vm_compute. reflexivity. Qed.

Definition run_parity64 (buf : list Z) : res Z :=
  let mb := alloc_list (@empty_mem Z) buf in
  ret_int (interp leaf_prog "m4ri_parity64" [Vptr (snd mb) 0] (fst mb)).

Theorem parity64_spec buf : List.length buf = 64%nat -> Forall w64 buf ->
  exists r, run_parity64 buf = Ok r /\ w64 r /\
            forall i, (i < 64)%nat -> Z.testbit r (Z.of_nat i) = parity_of (nth i buf 0).
Proof.
  intros Hlen Hw. destruct (sym_ret_is_true _ _ parity64_sym) as [m Hrun]. cbv zeta in Hrun.
  set (rho := fun k : nat => Z.testbit (nth (k / 64) buf 0) (Z.of_nat (k mod 64))).
  apply (sym_sound 4096 rho) in Hrun. cbn [map hval] in Hrun.
  destruct (hmem_alloc_list (den 4096 rho) empty_mem parity_sym_buf) as [Hm Hb].
  rewrite Hm, Hb, hmem_empty in Hrun. clear Hm Hb.
  assert (Hbuf : map (den 4096 rho) parity_sym_buf = buf).
  { apply (nth_ext _ _ 0 0).
    - unfold parity_sym_buf. now rewrite !map_length, seq_length.
    - intros i Hi. unfold parity_sym_buf in *. rewrite !map_length, seq_length in Hi.
      rewrite (nth_indep _ 0 (den 4096 rho (symword 0 64))) by (rewrite !map_length, seq_length; lia).
      rewrite (map_nth (den 4096 rho)).
      rewrite (nth_indep _ _ ((fun i => symword (64 * i) 64) 0%nat)) by (rewrite map_length, seq_length; lia).
      rewrite (map_nth (fun i => symword (64 * i) 64)). rewrite seq_nth by lia. cbn [Nat.add].
      apply den_symword; [lia| |].
      + rewrite Forall_forall in Hw. apply Hw, nth_In. lia.
      + intros j Hj. unfold rho. f_equal; [f_equal|]; [|f_equal].
        * rewrite Nat.mul_comm, Nat.div_add_l by lia. rewrite Nat.div_small by lia. lia.
        * rewrite Nat.add_comm, Nat.mul_comm, Nat.mod_add by lia. apply Nat.mod_small. lia. }
  rewrite Hbuf in Hrun.
  exists (den 4096 rho (SS parity_expected)). split; [|split].
  - unfold run_parity64, interp. cbv zeta. rewrite Hrun. reflexivity.
  - cbn [den]. split; [apply bitsZ_nonneg|].
    pose proof (bitsZ_bound (map (evalf 4096 rho) parity_expected)) as Hb.
    rewrite map_length in Hb. exact Hb.
  - intros i Hi. rewrite testbit_den. cbn [bitf]. unfold parity_expected.
    rewrite (nth_indep _ fzero ((fun i => F false (N.shiftl (N.ones 64) (N.of_nat (64 * i)))) 0%nat))
      by (rewrite map_length, seq_length; lia).
    rewrite (map_nth (fun i => F false (N.shiftl (N.ones 64) (N.of_nat (64 * i))))).
    rewrite seq_nth by lia. cbn [Nat.add].
    rewrite (evalf_range 4096 rho _ (64 * i) 64); [|reflexivity|reflexivity|lia].
    unfold parity_of. apply xsum_ext. intros j Hj. unfold rho. f_equal; [f_equal|]; [|f_equal].
    + rewrite Nat.mul_comm, Nat.div_add_l by lia. rewrite Nat.div_small by lia. lia.
    + rewrite Nat.add_comm, Nat.mul_comm, Nat.mod_add by lia. apply Nat.mod_small. lia.
Qed.
