/* c/thread_harness.c — C15: concurrent use of the thread-safe build on thread-private matrices.
 *
 * usage: thread_harness <seed> <nthreads> <nops> <maxdim> [list]
 *
 * Thread t runs the script determined by (seed, t): nops calls drawn from
 *   mul / addmul / mul_m4rm / mul_naive, echelonize (m4ri, pluq, naive, auto), ple, pluq,
 *   solve_left, kernel_left, trsm (upper/lower left), inv_m4ri, transpose, add / copy / concat /
 *   stack / submatrix, and init/window/free churn
 * on operands it creates itself from its OWN generator (the library's mzd_randomize uses libc's
 * random(), which is shared state and would make results schedule dependent by itself).
 * Every call yields a 64-bit digest of everything it returns or changes.
 *
 *   pass 1 (reference): the nthreads scripts are run one after the other on the main thread;
 *   pass 2 (concurrent): nthreads pthreads are released by a barrier and run their scripts at once.
 *
 * Output:  "ops <n>"  then one line "MISMATCH thread <t> op <k> <name> ref <h> got <h>" per call whose
 * digest differs between the passes, then "digest <h>" (over all reference digests; equal across
 * builds of the same tree) and "RESULT OK|MISMATCH".  With `list` the scripts are printed instead
 * ("thread t op k name dims").  Built with -fsanitize=thread the runtime reports races on stderr
 * (exit code 66).  No OpenMP anywhere (libgomp is not instrumented).
 */
#define _GNU_SOURCE
#include <m4ri/m4ri.h>
#include <pthread.h>
#include <stdint.h>
#include <stdio.h>
#include <stdlib.h>
#include <string.h>

#define MAXT 64
#define MAXOPS 4096

typedef struct {
  uint64_t s;
} rng_t;

static uint64_t rnd(rng_t *r) { /* splitmix64 */
  uint64_t z = (r->s += 0x9E3779B97F4A7C15ULL);
  z          = (z ^ (z >> 30)) * 0xBF58476D1CE4E5B9ULL;
  z          = (z ^ (z >> 27)) * 0x94D049BB133111EBULL;
  return z ^ (z >> 31);
}
static int rint_(rng_t *r, int lo, int hi) { return lo + (int)(rnd(r) % (uint64_t)(hi - lo + 1)); }

static int dim(rng_t *r, int maxdim) {
  switch (rnd(r) % 6) {
  case 0: return rint_(r, 1, 8);
  case 1: return 64 * rint_(r, 1, (maxdim + 63) / 64);
  case 2: return 64 * rint_(r, 1, (maxdim + 63) / 64) + (rnd(r) & 1 ? 1 : -1);
  default: return rint_(r, 1, maxdim);
  }
}

static void fill(rng_t *r, mzd_t *A, int density) {
  for (rci_t i = 0; i < A->nrows; i++) {
    word *row = mzd_row(A, i);
    for (wi_t j = 0; j < A->width; j++) {
      word w = rnd(r);
      if (density == 1) w &= rnd(r) & rnd(r); /* sparse */
      row[j] = w;
    }
    if (A->width > 0) row[A->width - 1] &= A->high_bitmask;
  }
}

static mzd_t *fresh(rng_t *r, int nr, int nc) {
  mzd_t *A = mzd_init(nr, nc);
  fill(r, A, (int)(rnd(r) % 3));
  return A;
}

/* low rank: product of two thin random matrices */
static mzd_t *fresh_rank(rng_t *r, int nr, int nc) {
  if (rnd(r) % 3) return fresh(r, nr, nc);
  int k    = rint_(r, 1, nr < nc ? nr : nc);
  mzd_t *X = fresh(r, nr, k), *Y = fresh(r, k, nc);
  mzd_t *A = mzd_mul_naive(NULL, X, Y);
  mzd_free(X);
  mzd_free(Y);
  return A;
}

#define FNV(h, v) ((h) = ((h) ^ (uint64_t)(v)) * 0x100000001B3ULL)
static uint64_t hmat(uint64_t h, mzd_t const *A) {
  if (!A) {
    FNV(h, 0xdead);
    return h;
  }
  FNV(h, A->nrows);
  FNV(h, A->ncols);
  for (rci_t i = 0; i < A->nrows; i++) {
    word const *row = mzd_row_const(A, i);
    for (wi_t j = 0; j < A->width; j++) {
      word w = row[j];
      if (j == A->width - 1) w &= A->high_bitmask;
      FNV(h, w);
      FNV(h, w >> 32);
    }
  }
  return h;
}
static uint64_t hperm(uint64_t h, mzp_t const *P) {
  FNV(h, P->length);
  for (rci_t i = 0; i < P->length; i++) FNV(h, P->values[i]);
  return h;
}

static const int cutoffs[] = {0, 0, 64, 128, 256};
#define CUTOFF(r) cutoffs[rnd(r) % 5]

typedef struct {
  char name[24];
  int d[3];
  uint64_t h;
} rec_t;

static void one_op(rng_t *r, int maxdim, rec_t *out) {
  uint64_t h = 0xCBF29CE484222325ULL;
  int op     = (int)(rnd(r) % 20);
  int m = dim(r, maxdim), l = dim(r, maxdim), n = dim(r, maxdim);
  const char *name = "?";
  out->d[0] = m, out->d[1] = l, out->d[2] = n;
  switch (op) {
  case 0:
  case 1: {
    name     = "mul";
    mzd_t *A = fresh(r, m, l), *B = fresh(r, l, n);
    mzd_t *C = mzd_mul(NULL, A, B, CUTOFF(r));
    h        = hmat(hmat(hmat(h, C), A), B);
    mzd_free(A), mzd_free(B), mzd_free(C);
  } break;
  case 2: {
    name     = "addmul";
    mzd_t *A = fresh(r, m, l), *B = fresh(r, l, n), *C = fresh(r, m, n);
    mzd_addmul(C, A, B, CUTOFF(r));
    h = hmat(h, C);
    mzd_free(A), mzd_free(B), mzd_free(C);
  } break;
  case 3: {
    name     = "mul_m4rm";
    mzd_t *A = fresh(r, m, l), *B = fresh(r, l, n);
    mzd_t *C = mzd_mul_m4rm(NULL, A, B, rint_(r, 0, 8));
    h        = hmat(h, C);
    mzd_free(A), mzd_free(B), mzd_free(C);
  } break;
  case 4: {
    name     = "mul_naive";
    mzd_t *A = fresh(r, m, l), *B = fresh(r, l, n);
    mzd_t *C = mzd_mul_naive(NULL, A, B);
    h        = hmat(h, C);
    mzd_free(A), mzd_free(B), mzd_free(C);
  } break;
  case 5: {
    name     = "echelonize_m4ri";
    mzd_t *A = fresh_rank(r, m, n);
    rci_t rk = mzd_echelonize_m4ri(A, (int)(rnd(r) & 1), rint_(r, 0, 8));
    FNV(h, rk);
    h = hmat(h, A);
    mzd_free(A);
  } break;
  case 6: {
    name     = "echelonize_pluq";
    mzd_t *A = fresh_rank(r, m, n);
    rci_t rk = mzd_echelonize_pluq(A, (int)(rnd(r) & 1));
    FNV(h, rk);
    h = hmat(h, A);
    mzd_free(A);
  } break;
  case 7: {
    name     = "echelonize";
    mzd_t *A = fresh_rank(r, m, n);
    rci_t rk = (rnd(r) & 1) ? mzd_echelonize(A, (int)(rnd(r) & 1)) : mzd_echelonize_naive(A, (int)(rnd(r) & 1));
    FNV(h, rk);
    h = hmat(h, A);
    mzd_free(A);
  } break;
  case 8:
  case 9: {
    name     = op == 8 ? "ple" : "pluq";
    mzd_t *A = fresh_rank(r, m, n);
    mzp_t *P = mzp_init(m), *Q = mzp_init(n);
    rci_t rk = op == 8 ? mzd_ple(A, P, Q, CUTOFF(r)) : mzd_pluq(A, P, Q, CUTOFF(r));
    FNV(h, rk);
    h = hperm(hperm(hmat(h, A), P), Q);
    mzp_free(P), mzp_free(Q), mzd_free(A);
  } break;
  case 10: {
    name     = "solve_left"; /* square systems only: the rectangular cases have known findings of their own */
    mzd_t *A = fresh_rank(r, m, m), *B;
    if (rnd(r) % 4) { /* mostly consistent systems: B = A * X */
      mzd_t *X = fresh(r, m, n);
      B        = mzd_mul_naive(NULL, A, X);
      mzd_free(X);
    } else
      B = fresh(r, m, n);
    int ret = mzd_solve_left(A, B, CUTOFF(r), 1);
    FNV(h, ret);
    if (ret == 0) h = hmat(h, B);
    mzd_free(A), mzd_free(B);
    out->d[1] = m;
  } break;
  case 11: {
    name     = "kernel_left";
    mzd_t *A = fresh_rank(r, m, n);
    mzd_t *K = mzd_kernel_left_pluq(A, CUTOFF(r));
    h        = hmat(h, K);
    if (K) mzd_free(K);
    mzd_free(A);
  } break;
  case 12:
  case 13: {
    name     = op == 12 ? "trsm_upper_left" : "trsm_lower_left";
    mzd_t *T = fresh(r, m, m), *B = fresh(r, m, n);
    for (rci_t i = 0; i < m; i++) mzd_write_bit(T, i, i, 1);
    if (op == 12) mzd_trsm_upper_left(T, B, CUTOFF(r));
    else mzd_trsm_lower_left(T, B, CUTOFF(r));
    h = hmat(hmat(h, B), T);
    mzd_free(T), mzd_free(B);
    out->d[1] = m;
  } break;
  case 14: {
    name     = "inv_m4ri"; /* unit upper triangular times unit lower triangular: invertible */
    mzd_t *U = fresh(r, m, m), *L = fresh(r, m, m);
    for (rci_t i = 0; i < m; i++)
      for (rci_t j = 0; j < m; j++) {
        if (i == j) mzd_write_bit(U, i, j, 1), mzd_write_bit(L, i, j, 1);
        else if (i > j) mzd_write_bit(U, i, j, 0);
        else mzd_write_bit(L, i, j, 0);
      }
    mzd_t *A = mzd_mul_naive(NULL, U, L);
    mzd_t *I = mzd_inv_m4ri(NULL, A, rint_(r, 0, 8));
    h        = hmat(h, I);
    if (I) mzd_free(I);
    mzd_free(A), mzd_free(U), mzd_free(L);
    out->d[1] = out->d[2] = m;
  } break;
  case 15:
  case 16: {
    name     = "transpose";
    mzd_t *A = fresh(r, m, n);
    mzd_t *T = mzd_transpose(NULL, A);
    h        = hmat(hmat(h, T), A);
    mzd_free(A), mzd_free(T);
  } break;
  case 17: {
    name     = "add_copy_concat_stack";
    mzd_t *A = fresh(r, m, n), *B = fresh(r, m, n);
    mzd_t *S = mzd_add(NULL, A, B);
    mzd_t *C = mzd_copy(NULL, S);
    mzd_t *H = mzd_concat(NULL, A, C);
    mzd_t *V = mzd_stack(NULL, B, C);
    int r0 = rint_(r, 0, m - 1), c0 = rint_(r, 0, n - 1);
    mzd_t *X = mzd_submatrix(NULL, H, r0, c0, rint_(r, r0 + 1, m), rint_(r, c0 + 1, 2 * n));
    h        = hmat(hmat(hmat(hmat(hmat(h, S), C), H), V), X);
    FNV(h, mzd_equal(S, C));
    mzd_free(A), mzd_free(B), mzd_free(S), mzd_free(C), mzd_free(H), mzd_free(V), mzd_free(X);
  } break;
  default: { /* allocation churn: fresh matrices must be zero, windows alias, frees in shuffled order */
    name = "alloc_churn";
    enum { K = 12 };
    mzd_t *M[K], *W[K];
    int cnt = rint_(r, 2, K);
    for (int i = 0; i < cnt; i++) {
      int a = dim(r, maxdim), b = dim(r, maxdim);
      M[i] = mzd_init(a, b);
      FNV(h, mzd_is_zero(M[i]));
      fill(r, M[i], 0);
      int c0 = 64 * rint_(r, 0, (b - 1) / 64), r0 = rint_(r, 0, a - 1);
      W[i]   = mzd_init_window(M[i], r0, c0, rint_(r, r0 + 1, a), rint_(r, c0 + 1, b));
      h      = hmat(h, W[i]);
    }
    for (int i = cnt - 1; i > 0; i--) { /* shuffle */
      int j    = rint_(r, 0, i);
      mzd_t *t = M[i];
      M[i] = M[j], M[j] = t;
      t = W[i], W[i] = W[j], W[j] = t;
    }
    for (int i = 0; i < cnt; i++) {
      h = hmat(h, M[i]);
      mzd_free_window(W[i]);
      mzd_free(M[i]);
      if (rnd(r) & 1) { /* re-allocate in between */
        mzd_t *Z = mzd_init(rint_(r, 1, 70), rint_(r, 1, 200));
        FNV(h, mzd_is_zero(Z));
        mzd_free(Z);
      }
    }
  } break;
  }
  strncpy(out->name, name, sizeof(out->name) - 1);
  out->name[sizeof(out->name) - 1] = 0;
  out->h                           = h;
}

static uint64_t g_seed;
static int g_nops, g_maxdim;
static rec_t *ref_[MAXT], *got_[MAXT];
static pthread_barrier_t bar;

static void run_script(int t, rec_t *out) {
  rng_t r = {g_seed * 0x9E3779B97F4A7C15ULL + (uint64_t)(t + 1) * 0xD1B54A32D192ED03ULL};
  for (int k = 0; k < g_nops; k++) one_op(&r, g_maxdim, &out[k]);
}

static void *worker(void *arg) {
  int t = (int)(intptr_t)arg;
  pthread_barrier_wait(&bar);
  run_script(t, got_[t]);
  return NULL;
}

int main(int argc, char **argv) {
  if (argc < 5) {
    fprintf(stderr, "usage: %s seed nthreads nops maxdim [list]\n", argv[0]);
    return 2;
  }
  g_seed   = strtoull(argv[1], NULL, 10);
  int nthr = atoi(argv[2]);
  g_nops   = atoi(argv[3]);
  g_maxdim = atoi(argv[4]);
  int list = argc > 5 && !strcmp(argv[5], "list");
  if (nthr < 1 || nthr > MAXT || g_nops < 1 || g_nops > MAXOPS || g_maxdim < 2) return 2;
  for (int t = 0; t < nthr; t++) {
    ref_[t] = (rec_t *)calloc(g_nops, sizeof(rec_t));
    got_[t] = (rec_t *)calloc(g_nops, sizeof(rec_t));
  }
  /* pass 1: sequential reference */
  for (int t = 0; t < nthr; t++) run_script(t, ref_[t]);
  if (list) {
    for (int t = 0; t < nthr; t++)
      for (int k = 0; k < g_nops; k++)
        printf("thread %d op %d %s %d %d %d %016llx\n", t, k, ref_[t][k].name, ref_[t][k].d[0], ref_[t][k].d[1],
               ref_[t][k].d[2], (unsigned long long)ref_[t][k].h);
    return 0;
  }
  /* pass 2: concurrent */
  pthread_t th[MAXT];
  pthread_barrier_init(&bar, NULL, nthr);
  for (int t = 0; t < nthr; t++) pthread_create(&th[t], NULL, worker, (void *)(intptr_t)t);
  for (int t = 0; t < nthr; t++) pthread_join(th[t], NULL);
  int bad      = 0;
  uint64_t dig = 0xCBF29CE484222325ULL;
  printf("ops %d\n", nthr * g_nops);
  for (int t = 0; t < nthr; t++)
    for (int k = 0; k < g_nops; k++) {
      FNV(dig, ref_[t][k].h);
      if (ref_[t][k].h != got_[t][k].h || strcmp(ref_[t][k].name, got_[t][k].name)) {
        bad++;
        printf("MISMATCH thread %d op %d %s (%d %d %d) ref %016llx got %016llx\n", t, k, ref_[t][k].name, ref_[t][k].d[0],
               ref_[t][k].d[1], ref_[t][k].d[2], (unsigned long long)ref_[t][k].h, (unsigned long long)got_[t][k].h);
      }
    }
  printf("digest %016llx\n", (unsigned long long)dig);
  printf("RESULT %s\n", bad ? "MISMATCH" : "OK");
  fflush(stdout);
  return bad ? 1 : 0;
}
