/* alloc_harness.c -- C14: run allocation histories on the real library and print the trace of
 * the underlying system allocation calls in the canonical form that ocaml/alloc_driver.ml prints
 * for the Coq model (Sys/Alloc.v).
 *
 * Linked with -Wl,--wrap=posix_memalign,--wrap=malloc,--wrap=calloc,--wrap=realloc,--wrap=free so
 * that every allocation made by libm4ri.a (and only those: the harness uses __real_*) is seen.
 *
 * stdin:   H <name> / I r c / W h r0 c0 r1 c1 / F h / X h v / Z / E       (one op per line)
 *          ops before the first H form a preamble that is run once; each history (H .. E) then
 *          runs in a forked child and so starts from the state the preamble left.
 * stdout:  per history, between "H <name>" and "E":
 *   A <id> <size>      system allocation (ids: 0,1,2,.. in order of allocation in this history)
 *   D <id>             system free
 *   I h rows cols rowstride <data> <hdr> <zero>     data: id | -      hdr: S<blk|s>:<idx> | M<id>
 *   W h rows cols rowstride <data> <hdr>            data: id+wordoffset | -
 *   F h / X h / Z live=<n> base=<m>
 * and, never on a correct library, lines starting with '!':
 *   !BADFREE  free of a pointer that is not a live allocation (double free / foreign pointer)
 *   !NONZERO  fresh matrix not all zero        !OVERLAP  storage shared with a live object
 *   !CANARY   content of a live matrix changed !HDR      header of a live matrix changed
 *   !CRASH    the child running the history died on a signal
 * Every history runs in a forked child, so each starts from the state right after m4ri_init().
 */
#define _GNU_SOURCE
#include <m4ri/m4ri.h>
#include <m4ri/mmc.h>
#include <stdint.h>
#include <stdio.h>
#include <stdlib.h>
#include <string.h>
#include <sys/types.h>
#include <sys/wait.h>
#include <unistd.h>

extern int __real_posix_memalign(void **, size_t, size_t);
extern void *__real_malloc(size_t);
extern void *__real_calloc(size_t, size_t);
extern void *__real_realloc(void *, size_t);
extern void __real_free(void *);

/* ------------------------------------------------------------------ allocation table */
typedef struct {
  char *p;
  size_t size;
  long id; /* -1: baseline (allocated before main: code books) */
} arec_t;

static arec_t *g_tab = NULL;
static size_t g_n = 0, g_cap = 0;
static int g_phase = 0; /* 0: before main (baseline), 1: tracing */
static long g_next_id = 0;
static int g_poison = 1;
static long g_bad = 0;

static void tab_add(void *p, size_t size) {
  if (g_n == g_cap) {
    g_cap = g_cap ? 2 * g_cap : 256;
    g_tab = (arec_t *)__real_realloc(g_tab, g_cap * sizeof(arec_t));
    if (!g_tab) abort();
  }
  g_tab[g_n].p = (char *)p;
  g_tab[g_n].size = size;
  g_tab[g_n].id = g_phase ? g_next_id++ : -1;
  if (g_phase) printf("A %ld %zu\n", g_tab[g_n].id, size);
  g_n++;
}

static long tab_find_exact(void *p) {
  for (size_t i = g_n; i-- > 0;)
    if (g_tab[i].p == (char *)p) return (long)i;
  return -1;
}

static long tab_find_containing(void *p) {
  for (size_t i = g_n; i-- > 0;)
    if ((char *)p >= g_tab[i].p && (char *)p < g_tab[i].p + (g_tab[i].size ? g_tab[i].size : 1)) return (long)i;
  return -1;
}

static void note_alloc(void *p, size_t size) {
  if (!p) return;
  if (g_poison && size) memset(p, 0xA5, size);
  tab_add(p, size);
}

/* returns 1 if the pointer may really be freed */
static int note_free(void *p) {
  if (!p) return 1;
  long i = tab_find_exact(p);
  if (i < 0) {
    if (g_phase) {
      printf("!BADFREE %p\n", p);
      g_bad++;
      return 0; /* do not hand a bogus pointer to libc */
    }
    return 1;
  }
  if (g_tab[i].id >= 0) printf("D %ld\n", g_tab[i].id);
  if (g_poison && g_tab[i].size) memset(g_tab[i].p, 0xDD, g_tab[i].size);
  g_tab[i] = g_tab[g_n - 1];
  g_n--;
  return 1;
}

int __wrap_posix_memalign(void **out, size_t al, size_t size) {
  int r = __real_posix_memalign(out, al, size);
  if (r == 0) note_alloc(*out, size);
  return r;
}
void *__wrap_malloc(size_t size) {
  void *p = __real_malloc(size);
  note_alloc(p, size);
  return p;
}
void *__wrap_calloc(size_t n, size_t size) {
  void *p = __real_calloc(n, size);
  if (p) {
    int keep = g_poison;
    g_poison = 0;
    note_alloc(p, n * size);
    g_poison = keep;
  }
  return p;
}
void *__wrap_realloc(void *old, size_t size) {
  /* not used by the routines exercised here; model it as free + alloc */
  if (old && !note_free(old)) return NULL;
  int keep = g_poison;
  g_poison = 0;
  void *p = __real_realloc(old, size);
  note_alloc(p, size);
  g_poison = keep;
  return p;
}
void __wrap_free(void *p) {
  if (note_free(p)) __real_free(p);
}

/* ------------------------------------------------------------------ handles */
typedef struct {
  mzd_t *M;
  mzd_t copy;       /* header as returned */
  int live, win;
  long root;        /* handle owning the storage */
  long data_id;     /* canonical id of the root's data block (-1: NULL) */
  size_t off;       /* word offset of data inside the root's block */
  word *shadow;     /* roots only: expected content of the whole block */
  size_t words;     /* roots only: block size in words */
} hrec_t;

static hrec_t *g_h = NULL;
static size_t g_nh = 0, g_caph = 0;
static uintptr_t g_static_base = 0;

static hrec_t *new_handle(void) {
  if (g_nh == g_caph) {
    g_caph = g_caph ? 2 * g_caph : 256;
    g_h = (hrec_t *)__real_realloc(g_h, g_caph * sizeof(hrec_t));
    if (!g_h) abort();
  }
  memset(&g_h[g_nh], 0, sizeof(hrec_t));
  return &g_h[g_nh++];
}

static void print_hdr(mzd_t *M) {
  long i = tab_find_exact(M);
  if (i >= 0 && g_tab[i].size == sizeof(mzd_t)) {
    printf("M%ld", g_tab[i].id);
    return;
  }
  i = tab_find_containing(M);
  if (i >= 0) {
    printf("S%ld:%zu", g_tab[i].id, (size_t)((char *)M - g_tab[i].p) / sizeof(mzd_t));
    return;
  }
  uintptr_t a = (uintptr_t)M;
  if (g_static_base && a >= g_static_base && a < g_static_base + 64 * sizeof(mzd_t)) {
    printf("Ss:%zu", (size_t)(a - g_static_base) / sizeof(mzd_t));
    return;
  }
  if (!g_static_base) {
    /* address of the static block unknown: report it modulo the block size */
    printf("Ss:?");
    return;
  }
  printf("U%p", (void *)M);
}

static int ranges_overlap(char *a, size_t an, char *b, size_t bn) { return a < b + bn && b < a + an; }

/* storage of handle k that it owns: header always, data if root */
static void check_overlap(long k) {
  hrec_t *x = &g_h[k];
  char *xd = (!x->win && x->M->data) ? (char *)x->M->data : NULL;
  size_t xn = x->words * sizeof(word);
  for (long o = 0; o < (long)g_nh; ++o) {
    if (o == k || !g_h[o].live) continue;
    hrec_t *y = &g_h[o];
    char *yd = (!y->win && y->copy.data) ? (char *)y->copy.data : NULL;
    size_t yn = y->words * sizeof(word);
    int bad = ranges_overlap((char *)x->M, sizeof(mzd_t), (char *)y->M, sizeof(mzd_t));
    if (xd && yd) bad |= ranges_overlap(xd, xn, yd, yn);
    if (xd) bad |= ranges_overlap(xd, xn, (char *)y->M, sizeof(mzd_t));
    if (yd) bad |= ranges_overlap((char *)x->M, sizeof(mzd_t), yd, yn);
    if (bad) {
      printf("!OVERLAP %ld %ld\n", k, o);
      g_bad++;
    }
  }
}

static void check_all(void) {
  for (long k = 0; k < (long)g_nh; ++k) {
    hrec_t *x = &g_h[k];
    if (!x->live) continue;
    mzd_t *M = x->M;
    if (M->nrows != x->copy.nrows || M->ncols != x->copy.ncols || M->rowstride != x->copy.rowstride ||
        M->width != x->copy.width || M->data != x->copy.data || M->flags != x->copy.flags ||
        M->high_bitmask != x->copy.high_bitmask) {
      printf("!HDR %ld\n", k);
      g_bad++;
      continue;
    }
    if (!x->win && x->words && memcmp(M->data, x->shadow, x->words * sizeof(word)) != 0) {
      printf("!CANARY %ld\n", k);
      g_bad++;
      memcpy(x->shadow, M->data, x->words * sizeof(word)); /* report once */
    }
  }
}

static word pattern(unsigned long v, size_t i, size_t j) {
  word x = (word)v * 0x9E3779B97F4A7C15ULL + (word)i * 0xC2B2AE3D27D4EB4FULL + (word)j * 0x165667B19E3779F9ULL;
  x ^= x >> 29;
  return x | 1; /* never zero */
}

static void do_init(long r, long c) {
  hrec_t *x = new_handle();
  long k = (long)g_nh - 1;
  mzd_t *M = mzd_init((rci_t)r, (rci_t)c);
  x->M = M;
  x->copy = *M;
  x->live = 1;
  x->win = 0;
  x->root = k;
  x->off = 0;
  x->words = (M->data) ? (size_t)M->nrows * (size_t)M->rowstride : 0;
  int zero = 1;
  for (size_t i = 0; i < x->words; ++i)
    if (M->data[i]) zero = 0;
  long bi = M->data ? tab_find_exact(M->data) : -1;
  x->data_id = bi >= 0 ? g_tab[bi].id : -1;
  printf("I %ld %d %d %d ", k, M->nrows, M->ncols, M->rowstride);
  if (!M->data)
    printf("-");
  else if (bi >= 0)
    printf("%ld", x->data_id);
  else {
    long ci = tab_find_containing(M->data);
    if (ci >= 0)
      printf("%ld+%zu", g_tab[ci].id, (size_t)((char *)M->data - g_tab[ci].p) / sizeof(word));
    else
      printf("U%p", (void *)M->data);
  }
  printf(" ");
  print_hdr(M);
  printf(" %d\n", zero);
  if (!zero) {
    printf("!NONZERO %ld\n", k);
    g_bad++;
  }
  if (M->data && bi >= 0 && g_tab[bi].size < x->words * sizeof(word)) {
    printf("!OVERLAP %ld block-too-small\n", k);
    g_bad++;
  }
  if (mzd_is_windowed(M)) {
    printf("!HDR %ld fresh-matrix-flagged-as-window\n", k);
    g_bad++;
  }
  check_overlap(k);
  if (x->words) {
    x->shadow = (word *)__real_malloc(x->words * sizeof(word));
    if (!x->shadow) abort();
    memcpy(x->shadow, M->data, x->words * sizeof(word));
  }
}

static void do_window(long h, long r0, long c0, long r1, long c1) {
  if (h < 0 || h >= (long)g_nh || !g_h[h].live) {
    printf("?bad-script W %ld\n", h);
    return;
  }
  hrec_t *x = new_handle();
  long k = (long)g_nh - 1;
  hrec_t *par = &g_h[h];
  mzd_t *W = mzd_init_window(par->M, (rci_t)r0, (rci_t)c0, (rci_t)r1, (rci_t)c1);
  x->M = W;
  x->copy = *W;
  x->live = 1;
  x->win = 1;
  x->root = par->root;
  x->data_id = par->data_id;
  x->words = 0;
  hrec_t *root = &g_h[par->root];
  x->off = W->data ? (size_t)(W->data - root->copy.data) : 0;
  printf("W %ld %d %d %d ", k, W->nrows, W->ncols, W->rowstride);
  if (!W->data)
    printf("-");
  else
    printf("%ld+%zu", x->data_id, x->off);
  printf(" ");
  print_hdr(W);
  printf("\n");
  if (!mzd_is_windowed(W)) {
    printf("!HDR %ld window-not-flagged\n", k);
    g_bad++;
  }
  check_overlap(k);
}

static void do_free(long h) {
  if (h < 0 || h >= (long)g_nh || !g_h[h].live) {
    printf("?bad-script F %ld\n", h);
    return;
  }
  hrec_t *x = &g_h[h];
  x->live = 0;
  mzd_free(x->M);
  if (x->shadow) __real_free(x->shadow);
  x->shadow = NULL;
  printf("F %ld\n", h);
}

static void do_write(long h, unsigned long v) {
  if (h < 0 || h >= (long)g_nh || !g_h[h].live || !g_h[g_h[h].root].live) {
    printf("?bad-script X %ld\n", h);
    return;
  }
  hrec_t *x = &g_h[h];
  hrec_t *root = &g_h[x->root];
  mzd_t *M = x->M;
  if (M->data) {
    /* a root matrix is filled completely (padding words included), a view only inside its rows */
    size_t w = x->win ? (size_t)M->width : (size_t)M->rowstride;
    for (size_t i = 0; i < (size_t)M->nrows; ++i)
      for (size_t j = 0; j < w; ++j) {
        word val = pattern(v, i, j);
        size_t pos = i * (size_t)M->rowstride + j;
        M->data[pos] = val;
        if (x->off + pos < root->words) root->shadow[x->off + pos] = val;
      }
  }
  printf("X %ld\n", h);
}

static void do_fini(void) {
  m4ri_fini();
  size_t live = 0, base = 0;
  for (size_t i = 0; i < g_n; ++i) {
    if (g_tab[i].id >= 0)
      live++;
    else
      base++;
  }
  printf("Z live=%zu base=%zu\n", live, base);
}

/* ------------------------------------------------------------------ driver */
static void run_history(char **lines, size_t n) {
  for (size_t k = 0; k < n; ++k) {
    char *l = lines[k];
    long a, b, c, d, e;
    unsigned long v;
    if (sscanf(l, "I %ld %ld", &a, &b) == 2)
      do_init(a, b);
    else if (sscanf(l, "W %ld %ld %ld %ld %ld", &a, &b, &c, &d, &e) == 5)
      do_window(a, b, c, d, e);
    else if (sscanf(l, "F %ld", &a) == 1)
      do_free(a);
    else if (sscanf(l, "X %ld %lu", &a, &v) == 2)
      do_write(a, v);
    else if (l[0] == 'Z')
      do_fini();
    else {
      printf("?bad-line %s", l);
      continue;
    }
    check_all();
  }
}

int main(int argc, char **argv) {
  int do_fork = 1;
  for (int i = 1; i < argc; ++i) {
    if (!strncmp(argv[i], "--static-base=", 14)) g_static_base = (uintptr_t)strtoull(argv[i] + 14, NULL, 0);
    if (!strcmp(argv[i], "--no-fork")) do_fork = 0;
    if (!strcmp(argv[i], "--no-poison")) g_poison = 0;
    if (!strcmp(argv[i], "--consts")) {
      /* constants the model is instantiated with */
      printf("NBLOCKS %d\nTHRESHOLD %llu\nENABLE_MMC %d\nENABLE_MZD_CACHE %d\nHAVE_OPENMP %d\nSIZEOF_MZD_T %zu\n",
             (int)__M4RI_MMC_NBLOCKS, (unsigned long long)__M4RI_MMC_THRESHOLD, (int)__M4RI_ENABLE_MMC,
             (int)__M4RI_ENABLE_MZD_CACHE, (int)__M4RI_HAVE_OPENMP, sizeof(mzd_t));
      fflush(stdout);
      _exit(0);
    }
  }
  g_phase = 1;
  size_t cap = 1024, n = 0;
  char **lines = (char **)__real_malloc(cap * sizeof(char *));
  char buf[256];
  char name[200];
  int in_hist = 0;
  while (fgets(buf, sizeof buf, stdin)) {
    if (buf[0] == 'H') {
      in_hist = 1;
      n = 0;
      name[0] = 0;
      sscanf(buf, "H %199s", name);
      continue;
    }
    if (!in_hist) {
      /* preamble: executed once, in the parent; every history then starts from this state */
      char *one[1] = {buf};
      if (buf[0] != '\n' && buf[0] != '#') run_history(one, 1);
      continue;
    }
    if (buf[0] != 'E') {
      if (n == cap) {
        cap *= 2;
        lines = (char **)__real_realloc(lines, cap * sizeof(char *));
      }
      size_t len = strlen(buf) + 1;
      lines[n] = (char *)__real_malloc(len);
      memcpy(lines[n], buf, len);
      n++;
      continue;
    }
    /* end of a history: run it */
    in_hist = 0;
    printf("H %s\n", name);
    fflush(stdout);
    if (do_fork) {
      pid_t pid = fork();
      if (pid == 0) {
        run_history(lines, n);
        printf("E\n");
        fflush(stdout);
        _exit(0);
      }
      int st = 0;
      waitpid(pid, &st, 0);
      if (!(WIFEXITED(st) && WEXITSTATUS(st) == 0)) {
        printf("!CRASH status=%d signal=%d\nE\n", st, WIFSIGNALED(st) ? WTERMSIG(st) : 0);
        fflush(stdout);
      }
    } else {
      run_history(lines, n);
      printf("E\n");
      fflush(stdout);
    }
    for (size_t k = 0; k < n; ++k) __real_free(lines[k]);
    n = 0;
  }
  fflush(stdout);
  _exit(0); /* the destructor m4ri_fini() is not run a second time */
}
