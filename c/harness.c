/* c/harness.c — op-script interpreter over the real m4ri library (correspondence harness).
 *
 * usage: harness <script> [timeout_s]
 * The script holds cases:   case <id> / <commands> / end
 * Every case runs in a forked child; the parent prints
 *    case <id>
 *    <output lines of the child>
 *    fate <OK|DIE|SEGV|ABRT|ASAN|UBSAN|TIMEOUT|SIG<n>|EXIT<n>>
 * Commands (see tools/gen.py for the generator and ocaml/driver.ml for the model side):
 *    mat  N r c h0 h1 ...         owned matrix, row i = hex integer, column j = bit j
 *    win  N P r0 c0 r1 c1         window into P (c0 multiple of 64)
 *    perm N len v0 v1 ...
 *    call OP args...              see dispatch()
 *    dump N | dumpperm N | free N
 *    consts                       print the build-dependent constants of the library under test (one line)
 *    consts K=V ...               check them against the script's values (Tier B scripts carry the constants the
 *                                 model side was run with): prints consts-mismatch lines for the ones that differ
 * Tier B (tools/props/tierb.py): "call tb_<op> args" runs the same library routine as "call <op> args" (the
 * model side runs the algorithm-faithful model instead of the specification); tb_make_table and tb_djb also
 * print the observable intermediates (table / index contents, the compiled op list).
 * dump prints "mat N r c h0 h1 ...": for an owned matrix the RAW words of each row (so a non-zero
 * padding bit shows up as a value >= 2^c); for a window the words masked with high_bitmask.
 */
#define _GNU_SOURCE
#include <m4ri/m4ri.h>
#include <m4ri/djb.h>
#include <signal.h>
#include <stdio.h>
#include <stdlib.h>
#include <string.h>
#include <sys/types.h>
#include <sys/wait.h>
#include <unistd.h>
#include <errno.h>
#include <fcntl.h>

/* ---- optional allocator interposition (link with -Wl,--wrap=posix_memalign,--wrap=malloc,--wrap=free
 *      and -DHARNESS_WRAP): counts live blocks and fills fresh blocks with a seeded pattern ---- */
static long live_blocks = 0;
static long expected_new = 0;
#ifdef HARNESS_WRAP
int __real_posix_memalign(void **p, size_t al, size_t sz);
void *__real_malloc(size_t sz);
void __real_free(void *p);
static unsigned long long poison_state = 0;
static int poison_on = 0;
static int counting = 0;
static void poison(void *p, size_t sz) {
  if (!poison_on || !p) return;
  unsigned char *b = (unsigned char *)p;
  for (size_t i = 0; i < sz; i++) {
    poison_state = poison_state * 6364136223846793005ULL + 1442695040888963407ULL;
    b[i] = (unsigned char)(poison_state >> 56);
  }
}
int __wrap_posix_memalign(void **p, size_t al, size_t sz) {
  int r = __real_posix_memalign(p, al, sz);
  if (r == 0 && *p) { if (counting) live_blocks++; poison(*p, sz); }
  return r;
}
void *__wrap_malloc(size_t sz) {
  void *p = __real_malloc(sz);
  if (p) { if (counting) live_blocks++; poison(p, sz); }
  return p;
}
void __wrap_free(void *p) {
  if (p && counting) live_blocks--;
  __real_free(p);
}
#endif

#define MAXOBJ 64
#define MAXTOK 70000

typedef struct { char name[32]; mzd_t *m; mzp_t *p; int is_win; } obj_t;
static obj_t objs[MAXOBJ];
static int nobj = 0;

static void fail(const char *msg, const char *arg) {
  printf("harness-error %s %s\n", msg, arg ? arg : "");
  fflush(stdout);
  _exit(97);
}

static obj_t *lookup(const char *n) {
  for (int i = 0; i < nobj; i++)
    if (!strcmp(objs[i].name, n)) return &objs[i];
  return NULL;
}
static obj_t *bind(const char *n) {
  obj_t *o = lookup(n);
  if (!o) {
    if (nobj >= MAXOBJ) fail("too many objects", n);
    o = &objs[nobj++];
    memset(o, 0, sizeof *o);
    strncpy(o->name, n, 31);
  }
  return o;
}
static mzd_t *M(const char *n) {
  if (!strcmp(n, "-")) return NULL;
  obj_t *o = lookup(n);
  if (!o || !o->m) fail("unknown matrix", n);
  return o->m;
}
static mzp_t *P(const char *n) {
  obj_t *o = lookup(n);
  if (!o || !o->p) fail("unknown perm", n);
  return o->p;
}
/* value of the last "ret <int>" line (the token "ret" as an integer argument of a later call) */
static int lastret = 0;
static int RET(int v) { lastret = v; printf("ret %d\n", v); return v; }
static int I(const char *s) { return !strcmp(s, "ret") ? lastret : (int)strtol(s, NULL, 10); }

static int hexval(char c) {
  if (c >= '0' && c <= '9') return c - '0';
  if (c >= 'a' && c <= 'f') return c - 'a' + 10;
  if (c >= 'A' && c <= 'F') return c - 'A' + 10;
  return -1;
}
/* hex integer (MSB first) into words (LSW first) */
static void hex_to_words(const char *h, word *w, int nw) {
  for (int i = 0; i < nw; i++) w[i] = 0;
  int len = (int)strlen(h);
  for (int i = 0; i < len; i++) {
    int v = hexval(h[len - 1 - i]);
    if (v < 0) fail("bad hex", h);
    int bit = 4 * i;
    if (bit / 64 < nw) w[bit / 64] |= ((word)v) << (bit % 64);
    else if (v) fail("hex too long", h);
  }
}
static void print_hex_words(const word *w, int nw) {
  int top = nw - 1;
  while (top > 0 && w[top] == 0) top--;
  printf(" %llx", (unsigned long long)w[top]);
  for (int i = top - 1; i >= 0; i--) printf("%016llx", (unsigned long long)w[i]);
}

static void dump_mat(const char *name, const mzd_t *A) {
  if (!A) { printf("mat %s NULL\n", name); return; }
  printf("mat %s %d %d", name, A->nrows, A->ncols);
  int nw = A->width > 0 ? A->width : 1;
  word *buf = (word *)malloc(sizeof(word) * nw);
  for (rci_t i = 0; i < A->nrows; i++) {
    buf[0] = 0;
    if (A->ncols > 0) {
      word const *r = mzd_row_const(A, i);
      for (int j = 0; j < A->width; j++) buf[j] = r[j];
      if (mzd_is_windowed(A)) buf[A->width - 1] &= A->high_bitmask;
    }
    print_hex_words(buf, nw);
  }
  free(buf);
  printf("\n");
}
static void dump_perm(const char *name, const mzp_t *p) {
  printf("perm %s %d", name, p->length);
  for (rci_t i = 0; i < p->length; i++) printf(" %d", p->values[i]);
  printf("\n");
}

static void setret(const char *retname, mzd_t *dst_given, mzd_t *result) {
  /* a returned matrix is bound to retname when the call allocated it */
  if (!dst_given && result) expected_new += (result->data ? 2 : 1);
  if (!strcmp(retname, "-") || dst_given) return; /* a supplied destination keeps its own name */
  obj_t *o = bind(retname);
  o->m = result;
  o->p = NULL;
  o->is_win = 0;
  (void)dst_given;
}


/* ---- build-dependent constants of the library under test (macros of the headers the harness is compiled with) ---- */
#include <m4ri/strassen.h>
#include <m4ri/ple.h>
#include <m4ri/echelonform.h>
#define STR_(x) #x
#define STR(x) STR_(x)
typedef struct { const char *name; long value; } const_t;
static int get_consts(const_t *c) {
  int n = 0;
  c[n].name = "MUL_BLOCKSIZE"; c[n++].value = (long)(__M4RI_MUL_BLOCKSIZE);
  c[n].name = "STRASSEN_MUL_CUTOFF"; c[n++].value = (long)(__M4RI_STRASSEN_MUL_CUTOFF);
  c[n].name = "PLE_CUTOFF"; c[n++].value = (long)(__M4RI_PLE_CUTOFF);
  c[n].name = "L1"; c[n++].value = (long)(__M4RI_CPU_L1_CACHE);
  c[n].name = "L2"; c[n++].value = (long)(__M4RI_CPU_L2_CACHE);
  c[n].name = "L3"; c[n++].value = (long)(__M4RI_CPU_L3_CACHE);
  c[n].name = "SSE2"; c[n++].value = (long)(__M4RI_HAVE_SSE2);
  c[n].name = "OPENMP"; c[n++].value = (long)(__M4RI_HAVE_OPENMP);
  c[n].name = "MAXKAY"; c[n++].value = (long)(__M4RI_MAXKAY);
  /* the crossover density of mzd_echelonize in 1/10000 */
  c[n].name = "CROSSOVER_E4"; c[n++].value = (long)(__M4RI_ECHELONFORM_CROSSOVER_DENSITY * 10000.0 + 0.5);
  return n;
}
static void do_consts(int nt, char **tok) {
  const_t c[16];
  int n = get_consts(c);
  if (nt == 1) {
    printf("consts");
    for (int i = 0; i < n; i++) printf(" %s=%ld", c[i].name, c[i].value);
    printf("\n");
    return;
  }
  for (int t = 1; t < nt; t++) {
    char *eq = strchr(tok[t], '=');
    if (!eq) fail("consts", tok[t]);
    int found = 0;
    for (int i = 0; i < n; i++)
      if (strlen(c[i].name) == (size_t)(eq - tok[t]) && !strncmp(c[i].name, tok[t], eq - tok[t])) {
        found = 1;
        if (strtol(eq + 1, NULL, 10) != c[i].value) printf("consts-mismatch %s library=%ld script=%s\n", c[i].name, c[i].value, eq + 1);
      }
    if (!found) printf("consts-mismatch %s unknown\n", tok[t]);
  }
}

#define OP(s) (!strcmp(op, s))
#define NEED(n) do { if (na < (n)) fail("too few args", op); } while (0)

static void dispatch(int na, char **a) {
  const char *op = a[0];
  /* ---------------- Tier B: observable intermediates ---------------- */
  if (OP("tb_make_table")) { /* tb_make_table M r c k T l0 .. l(2^k-1): T (2^k x M->ncols, any content) and L as given */
    NEED(6);
    mzd_t *A = M(a[1]);
    int k    = I(a[4]);
    mzd_t *T = M(a[5]);
    int tk   = 1 << k;
    if (na != 6 + tk) fail("tb_make_table L length", a[5]);
    if (T->nrows < tk || T->ncols != A->ncols) fail("tb_make_table T shape", a[5]);
    rci_t *L = (rci_t *)malloc(sizeof(rci_t) * tk);
    for (int i = 0; i < tk; i++) L[i] = I(a[6 + i]);
    mzd_make_table(A, I(a[2]), I(a[3]), k, T, L);
    printf("ret L");
    for (int i = 0; i < tk; i++) printf(" %d", L[i]);
    printf("\n");
    free(L);
    return;
  }
  if (OP("tb_djb")) { /* tb_djb RET A V : as djb, and the compiled program z->(target, source, srctyp)[0..length) */
    NEED(4);
    mzd_t *Ac = mzd_copy(NULL, M(a[2]));
    djb_t *z  = djb_compile(Ac);
    printf("djbops %d", (int)z->length);
    for (rci_t i = 0; i < z->length; i++) printf(" %d,%d,%d", z->target[i], z->source[i], z->srctyp[i] == source_source ? 1 : 0);
    printf("\n");
    mzd_t *W = mzd_init(M(a[2])->nrows, M(a[3])->ncols);
    djb_apply_mzd(z, W, M(a[3]));
    djb_free(z);
    mzd_free(Ac);
    setret(a[1], NULL, W);
    return;
  }
  if (!strncmp(op, "tb_", 3)) op += 3; /* every other tb_<op> is <op> on this side */
  /* ---------------- C01 multiplication ---------------- */
  if (OP("mul_naive")) { NEED(5); setret(a[1], M(a[2]), mzd_mul_naive(M(a[2]), M(a[3]), M(a[4]))); }
  else if (OP("addmul_naive")) { NEED(5); setret(a[1], M(a[2]), mzd_addmul_naive(M(a[2]), M(a[3]), M(a[4]))); }
  else if (OP("_mul_naive")) { NEED(6); setret(a[1], M(a[2]), _mzd_mul_naive(M(a[2]), M(a[3]), M(a[4]), I(a[5]))); } /* C (+)= A * Bt^T */
  else if (OP("mul_va")) { NEED(6); setret(a[1], M(a[2]), _mzd_mul_va(M(a[2]), M(a[3]), M(a[4]), I(a[5]))); }
  else if (OP("mul_m4rm")) { NEED(6); setret(a[1], M(a[2]), mzd_mul_m4rm(M(a[2]), M(a[3]), M(a[4]), I(a[5]))); }
  else if (OP("addmul_m4rm")) { NEED(6); setret(a[1], M(a[2]), mzd_addmul_m4rm(M(a[2]), M(a[3]), M(a[4]), I(a[5]))); }
  else if (OP("mul")) { NEED(6); setret(a[1], M(a[2]), mzd_mul(M(a[2]), M(a[3]), M(a[4]), I(a[5]))); }
  else if (OP("addmul")) { NEED(6); setret(a[1], M(a[2]), mzd_addmul(M(a[2]), M(a[3]), M(a[4]), I(a[5]))); }
  else if (OP("_mul_even")) { NEED(6); setret(a[1], M(a[2]), _mzd_mul_even(M(a[2]), M(a[3]), M(a[4]), I(a[5]))); }
  else if (OP("_addmul_even")) { NEED(6); setret(a[1], M(a[2]), _mzd_addmul_even(M(a[2]), M(a[3]), M(a[4]), I(a[5]))); }
  else if (OP("_addmul")) { NEED(6); setret(a[1], M(a[2]), _mzd_addmul(M(a[2]), M(a[3]), M(a[4]), I(a[5]))); }
#if __M4RI_HAVE_OPENMP
  else if (OP("mul_mp")) { NEED(6); setret(a[1], M(a[2]), mzd_mul_mp(M(a[2]), M(a[3]), M(a[4]), I(a[5]))); }
  else if (OP("addmul_mp")) { NEED(6); setret(a[1], M(a[2]), mzd_addmul_mp(M(a[2]), M(a[3]), M(a[4]), I(a[5]))); }
#else
  else if (OP("mul_mp")) { NEED(6); setret(a[1], M(a[2]), mzd_mul(M(a[2]), M(a[3]), M(a[4]), I(a[5]))); }
  else if (OP("addmul_mp")) { NEED(6); setret(a[1], M(a[2]), mzd_addmul(M(a[2]), M(a[3]), M(a[4]), I(a[5]))); }
#endif
  else if (OP("djb")) { /* djb RET A V : W = 0; apply(compile(copy A), W, V) */
    NEED(4);
    mzd_t *Ac = mzd_copy(NULL, M(a[2]));
    djb_t *z  = djb_compile(Ac);
    mzd_t *W  = mzd_init(M(a[2])->nrows, M(a[3])->ncols);
    djb_apply_mzd(z, W, M(a[3]));
    djb_free(z);
    mzd_free(Ac);
    setret(a[1], NULL, W);
  }
  /* ---------------- C02 echelon forms ---------------- */
  else if (OP("echelonize_naive")) { NEED(3); printf("ret %d\n", mzd_echelonize_naive(M(a[1]), I(a[2]))); }
  else if (OP("gauss_delayed")) { NEED(4); printf("ret %d\n", mzd_gauss_delayed(M(a[1]), I(a[2]), I(a[3]))); }
  else if (OP("echelonize_m4ri")) { NEED(4); printf("ret %d\n", mzd_echelonize_m4ri(M(a[1]), I(a[2]), I(a[3]))); }
  else if (OP("echelonize_pluq")) { NEED(3); printf("ret %d\n", mzd_echelonize_pluq(M(a[1]), I(a[2]))); }
  else if (OP("echelonize")) { NEED(3); printf("ret %d\n", mzd_echelonize(M(a[1]), I(a[2]))); }
  else if (OP("_echelonize_m4ri")) { NEED(6); printf("ret %d\n", _mzd_echelonize_m4ri(M(a[1]), I(a[2]), I(a[3]), I(a[4]), atof(a[5]))); }
  else if (OP("top_echelonize_m4ri")) { NEED(3); mzd_top_echelonize_m4ri(M(a[1]), I(a[2])); }
  /* ---------------- C03 PLE / PLUQ ---------------- */
  else if (OP("ple")) { NEED(5); RET(mzd_ple(M(a[1]), P(a[2]), P(a[3]), I(a[4]))); }
  else if (OP("pluq")) { NEED(5); RET(mzd_pluq(M(a[1]), P(a[2]), P(a[3]), I(a[4]))); }
  else if (OP("_ple")) { NEED(5); RET(_mzd_ple(M(a[1]), P(a[2]), P(a[3]), I(a[4]))); }
  else if (OP("_pluq")) { NEED(5); RET(_mzd_pluq(M(a[1]), P(a[2]), P(a[3]), I(a[4]))); }
  else if (OP("_ple_naive")) { NEED(4); RET(_mzd_ple_naive(M(a[1]), P(a[2]), P(a[3]))); }
  else if (OP("_pluq_naive")) { NEED(4); RET(_mzd_pluq_naive(M(a[1]), P(a[2]), P(a[3]))); }
  else if (OP("randomize")) { NEED(3); srandom((unsigned)I(a[2])); mzd_randomize(M(a[1])); } /* C10: overwrites its destination */
  else if (OP("_ple_russian")) { NEED(5); RET(_mzd_ple_russian(M(a[1]), P(a[2]), P(a[3]), I(a[4]))); }
  else if (OP("_pluq_russian")) { NEED(5); RET(_mzd_pluq_russian(M(a[1]), P(a[2]), P(a[3]), I(a[4]))); }
  /* ---------------- C04 TRSM ---------------- */
  else if (OP("trsm_upper_left")) { NEED(4); mzd_trsm_upper_left(M(a[1]), M(a[2]), I(a[3])); }
  else if (OP("trsm_lower_left")) { NEED(4); mzd_trsm_lower_left(M(a[1]), M(a[2]), I(a[3])); }
  else if (OP("trsm_upper_right")) { NEED(4); mzd_trsm_upper_right(M(a[1]), M(a[2]), I(a[3])); }
  else if (OP("trsm_lower_right")) { NEED(4); mzd_trsm_lower_right(M(a[1]), M(a[2]), I(a[3])); }
  else if (OP("_trsm_upper_left")) { NEED(4); _mzd_trsm_upper_left(M(a[1]), M(a[2]), I(a[3])); }
  else if (OP("_trsm_lower_left")) { NEED(4); _mzd_trsm_lower_left(M(a[1]), M(a[2]), I(a[3])); }
  else if (OP("_trsm_upper_right")) { NEED(4); _mzd_trsm_upper_right(M(a[1]), M(a[2]), I(a[3])); }
  else if (OP("_trsm_lower_right")) { NEED(4); _mzd_trsm_lower_right(M(a[1]), M(a[2]), I(a[3])); }
  /* ---------------- C05 inversion ---------------- */
  else if (OP("inv_m4ri")) { NEED(5); setret(a[1], M(a[2]), mzd_inv_m4ri(M(a[2]), M(a[3]), I(a[4]))); }
  else if (OP("invert_naive")) { NEED(5); setret(a[1], M(a[2]), mzd_invert_naive(M(a[2]), M(a[3]), M(a[4]))); }
  else if (OP("trtri_upper")) { NEED(2); mzd_trtri_upper(M(a[1])); }
  else if (OP("trtri_upper_russian")) { NEED(3); mzd_trtri_upper_russian(M(a[1]), I(a[2])); }
  /* ---------------- C06 / C07 ---------------- */
  else if (OP("solve_left")) { NEED(5); RET(mzd_solve_left(M(a[1]), M(a[2]), I(a[3]), I(a[4]))); }
  else if (OP("pluq_solve_left")) { NEED(8); RET(mzd_pluq_solve_left(M(a[1]), I(a[2]), P(a[3]), P(a[4]), M(a[5]), I(a[6]), I(a[7]))); }
  else if (OP("kernel_left_pluq")) { NEED(4); setret(a[1], NULL, mzd_kernel_left_pluq(M(a[2]), I(a[3]))); }
  /* ---------------- C08 addition and data movement ---------------- */
  else if (OP("add")) { NEED(5); setret(a[1], M(a[2]), mzd_add(M(a[2]), M(a[3]), M(a[4]))); }
  else if (OP("_add")) { NEED(5); setret(a[1], M(a[2]), _mzd_add(M(a[2]), M(a[3]), M(a[4]))); }
  else if (OP("set_ui")) { NEED(3); mzd_set_ui(M(a[1]), (unsigned)I(a[2])); }
  else if (OP("transpose")) { NEED(4); setret(a[1], M(a[2]), mzd_transpose(M(a[2]), M(a[3]))); }
  else if (OP("copy")) { NEED(4); setret(a[1], M(a[2]), mzd_copy(M(a[2]), M(a[3]))); }
  else if (OP("copy_row")) { NEED(5); mzd_copy_row(M(a[1]), I(a[2]), M(a[3]), I(a[4])); }
  else if (OP("submatrix")) { NEED(8); setret(a[1], M(a[2]), mzd_submatrix(M(a[2]), M(a[3]), I(a[4]), I(a[5]), I(a[6]), I(a[7]))); }
  else if (OP("concat")) { NEED(5); setret(a[1], M(a[2]), mzd_concat(M(a[2]), M(a[3]), M(a[4]))); }
  else if (OP("stack")) { NEED(5); setret(a[1], M(a[2]), mzd_stack(M(a[2]), M(a[3]), M(a[4]))); }
  else if (OP("extract_u")) { NEED(4); setret(a[1], M(a[2]), mzd_extract_u(M(a[2]), M(a[3]))); }
  else if (OP("extract_l")) { NEED(4); setret(a[1], M(a[2]), mzd_extract_l(M(a[2]), M(a[3]))); }
  /* ---------------- C13 row / column operations ---------------- */
  else if (OP("row_swap")) { NEED(4); mzd_row_swap(M(a[1]), I(a[2]), I(a[3])); }
  else if (OP("col_swap")) { NEED(4); mzd_col_swap(M(a[1]), I(a[2]), I(a[3])); }
  else if (OP("col_swap_in_rows")) { NEED(6); mzd_col_swap_in_rows(M(a[1]), I(a[2]), I(a[3]), I(a[4]), I(a[5])); }
  else if (OP("row_add")) { NEED(4); mzd_row_add(M(a[1]), I(a[2]), I(a[3])); }
  else if (OP("row_add_offset")) { NEED(5); mzd_row_add_offset(M(a[1]), I(a[2]), I(a[3]), I(a[4])); }
  else if (OP("xor_bits")) { NEED(6); mzd_xor_bits(M(a[1]), I(a[2]), I(a[3]), I(a[4]), (word)strtoull(a[5], NULL, 16)); }
  else if (OP("clear_bits")) { NEED(5); mzd_clear_bits(M(a[1]), I(a[2]), I(a[3]), I(a[4])); }
  else if (OP("row_clear_offset")) { NEED(4); mzd_row_clear_offset(M(a[1]), I(a[2]), I(a[3])); }
  else if (OP("read_bits")) { NEED(5); printf("ret %llx\n", (unsigned long long)mzd_read_bits(M(a[1]), I(a[2]), I(a[3]), I(a[4]))); }
  else if (OP("combine")) { NEED(10); mzd_combine(M(a[1]), I(a[2]), I(a[3]), M(a[4]), I(a[5]), I(a[6]), M(a[7]), I(a[8]), I(a[9])); }
  else if (OP("combine_even")) { NEED(10); mzd_combine_even(M(a[1]), I(a[2]), I(a[3]), M(a[4]), I(a[5]), I(a[6]), M(a[7]), I(a[8]), I(a[9])); }
  else if (OP("combine_even_in_place")) { NEED(7); mzd_combine_even_in_place(M(a[1]), I(a[2]), I(a[3]), M(a[4]), I(a[5]), I(a[6])); }
  else if (OP("apply_p_left")) { NEED(3); mzd_apply_p_left(M(a[1]), P(a[2])); }
  else if (OP("apply_p_left_trans")) { NEED(3); mzd_apply_p_left_trans(M(a[1]), P(a[2])); }
  else if (OP("apply_p_right")) { NEED(3); mzd_apply_p_right(M(a[1]), P(a[2])); }
  else if (OP("apply_p_right_trans")) { NEED(3); mzd_apply_p_right_trans(M(a[1]), P(a[2])); }
  else if (OP("apply_p_right_trans_tri")) { NEED(3); mzd_apply_p_right_trans_tri(M(a[1]), P(a[2])); }
  else if (OP("apply_p_right_even_capped")) { NEED(5); mzd_apply_p_right_even_capped(M(a[1]), P(a[2]), I(a[3]), I(a[4])); }
  else if (OP("apply_p_right_trans_even_capped")) { NEED(5); mzd_apply_p_right_trans_even_capped(M(a[1]), P(a[2]), I(a[3]), I(a[4])); }
  /* ---------------- C17 observers ---------------- */
  else if (OP("equal")) { NEED(3); printf("ret %d\n", mzd_equal(M(a[1]), M(a[2])) ? 1 : 0); }
  else if (OP("cmp")) { NEED(3); int c = mzd_cmp(M(a[1]), M(a[2])); printf("ret %d\n", c < 0 ? -1 : (c > 0 ? 1 : 0)); }
  else if (OP("is_zero")) { NEED(2); printf("ret %d\n", mzd_is_zero(M(a[1])) ? 1 : 0); }
  else if (OP("find_pivot")) {
    NEED(4);
    rci_t r = -1, c = -1;
    int f = mzd_find_pivot(M(a[1]), I(a[2]), I(a[3]), &r, &c);
    if (f) printf("ret 1 %d %d\n", r, c); else printf("ret 0\n");
  }
  else if (OP("first_zero_row")) { NEED(2); printf("ret %d\n", mzd_first_zero_row(M(a[1]))); }
  else if (OP("read_bit")) { NEED(4); printf("ret %d\n", (int)mzd_read_bit(M(a[1]), I(a[2]), I(a[3]))); }
  else if (OP("write_bit")) { NEED(5); mzd_write_bit(M(a[1]), I(a[2]), I(a[3]), I(a[4])); }
  /* ---------------- C19 / C01: table construction ---------------- */
  else if (OP("make_table")) { /* make_table M r c k Tname : T = 2^k x ncols zero matrix, prints L */
    NEED(6);
    mzd_t *A = M(a[1]);
    int k    = I(a[4]);
    mzd_t *T = mzd_init(1 << k, A->ncols);
    rci_t *L = (rci_t *)malloc(sizeof(rci_t) * (1 << k));
    for (int i = 0; i < (1 << k); i++) L[i] = -1;
    mzd_make_table(A, I(a[2]), I(a[3]), k, T, L);
    printf("ret L");
    for (int i = 0; i < (1 << k); i++) printf(" %d", L[i]);
    printf("\n");
    free(L);
    setret(a[5], NULL, T);
  }
  else fail("unknown op", op);
}

static void run_case(char **lines, int from, int to) {
  static char *tok[MAXTOK];
  for (int ln = from; ln < to; ln++) {
    char *line = lines[ln];
    int nt     = 0;
    for (char *t = strtok(line, " \t\n"); t && nt < MAXTOK; t = strtok(NULL, " \t\n")) tok[nt++] = t;
    if (nt == 0) continue;
    if (!strcmp(tok[0], "mat")) {
      if (nt < 4) fail("mat", "");
      int r = I(tok[2]), c = I(tok[3]);
      if (nt != 4 + r) fail("mat row count", tok[1]);
      mzd_t *A = mzd_init(r, c);
      for (int i = 0; i < r; i++)
        if (c > 0) hex_to_words(tok[4 + i], mzd_row(A, i), A->width);
      obj_t *o = bind(tok[1]);
      o->m = A; o->p = NULL; o->is_win = 0;
    } else if (!strcmp(tok[0], "win")) {
      if (nt != 7) fail("win", "");
      mzd_t *W = mzd_init_window(M(tok[2]), I(tok[3]), I(tok[4]), I(tok[5]), I(tok[6]));
      obj_t *o = bind(tok[1]);
      o->m = W; o->p = NULL; o->is_win = 1;
    } else if (!strcmp(tok[0], "perm")) {
      int len = I(tok[2]);
      if (nt != 3 + len) fail("perm length", tok[1]);
      mzp_t *p = mzp_init(len);
      for (int i = 0; i < len; i++) p->values[i] = I(tok[3 + i]);
      obj_t *o = bind(tok[1]);
      o->p = p; o->m = NULL;
    } else if (!strcmp(tok[0], "call")) {
#ifdef HARNESS_WRAP
      long before = live_blocks;
      expected_new = 0;
      counting = 1;
      dispatch(nt - 1, tok + 1);
      counting = 0;
      if (getenv("VERIF_BALANCE") && live_blocks - before != expected_new)
        printf("leak %s %ld\n", tok[1], live_blocks - before - expected_new);
#else
      dispatch(nt - 1, tok + 1);
#endif
    } else if (!strcmp(tok[0], "consts")) {
      do_consts(nt, tok);
    } else if (!strcmp(tok[0], "dump")) {
      obj_t *o = lookup(tok[1]);
      if (!o) fail("dump unknown", tok[1]);
      dump_mat(tok[1], o->m);
    } else if (!strcmp(tok[0], "dumpperm")) {
      dump_perm(tok[1], P(tok[1]));
    } else if (!strcmp(tok[0], "free")) {
      obj_t *o = lookup(tok[1]);
      if (o && o->m) { mzd_free(o->m); o->m = NULL; }
      else if (o && o->p) { mzp_free(o->p); o->p = NULL; }
    } else fail("unknown command", tok[0]);
  }
  fflush(stdout);
}

int main(int argc, char **argv) {
  if (argc < 2) { fprintf(stderr, "usage: harness script [timeout]\n"); return 2; }
  int tmo = argc > 2 ? atoi(argv[2]) : 20;
  setvbuf(stdout, NULL, _IOLBF, 0); /* lines printed before a crash of the child must survive */
  FILE *f = fopen(argv[1], "r");
  if (!f) { perror("script"); return 2; }
  size_t cap = 1024, n = 0;
  char **lines = (char **)malloc(cap * sizeof(char *));
  char *line = NULL; size_t lcap = 0; ssize_t len;
  while ((len = getline(&line, &lcap, f)) >= 0) {
    if (n == cap) { cap *= 2; lines = (char **)realloc(lines, cap * sizeof(char *)); }
    lines[n++] = strdup(line);
  }
  fclose(f);
  char errpath[64];
  snprintf(errpath, sizeof errpath, "/var/tmp/m4ri-harness-err-%d", (int)getpid());
  size_t i = 0;
  while (i < n) {
    if (strncmp(lines[i], "case ", 5)) { i++; continue; }
    char id[128];
    sscanf(lines[i] + 5, "%127s", id);
    size_t j = i + 1;
    while (j < n && strncmp(lines[j], "end", 3)) j++;
    printf("case %s\n", id);
    fflush(stdout);
    pid_t pid = fork();
    if (pid == 0) {
      int efd = open(errpath, O_WRONLY | O_CREAT | O_TRUNC, 0600);
      if (efd >= 0) { dup2(efd, 2); close(efd); }
      alarm(tmo);
#ifdef HARNESS_WRAP
      if (getenv("VERIF_POISON")) { poison_on = 1; poison_state = strtoull(getenv("VERIF_POISON"), NULL, 10) + i; }
#endif
      run_case(lines, (int)i + 1, (int)j);
      fflush(stdout);
      _exit(0); /* skip atexit/destructors: the parent's library state stays untouched */
    }
    int st = 0;
    waitpid(pid, &st, 0);
    char ebuf[4096]; ebuf[0] = 0;
    FILE *ef = fopen(errpath, "r");
    size_t en = 0;
    if (ef) { en = fread(ebuf, 1, sizeof ebuf - 1, ef); ebuf[en] = 0; fclose(ef); }
    const char *fate; char fb[32];
    if (strstr(ebuf, "AddressSanitizer") || strstr(ebuf, "LeakSanitizer")) fate = "ASAN";
    else if (strstr(ebuf, "runtime error:")) fate = "UBSAN";
    else if (strstr(ebuf, "ThreadSanitizer")) fate = "TSAN";
    else if (WIFEXITED(st) && WEXITSTATUS(st) == 0) fate = "OK";
    else if (WIFEXITED(st)) { snprintf(fb, sizeof fb, "EXIT%d", WEXITSTATUS(st)); fate = fb; }
    else if (WIFSIGNALED(st) && WTERMSIG(st) == SIGABRT)
      fate = (en > 0 && !strstr(ebuf, "Assertion") && !strstr(ebuf, "malloc") && !strstr(ebuf, "free()") && !strstr(ebuf, "corrupted")) ? "DIE" : "ABRT";
    else if (WIFSIGNALED(st) && WTERMSIG(st) == SIGSEGV) fate = "SEGV";
    else if (WIFSIGNALED(st) && WTERMSIG(st) == SIGALRM) fate = "TIMEOUT";
    else { snprintf(fb, sizeof fb, "SIG%d", WIFSIGNALED(st) ? WTERMSIG(st) : 0); fate = fb; }
    for (char *p = ebuf; *p; p++) if (*p == '\n' || *p == '\r') *p = '|';
    ebuf[200] = 0;
    printf("fate %s %s\n", fate, strcmp(fate, "OK") ? ebuf : "");
    fflush(stdout);
    i = j + 1;
  }
  unlink(errpath);
  return 0;
}
