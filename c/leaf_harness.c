/* c/leaf_harness.c — the leaf kernels of property C19 evaluated by the REAL code: the static inline
 * functions / macros of misc.h, parity.h, graycode.h are compiled from the scratch copy of the
 * working tree's headers, m4ri_gray_code / m4ri_build_all_codes / mzd_make_table come from the
 * freshly built libm4ri.a.
 *
 * usage: leaf_harness < commands      one answer line per command line (same leading id)
 *   codebook                      -> "ord k v..." and "inc k v..." for k = 1..16 (m4ri_codebook after m4ri_build_all_codes)
 *   masks                         -> "L n hex" n=0..64, "R n hex" n=1..64, "M n off hex" n=0..64, off=0..63
 *   parity ID h0 .. h63           -> "parity ID hex"          m4ri_parity64
 *   swap ID h                     -> "swap ID hex"            m4ri_swap_bits
 *   spread ID from len base q..   -> "spread ID hex"          m4ri_spread_bits
 *   shrink ID from len base q..   -> "shrink ID hex"          m4ri_shrink_bits
 *   lsb ID a b                    -> "lsb ID 0|1"             m4ri_lesser_LSB
 *   log2 ID v                     -> "log2 ID r"              log2_floor (graycode.h)
 *   gray ID number length         -> "gray ID v"              m4ri_gray_code
 *   twopow ID i                   -> "twopow ID v"            (int)__M4RI_TWOPOW(i)
 *   mktable ID nr nc r c k h0..   -> "mktable ID T1..T(2^k-1) | L0..L(2^k-1)"  rows as hex integers
 *                                    (column j = bit j), T a fresh zero 2^k x nc matrix
 */
#include <m4ri/m4ri.h>
#include <m4ri/parity.h>
#include <stdio.h>
#include <stdlib.h>
#include <string.h>

static char *line = NULL;
static size_t cap = 0;

static char *tok(char **p) {
  while (**p == ' ' || **p == '\t') (*p)++;
  if (**p == 0 || **p == '\n') return NULL;
  char *s = *p;
  while (**p && **p != ' ' && **p != '\t' && **p != '\n') (*p)++;
  if (**p) { **p = 0; (*p)++; }
  return s;
}
static unsigned long long hx(char **p) { char *t = tok(p); return t ? strtoull(t, NULL, 16) : 0; }
static long dec(char **p) { char *t = tok(p); return t ? strtol(t, NULL, 10) : 0; }

/* big hex integer (column j = bit j) -> row of M */
static void set_row_hex(mzd_t *M, rci_t r, const char *h) {
  size_t n = strlen(h);
  for (size_t d = 0; d < n; d++) {
    char ch = h[n - 1 - d];
    int v = (ch >= '0' && ch <= '9') ? ch - '0' : (ch >= 'a' && ch <= 'f') ? ch - 'a' + 10 : ch - 'A' + 10;
    for (int b = 0; b < 4; b++)
      if (((v >> b) & 1) && (rci_t)(4 * d + b) < M->ncols) mzd_write_bit(M, r, 4 * d + b, 1);
  }
}
static void print_row_hex(mzd_t const *M, rci_t r) {
  int started = 0;
  int nd = (M->ncols + 3) / 4;
  for (int d = nd - 1; d >= 0; d--) {
    int v = 0;
    for (int b = 0; b < 4; b++)
      if (4 * d + b < M->ncols && mzd_read_bit(M, r, 4 * d + b)) v |= 1 << b;
    if (v || started || d == 0) { printf("%x", v); started = 1; }
  }
}

int main(void) {
  m4ri_build_all_codes();
  while (getline(&line, &cap, stdin) > 0) {
    char *p = line;
    char *cmd = tok(&p);
    if (!cmd || cmd[0] == '#') continue;
    if (!strcmp(cmd, "codebook")) {
      for (int k = 1; k <= __M4RI_MAXKAY; k++) {
        printf("ord %d", k);
        for (int i = 0; i < (1 << k); i++) printf(" %d", m4ri_codebook[k]->ord[i]);
        printf("\ninc %d", k);
        for (int i = 0; i < (1 << k); i++) printf(" %d", m4ri_codebook[k]->inc[i]);
        printf("\n");
      }
      printf("maxkay %d\n", __M4RI_MAXKAY);
    } else if (!strcmp(cmd, "masks")) {
      for (volatile int n = 0; n <= 64; n++) printf("L %d %llx\n", n, (unsigned long long)__M4RI_LEFT_BITMASK(n));
      for (volatile int n = 1; n <= 64; n++) printf("R %d %llx\n", n, (unsigned long long)__M4RI_RIGHT_BITMASK(n));
      for (volatile int n = 0; n <= 64; n++)
        for (volatile int off = 0; off < 64; off++)
          printf("M %d %d %llx\n", n, off, (unsigned long long)__M4RI_MIDDLE_BITMASK(n, off));
    } else if (!strcmp(cmd, "parity")) {
      char *id = tok(&p);
      word buf[64];
      for (int i = 0; i < 64; i++) buf[i] = hx(&p);
      printf("parity %s %llx\n", id, (unsigned long long)m4ri_parity64(buf));
    } else if (!strcmp(cmd, "swap")) {
      char *id = tok(&p);
      printf("swap %s %llx\n", id, (unsigned long long)m4ri_swap_bits(hx(&p)));
    } else if (!strcmp(cmd, "spread") || !strcmp(cmd, "shrink")) {
      char *id = tok(&p);
      word from = hx(&p);
      int len = (int)dec(&p), base = (int)dec(&p);
      rci_t Q[16] = {0};
      for (int i = 0; i < len && i < 16; i++) Q[i] = (rci_t)dec(&p);
      word r = cmd[1] == 'p' ? m4ri_spread_bits(from, Q, len, base) : m4ri_shrink_bits(from, Q, len, base);
      printf("%s %s %llx\n", cmd, id, (unsigned long long)r);
    } else if (!strcmp(cmd, "lsb")) {
      char *id = tok(&p);
      word a = hx(&p), b = hx(&p);
      printf("lsb %s %d\n", id, m4ri_lesser_LSB(a, b));
    } else if (!strcmp(cmd, "log2")) {
      char *id = tok(&p);
      printf("log2 %s %d\n", id, log2_floor((int)dec(&p)));
    } else if (!strcmp(cmd, "gray")) {
      char *id = tok(&p);
      int number = (int)dec(&p), length = (int)dec(&p);
      printf("gray %s %d\n", id, m4ri_gray_code(number, length));
    } else if (!strcmp(cmd, "twopow")) {
      char *id = tok(&p);
      volatile int i = (int)dec(&p);
      printf("twopow %s %d\n", id, (int)__M4RI_TWOPOW(i));
    } else if (!strcmp(cmd, "mktable")) {
      char *id = tok(&p);
      rci_t nr = (rci_t)dec(&p), nc = (rci_t)dec(&p), r = (rci_t)dec(&p), c = (rci_t)dec(&p);
      int k = (int)dec(&p);
      mzd_t *M = mzd_init(nr, nc);
      for (rci_t i = 0; i < nr; i++) { char *h = tok(&p); if (h) set_row_hex(M, i, h); }
      mzd_t *T = mzd_init(1 << k, nc);
      rci_t *L = (rci_t *)malloc(sizeof(rci_t) * (1 << k));
      memset(L, 0xff, sizeof(rci_t) * (1 << k));
      mzd_make_table(M, r, c, k, T, L);
      printf("mktable %s", id);
      for (int i = 1; i < (1 << k); i++) { printf(" "); print_row_hex(T, i); }
      printf(" |");
      for (int i = 0; i < (1 << k); i++) printf(" %d", L[i]);
      printf("\n");
      free(L); mzd_free(T); mzd_free(M);
    } else {
      printf("error unknown command %s\n", cmd);
    }
  }
  fflush(stdout);
  return 0;
}
