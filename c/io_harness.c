/* io_harness.c — C18: command interpreter over m4ri's file readers/writers (m4ri/io.c).
 *
 * Reads one command per line from stdin.  EVERY command is executed in a forked child (10 s
 * limit); the child's stderr goes to a scratch file.  For a command with id <id> the output is
 *     ... result lines of the command, each starting with a tag and the id ...
 *     FATE <id> <EXIT n | SIGNAL n | TIMEOUT> <stderr of the child, %-escaped, at most 1500 bytes>
 *
 * Matrices are printed through the public accessor mzd_read_bit as one big hexadecimal number
 * per row (bit j of the number = column j), plus the RAW last word of every row (mzd_row(A,i)
 * [width-1]) so that the zero-excess-bits invariant is observable.
 *
 * Commands
 *   rt     <id> <file> <level> <comment|-> <verbose> <nrows> <ncols> <row>...
 *          A := rows; mzd_to_png(A,file,level,comment); B := mzd_from_png(file);
 *          prints  W <id> ret=<r>
 *                  F <id> <w> <h> <depth> <ctype> <interlace> <rowbytes> <raw row bytes of the file, hex>...
 *                         (file read back with plain libpng, NO transformations)
 *                  M <id> <nrows> <ncols> <row>... | N <id>      (matrix returned / NULL)
 *                  L <id> <raw last word>...
 *   png    <id> <file> <verbose>     mzd_from_png(file) -> M/L or N
 *   rawpng <id> <file>               plain libpng read without transformations -> F (or E <id> msg)
 *   mkpng  <id> <file> <w> <h> <depth> <ctype> <interlace> <seed>
 *          writes a PNG with plain libpng, seeded pixel bytes -> F (the bytes handed to libpng)
 *   jcf    <id> <file> <verbose>     mzd_from_jcf(file) -> M/L or N
 *   jcftok <id> <file>               the two fscanf formats of mzd_from_jcf applied to the file:
 *                                    T <id> <#converted header fields> <m> <n> <p> <nonzero> : <entry>...
 *   str    <id> <m> <n> <string>     mzd_from_str -> M/L
 */
#define _GNU_SOURCE
#include <errno.h>
#include <fcntl.h>
#include <png.h>
#include <signal.h>
#include <stdio.h>
#include <stdlib.h>
#include <string.h>
#include <sys/resource.h>
#include <sys/types.h>
#include <sys/wait.h>
#include <time.h>
#include <unistd.h>

#include <m4ri/m4ri.h>

#define MAXLINE (1 << 22)

static void print_row_hex(const mzd_t *A, rci_t i) {
  /* big number, most significant nibble first; bit j = column j */
  rci_t n = A->ncols;
  if (n <= 0) { printf(" 0"); return; }
  int nn = (n + 3) / 4;
  char *s = malloc(nn + 2);
  int started = 0, k = 0;
  for (int d = nn - 1; d >= 0; d--) {
    int v = 0;
    for (int b = 0; b < 4; b++) {
      rci_t j = 4 * d + b;
      if (j < n && mzd_read_bit(A, i, j)) v |= 1 << b;
    }
    if (v || started || d == 0) { s[k++] = "0123456789abcdef"[v]; started = 1; }
  }
  s[k] = 0;
  printf(" %s", s);
  free(s);
}

static void print_matrix(const char *id, const mzd_t *A) {
  if (!A) { printf("N %s\n", id); return; }
  printf("M %s %d %d", id, A->nrows, A->ncols);
  if (A->ncols >= 0 && A->nrows >= 0 && A->nrows <= 100000)
    for (rci_t i = 0; i < A->nrows; i++) print_row_hex(A, i);
  printf("\nL %s", id);
  if (A->ncols > 0 && A->width > 0 && A->nrows <= 100000)
    for (rci_t i = 0; i < A->nrows; i++) printf(" %016llx", (unsigned long long)mzd_row_const(A, i)[A->width - 1]);
  printf("\n");
}

static mzd_t *matrix_from_hex(int m, int n, char **rows) {
  mzd_t *A = mzd_init(m, n);
  for (int i = 0; i < m; i++) {
    const char *s = rows[i];
    int len = (int)strlen(s);
    for (int d = 0; d < len; d++) {
      char c = s[len - 1 - d];
      int v = (c >= '0' && c <= '9') ? c - '0' : (c >= 'a' && c <= 'f') ? c - 'a' + 10 : (c >= 'A' && c <= 'F') ? c - 'A' + 10 : 0;
      for (int b = 0; b < 4; b++)
        if ((v >> b) & 1) {
          int j = 4 * d + b;
          if (j < n) mzd_write_bit(A, i, j, 1);
        }
    }
  }
  return A;
}

/* ---- plain libpng, no transformations ---- */
static int raw_png(const char *id, const char *fn) {
  FILE *fh = fopen(fn, "rb");
  if (!fh) { printf("E %s open\n", id); return 1; }
  png_structp p = png_create_read_struct(PNG_LIBPNG_VER_STRING, NULL, NULL, NULL);
  png_infop info = png_create_info_struct(p);
  static volatile int stage; /* 0: header, 1: image rows, 2: all rows delivered (png_read_end) */
  stage = 0;
  if (setjmp(png_jmpbuf(p))) {
    printf("E %s libpng stage=%d\n", id, stage);
    png_destroy_read_struct(&p, &info, NULL);
    fclose(fh);
    return 1;
  }
  png_set_user_limits(p, 0x7fffffffL, 0x7fffffffL);
  png_init_io(p, fh);
  png_read_info(p, info);
  png_uint_32 w = png_get_image_width(p, info), h = png_get_image_height(p, info);
  int depth = png_get_bit_depth(p, info), ct = png_get_color_type(p, info), il = png_get_interlace_type(p, info);
  size_t rb = png_get_rowbytes(p, info);
  if ((double)rb * (double)h > 64e6) { printf("E %s toolarge %u %u %d %d %d\n", id, w, h, depth, ct, il); png_destroy_read_struct(&p, &info, NULL); fclose(fh); return 1; }
  png_bytep *rows = malloc(sizeof(png_bytep) * h);
  for (png_uint_32 i = 0; i < h; i++) rows[i] = calloc(1, rb + 1);
  if (il != PNG_INTERLACE_NONE) png_set_interlace_handling(p);
  stage = 1;
  png_read_image(p, rows);
  stage = 2;
  png_read_end(p, NULL);
  printf("F %s %u %u %d %d %d %zu", id, w, h, depth, ct, il, rb);
  for (png_uint_32 i = 0; i < h; i++) {
    printf(" ");
    for (size_t k = 0; k < rb; k++) printf("%02x", rows[i][k]);
    if (rb == 0) printf("-");
  }
  printf("\n");
  png_destroy_read_struct(&p, &info, NULL);
  fclose(fh);
  return 0;
}

static unsigned long long rng_state;
static unsigned rng(void) {
  rng_state ^= rng_state << 13; rng_state ^= rng_state >> 7; rng_state ^= rng_state << 17;
  return (unsigned)(rng_state >> 24);
}

static int mk_png(const char *id, const char *fn, unsigned w, unsigned h, int depth, int ct, int il, unsigned long long seed) {
  FILE *fh = fopen(fn, "wb");
  if (!fh) { printf("E %s open\n", id); return 1; }
  png_structp p = png_create_write_struct(PNG_LIBPNG_VER_STRING, NULL, NULL, NULL);
  png_infop info = png_create_info_struct(p);
  if (setjmp(png_jmpbuf(p))) {
    printf("E %s libpng\n", id);
    png_destroy_write_struct(&p, &info);
    fclose(fh);
    return 1;
  }
  png_init_io(p, fh);
  png_set_IHDR(p, info, w, h, depth, ct, il ? PNG_INTERLACE_ADAM7 : PNG_INTERLACE_NONE, PNG_COMPRESSION_TYPE_DEFAULT,
               PNG_FILTER_TYPE_DEFAULT);
  if (ct == PNG_COLOR_TYPE_PALETTE) {
    png_color pal[256];
    int np = 1 << depth;
    for (int i = 0; i < np; i++) { pal[i].red = pal[i].green = pal[i].blue = (png_byte)(i * 255 / (np - 1)); }
    png_set_PLTE(p, info, pal, np);
  }
  png_write_info(p, info);
  size_t rb = png_get_rowbytes(p, info);
  rng_state = seed * 2654435761ULL + 88172645463325252ULL;
  png_bytep *rows = malloc(sizeof(png_bytep) * h);
  for (unsigned i = 0; i < h; i++) {
    rows[i] = calloc(1, rb + 1);
    for (size_t k = 0; k < rb; k++) rows[i][k] = (png_byte)rng();
    /* clear the padding bits of the last byte so that what is handed over is canonical */
    unsigned long long bits = (unsigned long long)w * depth * png_get_channels(p, info);
    if (bits % 8) rows[i][rb - 1] &= (png_byte)(0xff << (8 - bits % 8));
  }
  if (il) png_set_interlace_handling(p);
  png_write_image(p, rows);
  png_write_end(p, info);
  printf("F %s %u %u %d %d %d %zu", id, w, h, depth, ct, il ? 1 : 0, rb);
  for (unsigned i = 0; i < h; i++) {
    printf(" ");
    for (size_t k = 0; k < rb; k++) printf("%02x", rows[i][k]);
  }
  printf("\n");
  png_destroy_write_struct(&p, &info);
  fclose(fh);
  return 0;
}

static int saved_stdout = -1;
static void hush(int verbose) {
  if (!verbose) return;
  fflush(stdout);
  saved_stdout = dup(1);
  int dn = open("/dev/null", O_WRONLY);
  dup2(dn, 1);
  close(dn);
}
static void unhush(int verbose) {
  if (!verbose) return;
  fflush(stdout);
  dup2(saved_stdout, 1);
  close(saved_stdout);
}

static int do_command(int argc, char **argv) {
  const char *cmd = argv[0], *id = argv[1];
  if (!strcmp(cmd, "rt") && argc >= 8) {
    const char *fn = argv[2];
    int level = atoi(argv[3]);
    const char *comment = strcmp(argv[4], "-") ? argv[4] : "";
    int verbose = atoi(argv[5]), m = atoi(argv[6]), n = atoi(argv[7]);
    if (argc < 8 + m) return 2;
    mzd_t *A = matrix_from_hex(m, n, argv + 8);
    hush(verbose);
    int r = mzd_to_png(A, fn, level, comment, verbose);
    unhush(verbose);
    printf("W %s ret=%d\n", id, r);
    fflush(stdout);
    raw_png(id, fn);
    fflush(stdout);
    hush(verbose);
    mzd_t *B = mzd_from_png(fn, verbose);
    unhush(verbose);
    print_matrix(id, B);
    if (B) mzd_free(B);
    mzd_free(A);
    return 0;
  }
  if (!strcmp(cmd, "png") && argc >= 4) {
    int verbose = atoi(argv[3]);
    hush(verbose);
    mzd_t *B = mzd_from_png(argv[2], verbose);
    unhush(verbose);
    print_matrix(id, B);
    if (B) mzd_free(B);
    return 0;
  }
  if (!strcmp(cmd, "rawpng") && argc >= 3) return raw_png(id, argv[2]);
  if (!strcmp(cmd, "mkpng") && argc >= 9)
    return mk_png(id, argv[2], (unsigned)strtoul(argv[3], 0, 10), (unsigned)strtoul(argv[4], 0, 10), atoi(argv[5]),
                  atoi(argv[6]), atoi(argv[7]), strtoull(argv[8], 0, 10));
  if (!strcmp(cmd, "jcf") && argc >= 4) {
    int verbose = atoi(argv[3]);
    hush(verbose);
    mzd_t *B = mzd_from_jcf(argv[2], verbose);
    unhush(verbose);
    print_matrix(id, B);
    if (B) mzd_free(B);
    return 0;
  }
  if (!strcmp(cmd, "jcftok") && argc >= 3) {
    FILE *fh = fopen(argv[2], "r");
    if (!fh) { printf("E %s open\n", id); return 1; }
    int m = 0, n = 0;
    long p = 0, nz = 0, j = 0;
    int c = fscanf(fh, "%d %d %ld\n%ld\n\n", &m, &n, &p, &nz);
    printf("T %s %d %d %d %ld %ld :", id, c, m, n, p, nz);
    if (c == 4) {
      long cnt = 0;
      while (fscanf(fh, "%ld\n", &j) == 1 && cnt++ < 1000000) printf(" %ld", j);
    }
    printf("\n");
    fclose(fh);
    return 0;
  }
  if (!strcmp(cmd, "str") && argc >= 5) {
    mzd_t *B = mzd_from_str(atoi(argv[2]), atoi(argv[3]), argv[4]);
    print_matrix(id, B);
    mzd_free(B);
    return 0;
  }
  printf("E %s badcommand\n", id ? id : "?");
  return 2;
}

int main(int argc, char **argv) {
  char *line = malloc(MAXLINE);
  char errfile[256];
  const char *tmpdir = argc > 1 ? argv[1] : "/var/tmp";
  snprintf(errfile, sizeof errfile, "%s/io_harness_stderr.%d", tmpdir, (int)getpid());
  int timeout_s = argc > 2 ? atoi(argv[2]) : 10;
  while (fgets(line, MAXLINE, stdin)) {
    size_t len = strlen(line);
    while (len && (line[len - 1] == '\n' || line[len - 1] == '\r')) line[--len] = 0;
    if (!len || line[0] == '#') continue;
    /* split on blanks */
    int cap = 16, ac = 0;
    char **av = malloc(sizeof(char *) * cap);
    char *save = NULL;
    for (char *t = strtok_r(line, " \t", &save); t; t = strtok_r(NULL, " \t", &save)) {
      if (ac + 2 >= cap) { cap *= 2; av = realloc(av, sizeof(char *) * cap); }
      av[ac++] = t;
    }
    av[ac] = NULL;
    if (ac < 2) { free(av); continue; }
    fflush(stdout);
    pid_t pid = fork();
    if (pid == 0) {
      const char *lim = getenv("IOH_AS_LIMIT_MB"); /* address-space cap of the child (not usable with ASan) */
      if (lim && atol(lim) > 0) {
        struct rlimit rl;
        rl.rlim_cur = rl.rlim_max = (rlim_t)atol(lim) << 20;
        setrlimit(RLIMIT_AS, &rl);
      }
      int fd = open(errfile, O_WRONLY | O_CREAT | O_TRUNC, 0600);
      if (fd >= 0) { dup2(fd, 2); close(fd); }
      int r = do_command(ac, av);
      fflush(stdout);
      _exit(r);
    }
    int status = 0, done = 0;
    struct timespec t0, t1, ts = {0, 500000};
    clock_gettime(CLOCK_MONOTONIC, &t0);
    for (;;) {
      pid_t w = waitpid(pid, &status, WNOHANG);
      if (w == pid) { done = 1; break; }
      clock_gettime(CLOCK_MONOTONIC, &t1);
      if ((t1.tv_sec - t0.tv_sec) >= timeout_s) break;
      nanosleep(&ts, NULL);
      if (ts.tv_nsec < 20000000) ts.tv_nsec *= 2;
    }
    if (!done) { kill(pid, SIGKILL); waitpid(pid, &status, 0); }
    printf("FATE %s ", av[1]);
    if (!done) printf("TIMEOUT 0 ");
    else if (WIFSIGNALED(status)) printf("SIGNAL %d ", WTERMSIG(status));
    else printf("EXIT %d ", WEXITSTATUS(status));
    FILE *ef = fopen(errfile, "rb");
    if (ef) {
      int c, k = 0;
      while ((c = fgetc(ef)) != EOF && k++ < 1500) {
        if (c > 32 && c < 127 && c != '%') putchar(c);
        else printf("%%%02x", c & 0xff);
      }
      fclose(ef);
      unlink(errfile);
    }
    printf("\n");
    fflush(stdout);
    free(av);
  }
  return 0;
}
