/* C20 fault enumeration harness.
 *
 *   fault_harness <scenario> <i>      i >= 0 : the i-th (from 0) allocation request made after the
 *                                              scenario's start fails (NULL / ENOMEM), all others pass
 *                                     i = -1 : nothing fails; print "COUNT <n> ZERO <z>" on stdout
 *                                     i = -2 : nothing fails; one "[fh] REQ ..." line per request
 *   fault_harness list                names of all scenarios
 *
 * Linked with -Wl,--wrap= for malloc calloc realloc posix_memalign aligned_alloc memalign valloc
 * reallocarray strdup strndup abort, and with libpng16.a + libz.a (static, so that their requests go
 * through the same wrappers).  With SSE2 gcc's _mm_malloc is an inline function around
 * posix_memalign.  Requests of libc itself (stdio buffers, localtime) are not intercepted.
 *
 * A request is numbered only between fh_begin() and fh_end() -- set-up of the inputs is not part of
 * the scenario -- and only if its size is not 0 (a 0-byte request has nothing to fail; they are
 * counted separately as ZERO).
 *
 * Protocol on stderr (lines starting with "[fh] " are the harness's, everything else is the
 * library's):   [fh] INJECT i=<i> fn=<allocator> size=<bytes> ra=<return address>
 *               [fh] ABORT ra=<return address of the abort() call>
 *               [fh] RETURNED status=<ok|err> detail=<text>
 * Exit status: 0 = scenario ran to completion and no fault was injected; 10 = a fault was injected
 * and the routine returned an error indication; 11 = a fault was injected and the routine returned
 * normally; 12 = as 11 and the result was checked and is wrong; 2 = usage.  Anything else is the
 * library's doing (SIGABRT via m4ri_die is the expected fate). */
#define _GNU_SOURCE
#include <errno.h>
#include <execinfo.h>
#include <stdint.h>
#include <stdio.h>
#include <stdlib.h>
#include <string.h>
#include <unistd.h>

#include <m4ri/m4ri.h>

/* ------------------------------------------------------------------------------------------- */
/* interposition                                                                               */
/* ------------------------------------------------------------------------------------------- */
void *__real_malloc(size_t);
void *__real_calloc(size_t, size_t);
void *__real_realloc(void *, size_t);
int __real_posix_memalign(void **, size_t, size_t);
void *__real_aligned_alloc(size_t, size_t);
void *__real_memalign(size_t, size_t);
void *__real_valloc(size_t);
void *__real_reallocarray(void *, size_t, size_t);
char *__real_strdup(const char *);
char *__real_strndup(const char *, size_t);
void __real_abort(void) __attribute__((noreturn));

static volatile long fh_active = 0, fh_count = 0, fh_zero = 0, fh_injected = 0;
static long fh_target = -1;

static void fh_say(const char *s) {
  size_t n = strlen(s);
  while (n) {
    ssize_t w = write(2, s, n);
    if (w <= 0) break;
    s += w;
    n -= (size_t)w;
  }
}

/* call chain of the request (return addresses, innermost first, the two harness frames dropped) */
static void fh_chain(char *out, size_t cap, void *ra) {
  void *bt[14];
  static __thread int busy = 0;
  int n = 0;
  if (!busy) {
    busy = 1;
    n = backtrace(bt, 14);
    busy = 0;
  }
  size_t k = 0;
  out[0] = 0;
  if (n <= 2) {
    snprintf(out, cap, "%p", ra);
    return;
  }
  for (int j = 2; j < n && k + 20 < cap; j++) k += (size_t)snprintf(out + k, cap - k, "%s%p", j > 2 ? "," : "", bt[j]);
}

static int fh_fail(const char *fn, size_t size, void *ra) {
  if (!fh_active) return 0;
  if (size == 0) {
    __atomic_fetch_add(&fh_zero, 1, __ATOMIC_SEQ_CST);
    return 0;
  }
  long n = __atomic_fetch_add(&fh_count, 1, __ATOMIC_SEQ_CST);
  char buf[420], chain[300];
  if (fh_target == -2) {
    fh_chain(chain, sizeof chain, ra);
    snprintf(buf, sizeof buf, "[fh] REQ i=%ld fn=%s size=%zu ra=%s\n", n, fn, size, chain);
    fh_say(buf);
    return 0;
  }
  if (n == fh_target) {
    fh_injected = 1;
    fh_chain(chain, sizeof chain, ra);
    snprintf(buf, sizeof buf, "[fh] INJECT i=%ld fn=%s size=%zu ra=%s\n", n, fn, size, chain);
    fh_say(buf);
    return 1;
  }
  return 0;
}

#define RA __builtin_return_address(0)

void *__wrap_malloc(size_t n) { return fh_fail("malloc", n, RA) ? NULL : __real_malloc(n); }
void *__wrap_calloc(size_t c, size_t n) { return fh_fail("calloc", c * n, RA) ? NULL : __real_calloc(c, n); }
void *__wrap_realloc(void *p, size_t n) { return fh_fail("realloc", n, RA) ? NULL : __real_realloc(p, n); }
int __wrap_posix_memalign(void **p, size_t a, size_t n) {
  return fh_fail("posix_memalign", n, RA) ? ENOMEM : __real_posix_memalign(p, a, n);
}
void *__wrap_aligned_alloc(size_t a, size_t n) { return fh_fail("aligned_alloc", n, RA) ? NULL : __real_aligned_alloc(a, n); }
void *__wrap_memalign(size_t a, size_t n) { return fh_fail("memalign", n, RA) ? NULL : __real_memalign(a, n); }
void *__wrap_valloc(size_t n) { return fh_fail("valloc", n, RA) ? NULL : __real_valloc(n); }
void *__wrap_reallocarray(void *p, size_t c, size_t n) {
  return fh_fail("reallocarray", c * n, RA) ? NULL : __real_reallocarray(p, c, n);
}
char *__wrap_strdup(const char *s) { return fh_fail("strdup", strlen(s) + 1, RA) ? NULL : __real_strdup(s); }
char *__wrap_strndup(const char *s, size_t n) { return fh_fail("strndup", n + 1, RA) ? NULL : __real_strndup(s, n); }

void __wrap_abort(void) {
  char buf[96];
  snprintf(buf, sizeof buf, "\n[fh] ABORT ra=%p\n", RA);
  fh_say(buf);
  __real_abort();
}

static void fh_begin(void) {
  fflush(stdout);
  fh_count = 0;
  fh_zero = 0;
  fh_active = 1;
}
static void fh_end(void) { fh_active = 0; }

/* ------------------------------------------------------------------------------------------- */
/* inputs                                                                                      */
/* ------------------------------------------------------------------------------------------- */
static uint64_t rng_state = 0x9E3779B97F4A7C15ULL;
static uint64_t rng(void) {
  uint64_t x = rng_state;
  x ^= x << 13;
  x ^= x >> 7;
  x ^= x << 17;
  return rng_state = x;
}

static mzd_t *rnd(rci_t r, rci_t c) {
  mzd_t *A = mzd_init(r, c);
  for (rci_t i = 0; i < r; i++)
    for (rci_t j = 0; j < c; j++)
      if (rng() & 1) mzd_write_bit(A, i, j, 1);
  return A;
}

/* random matrix of rank <= rk (product of thin factors) */
static mzd_t *rnd_rank(rci_t r, rci_t c, rci_t rk) {
  mzd_t *X = rnd(r, rk), *Y = rnd(rk, c);
  mzd_t *A = mzd_mul_naive(NULL, X, Y);
  mzd_free(X);
  mzd_free(Y);
  return A;
}

static mzd_t *rnd_upper(rci_t n) { /* unit upper triangular */
  mzd_t *U = rnd(n, n);
  for (rci_t i = 0; i < n; i++) {
    for (rci_t j = 0; j < i; j++) mzd_write_bit(U, i, j, 0);
    mzd_write_bit(U, i, i, 1);
  }
  return U;
}
static mzd_t *rnd_lower(rci_t n) {
  mzd_t *L = rnd(n, n);
  for (rci_t i = 0; i < n; i++) {
    for (rci_t j = i + 1; j < n; j++) mzd_write_bit(L, i, j, 0);
    mzd_write_bit(L, i, i, 1);
  }
  return L;
}
static mzd_t *rnd_invertible(rci_t n) {
  mzd_t *L = rnd_lower(n), *U = rnd_upper(n);
  mzd_t *A = mzd_mul_naive(NULL, L, U);
  mzd_free(L);
  mzd_free(U);
  return A;
}
static mzp_t *rnd_perm(rci_t n) {
  mzp_t *P = mzp_init(n);
  for (rci_t i = 0; i < n; i++) P->values[i] = i + (rci_t)(rng() % (uint64_t)(n - i));
  return P;
}

static char tmp_path[512];
static const char *tmpfile_name(const char *ext) {
  const char *d = getenv("FH_TMP");
  snprintf(tmp_path, sizeof tmp_path, "%s/fh-%ld.%s", d ? d : "/var/tmp", (long)getpid(), ext);
  return tmp_path;
}

/* result of a scenario */
static int st_err = 0;           /* the routine signalled an error through its return value */
static int st_bad = 0;           /* the result was checked after a normal return and is wrong */
static const char *st_detail = "";

/* ------------------------------------------------------------------------------------------- */
/* scenarios                                                                                   */
/* ------------------------------------------------------------------------------------------- */
typedef struct heap heap_t;
heap_t *heap_init(void);
void heap_push(heap_t *h, rci_t value, const mzd_t *A);
void heap_pop(heap_t *h, const mzd_t *A);
void heap_free(heap_t *h);

#define NEEDP(p)                                                                                   \
  do {                                                                                             \
    if ((p) == NULL) {                                                                             \
      st_err = 1;                                                                                  \
      st_detail = "returned NULL";                                                                 \
    }                                                                                              \
  } while (0)

static void sc_init(void) {
  fh_begin();
  mzd_t *A = mzd_init(200, 300);
  fh_end();
  NEEDP(A);
}
static void sc_init_cached(void) { /* same size as a block just freed: served by the block cache */
  mzd_t *B = mzd_init(70, 130);
  mzd_free(B);
  fh_begin();
  mzd_t *A = mzd_init(70, 130);
  fh_end();
  NEEDP(A);
}
static void sc_init_many(void) { /* more than 64 live headers: a new header block is allocated */
  fh_begin();
  for (int i = 0; i < 70; i++) (void)mzd_init(3, 70 + i);
  fh_end();
}
static void sc_window(void) {
  mzd_t *A = rnd(200, 300);
  fh_begin();
  mzd_t *W = mzd_init_window(A, 10, 64, 150, 250);
  fh_end();
  NEEDP(W);
}
static void sc_window_many(void) {
  mzd_t *A = rnd(200, 300);
  fh_begin();
  for (int i = 0; i < 70; i++) (void)mzd_init_window(A, i, 64, 150, 250);
  fh_end();
}
static void sc_window_spill(void) { /* beyond 17 * 64 live headers: plain m4ri_mm_malloc per header */
  mzd_t *A = rnd(20, 300);
  fh_begin();
  for (int i = 0; i < 1200; i++) (void)mzd_init_window(A, i % 20, 64, 20, 250);
  fh_end();
}
static void sc_mzp_init(void) {
  fh_begin();
  mzp_t *P = mzp_init(300);
  fh_end();
  NEEDP(P);
}
static void sc_mzp_init_window(void) {
  mzp_t *P = mzp_init(300);
  fh_begin();
  mzp_t *W = mzp_init_window(P, 10, 100);
  fh_end();
  NEEDP(W);
}
static void sc_mzp_copy(void) {
  mzp_t *P = rnd_perm(200);
  fh_begin();
  mzp_t *Q = mzp_copy(NULL, P);
  fh_end();
  NEEDP(Q);
}
static void sc_ple_table_init(void) {
  fh_begin();
  ple_table_t *T = ple_table_init(5, 200);
  fh_end();
  NEEDP(T);
}
static void sc_build_all_codes(void) {
  m4ri_destroy_all_codes();
  fh_begin();
  m4ri_build_all_codes();
  fh_end();
}
static void sc_heap(void) {
  mzd_t *A = rnd(40, 40);
  fh_begin();
  heap_t *h = heap_init();
  for (rci_t i = 0; i < 40; i++) heap_push(h, i, A);
  for (rci_t i = 0; i < 38; i++) heap_pop(h, A);
  fh_end();
  heap_free(h);
}
static void sc_djb_queue(void) { /* djb_init + 200 pushes: three growth steps */
  fh_begin();
  djb_t *z = djb_init(100, 100);
  for (int i = 0; i < 200; i++) djb_push_back(z, i % 100, (i * 7) % 100, source_source);
  fh_end();
  if (z->length != 200) st_bad = 1;
}

#define MUL_SC(name, call)                                                                         \
  static void sc_##name(void) {                                                                    \
    mzd_t *A = rnd(ma, ka), *B = rnd(ka, na), *C0 = rnd(ma, na);                                   \
    (void)C0;                                                                                      \
    fh_begin();                                                                                    \
    mzd_t *C = call;                                                                               \
    fh_end();                                                                                      \
    NEEDP(C);                                                                                      \
  }
enum { ma = 200, ka = 170, na = 230 };
MUL_SC(mul_naive, mzd_mul_naive(NULL, A, B))
MUL_SC(addmul_naive, mzd_addmul_naive(C0, A, B))
MUL_SC(mul_m4rm, mzd_mul_m4rm(NULL, A, B, 0))
MUL_SC(addmul_m4rm, mzd_addmul_m4rm(C0, A, B, 0))
MUL_SC(mul_m4rm_k4, mzd_mul_m4rm(NULL, A, B, 4))

static void sc_mul(void) { /* Strassen-Winograd, cutoff 64: two levels of recursion at 256 */
  mzd_t *A = rnd(256, 256), *B = rnd(256, 256);
  fh_begin();
  mzd_t *C = mzd_mul(NULL, A, B, 64);
  fh_end();
  NEEDP(C);
}
static void sc_mul_odd(void) { /* dimensions that are not multiples of the split: peeling */
  mzd_t *A = rnd(300, 270), *B = rnd(270, 330);
  fh_begin();
  mzd_t *C = mzd_mul(NULL, A, B, 128);
  fh_end();
  NEEDP(C);
}
static void sc_addmul(void) {
  mzd_t *A = rnd(256, 256), *B = rnd(256, 256), *C = rnd(256, 256);
  fh_begin();
  mzd_t *R = mzd_addmul(C, A, B, 64);
  fh_end();
  NEEDP(R);
}
static void sc_sqr(void) { /* A == B route of the Strassen code */
  mzd_t *A = rnd(256, 256);
  fh_begin();
  mzd_t *C = mzd_mul(NULL, A, A, 64);
  fh_end();
  NEEDP(C);
}
#if __M4RI_HAVE_OPENMP
static void sc_mul_mp(void) {
  mzd_t *A = rnd(256, 256), *B = rnd(256, 256);
  fh_begin();
  mzd_t *C = mzd_mul_mp(NULL, A, B, 64);
  fh_end();
  NEEDP(C);
}
static void sc_addmul_mp(void) {
  mzd_t *A = rnd(256, 256), *B = rnd(256, 256), *C = rnd(256, 256);
  fh_begin();
  mzd_t *R = mzd_addmul_mp(C, A, B, 64);
  fh_end();
  NEEDP(R);
}
#endif

#define ECH_SC(name, r, c, rk, call)                                                               \
  static void sc_##name(void) {                                                                    \
    mzd_t *A = rnd_rank(r, c, rk);                                                                 \
    fh_begin();                                                                                    \
    (void)(call);                                                                                  \
    fh_end();                                                                                      \
  }
ECH_SC(echelonize_m4ri, 200, 260, 150, mzd_echelonize_m4ri(A, 1, 0))
ECH_SC(echelonize_m4ri_k5, 200, 260, 150, mzd_echelonize_m4ri(A, 0, 5))
ECH_SC(echelonize_pluq, 200, 260, 150, mzd_echelonize_pluq(A, 1))
ECH_SC(echelonize_naive, 130, 160, 100, mzd_echelonize_naive(A, 1))
ECH_SC(echelonize, 200, 260, 150, mzd_echelonize(A, 1))
ECH_SC(top_echelonize_m4ri, 200, 260, 150, mzd_top_echelonize_m4ri(A, 0))

#define PLE_SC(name, r, c, rk, call)                                                               \
  static void sc_##name(void) {                                                                    \
    mzd_t *A = rnd_rank(r, c, rk);                                                                 \
    mzp_t *P = mzp_init(r), *Q = mzp_init(c);                                                      \
    fh_begin();                                                                                    \
    (void)(call);                                                                                  \
    fh_end();                                                                                      \
  }
PLE_SC(ple, 200, 260, 150, mzd_ple(A, P, Q, 0))
PLE_SC(ple_big, 600, 1100, 500, mzd_ple(A, P, Q, 0)) /* recursive route in the small-cache builds */
PLE_SC(pluq, 200, 260, 150, mzd_pluq(A, P, Q, 0))
PLE_SC(ple_russian, 200, 260, 150, _mzd_ple_russian(A, P, Q, 0))
PLE_SC(ple_naive, 130, 160, 100, _mzd_ple_naive(A, P, Q))

static void sc_inv_m4ri(void) {
  mzd_t *A = rnd_invertible(200);
  fh_begin();
  mzd_t *I = mzd_inv_m4ri(NULL, A, 0);
  fh_end();
  NEEDP(I);
}
static void sc_invert_naive(void) {
  mzd_t *A = rnd_invertible(130);
  mzd_t *I = mzd_init(130, 130);
  mzd_set_ui(I, 1);
  fh_begin();
  mzd_t *R = mzd_invert_naive(NULL, A, I);
  fh_end();
  NEEDP(R);
}
static void sc_trtri_upper(void) {
  mzd_t *U = rnd_upper(300);
  fh_begin();
  mzd_t *R = mzd_trtri_upper(U);
  fh_end();
  NEEDP(R);
}
#define TRSM_SC(name, mk, call, br, bc)                                                            \
  static void sc_##name(void) {                                                                    \
    mzd_t *T = mk(300);                                                                            \
    mzd_t *B = rnd(br, bc);                                                                        \
    fh_begin();                                                                                    \
    call;                                                                                          \
    fh_end();                                                                                      \
  }
TRSM_SC(trsm_upper_left, rnd_upper, mzd_trsm_upper_left(T, B, 0), 300, 170)
TRSM_SC(trsm_lower_left, rnd_lower, mzd_trsm_lower_left(T, B, 0), 300, 170)
TRSM_SC(trsm_upper_right, rnd_upper, mzd_trsm_upper_right(T, B, 0), 170, 300)
TRSM_SC(trsm_lower_right, rnd_lower, mzd_trsm_lower_right(T, B, 0), 170, 300)
TRSM_SC(trsm_upper_left_cutoff, rnd_upper, mzd_trsm_upper_left(T, B, 64), 300, 170)
TRSM_SC(trsm_lower_left_cutoff, rnd_lower, mzd_trsm_lower_left(T, B, 64), 300, 170)

static void sc_solve_left(void) {
  mzd_t *A = rnd_invertible(200);
  mzd_t *B = rnd(200, 90);
  fh_begin();
  int r = mzd_solve_left(A, B, 0, 1);
  fh_end();
  if (r != 0) {
    st_err = 1;
    st_detail = "mzd_solve_left != 0";
  }
}
static void sc_solve_left_rect(void) { /* more rows than columns, consistent system */
  mzd_t *A = rnd(260, 180);
  mzd_t *X = rnd(180, 70);
  mzd_t *B = mzd_mul_naive(NULL, A, X);
  fh_begin();
  int r = mzd_solve_left(A, B, 0, 1);
  fh_end();
  if (r != 0) {
    st_err = 1;
    st_detail = "mzd_solve_left != 0";
  }
}
static void sc_pluq_solve_left(void) {
  mzd_t *A = rnd_invertible(200);
  mzd_t *B = rnd(200, 90);
  mzp_t *P = mzp_init(200), *Q = mzp_init(200);
  rci_t r = mzd_pluq(A, P, Q, 0);
  fh_begin();
  int rc = mzd_pluq_solve_left(A, r, P, Q, B, 0, 1);
  fh_end();
  if (rc != 0) {
    st_err = 1;
    st_detail = "mzd_pluq_solve_left != 0";
  }
}
static void sc_kernel_left_pluq(void) {
  mzd_t *A = rnd_rank(200, 260, 150);
  fh_begin();
  mzd_t *K = mzd_kernel_left_pluq(A, 0);
  fh_end();
  NEEDP(K);
}
static void sc_transpose(void) {
  mzd_t *A = rnd(200, 300);
  fh_begin();
  mzd_t *T = mzd_transpose(NULL, A);
  fh_end();
  NEEDP(T);
}
static void sc_transpose_big(void) { /* above the 512/768 thresholds of the recursive route */
  mzd_t *A = rnd(900, 1100);
  fh_begin();
  mzd_t *T = mzd_transpose(NULL, A);
  fh_end();
  NEEDP(T);
}
static void sc_copy(void) {
  mzd_t *A = rnd(200, 300);
  fh_begin();
  mzd_t *T = mzd_copy(NULL, A);
  fh_end();
  NEEDP(T);
}
static void sc_concat(void) {
  mzd_t *A = rnd(200, 130), *B = rnd(200, 170);
  fh_begin();
  mzd_t *T = mzd_concat(NULL, A, B);
  fh_end();
  NEEDP(T);
}
static void sc_stack(void) {
  mzd_t *A = rnd(130, 200), *B = rnd(170, 200);
  fh_begin();
  mzd_t *T = mzd_stack(NULL, A, B);
  fh_end();
  NEEDP(T);
}
static void sc_submatrix(void) {
  mzd_t *A = rnd(200, 300);
  fh_begin();
  mzd_t *T = mzd_submatrix(NULL, A, 10, 70, 150, 290);
  fh_end();
  NEEDP(T);
}
static void sc_add(void) {
  mzd_t *A = rnd(200, 300), *B = rnd(200, 300);
  fh_begin();
  mzd_t *T = mzd_add(NULL, A, B);
  fh_end();
  NEEDP(T);
}
static void sc_extract_u(void) {
  mzd_t *A = rnd(200, 200);
  fh_begin();
  mzd_t *T = mzd_extract_u(NULL, A);
  fh_end();
  NEEDP(T);
}
static void sc_extract_l(void) {
  mzd_t *A = rnd(200, 200);
  fh_begin();
  mzd_t *T = mzd_extract_l(NULL, A);
  fh_end();
  NEEDP(T);
}
#define PERM_SC(name, n, call)                                                                     \
  static void sc_##name(void) {                                                                    \
    mzd_t *A = rnd(200, 300);                                                                      \
    mzp_t *P = rnd_perm(n);                                                                        \
    fh_begin();                                                                                    \
    call;                                                                                          \
    fh_end();                                                                                      \
  }
PERM_SC(apply_p_left, 200, mzd_apply_p_left(A, P))
PERM_SC(apply_p_left_trans, 200, mzd_apply_p_left_trans(A, P))
PERM_SC(apply_p_right, 300, mzd_apply_p_right(A, P))
PERM_SC(apply_p_right_trans, 300, mzd_apply_p_right_trans(A, P))
PERM_SC(apply_p_right_trans_tri, 300, mzd_apply_p_right_trans_tri(A, P))

static void sc_to_png(void) {
  mzd_t *A = rnd(200, 300);
  const char *fn = tmpfile_name("png");
  fh_begin();
  int r = mzd_to_png(A, fn, 6, "fault harness", 0);
  fh_end();
  if (r != 0) {
    st_err = 1;
    st_detail = "mzd_to_png != 0";
  } else if (fh_injected) { /* normal return after a failed request: is the file the matrix? */
    mzd_t *B = mzd_from_png(fn, 0);
    if (B == NULL || B->nrows != A->nrows || B->ncols != A->ncols || mzd_cmp(A, B) != 0) {
      st_bad = 1;
      st_detail = "file written after the failure does not hold the matrix";
    } else {
      st_detail = "file holds the matrix";
    }
  }
  unlink(fn);
}
static void sc_from_png(void) {
  mzd_t *A = rnd(200, 300);
  const char *fn = tmpfile_name("png");
  if (mzd_to_png(A, fn, 6, "fault harness", 0) != 0) {
    fh_say("[fh] SETUP-FAILED to_png\n");
    exit(2);
  }
  fh_begin();
  mzd_t *B = mzd_from_png(fn, 0);
  fh_end();
  unlink(fn);
  if (B == NULL) {
    st_err = 1;
    st_detail = "mzd_from_png returned NULL";
  } else if (fh_injected && (B->nrows != A->nrows || B->ncols != A->ncols || mzd_cmp(A, B) != 0)) {
    st_bad = 1;
    st_detail = "matrix read after the failure differs from the one written";
  }
}
static void sc_from_jcf(void) {
  const char *fn = tmpfile_name("jcf");
  FILE *f = fopen(fn, "w");
  fprintf(f, "150 200 2\n%d\n\n", 150 * 3);
  for (int i = 0; i < 150; i++) fprintf(f, "-%d\n%d\n%d\n", (i * 7) % 200 + 1, (i * 11 + 3) % 200 + 1, (i * 13 + 5) % 200 + 1);
  fclose(f);
  fh_begin();
  mzd_t *B = mzd_from_jcf(fn, 0);
  fh_end();
  unlink(fn);
  if (B == NULL) {
    st_err = 1;
    st_detail = "mzd_from_jcf returned NULL";
  }
}
static void sc_from_str(void) {
  static char s[130 * 140 + 1];
  for (int i = 0; i < 130 * 140; i++) s[i] = (rng() & 1) ? '1' : '0';
  s[130 * 140] = 0;
  fh_begin();
  mzd_t *B = mzd_from_str(130, 140, s);
  fh_end();
  NEEDP(B);
}
static void sc_djb_compile(void) { /* dense 100 x 100: far more than M4RI_DJB_BASE_SIZE operations */
  mzd_t *A = rnd(100, 100);
  fh_begin();
  djb_t *z = djb_compile(A);
  fh_end();
  NEEDP(z);
  if (z && z->length <= M4RI_DJB_BASE_SIZE) {
    fh_say("[fh] SETUP-FAILED djb queue did not grow\n");
    exit(2);
  }
}
static void sc_djb_compile_small(void) { /* fewer than 64 operations: the queue never grows */
  mzd_t *A = mzd_init(8, 8);
  for (int i = 0; i < 8; i++) {
    mzd_write_bit(A, i, i, 1);
    mzd_write_bit(A, i, (i + 3) % 8, 1);
  }
  fh_begin();
  djb_t *z = djb_compile(A);
  fh_end();
  NEEDP(z);
}
static void sc_djb_apply_mzd(void) {
  mzd_t *A = rnd(100, 100);
  mzd_t *A2 = mzd_copy(NULL, A);
  djb_t *z = djb_compile(A2);
  mzd_t *V = rnd(100, 150), *W = mzd_init(100, 150);
  fh_begin();
  djb_apply_mzd(z, W, V);
  fh_end();
}
static void sc_djb_print(void) {
  mzd_t *A = rnd(20, 20);
  djb_t *z = djb_compile(A);
  FILE *keep = stdout;
  stdout = fopen("/dev/null", "w");
  fh_begin();
  djb_print(z);
  fh_end();
  fclose(stdout);
  stdout = keep;
}

typedef struct {
  const char *name;
  void (*fn)(void);
} scenario_t;
#define S(n) {#n, sc_##n}
static const scenario_t scenarios[] = {
    S(init), S(init_cached), S(init_many), S(window), S(window_many), S(window_spill), S(mzp_init), S(mzp_init_window), S(mzp_copy),
    S(ple_table_init), S(build_all_codes), S(heap), S(djb_queue),
    S(mul_naive), S(addmul_naive), S(mul_m4rm), S(addmul_m4rm), S(mul_m4rm_k4), S(mul), S(mul_odd), S(addmul), S(sqr),
#if __M4RI_HAVE_OPENMP
    S(mul_mp), S(addmul_mp),
#endif
    S(echelonize_m4ri), S(echelonize_m4ri_k5), S(echelonize_pluq), S(echelonize_naive), S(echelonize),
    S(top_echelonize_m4ri), S(ple), S(ple_big), S(pluq), S(ple_russian), S(ple_naive),
    S(inv_m4ri), S(invert_naive), S(trtri_upper),
    S(trsm_upper_left), S(trsm_lower_left), S(trsm_upper_right), S(trsm_lower_right),
    S(trsm_upper_left_cutoff), S(trsm_lower_left_cutoff),
    S(solve_left), S(solve_left_rect), S(pluq_solve_left), S(kernel_left_pluq),
    S(transpose), S(transpose_big), S(copy), S(concat), S(stack), S(submatrix), S(add), S(extract_u), S(extract_l),
    S(apply_p_left), S(apply_p_left_trans), S(apply_p_right), S(apply_p_right_trans), S(apply_p_right_trans_tri),
    S(to_png), S(from_png), S(from_jcf), S(from_str),
    S(djb_compile), S(djb_compile_small), S(djb_apply_mzd), S(djb_print),
};

int main(int argc, char **argv) {
  if (argc == 2 && !strcmp(argv[1], "list")) {
    for (size_t i = 0; i < sizeof scenarios / sizeof *scenarios; i++) puts(scenarios[i].name);
    return 0;
  }
  if (argc != 3) {
    fprintf(stderr, "usage: fault_harness <scenario> <i> | list\n");
    return 2;
  }
  fh_target = atol(argv[2]);
  {
    void *warm[4]; /* let backtrace() do its one-time allocations before anything is counted */
    (void)backtrace(warm, 4);
  }
  rng_state ^= 0x1234567ULL * (uint64_t)(getenv("FH_SEED") ? atol(getenv("FH_SEED")) : 1);
  for (size_t i = 0; i < sizeof scenarios / sizeof *scenarios; i++) {
    if (strcmp(scenarios[i].name, argv[1])) continue;
    scenarios[i].fn();
    if (fh_target < 0) {
      printf("COUNT %ld ZERO %ld\n", (long)fh_count, (long)fh_zero);
      return 0;
    }
    if (!fh_injected) {
      printf("NOT-REACHED %ld\n", (long)fh_count);
      return 0;
    }
    char buf[400];
    snprintf(buf, sizeof buf, "[fh] RETURNED status=%s detail=%s\n", st_bad ? "bad" : st_err ? "err" : "ok", st_detail);
    fh_say(buf);
    return st_bad ? 12 : st_err ? 10 : 11;
  }
  fprintf(stderr, "unknown scenario %s\n", argv[1]);
  return 2;
}
