#!/usr/bin/env python3
"""keep_mutant.py ID k NAME  'needs...'  'caught_by...' : copy a confirmed seeded change from /tmp/mut/ID-out into /verif/seeded/NAME/"""
import json, os, shutil, sys
ID, k, name, needs, caught = sys.argv[1:6]
src = "/tmp/mut/%s-out" % ID
dst = os.path.join(os.path.dirname(os.path.dirname(os.path.abspath(__file__))), "seeded", name)
os.makedirs(dst, exist_ok=True)
shutil.copy(os.path.join(src, "mutant%s.diff" % k), os.path.join(dst, "patch.diff"))
shutil.copy(os.path.join(src, "demo%s.c" % k), os.path.join(dst, "demo.c"))
shutil.copy(os.path.join(src, "notes%s.txt" % k), os.path.join(dst, "notes.txt"))
conf = open(os.path.join(src, "confirm%s.log" % k)).read().strip().split("\n")
meta = {
    "property": ID,
    "origin": "fresh sub-agent given only the property text and a scratch worktree of /repo (nothing from /verif)",
    "what": open(os.path.join(src, "notes%s.txt" % k)).read().strip().split("\n")[0][:300],
    "needs_to_manifest": needs,
    "confirmed": {
        "how": "tools/confirm_mutant.sh %s %s in the scratch worktree: git apply patch.diff; make -j8; make -j8 check; build+run demo.c; git checkout; rebuild; run demo.c" % (ID, k),
        "suite_with_change": conf[0] if conf else "",
        "demo_with_change": conf[1] if len(conf) > 1 else "",
        "demo_without_change": conf[2] if len(conf) > 2 else "",
    },
    "checks_run": caught,
}
json.dump(meta, open(os.path.join(dst, "meta.json"), "w"), indent=1)
print(dst)
