#!/usr/bin/env python3
"""Translator T1: leaf C functions of m4ri  ->  CMini terms (coq/Leaf/Gen_leaf.v).

Runs `clang -fsyntax-only -Xclang -ast-dump=json` on small stub translation units that include
the m4ri headers / sources from a scratch copy of the *current working tree* of the repository
(vlib.copy_tree + an instantiated m4ri_config.h), walks the JSON AST and prints one Coq term of
type `CMini.func` per function.  Every expression keeps the C type clang computed for it and
every implicit or explicit conversion that changes the integer type.

A construct outside the supported subset makes the translator REFUSE the whole function (never
skip a statement): the function is then absent from Gen_leaf.v, the Coq development no longer
compiles, and tools/props/c19.py reports the refusal as a broken obligation.

Usage:  translate.py [--transpose] [--stdout]     (exit status 1 if any required function was refused)
        --transpose: the transpose kernels of mzd.c in offset mode -> coq/Leaf/Gen_transpose.v (class FnP)
"""
import json, os, re, subprocess, sys

sys.path.insert(0, os.path.dirname(os.path.abspath(__file__)))
import vlib

GEN = os.path.join(vlib.COQ, "Leaf", "Gen_leaf.v")

# ------------------------------------------------------------------------------------------------
# What is translated.  (stub source, [(C name, name in the Coq program)])
# Callees are pulled in automatically under their C name.
# ------------------------------------------------------------------------------------------------
STUB_MAIN = r'''
#include <m4ri/m4ri.h>
#include <m4ri/parity.h>
#include <m4ri/graycode.c>
word stub_left_bitmask(int n) { return __M4RI_LEFT_BITMASK(n); }
word stub_right_bitmask(int n) { return __M4RI_RIGHT_BITMASK(n); }
word stub_middle_bitmask(int n, int offset) { return __M4RI_MIDDLE_BITMASK(n, offset); }
int stub_twopow_int(int i) { return (int)__M4RI_TWOPOW(i); }
int stub_get_bit(word w, int spot) { return __M4RI_GET_BIT(w, spot); }
'''

STUB_MZD = r'''
#include <m4ri/mzd.c>
'''

UNITS = [
    ("main", STUB_MAIN, [
        ("m4ri_gray_code", "m4ri_gray_code"),
        ("m4ri_build_code", "m4ri_build_code"),
        ("m4ri_parity64_helper", "m4ri_parity64_helper"),
        ("m4ri_parity64", "m4ri_parity64"),
        ("m4ri_swap_bits", "m4ri_swap_bits"),
        ("m4ri_spread_bits", "m4ri_spread_bits"),
        ("m4ri_shrink_bits", "m4ri_shrink_bits"),
        ("m4ri_lesser_LSB", "m4ri_lesser_LSB"),
        ("log2_floor", "log2_floor"),
        ("stub_left_bitmask", "stub_left_bitmask"),
        ("stub_right_bitmask", "stub_right_bitmask"),
        ("stub_middle_bitmask", "stub_middle_bitmask"),
        ("stub_twopow_int", "stub_twopow_int"),
        ("stub_get_bit", "stub_get_bit"),
    ]),
    # the second log2_floor (uint64_t argument) is a static function of mzd.c
    ("mzd", STUB_MZD, [
        ("log2_floor", "mzd_log2_floor"),
    ]),
]

DIE_FUNCTIONS = ("abort", "m4ri_die", "exit", "__assert_fail")


class Refuse(Exception):
    pass


# ------------------------------------------------------------------------------------------------
# C types (LP64)
# ------------------------------------------------------------------------------------------------
BASE = {
    "char": "tschar", "signed char": "tschar", "unsigned char": "tuchar",
    "short": "tshort", "unsigned short": "tushort",
    "int": "tint", "unsigned int": "tuint", "unsigned": "tuint",
    "long": "tlong", "unsigned long": "tulong",
    "long long": "tlong", "unsigned long long": "tulong",
}
RANK = {"tschar": 8, "tuchar": 8, "tshort": 16, "tushort": 16, "tint": 32, "tuint": 32, "tlong": 64, "tulong": 64}
SIGNED = {"tschar", "tshort", "tint", "tlong"}


def trange(t):
    b = RANK[t]
    return (-(1 << (b - 1)), (1 << (b - 1)) - 1) if t in SIGNED else (0, (1 << b) - 1)


def promote(t):
    return "tint" if RANK[t] < 32 else t


class Unit:
    """One parsed translation unit."""

    def __init__(self, name, stub, incdir, flags):
        self.name = name
        src = os.path.join(vlib.scratch(), "stub_%s.c" % name)
        with open(src, "w") as fh:
            fh.write(stub)
        cmd = ["clang", "-fsyntax-only", "-w", "-std=gnu99"] + flags + ["-I" + incdir, "-Xclang", "-ast-dump=json", src]
        p = subprocess.run(cmd, stdout=subprocess.PIPE, stderr=subprocess.PIPE, text=True)
        if p.returncode != 0:
            raise vlib.BuildError("clang does not accept the stub %s:\n%s" % (name, p.stderr[-3000:]))
        ast = json.loads(p.stdout)
        self.typedefs, self.globals, self.functions = {}, {}, {}
        for n in ast["inner"]:
            k = n.get("kind")
            if k == "TypedefDecl":
                self.typedefs[n["name"]] = n["type"]
            elif k == "VarDecl":
                self.globals[n["id"]] = n
            elif k == "FunctionDecl":
                if any(c.get("kind") == "CompoundStmt" for c in n.get("inner", [])):
                    self.functions[n["name"]] = n

    # ---- types -------------------------------------------------------------------------------
    def ctype(self, ty):
        """-> ('int', t) | ('ptr', t) | ('arr', t, n) | ('void',)   (t a CMini type name)"""
        s = ty.get("desugaredQualType") or ty["qualType"]
        return self._ctype(s)

    def _ctype(self, s):
        s = s.strip()
        m = re.match(r"^(.*)\[(\d+)\]$", s)
        if m:
            k = self._ctype(m.group(1))
            if k[0] == "ptr":
                return ("parr", k[1], int(m.group(2)))      # only the offset-mode translation accepts these
            if k[0] != "int":
                raise Refuse("array of non-integers: " + s)
            return ("arr", k[1], int(m.group(2)))
        if s.endswith("*") or re.search(r"\*\s*(const|restrict|volatile|__restrict)(\s+(const|restrict|volatile|__restrict))*$", s):
            base = re.sub(r"\*\s*((const|restrict|volatile|__restrict)\s*)*$", "", s)
            k = self._ctype(base)
            if k[0] != "int":
                raise Refuse("pointer to non-integer: " + s)
            return ("ptr", k[1])
        words = [w for w in s.split() if w not in ("const", "volatile", "restrict", "__restrict", "register")]
        b = " ".join(words)
        if b == "void":
            return ("void",)
        if b in BASE:
            return ("int", BASE[b])
        if b in self.typedefs:
            t = self.typedefs[b]
            return self._ctype(t.get("desugaredQualType") or t["qualType"])
        raise Refuse("unsupported type: " + s)

    def ity(self, ty):
        k = self.ctype(ty)
        if k[0] != "int":
            raise Refuse("integer type expected, got %s" % (ty.get("qualType"),))
        return k[1]

    @staticmethod
    def is_const(ty):
        s = ty["qualType"]
        return bool(re.search(r"\bconst\b", s))


class Fn:
    """Translation of one function definition."""

    def __init__(self, unit, node, resolve_callee):
        self.u, self.node, self.resolve_callee = unit, node, resolve_callee
        self.vars = {}        # clang decl id -> (positive, name, kind)
        self.order = []
        self.ntemp = 0

    # ---- variables ---------------------------------------------------------------------------
    def declare(self, d, kind):
        n = len(self.order) + 1
        self.vars[d["id"]] = (n, d.get("name", "_"), kind)
        self.order.append((n, d.get("name", "_"), kind))
        return n

    def temp(self, kind):
        self.ntemp += 1
        n = len(self.order) + 1
        self.order.append((n, "__tmp%d" % self.ntemp, kind))
        return n

    # ---- helpers -----------------------------------------------------------------------------
    @staticmethod
    def strip(n):
        while n.get("kind") in ("ParenExpr", "ConstantExpr"):
            n = n["inner"][0]
        return n

    def cast(self, to, frm, e):
        return e if to == frm else "(Ecast %s %s)" % (to, e)

    @staticmethod
    def zlit(v):
        return str(v) if v >= 0 else "(%d)" % v

    # ---- expressions -------------------------------------------------------------------------
    def global_const(self, ref):
        g = self.u.globals.get(ref["id"])
        if g is None:
            raise Refuse("reference to %s %s which is neither a local nor a file-scope object" % (ref.get("kind"), ref.get("name")))
        if not Unit.is_const(g["type"]) or "init" not in g:
            raise Refuse("file-scope object %s is not a constant with an initialiser" % g.get("name"))
        k = self.u.ctype(g["type"])
        if k[0] != "int":
            raise Refuse("file-scope constant %s is not an integer" % g.get("name"))
        init = [c for c in g.get("inner", []) if c.get("kind", "").endswith(("Expr", "Literal", "Operator"))]
        if len(init) != 1:
            raise Refuse("cannot find the initialiser of %s" % g.get("name"))
        sub = Fn(self.u, None, self.resolve_callee)     # no locals visible in a file-scope initialiser
        e = sub.rv(init[0])
        return self.cast(k[1], self.u.ity(init[0]["type"]), e)

    def read_lvalue(self, n):
        """rvalue obtained from the lvalue expression n (LValueToRValue)."""
        n = self.strip(n)
        k = n.get("kind")
        if k == "DeclRefExpr":
            ref = n["referencedDecl"]
            if ref["id"] in self.vars:
                num, _, kind = self.vars[ref["id"]]
                if kind[0] == "arr":
                    raise Refuse("array used as a value")
                return "(Evar %d)" % num
            if ref.get("kind") == "VarDecl":
                return self.global_const(ref)
            raise Refuse("unsupported reference to %s" % ref.get("name"))
        if k == "ArraySubscriptExpr":
            a, i = n["inner"]
            return "(Eindex %s %s)" % (self.ptr(a), self.rv(i))
        if k == "UnaryOperator" and n.get("opcode") == "*":
            return "(Eindex %s (Econst 0))" % self.ptr(n["inner"][0])
        raise Refuse("unsupported lvalue %s" % k)

    def lv(self, n):
        n = self.strip(n)
        k = n.get("kind")
        if k == "DeclRefExpr":
            ref = n["referencedDecl"]
            if ref["id"] not in self.vars:
                raise Refuse("assignment to non-local object %s" % ref.get("name"))
            num, _, kind = self.vars[ref["id"]]
            if kind[0] == "arr":
                raise Refuse("assignment to an array")
            return "(Lvar %d)" % num
        if k == "ArraySubscriptExpr":
            a, i = n["inner"]
            return "(Lindex %s %s)" % (self.ptr(a), self.rv(i))
        if k == "UnaryOperator" and n.get("opcode") == "*":
            return "(Lindex %s (Econst 0))" % self.ptr(n["inner"][0])
        raise Refuse("unsupported lvalue %s" % k)

    def ptr(self, n):
        """pointer-valued expression"""
        n = self.strip(n)
        k = n.get("kind")
        if self.u.ctype(n["type"])[0] not in ("ptr", "arr"):
            raise Refuse("pointer expected")
        if k in ("ImplicitCastExpr", "CStyleCastExpr"):
            ck = n.get("castKind")
            inner = n["inner"][0]
            if ck == "LValueToRValue":
                return self.read_lvalue(inner)
            if ck == "ArrayToPointerDecay":
                d = self.strip(inner)
                if d.get("kind") == "DeclRefExpr" and d["referencedDecl"]["id"] in self.vars:
                    return "(Evar %d)" % self.vars[d["referencedDecl"]["id"]][0]
                raise Refuse("decay of a non-local array")
            if ck in ("NoOp", "BitCast"):
                # only qualification changes: the pointee integer type must stay the same
                if self.u.ctype(n["type"]) != self.u.ctype(inner["type"]) and \
                        self.u.ctype(n["type"])[1:2] != self.u.ctype(inner["type"])[1:2]:
                    raise Refuse("pointer cast changes the pointee type")
                return self.ptr(inner)
            raise Refuse("unsupported pointer cast " + str(ck))
        if k == "BinaryOperator" and n.get("opcode") in ("+", "-"):
            a, b = n["inner"]
            ka, kb = self.u.ctype(a["type"])[0], self.u.ctype(b["type"])[0]
            if ka == "ptr" and kb == "int":
                off = self.rv(b)
                if n["opcode"] == "-":
                    t = self.u.ity(b["type"])
                    off = "(Eunop Oneg %s %s)" % (promote(t), self.cast(promote(t), t, off))
                return "(Eptradd %s %s)" % (self.ptr(a), off)
            if ka == "int" and kb == "ptr" and n["opcode"] == "+":
                return "(Eptradd %s %s)" % (self.ptr(b), self.rv(a))
            raise Refuse("unsupported pointer arithmetic")
        raise Refuse("unsupported pointer expression %s" % k)

    BIN = {"+": "Oadd", "-": "Osub", "*": "Omul", "/": "Odiv", "%": "Omod", "&": "Oand", "|": "Oor", "^": "Oxor"}
    SH = {"<<": "Oshl", ">>": "Oshr"}
    CMP = {"==": "Ceq", "!=": "Cne", "<": "Clt", "<=": "Cle", ">": "Cgt", ">=": "Cge"}

    def rv(self, n):
        """integer-valued rvalue expression"""
        k = n.get("kind")
        if k in ("ParenExpr", "ConstantExpr"):
            return self.rv(n["inner"][0])
        if k in ("IntegerLiteral", "CharacterLiteral"):
            v = int(n["value"])
            t = self.u.ity(n["type"])
            lo, hi = trange(t)
            if not lo <= v <= hi:
                raise Refuse("literal %d outside its type %s" % (v, t))
            return "(Econst %s)" % self.zlit(v)
        if k in ("ImplicitCastExpr", "CStyleCastExpr"):
            ck = n.get("castKind")
            inner = n["inner"][0]
            if ck == "LValueToRValue":
                if self.u.ctype(n["type"])[0] != "int":
                    raise Refuse("non-integer value")
                return self.read_lvalue(inner)
            if ck == "IntegralCast":
                return self.cast(self.u.ity(n["type"]), self.u.ity(inner["type"]), self.rv(inner))
            if ck == "NoOp":
                if self.u.ity(n["type"]) != self.u.ity(inner["type"]):
                    raise Refuse("NoOp cast changes the integer type")
                return self.rv(inner)
            raise Refuse("unsupported cast kind %s" % ck)
        if k == "UnaryOperator":
            op = n["opcode"]
            a = n["inner"][0]
            if op == "+":
                return self.rv(a)
            if op in ("-", "~"):
                t = self.u.ity(n["type"])
                if self.u.ity(a["type"]) != t:
                    raise Refuse("operand of unary %s not promoted" % op)
                return "(Eunop %s %s %s)" % ("Oneg" if op == "-" else "Obitnot", t, self.rv(a))
            if op == "!":
                return "(Enot %s)" % self.rv(a)
            raise Refuse("unary operator %s in an expression" % op)
        if k == "BinaryOperator":
            op = n["opcode"]
            a, b = n["inner"]
            if op in self.BIN:
                t = self.u.ity(n["type"])
                if self.u.ity(a["type"]) != t or self.u.ity(b["type"]) != t:
                    raise Refuse("operands of %s not converted to the common type" % op)
                return "(Ebinop %s %s %s %s)" % (self.BIN[op], t, self.rv(a), self.rv(b))
            if op in self.SH:
                t = self.u.ity(n["type"])
                if self.u.ity(a["type"]) != t:
                    raise Refuse("left operand of a shift not promoted")
                self.u.ity(b["type"])
                return "(Eshift %s %s %s %s)" % (self.SH[op], t, self.rv(a), self.rv(b))
            if op in self.CMP:
                if self.u.ity(a["type"]) != self.u.ity(b["type"]):
                    raise Refuse("comparison of different types")
                return "(Ecmp %s %s %s)" % (self.CMP[op], self.rv(a), self.rv(b))
            if op == "&&":
                return "(Eandalso %s %s)" % (self.rv(a), self.rv(b))
            if op == "||":
                return "(Eorelse %s %s)" % (self.rv(a), self.rv(b))
            raise Refuse("binary operator %s in an expression" % op)
        if k == "ConditionalOperator":
            c, a, b = n["inner"]
            t = self.u.ity(n["type"])
            if self.u.ity(a["type"]) != t or self.u.ity(b["type"]) != t:
                raise Refuse("branches of ?: not converted to the common type")
            return "(Econd %s %s %s)" % (self.rv(c), self.rv(a), self.rv(b))
        if k == "CallExpr":
            raise Refuse("call nested in an expression")
        raise Refuse("unsupported expression %s" % k)

    def pure(self, n):
        """no calls / assignments below n"""
        if n.get("kind") in ("CallExpr", "CompoundAssignOperator"):
            return False
        if n.get("kind") == "BinaryOperator" and n.get("opcode") == "=":
            return False
        if n.get("kind") == "UnaryOperator" and n.get("opcode") in ("++", "--"):
            return False
        return all(self.pure(c) for c in n.get("inner", []) if isinstance(c, dict))

    # ---- statements --------------------------------------------------------------------------
    def seq(self, l):
        l = [s for s in l if s != "Sskip"]
        if not l:
            return "Sskip"
        out = l[-1]
        for s in reversed(l[:-1]):
            out = "(Sseq %s\n %s)" % (s, out)
        return out

    def call(self, n, dst):
        """CallExpr n -> statement storing the result into dst (an lval string or None)"""
        callee = self.strip(n["inner"][0])
        while callee.get("kind") == "ImplicitCastExpr":
            callee = self.strip(callee["inner"][0])
        if callee.get("kind") != "DeclRefExpr" or callee["referencedDecl"].get("kind") != "FunctionDecl":
            raise Refuse("indirect call")
        name = callee["referencedDecl"]["name"]
        if name in DIE_FUNCTIONS:
            return "Sdie"
        cname = self.resolve_callee(self.u, name)
        args = []
        for a in n["inner"][1:]:
            k = self.u.ctype(a["type"])
            args.append(self.ptr(a) if k[0] == "ptr" else self.rv(a))
        return "(Scall %s \"%s\" [%s])" % ("(Some %s)" % dst if dst else "None", cname, "; ".join(args))

    def expr_stmt(self, n):
        """an expression in statement position (also for-init / for-step)"""
        n = self.strip(n)
        k = n.get("kind")
        if k == "BinaryOperator" and n.get("opcode") == "=":
            l, r = n["inner"]
            rs = self.strip(r)
            if rs.get("kind") == "CallExpr":
                return self.call(rs, self.lv(l))
            if self.u.ctype(l["type"])[0] == "ptr":
                return "(Sassign %s %s)" % (self.lv(l), self.ptr(r))
            return "(Sassign %s %s)" % (self.lv(l), self.rv(r))
        if k == "BinaryOperator" and n.get("opcode") == ",":
            return self.seq([self.expr_stmt(c) for c in n["inner"]])
        if k == "CompoundAssignOperator":
            l, r = n["inner"]
            op = n["opcode"][:-1]
            tl = self.u.ity(l["type"])
            tc = self.u.ity(n["computeLHSType"])
            tr = self.u.ity(n["computeResultType"])
            cur = self.cast(tc, tl, self.read_lvalue(l))
            if op in self.SH:
                if tc != tr:
                    raise Refuse("shift-assignment with differing compute types")
                e = "(Eshift %s %s %s %s)" % (self.SH[op], tr, cur, self.rv(r))
            elif op in self.BIN:
                if tc != tr or self.u.ity(r["type"]) != tr:
                    raise Refuse("compound assignment operands not converted")
                e = "(Ebinop %s %s %s %s)" % (self.BIN[op], tr, cur, self.rv(r))
            else:
                raise Refuse("compound assignment " + n["opcode"])
            return "(Sassign %s %s)" % (self.lv(l), self.cast(tl, tr, e))
        if k == "UnaryOperator" and n.get("opcode") in ("++", "--"):
            l = n["inner"][0]
            if self.u.ctype(l["type"])[0] != "int":
                raise Refuse("++/-- on a pointer")
            tl = self.u.ity(l["type"])
            tp = promote(tl)
            e = "(Ebinop %s %s %s (Econst 1))" % ("Oadd" if n["opcode"] == "++" else "Osub", tp,
                                                 self.cast(tp, tl, self.read_lvalue(l)))
            return "(Sassign %s %s)" % (self.lv(l), self.cast(tl, tp, e))
        if k == "CallExpr":
            return self.call(n, None)
        if k == "CStyleCastExpr" and n.get("castKind") == "ToVoid" and self.pure(n):
            return "Sskip"      # e.g. assert() under NDEBUG
        raise Refuse("unsupported expression statement %s" % k)

    def decl(self, d):
        if d.get("kind") != "VarDecl":
            raise Refuse("unsupported declaration %s" % d.get("kind"))
        kind = self.u.ctype(d["type"])
        if d.get("storageClass") in ("static", "extern") and not Unit.is_const(d["type"]):
            raise Refuse("mutable static local %s" % d.get("name"))
        init = [c for c in d.get("inner", []) if "kind" in c and not c["kind"].endswith("Comment") and not c["kind"].endswith("Attr")]
        if kind[0] == "arr":
            if init:
                il = init[0]
                if il.get("kind") != "InitListExpr":
                    raise Refuse("array initialiser is not a list")
                items = [self.rv(c) for c in il.get("inner", [])]
                for c in il.get("inner", []):
                    if self.u.ity(c["type"]) != kind[1]:
                        raise Refuse("array initialiser not converted to the element type")
                x = self.declare(d, kind)
                return "(Sdeclarr %d %d (Some [%s]))" % (x, kind[2], "; ".join(items))
            x = self.declare(d, kind)
            return "(Sdeclarr %d %d None)" % (x, kind[2])
        if kind[0] not in ("int", "ptr"):
            raise Refuse("unsupported local type")
        if not init:
            x = self.declare(d, kind)
            return "(Sdecl %d None)" % x
        i = init[0]
        si = self.strip(i)
        if si.get("kind") == "CallExpr":
            x = self.declare(d, kind)
            return self.seq(["(Sdecl %d None)" % x, self.call(si, "(Lvar %d)" % x)])
        e = self.ptr(i) if kind[0] == "ptr" else self.cast(kind[1], self.u.ity(i["type"]), self.rv(i))
        x = self.declare(d, kind)      # declared after its initialiser was translated
        return "(Sdecl %d (Some %s))" % (x, e)

    def const_eval(self, n):
        """value of a (simple) integer constant expression, e.g. a case label"""
        k = n.get("kind")
        if k == "ConstantExpr" and "value" in n:
            return int(n["value"])
        if k in ("ConstantExpr", "ParenExpr"):
            return self.const_eval(n["inner"][0])
        if k in ("IntegerLiteral", "CharacterLiteral"):
            return int(n["value"])
        if k == "UnaryOperator" and n.get("opcode") in ("-", "+"):
            v = self.const_eval(n["inner"][0])
            v = -v if n["opcode"] == "-" else v
            lo, hi = trange(self.u.ity(n["type"]))
            if not lo <= v <= hi:
                raise Refuse("constant expression overflows")
            return v
        if k in ("ImplicitCastExpr", "CStyleCastExpr") and n.get("castKind") in ("IntegralCast", "NoOp"):
            v = self.const_eval(n["inner"][0])
            lo, hi = trange(self.u.ity(n["type"]))
            if not lo <= v <= hi:
                raise Refuse("constant expression: conversion changes the value")
            return v
        raise Refuse("unsupported constant expression %s" % k)

    def switch_items(self, n, out):
        """flatten labels and statements of a switch body"""
        k = n.get("kind")
        if k == "CaseStmt":
            if len(n["inner"]) != 2:
                raise Refuse("case range")
            out.append(("label", self.const_eval(n["inner"][0])))
            self.switch_items(n["inner"][1], out)
        elif k == "DefaultStmt":
            out.append(("label", None))
            self.switch_items(n["inner"][0], out)
        else:
            out.append(("stmt", self.st(n)))

    def st(self, n):
        k = n.get("kind")
        if k == "CompoundStmt":
            return self.seq([self.st(c) for c in n.get("inner", [])])
        if k == "NullStmt":
            return "Sskip"
        if k == "DeclStmt":
            return self.seq([self.decl(d) for d in n["inner"]])
        if k == "IfStmt":
            parts = n["inner"]
            if len(parts) not in (2, 3) or any(n.get(x) for x in ("hasInit", "hasVar")):
                raise Refuse("unsupported if form")
            c = self.rv(parts[0])
            a = self.st(parts[1])
            b = self.st(parts[2]) if len(parts) == 3 else "Sskip"
            return "(Sif %s\n %s\n %s)" % (c, a, b)
        if k == "ForStmt":
            init, condvar, cond, inc, body = n["inner"]
            if condvar:
                raise Refuse("condition variable")
            i = "Sskip"
            if init:
                i = self.st(init) if init.get("kind") == "DeclStmt" else self.expr_stmt(init)
            c = "(Some %s)" % self.rv(cond) if cond else "None"
            b = self.st(body)
            s = self.expr_stmt(inc) if inc else "Sskip"
            return self.seq([i, "(Sloop %s\n %s\n %s)" % (c, b, s)])
        if k == "WhileStmt":
            if len(n["inner"]) != 2:
                raise Refuse("unsupported while form")
            return "(Sloop (Some %s)\n %s\n Sskip)" % (self.rv(n["inner"][0]), self.st(n["inner"][1]))
        if k == "ReturnStmt":
            if not n.get("inner"):
                return "(Sreturn None)"
            e = n["inner"][0]
            se = self.strip(e)
            if se.get("kind") == "CallExpr":
                kind = self.u.ctype(se["type"])
                x = self.temp(kind)
                return self.seq(["(Sdecl %d None)" % x, self.call(se, "(Lvar %d)" % x), "(Sreturn (Some (Evar %d)))" % x])
            if self.u.ctype(e["type"])[0] == "ptr":
                raise Refuse("pointer result")
            return "(Sreturn (Some %s))" % self.rv(e)
        if k == "BreakStmt":
            return "Sbreak"
        if k == "ContinueStmt":
            return "Scontinue"
        if k == "SwitchStmt":
            if len(n["inner"]) != 2 or n["inner"][1].get("kind") != "CompoundStmt":
                raise Refuse("unsupported switch form")
            sel = self.rv(n["inner"][0])
            items = []
            for c in n["inner"][1].get("inner", []):
                self.switch_items(c, items)
            if items and items[0][0] != "label":
                raise Refuse("statement before the first case label")
            groups = []
            for kind, v in items:
                if kind == "label":
                    groups.append((v, []))
                else:
                    groups[-1][1].append(v)
            labels = [g[0] for g in groups]
            if len(set(labels)) != len(labels):
                raise Refuse("duplicate case label")
            cs = "CNil"
            for lbl, body in reversed(groups):
                l = "None" if lbl is None else "(Some %s)" % self.zlit(lbl)
                cs = "(CCons %s %s\n %s)" % (l, self.seq(body), cs)
            return "(Sswitch %s\n %s)" % (sel, cs)
        if k in ("DoStmt", "GotoStmt", "LabelStmt", "GCCAsmStmt", "IndirectGotoStmt"):
            raise Refuse("unsupported statement %s" % k)
        if k and (k.endswith("Operator") or k.endswith("Expr")):
            return self.expr_stmt(n)
        raise Refuse("unsupported statement %s" % k)

    def translate(self, coqname):
        n = self.node
        params = []
        body = None
        for c in n.get("inner", []):
            if c.get("kind") == "ParmVarDecl":
                kind = self.u.ctype(c["type"])
                if kind[0] == "int":
                    params.append("(%d, Pint %s)" % (self.declare(c, kind), kind[1]))
                elif kind[0] == "ptr":
                    params.append("(%d, Pptr %s)" % (self.declare(c, kind), kind[1]))
                else:
                    raise Refuse("unsupported parameter type")
            elif c.get("kind") == "CompoundStmt":
                body = c
        if n.get("variadic"):
            raise Refuse("variadic function")
        m = re.match(r"^(.*?)\(", n["type"]["qualType"])
        rk = self.u._ctype(m.group(1))
        if rk[0] == "void":
            ret = "None"
        elif rk[0] == "int":
            ret = "(Some %s)" % rk[1]
        else:
            raise Refuse("unsupported result type")
        b = self.st(body)
        vars_doc = ", ".join("%d=%s" % (num, name) for num, name, _ in self.order)
        return ("(* variables: %s *)\nDefinition f_%s : func := {|\n fn_params := [%s]%%positive;\n fn_ret := %s;\n fn_body :=\n %s |}.\n"
                % (vars_doc, coqname, "; ".join(params), ret, b))


HEADER = """(* GENERATED by tools/translate.py from the clang AST of the working tree of the repository.
   DO NOT EDIT: regenerated on every check run.  One CMini term per leaf C function. *)
From Coq Require Import ZArith List String.
From M4 Require Import Leaf.CMini.
Import ListNotations.
Local Open Scope Z_scope.
Local Open Scope string_scope.

"""


def _setup():
    """scratch include tree with an instantiated m4ri_config.h -> (include dir, clang flags)"""
    tree = vlib.copy_tree()
    v = vlib.variant()
    inc = os.path.join(vlib.scratch(), "t1inc")
    if not os.path.isdir(inc):
        os.makedirs(os.path.join(inc, "m4ri"))
        for f in os.listdir(os.path.join(tree, "m4ri")):
            with open(os.path.join(tree, "m4ri", f)) as src, open(os.path.join(inc, "m4ri", f), "w") as dst:
                dst.write(src.read())
        with open(os.path.join(inc, "m4ri", "m4ri_config.h"), "w") as fh:
            fh.write(vlib._config_h(tree, v))
    flags = [f for f in vlib.cflags(v) if f.startswith("-D") or f in ("-msse2",)] + ["-I/usr/include/libpng16"]
    return inc, flags


def _generate(units, progname, header, fnclass, flat_names=False):
    """-> (text of the generated file, {coq function name: reason} of refusals)"""
    inc, flags = _setup()
    defs, order, refused = {}, [], {}

    def resolve_callee_factory(unit_prefix):
        def resolve(unit, cname):
            coq = cname if (unit_prefix == "main" or flat_names) else "%s_%s" % (unit_prefix, cname)
            want(unit, cname, coq)
            if coq in refused:
                raise Refuse("callee %s was refused: %s" % (cname, refused[coq]))
            return coq
        return resolve

    def want(unit, cname, coq):
        if coq in defs or coq in refused:
            return
        node = unit.functions.get(cname)
        if node is None:
            refused[coq] = "no definition of %s found in translation unit %s" % (cname, unit.name)
            return
        defs[coq] = None            # cycle guard
        try:
            txt = fnclass(unit, node, resolve_callee_factory(unit.name)).translate(coq)
        except Refuse as e:
            del defs[coq]
            refused[coq] = str(e)
            return
        except (KeyError, IndexError, ValueError, TypeError) as e:
            del defs[coq]
            refused[coq] = "unexpected AST shape (%s: %s)" % (type(e).__name__, e)
            return
        defs[coq] = txt
        order.append(coq)

    for uname, stub, fns in units:
        try:
            unit = Unit(uname, stub, inc, flags)
        except vlib.BuildError as e:
            for cname, coq in fns:
                refused[coq] = str(e)[:600]
            continue
        for cname, coq in fns:
            want(unit, cname, coq)

    out = [header]
    for coq in order:
        out.append(defs[coq])
        out.append("\n")
    for coq, why in sorted(refused.items()):
        out.append("(* REFUSED %s: %s *)\n" % (coq, why.replace("*)", "* )").replace("(*", "( *")))
    out.append("\nDefinition %s : program :=\n [%s].\n" % (progname, ";\n  ".join('("%s", f_%s)' % (c, c) for c in order)))
    return "".join(out), refused


def generate():
    """-> (text of Gen_leaf.v, {coq function name: reason} of refusals)"""
    return _generate(UNITS, "leaf_prog", HEADER, Fn)


# ------------------------------------------------------------------------------------------------
# Offset mode (the transpose kernels of mzd.c, `translate.py --transpose` -> Leaf/Gen_transpose.v)
#
# CMini has pointers into blocks but no pointer comparison, and its pointer arithmetic may not leave
# the block even transiently.  The kernels bump pointers across rows (`wk += rowstride_dst`), compare
# them (`wk < end`) and keep pointers in small arrays (`wk[2]`).  In offset mode every C pointer is the
# pair (root, offset): the ROOT is a pointer parameter or a local/file-scope array, fixed STATICALLY
# per pointer variable (every assignment to the variable must come from the same root, otherwise the
# function is refused); the OFFSET is an ordinary `long` variable.
#   word *p = q + e      ~>  long p_off = q_off + (long)e            (root(p) := root(q))
#   p += e               ~>  p_off = p_off + (long)e
#   *p, p[i], *(p + i)   ~>  root[p_off + (long)i]                   (bounds-checked block access)
#   p < q                ~>  p_off < q_off                           (same root required)
#   f(p)                 ~>  f(root, p_off)        a pointer parameter is two parameters (block, long)
#   T *a[2]              ~>  two offset variables; subscripts must be integer constants
# Differences to ISO C, all on the permissive side for arithmetic and strict for accesses: an offset may
# leave [0, extent] as long as it is not dereferenced (C: UB; the kernels do form `end` beyond the
# last row of a window); `restrict` is ignored (it only adds UB).  `++`/`--` inside a full expression
# are hoisted before (prefix) or after (postfix) the statement when the variable occurs exactly once
# in that full expression and not under && || ?:.  do { } while (c) is a loop whose last statement is
# `if (!c) break`.  File-scope arrays that are const, or static and only ever read by subscripting in
# the whole translation unit, are materialised as initialised local arrays of the function.
# ------------------------------------------------------------------------------------------------
def _walk(n, anc, f):
    if not isinstance(n, dict):
        return
    f(n, anc)
    anc.append(n)
    for c in n.get("inner", []):
        _walk(c, anc, f)
    anc.pop()


def readonly_global(unit, gid):
    """every reference to the file-scope array gid in a function body of the unit is  g[e]  read as a value"""
    cache = unit.__dict__.setdefault("_ro", {})
    if gid not in cache:
        ok = [True]

        def visit(n, anc):
            if n.get("kind") == "DeclRefExpr" and n.get("referencedDecl", {}).get("id") == gid:
                up = [a for a in anc if a.get("kind") not in ("ParenExpr",)]
                good = (len(up) >= 3 and up[-1].get("kind") == "ImplicitCastExpr" and up[-1].get("castKind") == "ArrayToPointerDecay"
                        and up[-2].get("kind") == "ArraySubscriptExpr" and Fn.strip(up[-2]["inner"][0]) is up[-1]
                        and up[-3].get("kind") == "ImplicitCastExpr" and up[-3].get("castKind") == "LValueToRValue")
                if not good:
                    ok[0] = False
        for fn in unit.functions.values():
            _walk(fn, [], visit)
        cache[gid] = ok[0]
    return cache[gid]


class FnP(Fn):
    OFF = "tlong"

    def __init__(self, unit, node, resolve_callee):
        Fn.__init__(self, unit, node, resolve_callee)
        self.pinfo = {}       # decl id | (decl id, index)  ->  {"off": var, "root": var or None}
        self.garr = {}        # file-scope array decl id -> (local var, Sdeclarr text)
        self.pre = self.post = None
        self.fullexpr = None
        self.done = {}

    # ---- side effects inside full expressions ---------------------------------------------------
    def with_effects(self, n, f):
        save = (self.pre, self.post, self.fullexpr, self.done)
        self.pre, self.post, self.fullexpr, self.done = [], [], n, {}
        try:
            r = f(n)
            return self.pre, r, self.post
        finally:
            self.pre, self.post, self.fullexpr, self.done = save

    def no_effects(self, n, f):
        pre, r, post = self.with_effects(n, f)
        if pre or post:
            raise Refuse("++/-- in a position where it cannot be hoisted")
        return r

    @staticmethod
    def count_refs(n, vid):
        c = [0]

        def visit(x, anc):
            if x.get("kind") == "DeclRefExpr" and x.get("referencedDecl", {}).get("id") == vid:
                c[0] += 1
        _walk(n, [], visit)
        return c[0]

    def incdec(self, n):
        if self.pre is None:
            raise Refuse("++/-- nested in an expression that is not a hoistable full expression")
        if n["id"] in self.done:
            return self.done[n["id"]]
        l = self.strip(n["inner"][0])
        if l.get("kind") != "DeclRefExpr" or l["referencedDecl"]["id"] not in self.vars:
            raise Refuse("++/-- of something that is not a local variable")
        vid = l["referencedDecl"]["id"]
        num, _, kind = self.vars[vid]
        if kind[0] != "int":
            raise Refuse("++/-- on a non-integer inside an expression")
        if self.count_refs(self.fullexpr, vid) != 1:
            raise Refuse("variable modified by ++/-- occurs more than once in the full expression")
        tl = kind[1]
        tp = promote(tl)
        e = "(Ebinop %s %s %s (Econst 1))" % ("Oadd" if n["opcode"] == "++" else "Osub", tp, self.cast(tp, tl, "(Evar %d)" % num))
        upd = "(Sassign (Lvar %d) %s)" % (num, self.cast(tl, tp, e))
        (self.post if n.get("isPostfix") else self.pre).append(upd)
        self.done[n["id"]] = "(Evar %d)" % num
        return self.done[n["id"]]

    # ---- pointers = (root, offset) --------------------------------------------------------------
    def ptr(self, n):
        raise Refuse("internal: plain pointer translation reached in offset mode")

    def off_add(self, off, n, neg=False):
        t = self.u.ity(n["type"])
        if t == "tulong":
            raise Refuse("pointer offset of type unsigned long")
        i = self.cast(self.OFF, t, self.rv(n))
        if neg:
            return "(Ebinop Osub %s %s %s)" % (self.OFF, off, i)
        if off == "(Econst 0)":
            return i
        return "(Ebinop Oadd %s %s %s)" % (self.OFF, off, i)

    def global_array(self, ref):
        g = self.u.globals.get(ref["id"])
        if g is None:
            raise Refuse("decay of an array that is neither local nor file-scope")
        if ref["id"] in self.garr:
            return self.garr[ref["id"]][0]
        kind = self.u.ctype(g["type"])
        if kind[0] != "arr":
            raise Refuse("file-scope array of non-integers")
        if not Unit.is_const(g["type"]):
            if g.get("storageClass") != "static" or not readonly_global(self.u, ref["id"]):
                raise Refuse("file-scope array %s is neither const nor a static that is only read" % g.get("name"))
        il = [c for c in g.get("inner", []) if c.get("kind") == "InitListExpr"]
        if len(il) != 1:
            raise Refuse("file-scope array %s has no initialiser list" % g.get("name"))
        sub = Fn(self.u, None, self.resolve_callee)
        items = []
        for c in il[0].get("inner", []):
            if self.u.ity(c["type"]) != kind[1]:
                raise Refuse("array initialiser not converted to the element type")
            items.append(sub.rv(c))
        if len(items) > kind[2]:
            raise Refuse("too many initialisers")
        x = len(self.order) + 1
        self.order.append((x, g.get("name", "_"), kind))
        self.garr[ref["id"]] = (x, "(Sdeclarr %d %d (Some [%s]))" % (x, kind[2], "; ".join(items)))
        return x

    def pslot(self, n):
        """n: lvalue expression of pointer type -> its pinfo record"""
        n = self.strip(n)
        k = n.get("kind")
        if k == "DeclRefExpr" and n["referencedDecl"]["id"] in self.pinfo:
            return self.pinfo[n["referencedDecl"]["id"]]
        if k == "ArraySubscriptExpr":
            a, i = n["inner"]
            a = self.strip(a)
            if a.get("kind") == "ImplicitCastExpr" and a.get("castKind") == "ArrayToPointerDecay":
                d = self.strip(a["inner"][0])
                if d.get("kind") == "DeclRefExpr":
                    key = (d["referencedDecl"]["id"], self.const_eval(i))
                    if key in self.pinfo:
                        return self.pinfo[key]
            raise Refuse("pointer array subscripted by a non-constant or out of range")
        raise Refuse("unsupported pointer lvalue %s" % k)

    def ptr2(self, n):
        """pointer-valued expression -> (root variable, offset expression of type long)"""
        n = self.strip(n)
        k = n.get("kind")
        if self.u.ctype(n["type"])[0] not in ("ptr", "arr"):
            raise Refuse("pointer expected")
        if k in ("ImplicitCastExpr", "CStyleCastExpr"):
            ck = n.get("castKind")
            inner = n["inner"][0]
            if ck == "LValueToRValue":
                s = self.pslot(inner)
                if s["root"] is None:
                    raise Refuse("pointer variable used before an assignment fixed its root")
                return s["root"], "(Evar %d)" % s["off"]
            if ck == "ArrayToPointerDecay":
                d = self.strip(inner)
                if d.get("kind") != "DeclRefExpr":
                    raise Refuse("decay of a non-variable array")
                ref = d["referencedDecl"]
                if ref["id"] in self.vars:
                    num, _, kind = self.vars[ref["id"]]
                    if kind[0] != "arr":
                        raise Refuse("decay of an array of pointers")
                    return num, "(Econst 0)"
                return self.global_array(ref), "(Econst 0)"
            if ck in ("NoOp", "BitCast"):
                if self.u.ctype(n["type"])[1:2] != self.u.ctype(inner["type"])[1:2]:
                    raise Refuse("pointer cast changes the pointee type")
                return self.ptr2(inner)
            raise Refuse("unsupported pointer cast " + str(ck))
        if k == "BinaryOperator" and n.get("opcode") in ("+", "-"):
            a, b = n["inner"]
            ka, kb = self.u.ctype(a["type"])[0], self.u.ctype(b["type"])[0]
            if ka == "ptr" and kb == "int":
                root, off = self.ptr2(a)
                return root, self.off_add(off, b, neg=(n["opcode"] == "-"))
            if ka == "int" and kb == "ptr" and n["opcode"] == "+":
                root, off = self.ptr2(b)
                return root, self.off_add(off, a)
            raise Refuse("unsupported pointer arithmetic")
        raise Refuse("unsupported pointer expression %s" % k)

    def access(self, n):
        """lvalue of integer type reached through a pointer -> (root, offset) or None"""
        k = n.get("kind")
        if k == "ArraySubscriptExpr":
            a, i = n["inner"]
            root, off = self.ptr2(a)
            return root, self.off_add(off, i)
        if k == "UnaryOperator" and n.get("opcode") == "*":
            return self.ptr2(n["inner"][0])
        return None

    def read_lvalue(self, n):
        n = self.strip(n)
        if self.u.ctype(n["type"])[0] != "int":
            raise Refuse("value of a non-integer lvalue")
        acc = self.access(n)
        if acc:
            return "(Eindex (Evar %d) %s)" % acc
        return Fn.read_lvalue(self, n)

    def lv(self, n):
        n = self.strip(n)
        acc = self.access(n)
        if acc:
            return "(Lindex (Evar %d) %s)" % acc
        return Fn.lv(self, n)

    def set_root(self, slot, root):
        if slot["root"] is None:
            slot["root"] = root
        elif slot["root"] != root:
            raise Refuse("pointer variable assigned from two different arrays")

    # ---- expressions ------------------------------------------------------------------------------
    def rv(self, n):
        k = n.get("kind")
        if k == "UnaryOperator" and n.get("opcode") in ("++", "--"):
            return self.incdec(n)
        if k == "BinaryOperator" and n.get("opcode") in self.CMP:
            a, b = n["inner"]
            if self.u.ctype(a["type"])[0] == "ptr" or self.u.ctype(b["type"])[0] == "ptr":
                ra, oa = self.ptr2(a)
                rb, ob = self.ptr2(b)
                if ra != rb:
                    raise Refuse("comparison of pointers into different arrays")
                return "(Ecmp %s %s %s)" % (self.CMP[n["opcode"]], oa, ob)
        if k == "BinaryOperator" and n.get("opcode") in ("&&", "||") and not self.pure(n["inner"][1]):
            raise Refuse("side effect in a conditionally evaluated operand")
        if k == "ConditionalOperator" and not (self.pure(n["inner"][1]) and self.pure(n["inner"][2])):
            raise Refuse("side effect in a conditionally evaluated operand")
        return Fn.rv(self, n)

    # ---- statements -------------------------------------------------------------------------------
    def call(self, n, dst):
        callee = self.strip(n["inner"][0])
        while callee.get("kind") == "ImplicitCastExpr":
            callee = self.strip(callee["inner"][0])
        if callee.get("kind") != "DeclRefExpr" or callee["referencedDecl"].get("kind") != "FunctionDecl":
            raise Refuse("indirect call")
        name = callee["referencedDecl"]["name"]
        if name in DIE_FUNCTIONS:
            return "Sdie"
        cname = self.resolve_callee(self.u, name)
        args = []
        for a in n["inner"][1:]:
            if self.u.ctype(a["type"])[0] == "ptr":
                root, off = self.ptr2(a)
                args += ["(Evar %d)" % root, off]
            else:
                args.append(self.rv(a))
        return "(Scall %s \"%s\" [%s])" % ("(Some %s)" % dst if dst else "None", cname, "; ".join(args))

    def expr_stmt(self, n):
        n = self.strip(n)
        k = n.get("kind")
        if k == "BinaryOperator" and n.get("opcode") == ",":
            return self.seq([self.expr_stmt(c) for c in n["inner"]])
        pre, s, post = self.with_effects(n, self.expr_stmt1)
        return self.seq(pre + [s] + post)

    def expr_stmt1(self, n):
        k = n.get("kind")
        if k == "BinaryOperator" and n.get("opcode") == "=" and self.u.ctype(n["inner"][0]["type"])[0] == "ptr":
            l, r = n["inner"]
            slot = self.pslot(l)
            root, off = self.ptr2(r)
            self.set_root(slot, root)
            return "(Sassign (Lvar %d) %s)" % (slot["off"], off)
        if k == "CompoundAssignOperator" and self.u.ctype(n["inner"][0]["type"])[0] == "ptr":
            l, r = n["inner"]
            if n["opcode"] not in ("+=", "-="):
                raise Refuse("compound assignment %s on a pointer" % n["opcode"])
            slot = self.pslot(l)
            if slot["root"] is None:
                raise Refuse("pointer variable used before an assignment fixed its root")
            return "(Sassign (Lvar %d) %s)" % (slot["off"], self.off_add("(Evar %d)" % slot["off"], r, neg=(n["opcode"] == "-=")))
        if k == "UnaryOperator" and n.get("opcode") in ("++", "--") and self.u.ctype(n["inner"][0]["type"])[0] == "ptr":
            raise Refuse("++/-- on a pointer")
        return Fn.expr_stmt(self, n)

    def new_off(self, name):
        x = len(self.order) + 1
        self.order.append((x, name, ("int", self.OFF)))
        return x

    def decl(self, d):
        if d.get("kind") != "VarDecl":
            raise Refuse("unsupported declaration %s" % d.get("kind"))
        kind = self.u.ctype(d["type"])
        if kind[0] not in ("ptr", "parr"):
            return Fn.decl(self, d)
        if d.get("storageClass") in ("static", "extern"):
            raise Refuse("static pointer local")
        init = [c for c in d.get("inner", []) if "kind" in c and not c["kind"].endswith("Comment") and not c["kind"].endswith("Attr")]
        if kind[0] == "parr":
            if init:
                raise Refuse("initialised array of pointers")
            out = []
            for i in range(kind[2]):
                x = self.new_off("%s[%d]" % (d.get("name", "_"), i))
                self.pinfo[(d["id"], i)] = {"off": x, "root": None}
                out.append("(Sdecl %d None)" % x)
            return self.seq(out)
        if not init:
            x = self.new_off(d.get("name", "_"))
            self.pinfo[d["id"]] = {"off": x, "root": None}
            return "(Sdecl %d None)" % x
        root, off = self.no_effects(init[0], self.ptr2)
        x = self.new_off(d.get("name", "_"))
        self.pinfo[d["id"]] = {"off": x, "root": root}
        return "(Sdecl %d (Some %s))" % (x, off)

    @staticmethod
    def direct_continue(n):
        if not isinstance(n, dict):
            return False
        if n.get("kind") == "ContinueStmt":
            return True
        if n.get("kind") in ("ForStmt", "WhileStmt", "DoStmt"):
            return False
        return any(FnP.direct_continue(c) for c in n.get("inner", []))

    def st(self, n):
        k = n.get("kind")
        if k == "IfStmt":
            parts = n["inner"]
            if len(parts) not in (2, 3) or any(n.get(x) for x in ("hasInit", "hasVar")):
                raise Refuse("unsupported if form")
            pre, c, post = self.with_effects(parts[0], self.rv)
            if post:
                raise Refuse("postfix ++/-- in a condition")
            a = self.st(parts[1])
            b = self.st(parts[2]) if len(parts) == 3 else "Sskip"
            return self.seq(pre + ["(Sif %s\n %s\n %s)" % (c, a, b)])
        if k == "DoStmt":
            body, cond = n["inner"]
            if self.direct_continue(body):
                raise Refuse("continue in a do-while body")
            b = self.st(body)
            pre, c, post = self.with_effects(cond, self.rv)
            if post:
                raise Refuse("postfix ++/-- in a condition")
            return "(Sloop None\n %s\n Sskip)" % self.seq([b] + pre + ["(Sif %s Sskip Sbreak)" % c])
        if k == "ForStmt":
            init, condvar, cond, inc, body = n["inner"]
            if condvar:
                raise Refuse("condition variable")
            i = "Sskip"
            if init:
                i = self.st(init) if init.get("kind") == "DeclStmt" else self.expr_stmt(init)
            c = "(Some %s)" % self.no_effects(cond, self.rv) if cond else "None"
            b = self.st(body)
            s = self.expr_stmt(inc) if inc else "Sskip"
            return self.seq([i, "(Sloop %s\n %s\n %s)" % (c, b, s)])
        if k == "WhileStmt":
            if len(n["inner"]) != 2:
                raise Refuse("unsupported while form")
            return "(Sloop (Some %s)\n %s\n Sskip)" % (self.no_effects(n["inner"][0], self.rv), self.st(n["inner"][1]))
        if k == "ReturnStmt" and n.get("inner") and self.strip(n["inner"][0]).get("kind") != "CallExpr":
            self.no_effects(n["inner"][0], self.rv)
        return Fn.st(self, n)

    def translate(self, coqname):
        n = self.node
        params = []
        body = None
        for c in n.get("inner", []):
            if c.get("kind") == "ParmVarDecl":
                kind = self.u.ctype(c["type"])
                if kind[0] == "int":
                    params.append("(%d, Pint %s)" % (self.declare(c, kind), kind[1]))
                elif kind[0] == "ptr":
                    b = self.declare(c, kind)
                    o = self.new_off(c.get("name", "_") + "_off")
                    self.pinfo[c["id"]] = {"off": o, "root": b}
                    params.append("(%d, Pptr %s)" % (b, kind[1]))
                    params.append("(%d, Pint %s)" % (o, self.OFF))
                else:
                    raise Refuse("unsupported parameter type")
            elif c.get("kind") == "CompoundStmt":
                body = c
        if n.get("variadic"):
            raise Refuse("variadic function")
        m = re.match(r"^(.*?)\(", n["type"]["qualType"])
        rk = self.u._ctype(m.group(1))
        if rk[0] == "void":
            ret = "None"
        elif rk[0] == "int":
            ret = "(Some %s)" % rk[1]
        else:
            raise Refuse("unsupported result type")
        b = self.st(body)
        b = self.seq([txt for _, txt in self.garr.values()] + [b])
        vars_doc = ", ".join("%d=%s" % (num, name) for num, name, _ in self.order)
        return ("(* variables: %s *)\nDefinition f_%s : func := {|\n fn_params := [%s]%%positive;\n fn_ret := %s;\n fn_body :=\n %s |}.\n"
                % (vars_doc, coqname, "; ".join(params), ret, b))


GEN_T = os.path.join(vlib.COQ, "Leaf", "Gen_transpose.v")

UNITS_T = [
    ("mzd", STUB_MZD, [
        ("_mzd_copy_transpose_64x64", "_mzd_copy_transpose_64x64"),
        ("_mzd_copy_transpose_64x64_2", "_mzd_copy_transpose_64x64_2"),
        ("_mzd_transpose_Nxjx64", "_mzd_transpose_Nxjx64"),
        ("_mzd_copy_transpose_lt64x64", "_mzd_copy_transpose_lt64x64"),
        ("_mzd_copy_transpose_64xlt64", "_mzd_copy_transpose_64xlt64"),
        ("_mzd_copy_transpose_le8xle8", "_mzd_copy_transpose_le8xle8"),
        ("_mzd_copy_transpose_le16xle16", "_mzd_copy_transpose_le16xle16"),
        ("_mzd_copy_transpose_le32xle32", "_mzd_copy_transpose_le32xle32"),
        ("_mzd_copy_transpose_le64xle64", "_mzd_copy_transpose_le64xle64"),
        ("_mzd_copy_transpose_small", "_mzd_copy_transpose_small"),
    ]),
]

HEADER_T = """(* GENERATED by tools/translate.py --transpose from the clang AST of the working tree of the repository
   (m4ri/mzd.c, the transpose kernels).  DO NOT EDIT: regenerated on every check run.
   Offset mode: every C pointer is (root block, long offset); a pointer parameter is two parameters.
   See the comment above class FnP in tools/translate.py for the exact modelling rules. *)
From Coq Require Import ZArith List String.
From M4 Require Import Leaf.CMini.
Import ListNotations.
Local Open Scope Z_scope.
Local Open Scope string_scope.

"""


def generate_transpose():
    return _generate(UNITS_T, "transpose_prog", HEADER_T, FnP, flat_names=True)


def regenerate_transpose():
    text, refused = generate_transpose()
    return vlib.write_if_changed(GEN_T, text), refused


def regenerate():
    """write Gen_leaf.v (only if its content changes). -> (changed, refusals)"""
    text, refused = generate()
    return vlib.write_if_changed(GEN, text), refused


if __name__ == "__main__":
    if "--transpose" in sys.argv:
        if "--stdout" in sys.argv:
            text, refused = generate_transpose()
            sys.stdout.write(text)
        else:
            changed, refused = regenerate_transpose()
            print("Gen_transpose.v %s" % ("rewritten" if changed else "unchanged"))
    elif "--stdout" in sys.argv:
        text, refused = generate()
        sys.stdout.write(text)
    else:
        changed, refused = regenerate()
        print("Gen_leaf.v %s" % ("rewritten" if changed else "unchanged"))
    for k, why in refused.items():
        print("REFUSED %s: %s" % (k, why), file=sys.stderr)
    sys.exit(1 if refused else 0)
