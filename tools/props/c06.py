"""C06 — linear system solving: the consistency verdict is right and A*X = B when solvable."""
import os
import engine, ops, vlib

OPS = ["solve_left", "pluq_solve_left"]
PROOFS = ["Properties_C06"]


def run(res, tier, seed):
    res.cov["rule"] = ("seeded systems per entry point (mzd_solve_left, mzd_pluq_solve_left after mzd_pluq with junk-filled P, Q): "
                       "m<n, m=n, m>n; A with prescribed rank profile (pivot gaps across word borders, zero column blocks, "
                       "dependent rows first/middle/last/anywhere), full rank, zero; B of width 1..130 = A*X0 (consistent), with ONE "
                       "bit set in ONE padding row (each of them, first, last), with one bit flipped inside the first m rows, random, "
                       "zero; inconsistency_check 1 and 0; Strassen cutoffs 0/64/128/1024; host and stress (L3 = 4 KiB: the PLUQ inside "
                       "is block-recursive) builds.  Tier A: verdict == (rank [A_pad|B] == rank A_pad) and A_pad * X == B by the "
                       "extracted checker x_solve_ok (compositions of Gauss.rank / mmul, independent of any solver code); Tier B: "
                       "A', P, Q, B bit-identical with Solve.solve_left_cfg / pluq_solve_left_model.  distinct by (entry point, shape "
                       "class, rank-profile style, cutoff, B mode, check, PLE regime, build)")
    ops.proof_part(res, PROOFS[0])
    quick = tier == "quick"
    T = {"host": ops.Tiers(res, "C06", ops.VARIANTS["host"](vlib)), "stress": ops.Tiers(res, "C06", ops.VARIANTS["stress"](vlib))}
    res.cov["configurations"] = [dict(t.variant) for t in T.values()]
    ops.run_corpus(res, "C06", T)
    T["host"].run(OPS, seed, 500 if quick else 4000, 130)
    T["host"].run(OPS, seed + 1, 50 if quick else 400, 260 if quick else 600)
    T["stress"].run(OPS, seed + 2, 200 if quick else 1500, 150 if quick else 300, rec_bias=0.5)
    # B (and A) as views into wider matrices holding other data: the padding-row test and the clearing of undefined rows
    # must look at / touch the view's columns only (the parent is dumped too)
    T["host"].run(OPS, seed + 6, 60 if quick else 400, 130, W=lambda role: {"fill": "rand"} if role == "B" else None)
    T["host"].run(OPS, seed + 7, 25 if quick else 200, 130, W=lambda role: {"fill": "rand"})


def replay(res, path):
    ops.replay_tiers(res, "C06", path)
