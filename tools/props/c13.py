"""C13 — row/column operations and permutation application follow LAPACK swap semantics."""
import engine

OPS = ["row_swap", "col_swap", "col_swap_in_rows", "row_add", "row_add_offset", "row_clear_offset", "xor_bits", "clear_bits",
       "read_bits", "combine", "combine_even_in_place", "apply_p_left", "apply_p_left_trans", "apply_p_right", "apply_p_right_trans", "apply_p_right_trans_tri"]
PROOFS = ["Properties_C13", "Properties_C13t"]


def run(res, tier, seed):
    res.cov["rule"] = ("seeded op scripts per operation: index pairs same word / different words / bit 0,63,64, row ranges, column "
                       "offsets, LAPACK permutations identity/single swap/full random/shorter than the dimension; non-trivial "
                       "unless the matrix is zero or 1x1; distinct by (op, shape class, content kind, parameters class)")
    engine.proof_part(res, PROOFS)
    engine.corpus(res, "C13")
    n = 150 if tier == "quick" else 1500
    engine.run_ops(res, "C13", OPS, seed, n, 130 if tier == "quick" else 300)
    # "affect exactly the addressed entries": on a window the entries of the parent around the view are not addressed
    # (the raw parent is dumped and compared); random and all-ones surroundings
    for k, fill in enumerate(("rand", "ones")):
        engine.run_ops(res, "C13", OPS, seed + 11 + k, n // 3, 130, W=(lambda f: (lambda role: {"fill": f}))(fill), tag="/win-" + fill)


def replay(res, path):
    engine.replay_file(res, "C13", path)
