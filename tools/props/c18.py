"""C18 — file I/O round-trips exactly and malformed files cannot corrupt memory.

Implementation side: c/io_harness.c over the REAL library (mzd_to_png, mzd_from_png, mzd_from_jcf,
mzd_from_str), every command in a forked child, in an ASan+UBSan build (and the round trips in the host
build as well).  Model side: the extracted functions of Sys/IO.v through ocaml/driver (io_* commands of
ocaml/ext.ml).  What is compared:
  * PNG round trip: the matrix read back equals the matrix written (Tier A); the raw row bytes found in the
    file (read back with plain libpng, no transformations) equal png_file_row (png_pack_row n words) of the
    model, IHDR = (n, m, depth 1, gray, not interlaced) (Tier B: the libpng oracle of the model);
  * foreign PNG files written with plain libpng by the harness, every bit depth x colour type x interlace:
    png_header png_fixed decides NULL / accepted; accepted files must give exactly the matrix
    png_unpack_row (png_delivered filebytes) of the model;
  * truncated / corrupted PNG files: plain libpng on the same bytes is the oracle for "libpng accepts the
    file"; if it does and the model accepts the header the result must equal the model's matrix, otherwise
    the outcome must be NULL or abort() with a diagnostic (libpng error / m4ri_die);
  * JCF files and single-token corruptions: the harness reports what the two fscanf formats of mzd_from_jcf
    produce (jcftok); jcf_parse jcf_fixed on those integers decides Ok M / Reject / Die i j;
  * mzd_from_str against from_str.
In every case the fate must never be a sanitizer report, SIGSEGV, SIGBUS or a timeout."""
import os, random, struct, subprocess, zlib
import engine, vlib, corr
from corr import Case

PROOFS = ["Properties_C18"]


# ------------------------------------------------------------------------------------------------
# running the harness
# ------------------------------------------------------------------------------------------------
class IOH:
    def __init__(self, variant):
        self.variant = variant
        self.exe = vlib.build_harness(variant, "io_harness.c")
        self.dir = os.path.join(vlib.scratch(), "io-" + variant["name"])
        os.makedirs(self.dir, exist_ok=True)

    def path(self, name):
        return os.path.join(self.dir, name)

    def run(self, commands, shard=vlib.NPROC, timeout=10):
        """commands: list of strings 'cmd id args...'.  -> dict id -> dict(lines=[token lists], fate=(kind, code, stderr))"""
        if not commands:
            return {}
        shard = max(1, min(shard, len(commands)))
        env = dict(os.environ)
        env["ASAN_OPTIONS"] = "detect_leaks=0:abort_on_error=0:allocator_may_return_null=1:max_allocation_size_mb=2048"
        env["UBSAN_OPTIONS"] = "print_stacktrace=0"
        procs = []
        for k in range(shard):
            part = commands[k::shard]
            p = subprocess.Popen([self.exe, self.dir, str(timeout)], stdin=subprocess.PIPE, stdout=subprocess.PIPE,
                                 stderr=subprocess.DEVNULL, text=True, errors="replace", env=env)
            procs.append((p, "\n".join(part) + "\n"))
        out = {}
        import threading
        results = [None] * len(procs)

        def work(i, p, inp):
            results[i] = p.communicate(inp)[0]
        th = [threading.Thread(target=work, args=(i, p, inp)) for i, (p, inp) in enumerate(procs)]
        for t in th:
            t.start()
        for t in th:
            t.join()
        for so in results:
            for line in (so or "").split("\n"):
                t = line.split(" ")
                if len(t) < 2:
                    continue
                d = out.setdefault(t[1], dict(lines=[], fate=None))
                if t[0] == "FATE":
                    err = t[4] if len(t) > 4 else ""
                    d["fate"] = (t[2], int(t[3]) if len(t) > 3 and t[3].lstrip("-").isdigit() else 0, unescape(err))
                else:
                    d["lines"].append(t)
        return out


def unescape(s):
    out, i = [], 0
    while i < len(s):
        if s[i] == "%" and i + 2 < len(s) + 1:
            try:
                out.append(chr(int(s[i + 1:i + 3], 16)))
                i += 3
                continue
            except ValueError:
                pass
        out.append(s[i])
        i += 1
    return "".join(out)


def classify(fate):
    """-> OK | DIE (abort with a diagnostic) | EXITn | ASAN | UBSAN | SEGV | ABRT (abort without diagnostic) | TIMEOUT | SIGn"""
    if fate is None:
        return "MISSING"
    kind, code, err = fate
    if "AddressSanitizer" in err or "LeakSanitizer" in err:
        return "ASAN"
    if "runtime error:" in err:
        return "UBSAN"
    if kind == "TIMEOUT":
        return "TIMEOUT"
    if kind == "EXIT":
        return "OK" if code == 0 else "EXIT%d" % code
    if kind == "SIGNAL":
        if code == 6:
            return "DIE" if ("libpng" in err or "m4ri" in err.lower() or "trying to write" in err or err.strip()) and "corrupted" not in err and "free()" not in err and "malloc" not in err.lower().replace("m4ri_mm_malloc", "") else "ABRT"
        if code == 11:
            return "SEGV"
        return "SIG%d" % code
    return "?"


def get(d, tag):
    for t in d["lines"]:
        if t[0] == tag:
            return t
    return None


def matrix_of(d):
    """('M', nrows, ncols, [row ints]) | ('N',) | None"""
    t = get(d, "M")
    if t:
        return ("M", int(t[2]), int(t[3]), [int(x, 16) for x in t[4:] if x])
    if get(d, "N"):
        return ("N",)
    return None


def model(cases):
    return corr.run_model(cases)


def mlines(mo, cid):
    o = mo.get(cid)
    if o is None or o[0] != "OK":
        return None
    return [l.split() for l in o[1]]


# ------------------------------------------------------------------------------------------------
# the engine
# ------------------------------------------------------------------------------------------------
class Run:
    def __init__(self, res, tier, seed):
        self.res, self.tier, self.rng = res, tier, random.Random(seed)
        self.reported = set()
        self.dist = res.cov.setdefault("distribution", {})
        self.fates = res.cov.setdefault("fates", {})

    def note(self, group, key, fate=None):
        d = self.dist.setdefault(group, {})
        d[key] = d.get(key, 0) + 1
        if fate:
            f = self.fates.setdefault(group, {})
            f[fate] = f.get(fate, 0) + 1

    def fail(self, group, what, detail, no_input=False):
        key = (group, what.split(":")[0])
        if key in self.reported:
            return
        self.reported.add(key)
        path = vlib.write_replay("C18", group.replace("/", "_").replace(" ", "_"),
                                 "# property C18 [%s]: %s\n# replay: python3 tools/check.py C18 --replay <this file>\n%s\n" % (group, what, detail))
        self.res.violation(path, no_input=no_input)

    # ---------------------------------------------------------------- PNG round trip
    def png_roundtrip(self, ioh, shapes, tag):
        rng = self.rng
        cmds, info, mcases = [], {}, []
        for idx, (m, n, kind) in enumerate(shapes):
            rows = content(rng, m, n, kind)
            level = idx % 10
            comment = ["-", "m4ri", "-", "x" * 90][idx % 4]
            cid = "rt%s%d" % (tag, idx)
            fn = ioh.path(cid + ".png")
            cmds.append("rt %s %s %d %s %d %d %d %s" % (cid, fn, level, comment, 0, m, n, " ".join("%x" % r for r in rows)))
            info[cid] = (m, n, rows, kind, level)
            mcases.append(Case(cid, ["call io_png %d %x" % (n, r) for r in rows], {}))
        out = ioh.run(cmds)
        mo = model(mcases)
        for cid, (m, n, rows, kind, level) in info.items():
            d = out.get(cid, dict(lines=[], fate=None))
            fate = classify(d["fate"])
            self.res.count(("png-rt", tag, n % 64, n % 8, m > 1, kind, level))
            self.note("png round trip " + tag, "ncols%%8=%d" % (n % 8), fate)
            script = "--- command\n%s\n--- C side\n%s\nFATE %r\n" % (
                [c for c in cmds if c.split()[1] == cid][0][:1500], "\n".join(" ".join(t)[:600] for t in d["lines"]), d["fate"])
            if fate != "OK":
                self.fail("png round trip " + tag, "fate %s: writing and reading back a %d x %d matrix" % (fate, m, n), script)
                continue
            w, mat, f, last = get(d, "W"), matrix_of(d), get(d, "F"), get(d, "L")
            if not w or w[2] != "ret=0":
                self.fail("png round trip " + tag, "write: mzd_to_png returned non-zero", script)
                continue
            if mat is None or mat[0] != "M" or (mat[1], mat[2]) != (m, n) or mat[3] != rows:
                self.fail("png round trip " + tag, "roundtrip: mzd_from_png(mzd_to_png(A)) != A", script)
                continue
            if last and n % 64 and any(int(x, 16) >> (n % 64) for x in last[2:] if x):
                self.fail("png round trip " + tag, "padding: excess bits set in the last word of a row read from PNG", script)
                continue
            # Tier B: the bytes in the file against the model (libpng oracle of Sys/IO.v)
            ml = mlines(mo, cid)
            okb = f is not None and ml is not None and len(ml) == m
            if okb:
                okb = (int(f[2]), int(f[3]), int(f[4]), int(f[5]), int(f[6])) == (n, m, 1, 0, 0) and len(f) == 8 + m
            if okb:
                for i in range(m):
                    t = ml[i]      # png <status> <packed> <file> <row>
                    # the padding bits of the last byte (low 8 - n%8 bits: pixel 0 is the MSB) are "free" in the model
                    # (IOProofs.delivers); real libpng writes zeros there, the model's oracle ones: compared masked
                    fb = bytearray(bytes.fromhex(f[8 + i]))
                    mb = bytearray(int(t[3], 16).to_bytes(len(fb), "little")) if int(t[3], 16) < (1 << (8 * len(fb))) else None
                    if n % 8 and mb is not None:
                        keep = (0xff << (8 - n % 8)) & 0xff
                        fb[-1] &= keep
                        mb[-1] &= keep
                    if t[0] != "png" or t[1] != "1" or int(t[4], 16) != rows[i] or mb is None or fb != mb:
                        okb = False
            if not okb:
                self.fail("png file bytes " + tag, "tierB: the row bytes / IHDR in the file written by mzd_to_png differ from png_write of the model "
                          "(round trip itself is fine)", script + "--- model side\n%s\n" % (mo.get(cid),), no_input=True)

    # ---------------------------------------------------------------- foreign PNG files
    def png_foreign(self, ioh, combos):
        cmds, info = [], {}
        for idx, (w, h, depth, ct, il) in enumerate(combos):
            cid = "mk%d" % idx
            fn = ioh.path(cid + ".png")
            cmds.append("mkpng %s %s %d %d %d %d %d %d" % (cid, fn, w, h, depth, ct, il, 1000 + idx))
            info[cid] = (w, h, depth, ct, il, fn)
        made = ioh.run(cmds)
        cmds2, mcases = [], []
        for cid, (w, h, depth, ct, il, fn) in info.items():
            f = get(made.get(cid, dict(lines=[])), "F")
            if not f:
                continue
            cmds2.append("png r%s %s 0" % (cid, fn))
            lines = ["call io_pnghdr 1 1 %d %d %d %d %d" % (w, h, depth, ct, il)]
            rb = int(f[7])
            if depth == 1 and ct in (0, 3) and not il:
                lines += ["call io_pngread %d %d %x" % (w, rb, int.from_bytes(bytes.fromhex(x), "little")) for x in f[8:8 + h]]
            mcases.append(Case("r" + cid, lines, {}))
        out = ioh.run(cmds2)
        mo = model(mcases)
        for cid, (w, h, depth, ct, il, fn) in info.items():
            d = out.get("r" + cid)
            if d is None:
                continue
            fate = classify(d["fate"])
            self.res.count(("png-foreign", depth, ct, il, w % 8, w > 64))
            self.note("foreign png", "depth=%d ctype=%d interlace=%d" % (depth, ct, il), fate)
            script = "--- file: written by plain libpng: width %d height %d depth %d colour type %d interlace %d (io_harness mkpng seed %s)\n--- C side\n%s\nFATE %r\n--- model side\n%s\n" % (
                w, h, depth, ct, il, cid, "\n".join(" ".join(t)[:600] for t in d["lines"]), d["fate"], mo.get("r" + cid))
            ml = mlines(mo, "r" + cid)
            if fate in ("ASAN", "UBSAN", "SEGV", "TIMEOUT", "ABRT", "MISSING") or fate.startswith("SIG"):
                self.fail("foreign png", "fate %s: mzd_from_png on a %d-bit colour-type-%d PNG" % (fate, depth, ct), script)
                continue
            if ml is None:
                self.fail("foreign png", "model: no model output", script, no_input=True)
                continue
            verdict = ml[0][1]
            mat = matrix_of(d)
            if verdict == "0":
                exp = [int(t[2], 16) for t in ml[1:]] if all(t[1] == "1" for t in ml[1:]) else None
                if fate != "OK" or mat is None or mat[0] != "M" or exp is None or (mat[1], mat[2]) != (h, w) or mat[3] != exp:
                    self.fail("foreign png", "accepted: the model accepts the file but the matrix differs from png_read", script)
            else:
                if not ((fate == "OK" and mat == ("N",)) or fate == "DIE"):
                    self.fail("foreign png", "rejected: png_header png_fixed rejects the file (outcome %s) but mzd_from_png returned a matrix" % verdict, script)

    # ---------------------------------------------------------------- damaged PNG files
    def png_damaged(self, ioh, nbases, per_base, given=None):
        rng = self.rng
        # base files: two written by m4ri (with and without comment), three by plain libpng
        base_cmds = []
        bases = []
        for i in range(nbases):
            cid = "base%d" % i
            fn = ioh.path(cid + ".png")
            if i % 5 < 2:
                m, n = rng.choice([(3, 70), (5, 9), (2, 130), (1, 64), (4, 8)])
                rows = content(rng, m, n, "dense")
                base_cmds.append("rt %s %s %d %s 0 %d %d %s" % (cid, fn, 6, "comment" if i % 5 == 0 else "-", m, n, " ".join("%x" % r for r in rows)))
            else:
                w, h, depth, ct = rng.choice([(70, 3, 1, 0), (9, 4, 1, 3), (20, 2, 8, 0), (33, 3, 2, 0), (8, 2, 8, 2), (5, 5, 16, 0), (130, 2, 1, 0)])
                base_cmds.append("mkpng %s %s %d %d %d %d 0 %d" % (cid, fn, w, h, depth, ct, 77 + i))
            bases.append((cid, fn))
        ioh.run(base_cmds)
        variants = list(given or [])
        for cid, fn in ([] if given else bases):
            if not os.path.exists(fn):
                continue
            data = open(fn, "rb").read()
            chunks = parse_chunks(data)
            cuts = set([0, 1, 4, 7, 8])
            for (off, length, typ) in chunks:
                cuts.update([off, off + 4, off + 8, off + 8 + length // 2, off + 8 + length, off + 12 + length])
            cuts = sorted(c for c in cuts if c < len(data))
            k = 0
            for c in cuts:
                variants.append(("%s-t%d" % (cid, c), data[:c], "truncated at byte %d of %d (chunks %s)" % (c, len(data), [t for _, _, t in chunks])))
            for _ in range(per_base):
                k += 1
                b = bytearray(data)
                mode = rng.choice(["flip", "flip", "ihdr", "idat", "byte"])
                if mode == "ihdr" and chunks and chunks[0][2] == "IHDR":
                    off = chunks[0][0] + 8
                    pos = off + rng.choice([3, 7, 8, 9, 10, 11, 12])      # low width/height bytes, depth, colour, compression, filter, interlace
                    b[pos] = rng.choice([0, 1, 2, 3, 4, 6, 8, 16, b[pos] ^ 1, b[pos] ^ 0x10, 255])
                    fix_crc(b, chunks[0])
                    what = "IHDR byte %d set to %d, CRC repaired" % (pos - off, b[pos])
                elif mode == "idat" and any(t == "IDAT" for _, _, t in chunks):
                    ch = [c for c in chunks if c[2] == "IDAT"][0]
                    if ch[1] > 0:
                        pos = ch[0] + 8 + rng.randrange(ch[1])
                        b[pos] ^= 1 << rng.randrange(8)
                        if rng.random() < 0.5:
                            fix_crc(b, ch)
                    what = "IDAT data bit flipped"
                elif mode == "byte":
                    pos = rng.randrange(len(b))
                    b[pos] = rng.randrange(256)
                    what = "byte overwritten at %d" % pos
                else:
                    pos = rng.randrange(len(b))
                    b[pos] ^= 1 << rng.randrange(8)
                    what = "bit flipped in byte %d" % pos
                variants.append(("%s-c%d" % (cid, k), bytes(b), what))
        cmds_raw, cmds, files = [], [], {}
        for vid, data, what in variants:
            fn = ioh.path(vid + ".png")
            with open(fn, "wb") as fh:
                fh.write(data)
            files[vid] = (fn, what, data)
            cmds_raw.append("rawpng o%s %s" % (vid, fn))
            cmds.append("png %s %s 0" % (vid, fn))
        oracle = ioh.run(cmds_raw)
        out = ioh.run(cmds)
        mcases = []
        for vid in files:
            f = get(oracle.get("o" + vid, dict(lines=[])), "F")
            if f and int(f[2]) <= 4096 and int(f[3]) <= 4096:
                w, h, depth, ct, il, rb = [int(x) for x in f[2:8]]
                lines = ["call io_pnghdr 1 1 %d %d %d %d %d" % (w, h, depth, ct, il)]
                if depth == 1 and ct in (0, 3) and not il:
                    lines += ["call io_pngread %d %d %x" % (w, rb, int.from_bytes(bytes.fromhex(x), "little")) for x in f[8:8 + h]]
                mcases.append(Case(vid, lines, {}))
        mo = model(mcases)
        for vid, (fn, what, data) in files.items():
            d = out.get(vid, dict(lines=[], fate=None))
            fate = classify(d["fate"])
            orc = oracle.get("o" + vid, dict(lines=[], fate=None))
            f = get(orc, "F")
            self.res.count(("png-damaged", vid.split("-")[0], what.split(" ")[0], vid))
            self.note("damaged png", "truncated" if "truncated" in what else ("IHDR field changed, CRC repaired" if "IHDR" in what else what.split(" in ")[0].split(" at ")[0]), fate)
            script = "--- file (%s), hex:\n%s\n--- plain libpng on the same bytes\n%s\nFATE %r\n--- C side (mzd_from_png)\n%s\nFATE %r\n--- model side\n%s\n" % (
                what, data.hex(), "\n".join(" ".join(t)[:400] for t in orc["lines"]), orc["fate"],
                "\n".join(" ".join(t)[:400] for t in d["lines"]), d["fate"], mo.get(vid))
            if fate in ("ASAN", "UBSAN", "SEGV", "TIMEOUT", "ABRT", "MISSING") or fate.startswith("SIG") or fate.startswith("EXIT"):
                self.fail("damaged png", "fate %s: mzd_from_png on a damaged file" % fate, script)
                continue
            mat = matrix_of(d)
            ml = mlines(mo, vid)
            if f and ml is not None:
                if ml[0][1] == "0":
                    exp = [int(t[2], 16) for t in ml[1:]] if all(t[1] == "1" for t in ml[1:]) else None
                    if fate != "OK" or mat is None or mat[0] != "M" or exp is None or mat[3] != exp or (mat[1], mat[2]) != (int(f[3]), int(f[2])):
                        self.fail("damaged png", "accepted: libpng and the model accept the file but the matrix differs", script)
                elif not ((fate == "OK" and mat == ("N",)) or fate == "DIE"):
                    self.fail("damaged png", "rejected: the model rejects the header but a matrix was returned", script)
            elif not f:
                # libpng itself refuses the file: NULL or abort with libpng's diagnostic; a matrix is acceptable only
                # if the damage lies behind the image data (plain libpng's png_read_end is stricter than needed)
                if not (fate == "DIE" or (fate == "OK" and mat is not None)):
                    self.fail("damaged png", "refused: libpng refuses the file; expected NULL or abort with a diagnostic, got %s" % fate, script)
                else:
                    # how far plain libpng got: an error before all image rows were delivered (stage 0 header, 1 rows)
                    # means there is no image to return - a matrix is then a malformed file accepted
                    e = get(orc, "E")
                    stage = [t for t in (e or []) if t.startswith("stage=")]
                    if stage and int(stage[0][6:]) < 2 and fate == "OK" and mat is not None and mat != ("N",):
                        self.fail("damaged png", "accepted: plain libpng fails before the image data is complete (%s) but mzd_from_png "
                                  "returned a matrix" % stage[0], script)

    # ---------------------------------------------------------------- JCF
    def jcf(self, ioh, nvalid, given=None):
        rng = self.rng
        files = list(given or [])      # (id, text, what)
        for idx in range(nvalid):
            m, n = rng.choice([(1, 1), (3, 5), (2, 64), (4, 65), (5, 130), (rng.randint(1, 12), rng.randint(1, 200))])
            rows = content(rng, m, n, rng.choice(["dense", "sparse", "zero", "single", "ones"]))
            toks = []
            for r in rows:
                cols = [j for j in range(n) if (r >> j) & 1]
                if not cols and rng.random() < 0.5 and m > 1:
                    # a row without entries cannot be written in JCF (every row marker is an entry): give it one entry
                    cols = [rng.randrange(n)]
                if not cols:
                    cols = [rng.randrange(n)]
                toks.append(-(cols[0] + 1))
                toks += [c + 1 for c in cols[1:]]
            nz = len(toks)
            sep = rng.choice(["\n", "\n", " ", "\n\n", "\t"])
            def text(hdr, tk, sep=sep):
                return "%s %s %s\n%s\n\n" % tuple(hdr) + sep.join(str(t) for t in tk) + "\n"
            hdr = [m, n, 2, nz]
            files.append(("v%d" % idx, text(hdr, toks), "valid"))
            if idx % 2 == 0:
                t = list(toks)
                k = rng.randrange(len(t))
                LONG_MIN = -(1 << 63)
                muts = [
                    ("index 0", lambda: t.__setitem__(k, 0)),
                    ("positive first entry", lambda: t.__setitem__(0, abs(t[0]))),
                    ("index > ncols", lambda: t.__setitem__(k, (n + 1 + rng.choice([0, 1, 63, 1000])) * (1 if t[k] > 0 else -1))),
                    ("too many rows", lambda: t.extend([-1] * (m - sum(1 for x in t if x < 0) + 1))),
                    ("LONG_MIN", lambda: t.__setitem__(k, LONG_MIN)),
                    ("LONG_MAX", lambda: t.__setitem__(k, (1 << 63) - 1)),
                    ("beyond long", lambda: t.__setitem__(k, rng.choice([1 << 64, -(1 << 70), 1 << 100]))),
                    ("-(ncols+1)", lambda: t.__setitem__(k, -(n + 1))),
                    ("non-numeric token", lambda: t.__setitem__(k, rng.choice(["x", "1x", "--3", "", "0x10", "1e3"]))),
                    ("INT_MIN entry", lambda: t.__setitem__(k, -(1 << 31))),
                    # indices that become valid when narrowed to 32 bits (the tokens are read as long)
                    ("index = k*2^32 + c", lambda: t.__setitem__(k, (rng.choice([1, 1, 3, 256, 1 << 20]) * (1 << 32) + rng.choice([1, n, rng.randint(1, n)]))
                                                                 * (1 if t[k] > 0 else -1))),
                    ("index = 2^32 + c (entry)", lambda: t.append((1 << 32) + rng.randint(1, n))),
                    ("index = c - 2^32", lambda: t.__setitem__(k, (rng.randint(1, n) - (1 << 32)) if t[k] > 0 else -(rng.randint(1, n) + (1 << 32)))),
                ]
                for name, f in muts:
                    t = list(toks)
                    f()
                    files.append(("v%d-%s" % (idx, name.replace(" ", "_").replace(">", "gt")), text(hdr, t), name))
                hmuts = [("wrong modulus", [m, n, rng.choice([0, 3, -2, 7]), nz]), ("negative nrows", [-m, n, 2, nz]), ("negative ncols", [m, -n, 2, nz]),
                         ("zero rows", [0, n, 2, nz]), ("zero cols", [m, 0, 2, nz]), ("ncols INT_MAX", [m, 2147483647, 2, nz]),
                         ("ncols INT_MAX-63", [1, 2147483584, 2, 0]), ("ncols 2^31", [m, 2147483648, 2, nz]), ("nrows -2^31", [-2147483648, n, 2, nz]),
                         ("fewer rows declared", [max(0, m - 1), n, 2, nz]), ("fewer cols declared", [m, max(0, n - 1), 2, nz]),
                         ("modulus LONG_MIN", [m, n, -(1 << 63), nz]), ("nonzero negative", [m, n, 2, -5])]
                for name, h in hmuts:
                    tk = toks if name != "ncols INT_MAX-63" else []
                    files.append(("v%d-%s" % (idx, name.replace(" ", "_")), text(h, tk), name))
                full = text(hdr, toks)
                files.append(("v%d-empty" % idx, "", "empty file"))
                files.append(("v%d-hdr3" % idx, "%d %d 2\n" % (m, n), "short header"))
                files.append(("v%d-hdr2" % idx, "%d %d" % (m, n), "short header"))
                files.append(("v%d-nohdr" % idx, "\n".join(str(x) for x in toks) + "\n", "missing header"))
                files.append(("v%d-junk" % idx, "JCF %d %d 2\n%d\n" % (m, n, nz), "non-numeric header"))
                for c in sorted(set(rng.randrange(len(full)) for _ in range(4))):
                    files.append(("v%d-cut%d" % (idx, c), full[:c], "truncated"))
        cmds_tok, cmds = [], []
        meta = {}
        for fid, txt, what in files:
            fn = ioh.path("j" + fid + ".jcf")
            with open(fn, "w") as fh:
                fh.write(txt)
            meta["j" + fid] = (fn, txt, what)
            cmds_tok.append("jcftok t%s %s" % ("j" + fid, fn))
            cmds.append("jcf %s %s 0" % ("j" + fid, fn))
        toks_out = ioh.run(cmds_tok)
        mcases, skip_model = [], set()
        for cid, (fn, txt, what) in meta.items():
            t = get(toks_out.get("t" + cid, dict(lines=[])), "T")
            if not t:
                continue
            conv, m, n, p, nz = [int(x) for x in t[2:7]]
            tk = [int(x) for x in t[8:] if x]
            if conv == 4 and p == 2 and 0 <= m and 0 <= n <= 2147483647 - 63 and (m > 20000 or n > 20000):
                skip_model.add(cid)          # the model would build m rows / the library would allocate them
                continue
            def sh(v):
                return ("-%x" % -v) if v < 0 else "%x" % v
            mcases.append(Case(cid, ["call io_jcf 111111 %s %s %s %s %s : %s" % (sh(conv), sh(m), sh(n), sh(p), sh(nz), " ".join(sh(x) for x in tk))], {}))
        mo = model(mcases)
        out = ioh.run([c for c in cmds if c.split()[1] not in skip_model])
        for cid, (fn, txt, what) in meta.items():
            if cid in skip_model:
                continue
            d = out.get(cid, dict(lines=[], fate=None))
            fate = classify(d["fate"])
            self.res.count(("jcf", what, cid))
            self.note("jcf", what, fate)
            ml = mlines(mo, cid)
            script = "--- file (%s):\n%s\n--- what fscanf produced\n%s\n--- C side (mzd_from_jcf)\n%s\nFATE %r\n--- model side (jcf_parse jcf_fixed)\n%s\n" % (
                what, txt[:3000], " ".join(get(toks_out.get("t" + cid, dict(lines=[])), "T") or ["?"])[:1500],
                "\n".join(" ".join(t)[:600] for t in d["lines"]), d["fate"], mo.get(cid))
            if fate in ("ASAN", "UBSAN", "SEGV", "TIMEOUT", "ABRT", "MISSING") or fate.startswith("SIG") or fate.startswith("EXIT"):
                self.fail("jcf", "fate %s: mzd_from_jcf on a file with: %s" % (fate, what), script)
                continue
            if ml is None or not ml or ml[0][0] != "jcf":
                self.fail("jcf", "model: no model output", script, no_input=True)
                continue
            o = [int(x, 16) if not x.startswith("-") else -int(x[1:], 16) for x in ml[0][1:]]
            mat = matrix_of(d)
            if o[0] == 0:
                if fate != "OK" or mat is None or mat[0] != "M" or (mat[1], mat[2]) != (o[1], o[2]) or mat[3] != o[3:]:
                    self.fail("jcf", "ok: jcf_parse jcf_fixed = Ok M but mzd_from_jcf gives something else (%s)" % what, script)
            elif o[0] == 1:
                if not (fate == "OK" and mat == ("N",)):
                    self.fail("jcf", "reject: jcf_parse jcf_fixed = Reject but mzd_from_jcf did not return NULL (%s)" % what, script)
            elif o[0] == 2:
                msg = "trying to write to (%d,%d)" % (o[1], o[2])
                if fate != "DIE" or msg not in d["fate"][2]:
                    self.fail("jcf", "die: jcf_parse jcf_fixed = Die %d %d but mzd_from_jcf did not die with that message (%s)" % (o[1], o[2], what), script)
            else:
                self.fail("jcf", "unsafe: jcf_parse jcf_fixed yields an unsafe outcome %r (contradicts C18_jcf_safe)" % (o,), script, no_input=True)

    # ---------------------------------------------------------------- string constructor
    def from_str(self, ioh, count):
        rng = self.rng
        cmds, info, mcases = [], {}, []
        for idx in range(count):
            m, n = rng.choice([(1, 1), (1, 64), (2, 65), (3, 7), (rng.randint(1, 6), rng.randint(1, 140))])
            alphabet = rng.choice(["01", "01", "01 ", "01x", "10", "1", "0", "012-"])
            s = "".join(rng.choice(alphabet) for _ in range(m * n)).replace(" ", "_")
            cid = "s%d" % idx
            cmds.append("str %s %d %d %s" % (cid, m, n, s))
            mcases.append(Case(cid, ["call io_str %d %d %s" % (m, n, s)], {}))
            info[cid] = (m, n, s)
        out = ioh.run(cmds)
        mo = model(mcases)
        for cid, (m, n, s) in info.items():
            d = out.get(cid, dict(lines=[], fate=None))
            fate = classify(d["fate"])
            self.res.count(("str", m, n % 64, len(set(s))))
            self.note("from_str", "alphabet %s" % "".join(sorted(set(s))), fate)
            ml = mlines(mo, cid)
            script = "--- command\nstr %s %d %d %s\n--- C side\n%s\nFATE %r\n--- model side\n%s\n" % (cid, m, n, s, "\n".join(" ".join(t)[:600] for t in d["lines"]), d["fate"], mo.get(cid))
            mat = matrix_of(d)
            exp = [int(x, 16) for x in ml[0][2:]] if ml and ml[0][0] == "str" and ml[0][1] == "1" else None
            if fate != "OK" or mat is None or mat[0] != "M" or exp is None or (mat[1], mat[2]) != (m, n) or mat[3] != exp:
                self.fail("from_str", "differs: mzd_from_str differs from from_str of the model (fate %s)" % fate, script)


def content(rng, m, n, kind):
    full = (1 << n) - 1
    if kind == "zero":
        return [0] * m
    if kind == "ones":
        return [full] * m
    if kind == "single":
        out = [0] * m
        out[rng.randrange(m)] = 1 << rng.choice([0, n - 1, rng.randrange(n)])
        return out
    if kind == "ends":
        return [(1 | (1 << (n - 1)) | (1 << ((n - 1) // 8 * 8)) | (1 << ((n - 1) // 64 * 64))) & full for _ in range(m)]
    if kind == "sparse":
        return [(1 << rng.randrange(n)) | (1 << rng.randrange(n)) if rng.random() < 0.7 else 0 for _ in range(m)]
    return [rng.getrandbits(n) for _ in range(m)]


def parse_chunks(data):
    out, off = [], 8
    while off + 8 <= len(data):
        length = struct.unpack(">I", data[off:off + 4])[0]
        typ = data[off + 4:off + 8].decode("latin1")
        out.append((off, length, typ))
        off += 12 + length
    return out


def fix_crc(b, chunk):
    off, length, typ = chunk
    if off + 12 + length <= len(b):
        crc = zlib.crc32(bytes(b[off + 4:off + 8 + length])) & 0xffffffff
        b[off + 8 + length:off + 12 + length] = struct.pack(">I", crc)


def shapes_for(tier, rng):
    sh = []
    top = 200 if tier == "quick" else 520
    kinds = ["dense", "dense", "ones", "zero", "ends", "single", "sparse"]
    for n in range(1, top + 1):               # every residue mod 64 and mod 8, several times
        sh.append((rng.choice([1, 2, 3, 5]), n, kinds[n % len(kinds)]))
    for n in (1, 7, 8, 9, 63, 64, 65, 127, 128, 129, 1000, 4097):
        for kind in ("dense", "ones", "zero"):
            sh.append((rng.choice([1, 4, 17]), n, kind))
    if tier != "quick":
        for _ in range(5000):
            sh.append((rng.randint(1, 40), rng.randint(1, 700), rng.choice(kinds)))
    return sh


def run(res, tier, seed):
    res.cov["rule"] = ("PNG round trip through the real library (mzd_to_png then mzd_from_png) for every column count 1..200 (every "
                       "residue mod 64 and mod 8, several times; thorough: 1..520 and 5000 random shapes to 700 columns), compression "
                       "levels 0..9, with and without comment, content classes dense/ones/zero/ends/single/sparse, in an ASan+UBSan "
                       "build and the host build; the raw row bytes and IHDR found in the file (plain libpng, no transformations) "
                       "compared with png_write of the model; PNG files of every legal bit depth x colour type x interlace written "
                       "with plain libpng; every base file truncated at every chunk boundary (and inside header, data, CRC) and with "
                       "flipped bits / overwritten bytes / IHDR fields changed with repaired CRC; JCF files: valid ones with several "
                       "separators and per valid file the single-token corruptions index 0, positive first entry, index > ncols, too "
                       "many rows, LONG_MIN, LONG_MAX, beyond long, -(ncols+1), non-numeric token, INT_MIN, and header corruptions "
                       "wrong modulus, negative / zero / oversized dimensions, fewer rows/cols declared, short / missing / non-numeric "
                       "header, truncations; mzd_from_str over several alphabets.  The model (jcf_parse jcf_fixed, png_header "
                       "png_fixed, png_unpack_row, from_str; extracted) decides the expected outcome; fate must be a normal return "
                       "or abort with a diagnostic, never a sanitizer report / SIGSEGV / timeout")
    engine.proof_part(res, PROOFS)
    rng = random.Random(seed)
    quick = tier == "quick"
    asan = IOH(vlib.variant(name="asan", san="asan", opt="-O1"))
    host = IOH(vlib.variant())
    res.cov["configurations"] = [dict(asan.variant), dict(host.variant)]
    r = Run(res, tier, seed)
    corpus(r, asan)
    sh = shapes_for(tier, rng)
    r.png_roundtrip(asan, sh, "asan")
    r.png_roundtrip(host, sh, "host")
    combos = []
    for depth, ct in [(1, 0), (2, 0), (4, 0), (8, 0), (16, 0), (8, 2), (16, 2), (1, 3), (2, 3), (4, 3), (8, 3), (8, 4), (16, 4), (8, 6), (16, 6)]:
        for il in (0, 1):
            for w in ([1, 7, 8, 9, 63, 64, 65, 100] if quick else list(range(1, 140, 3))):
                combos.append((w, 1 + (w % 3), depth, ct, il))
    r.png_foreign(asan, combos)
    r.png_damaged(asan, 10 if quick else 100, 40 if quick else 250)
    r.jcf(asan, 24 if quick else 800)
    r.from_str(asan, 150 if quick else 6000)


def parse_replay(txt):
    import re
    m = re.search(r"--- file \((.*?)\), hex:\n([0-9a-f]*)\n", txt)
    if m:
        return ("png", bytes.fromhex(m.group(2)), m.group(1))
    m = re.search(r"--- file \((.*?)\):\n(.*?)\n--- what fscanf produced", txt, re.S)
    if m:
        return ("jcf", m.group(2), m.group(1))
    return None


def corpus(r, ioh):
    import glob
    pngs, jcfs = [], []
    for k, f in enumerate(sorted(glob.glob(os.path.join(vlib.VERIF, "corpus", "C18", "*.txt")))):
        p = parse_replay(open(f).read())
        if p and p[0] == "png":
            pngs.append(("corpus%d-c0" % k, p[1], "corpus %s: %s" % (os.path.basename(f), p[2])))
        elif p:
            jcfs.append(("corpus%d" % k, p[1], "corpus %s: %s" % (os.path.basename(f), p[2])))
    if pngs:
        r.png_damaged(ioh, 0, 0, given=pngs)
    if jcfs:
        r.jcf(ioh, 0, given=jcfs)
    r.res.cov["corpus_cases"] = len(pngs) + len(jcfs)


def replay(res, path):
    """A replay file holds the damaged PNG file (hex) or the JCF text: that file is re-created and re-checked.
    Round-trip, foreign-PNG and string cases are functions of the seed only: their group is re-run."""
    txt = open(path).read()
    engine.proof_part(res, PROOFS)
    asan = IOH(vlib.variant(name="asan", san="asan", opt="-O1"))
    r = Run(res, "quick", res.seed)
    p = parse_replay(txt)
    if p and p[0] == "png":
        r.png_damaged(asan, 0, 0, given=[("replay-c0", p[1], p[2])])
    elif p:
        r.jcf(asan, 0, given=[("replay", p[1], p[2])])
    else:
        run(res, "quick", res.seed)
