"""C05 — inversion routines return the true inverse of every invertible input."""
import os
import engine, ops, vlib, gen
from corr import Case

OPS = ["inv_m4ri", "invert_naive", "trtri_upper", "trtri_upper_russian"]
PROOFS = ["Properties_C05"]


def singular_cases(g, n, sz):
    """Tier B only (the property does not speak about singular inputs): mzd_inv_m4ri on a singular matrix
    returns the transformation matrix of the reduction; compared with TRSM.inv_m4ri_faithful."""
    out = []
    for _ in range(n):
        d = gen.tri_dim(g, sz)
        rows, kind = gen.rank_profile_rows2(g, d, d)
        k = g.rng.choice([0, 2, 4, 8])
        out.append(g.case("inv_m4ri", [g.mat_line("A", d, d, rows), "call inv_m4ri R - A %d" % k, "dump A", "dump R"],
                          op="inv_m4ri", shape=(d, d), kinds=("singular/" + kind,), k=k))
    return out


def run(res, tier, seed):
    res.cov["rule"] = ("seeded invertible n x n matrices (product of random unit lower, unit upper and a row permutation), n around "
                       "1, 64, 128, 256, 363 (+-1) and generic, k in 0..10,16 (the argument is ignored by the code), supplied "
                       "(junk-filled) or allocated destination; mzd_invert_naive with an identity matrix; mzd_trtri_upper on unit "
                       "upper triangular matrices with zero or GARBAGE below the diagonal; host build and small-cache build (trtri "
                       "recursion entered at n >= 363).  The inverse is unique: Tier A is exact equality with TRSM.inv_m4ri_model / "
                       "invert_naive_model / trtri_upper_simple (InvProofs.v) and A unchanged.  A few singular inputs of "
                       "mzd_inv_m4ri are compared with TRSM.inv_m4ri_faithful (Tier B only).  distinct by (routine, shape class, k, "
                       "regime, build)")
    ops.proof_part(res, PROOFS[0])
    quick = tier == "quick"
    T = {n: ops.Tiers(res, "C05", ops.VARIANTS[n](vlib), unique=True) for n in ("host", "small")}
    res.cov["configurations"] = [dict(t.variant) for t in T.values()]
    ops.run_corpus(res, "C05", T)
    T["host"].run(OPS, seed, 150 if quick else 1200, 140)
    T["host"].run(OPS, seed + 1, 8 if quick else 80, 300 if quick else 600)
    T["small"].run(OPS, seed + 2, 60 if quick else 500, 140)
    T["small"].run(["trtri_upper"], seed + 3, 30 if quick else 250, 400 if quick else 600, tri_big=(363, 420 if quick else 600, 0.8))
    T["small"].run(["inv_m4ri", "invert_naive"], seed + 4, 6 if quick else 50, 400 if quick else 600)
    # singular inputs: faithful model only
    tb = ops.Tiers(res, "C05", T["host"].variant, unique=True, tag="/cfg=host/singular")
    tb.runner = T["host"].runner
    tb.force_b = True
    tb.run([], 0, 0, 0, cases=singular_cases(gen.G(seed + 5), 30 if quick else 300, 140))
    # Tier B: trtri recursion (TRSMRec.trtri_upper_rec_f, build's 2*L3 / SSE2 split) and mzd_inv_m4ri through the M4RI model
    from props import tierb
    tierb.run(res, "C05", tier, seed)


def replay(res, path):
    ops.replay_tiers(res, "C05", path, unique=True)
