"""C08, transposition: the transpose kernels of m4ri/mzd.c are re-translated from the CURRENT source
(tools/translate.py --transpose -> coq/Leaf/Gen_transpose.v, offset mode) and every theorem of
coq/Properties/Properties_C08t.v is re-checked against the regenerated text:
  Leaf/TransposeSpecs.v     64x64, 64x64 in place, 64x64_2, lt64x64 (all n), 64xlt64 (all n)   (one symbolic run each)
  Leaf/TransposeSpecs2.v    small kernels, maxsize <= 32, strides (1,1) and (2,3)
  Leaf/TransposeSpecs3a/b.v small kernels, 32 < maxsize < 64
  Leaf/TransposeSpecs4.v    all 63 x 63 sizes of _mzd_copy_transpose_small
  Alg/TransposeDispatch*.v  hand model of the dispatcher, all shapes (independent of the translation)
A kernel the translator refuses, or a kernel whose symbolic run no longer yields exactly the transposition's
bit sources (any changed mask, shift, stride, loop bound), breaks the build of Properties_C08t.vo.

Called from tools/props/c08.py:   import c08t; c08t.regen_and_prove(res)
"""
import os, sys

sys.path.insert(0, os.path.dirname(os.path.dirname(os.path.abspath(__file__))))
import vlib

PROOF = "Properties_C08t"
GEN = "Leaf/Gen_transpose.v"


def regen():
    """regenerate coq/Leaf/Gen_transpose.v from vlib.REPO (written only if the text changes).
    -> list of problems (refusals / translator crash)"""
    import translate
    try:
        changed, refused = translate.regenerate_transpose()
        return ["T1 (offset mode) refuses %s: %s" % (k, w) for k, w in sorted(refused.items())]
    except vlib.BuildError as e:
        return ["T1 (offset mode): clang rejects the stub: %s" % str(e)[-1200:]]
    except Exception:
        import traceback
        return ["T1 (offset mode) crashed: %s" % traceback.format_exc()[-1500:]]


def regen_and_prove(res=None):
    """Regenerate Gen_transpose.v from the current tree and rebuild Properties_C08t.vo with everything it depends
    on.  Returns the dict of vlib.prove (keys ok, failed, theorems, assumptions, obligations, discharged, log, wall)
    with the translator's problems added to `failed`; if `res` (a vlib.Result) is given the outcome is recorded
    there exactly as engine.proof_part does (add_proof; a broken obligation becomes a violation with a replay
    file naming the failing file/line)."""
    with vlib._Lock():
        # regeneration and make are one critical section (a concurrent check may regenerate from another tree)
        problems = regen()
        pr = vlib.prove(PROOF)
    if problems:
        pr["failed"] = ["translator: " + p[:600] for p in problems] + list(pr.get("failed", []))
        pr["ok"] = False
        pr["discharged"] = 0
    if res is not None:
        # same conventions as engine.proof_part
        res.add_proof(pr)
        if not pr["ok"]:
            path = vlib.write_replay(res.prop, "obligation-transpose",
                                     "obligation no longer checks: Properties/%s.v (after regenerating %s from the tree)\n%s\n"
                                     % (PROOF, GEN, "\n".join(pr["failed"])))
            res.violation(path, no_input=True)
        tb = res.cov.setdefault("trusted_base", [])
        for t in ("clang 14 AST dump + tools/translate.py --transpose (T1, offset mode: pointer = (array, long offset))",
                  "CMini interpreter semantics (Leaf/CMini.v)"):
            if t not in tb:
                tb.append(t)
    return pr


if __name__ == "__main__":
    pr = regen_and_prove(None)
    print("Properties_C08t: %s (%d theorems, %.0f s)" % ("OK" if pr["ok"] else "BROKEN", len(pr.get("theorems", [])), pr.get("wall", 0)))
    for f in pr.get("failed", []):
        print("  " + f)
    sys.exit(0 if pr["ok"] else 1)
