"""C16 — OpenMP build: multi-core products and internally parallel loops equal the sequential results.

PARTIAL BY PROOF (see coq/Properties/Properties_C16.v for what the model cannot exhibit):
  1. proofs: Properties_C16.v (tasks_commute, schedule_indep, quadrants of mp.c own disjoint words,
     sections_commute, parfor_indep for rows and tables);
  2. correspondence: the OpenMP build of the working tree, c/harness.c, the SAME seeded cases for every
     OMP_NUM_THREADS in {1,2,3,4,5,8,16} (plus nested regions enabled for some), routes mzd_mul_mp,
     mzd_addmul_mp, mzd_mul, mzd_addmul, mzd_echelonize_m4ri; shapes with more than 512 rows (so the
     schedule(static,512) chunks go to different threads) and remainder strips that are not multiples
     of 128, cutoffs {0,64,128,256,512}; every output compared with the extracted model (mmul / rref of
     ocaml/driver) AND with the sequential (non-OpenMP) build.  Mismatch = VIOLATION with the case as
     replay (the replay is re-run under every thread count).
"""
import os, re, time
import corr, engine, gen, vlib
from props import c15 as _c15

PROOFS = ["Properties_C16"]
CHAIN = ["Sys/Conc.v", "Sys/ConcProofs.v"]
THREADS = [1, 2, 3, 4, 5, 8, 16]
REM = [1, 37, 44, 63, 64, 65, 100, 127, 0]
CUTOFFS = [0, 64, 128, 256, 512]


def omp_variant():
    return vlib.variant(name="omp", openmp=1)


def configs(tier):
    """(threads, max active levels)"""
    cs = [(t, 1) for t in THREADS] + [(2, 2), (3, 2), (4, 3)]
    if tier == "thorough":
        cs += [(6, 1), (7, 1), (9, 1), (12, 1), (13, 1), (5, 2), (8, 2)]
    return cs


def env_of(t, levels):
    # spinning waiters (libgomp default) give the tightest interleavings but starve each other once the sharded
    # harness processes x threads exceed the cores: passive from 8 threads on and for nested teams
    return {"OMP_NUM_THREADS": str(t), "OMP_MAX_ACTIVE_LEVELS": str(levels), "OMP_NESTED": "true" if levels > 1 else "false",
            "OMP_DYNAMIC": "false", "OMP_THREAD_LIMIT": "256", "OMP_WAIT_POLICY": "passive" if (t >= 8 or levels > 1) else "active"}


def big(g, lo=4, hi=8):
    """more than 512 rows/columns, remainder (mod 128) from REM"""
    return 128 * g.rng.randint(lo, hi) + g.rng.choice(REM) + (1 if g.rng.random() < 0.1 else 0)


def mid(g):
    return g.rng.choice([128 * g.rng.randint(1, 4) + g.rng.choice(REM), g.rng.randint(130, 640), 64 * g.rng.randint(2, 9)])


def content(g, nr, nc):
    return g.rows(nr, nc, g.rng.choice(["dense", "dense", "dense", "sparse", "lowrank", "ones"]))


def product_case(g, route, budget):
    while True:
        m, l, n = big(g), mid(g), mid(g)
        shape = g.rng.random()
        if shape < 0.25:
            m, n = n, m            # wide result: more than 512 columns
        elif shape < 0.4:
            l = big(g, 4, 6)
        if m * l * n <= budget:
            break
    ra, ka = content(g, m, l)
    rb, kb = content(g, l, n)
    cut = g.rng.choice(CUTOFFS)
    if route.endswith("_mp") and g.rng.random() < 0.5:
        cut = 64        # the four-way split of mp.c is taken only when every dimension is >= 4*cutoff/3
    lines = [g.mat_line("A", m, l, ra), g.mat_line("B", l, n, rb)]
    acc = route.startswith("addmul")
    if acc:
        rc, _ = g.rows(m, n, g.rng.choice(["dense", "zero", "ones"]))
        lines.append(g.mat_line("C", m, n, rc))
        lines.append("call %s R C A B %d" % (route, cut))
        lines += ["dump A", "dump B", "dump C"]
    elif g.rng.random() < 0.7:
        rc, _ = g.rows(m, n, "dense")
        lines.append(g.mat_line("C", m, n, rc))
        lines.append("call %s R C A B %d" % (route, cut))
        lines += ["dump A", "dump B", "dump C"]
    else:
        lines.append("call %s R - A B %d" % (route, cut))
        lines += ["dump A", "dump B", "dump R"]
    return g.case(route, lines, op=route, shape=(m, l, n), kinds=(ka, kb), param=str(cut))


def echelon_case(g, budget):
    while True:
        nr, nc = big(g, 4, 9), mid(g)
        if g.rng.random() < 0.3:
            nr, nc = nc, big(g, 4, 6)
        if nr * nc * min(nr, nc) <= budget:
            break
    if g.rng.random() < 0.6:
        ra, ka = g.rank_profile_rows(nr, nc)
    else:
        ra, ka = content(g, nr, nc)
    full, k = g.rng.getrandbits(1), g.rng.choice([0, 0, 2, 3, 4, 5, 6, 7, 8])
    lines = [g.mat_line("A", nr, nc, ra), "call echelonize_m4ri A %d %d" % (full, k), "dump A"]
    return g.case("echelonize_m4ri", lines, op="echelonize_m4ri", shape=(nr, nc), kinds=(ka,), full=full, k=k)


def echelon_tables_case(g, t):
    """aimed at the row loops of mzd_process_rows / _rows2 .. _rows6 (each an omp-for with schedule(static,512)): dense
    full-column-rank input whose LAST strip holds between (t-1)k+1 and tk pivots, i.e. is eliminated with t tables, and
    more than 1024 rows, so that the chunk boundaries 512, 1024 lie inside one call"""
    k = g.rng.choice([3, 4, 5, 6, 7])
    nc = 6 * k * g.rng.choice([1, 2, 3]) + (t - 1) * k + g.rng.randint(1, k)
    nr = g.rng.choice([1030, 1100, 1400, 1537])
    ra, ka = g.rows(nr, nc, "dense")
    full = g.rng.getrandbits(1)
    lines = [g.mat_line("A", nr, nc, ra), "call echelonize_m4ri A %d %d" % (full, k), "dump A"]
    return g.case("echelonize_m4ri", lines, op="echelonize_m4ri", shape=(nr, nc), kinds=(ka, "tables=%d" % t), full=full, k=k)


def make_cases(seed, tier):
    g = gen.G(seed)
    n_prod, n_ech = (8, 12) if tier == "quick" else (40, 60)
    budget = 2.0e8 if tier == "quick" else 6.0e8
    cs = []
    for route in ("mul_mp", "addmul_mp", "mul", "addmul"):
        # mul_mp most: its remainder strips (rows / columns / inner dimension not multiples of 128) are handled after
        # the parallel sections and must overwrite, not accumulate into, a supplied destination
        for _ in range(2 * n_prod if route == "mul_mp" else n_prod):
            cs.append(product_case(g, route, budget))
    for _ in range(n_ech):
        cs.append(echelon_case(g, budget))
    for rep in range(1 if tier == "quick" else 4):
        for t in range(1, 7):
            cs.append(echelon_tables_case(g, t))
    return cs


def same_output(a, b):
    return a is not None and b is not None and a[0] == b[0] and a[1] == b[1]


def check_cases(res, cases, tier, tag_prefix=""):
    omp = corr.Runner(omp_variant())
    seq = corr.Runner(vlib.variant())
    t0 = time.time()
    mout = corr.run_model(cases)
    res.cov["model_wall_s"] = round(time.time() - t0, 1)
    sout = seq.run_c(cases, timeout_case=120)
    bad_seq = corr.compare(cases, sout, mout)
    engine.handle_mismatches(res, "C16", bad_seq, seq, tag="/sequential-build")
    dist = res.cov.setdefault("distribution", {})
    for t, lv in configs(tier):
        shard = vlib.NPROC if t <= 2 else max(2, vlib.NPROC // min(t, 8))
        cout = omp.run_c(cases, env=env_of(t, lv), shard=shard, timeout_case=120)
        tag = "/omp=%d/levels=%d" % (t, lv)
        bad = corr.compare(cases, cout, mout, ignore_unsupported=False)
        # ... and against the sequential build, bit for bit
        seen = {b[0].id for b in bad}
        for c in cases:
            if c.id not in seen and not same_output(cout.get(c.id), sout.get(c.id)):
                bad.append((c, "OpenMP build (%d threads) differs from the sequential build" % t, cout.get(c.id), sout.get(c.id)))
        engine.handle_mismatches(res, "C16", bad, omp, tag=tag)
        for c in cases:
            m = c.meta
            key = (m["op"], tuple(s // 128 for s in m["shape"]), tuple(s % 128 for s in m["shape"]), m.get("param"), m.get("k"),
                   m.get("full"), t, lv)
            res.count(key, True)
            d = dist.setdefault(m["op"] + tag, {"n": 0})
            d["n"] += 1
            f = (cout.get(c.id) or ("?",))[0]
            d[f] = d.get(f, 0) + 1
    return mout


def run(res, tier, seed):
    res.cov["rule"] = ("seeded products (mul_mp, addmul_mp, mul, addmul) and M4RI eliminations in the OpenMP build; shapes with "
                       "more than 512 rows or columns and remainders mod 128 in {0,1,37,44,63,64,65,100,127}, cutoffs "
                       "{0,64,128,256,512}, k in {0,2..8}; the same cases under OMP_NUM_THREADS in {1,2,3,4,5,8,16} and with "
                       "nested regions enabled (max active levels 2,3); each output compared with the extracted model and with "
                       "the sequential build; distinct by (route, shape class /128, remainders, parameter, threads, levels)")
    _c15.prove_listed_or_direct(res, PROOFS, CHAIN)
    cases = make_cases(seed, tier)
    res.cov["configurations"] = [dict(threads=t, max_active_levels=lv) for t, lv in configs(tier)]
    res.cov["shapes"] = [list(c.meta["shape"]) for c in cases]
    if cases:
        res.cov["samples"].append(cases[0].text()[:400])
        res.cov["samples"].append(cases[-1].text()[:400])
    check_cases(res, cases, tier)


def replay(res, path):
    txt = open(path).read()
    if "--- script" not in txt:
        _c15.prove_listed_or_direct(res, PROOFS, CHAIN)
        return
    body = txt.split("--- script\n", 1)[1].split("--- C side", 1)[0]
    lines = body.strip().split("\n")
    cid = lines[0][5:].strip()
    inner = lines[1:-1] if lines[-1].startswith("end") else lines[1:]
    op = cid.split("-")[0]
    shape = ()
    for l in inner:
        f = l.split()
        if f and f[0] == "mat" and f[1] == "A":
            shape = (int(f[2]), int(f[3]))
    case = corr.Case(cid, inner, {"op": op, "shape": shape or (0,)})
    check_cases(res, [case], "quick")
