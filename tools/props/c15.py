"""C15 — thread-safe build: concurrent use on disjoint matrices is race-free and every thread gets the
sequential results.

PARTIAL BY PROOF (see coq/Properties/Properties_C15.v for what the model cannot exhibit):
  1. translator T3: tools/globals_extract.py rewrites coq/Sys/GenGlobals.v from the thread-safe build of
     the working tree (objdump of the objects + clang AST);
  2. proofs: Properties_C15.v (interleave_indep over the allocator model in the thread-safe
     instantiation; globals_ok over the regenerated table) — a broken obligation is a VIOLATION whose
     replay names the offending object and writer;
  3. search: c/thread_harness.c in the thread-safe build under ThreadSanitizer (and uninstrumented, for
     real parallel speed), 2..16 pthreads running seeded scripts of mul / echelonize / ple / pluq /
     solve / trsm / inversion / transpose / data movement / allocation churn on private operands; any
     ThreadSanitizer report, any digest that differs from the sequential pass of the same scripts, or a
     crash that the sequential pass does not show is a VIOLATION with replay (seed, threads, ops, size).
"""
import os, re, subprocess, time
import engine, vlib
import globals_extract

PROOFS = ["Properties_C15"]
CHAIN = ["Sys/Conc.v", "Sys/ConcProofs.v", "Sys/GenGlobals.v", "Sys/ConcGlobals.v"]
ALLOWED = {"m4ri_init", "m4ri_fini", "m4ri_build_all_codes", "m4ri_destroy_all_codes", "constructor"}
TSAN_ENV = {"TSAN_OPTIONS": "halt_on_error=0:exitcode=66:report_signal_unsafe=0:history_size=4:second_deadlock_stack=1"}


# ----------------------------------------------------------------------------------------------
# proofs (shared with c16.py)
# ----------------------------------------------------------------------------------------------
def prove_listed_or_direct(res, prop_files, chain, search=None):
    """engine.proof_part when the files are in _CoqProject (make tracks the dependencies); otherwise
    compile the chain and the property files directly with coqc (same obligations, same gates)."""
    listed = set(vlib.coq_files())
    need = set(chain) | {"Properties/%s.v" % p for p in prop_files}
    if need <= listed:
        ok = engine.proof_part(res, prop_files, search=search)
        # freshness guard: vlib.prove touches Properties/X.v before `make`; if make failed the previous X.vo may
        # still be lying around -- an obligation only counts when X.vo is newer than X.v and than the chain
        for pf in prop_files:
            vo = os.path.join(vlib.COQ, "Properties", pf + ".vo")
            srcs = [os.path.join(vlib.COQ, "Properties", pf + ".v")] + [os.path.join(vlib.COQ, f) for f in chain]
            fresh = os.path.exists(vo) and all(os.path.getmtime(vo) >= os.path.getmtime(f) for f in srcs)
            if ok and not fresh:
                ok = False
                res.cov["discharged"] = max(0, res.cov["discharged"] - max(1, len(vlib.theorems_of("Properties/%s.v" % pf))))
                _, log = vlib.coq_make(["Properties/%s.vo" % pf])
                m = re.findall(r"File \"([^\"]+)\", line (\d+)[^\n]*\n(Error[^\n]*(?:\n[^\n]+){0,6})", log)
                failed = ["%s:%s %s" % (f, ln, err.replace("\n", " ")[:400]) for f, ln, err in m[:5]] or [log[-800:]]
                found = search(dict(failed=failed)) if search else None
                if found:
                    res.violation(found)
                else:
                    res.violation(vlib.write_replay(res.prop, "obligation", "obligation no longer checks: Properties/%s.v "
                                                    "(stale .vo)\n%s\n" % (pf, "\n".join(failed))), no_input=True)
        return ok
    allok = True
    for pf in prop_files:
        t0 = time.time()
        gate = vlib.grep_gate()
        log, built = "", True
        for f in ["Sys/Alloc.v"] + chain + ["Properties/%s.v" % pf]:
            vo = os.path.join(vlib.COQ, f[:-2] + ".vo")
            src = os.path.join(vlib.COQ, f)
            if f == "Sys/Alloc.v" and os.path.exists(vo) and os.path.getmtime(vo) >= os.path.getmtime(src):
                continue
            try:
                p = vlib.run(["coqc", "-Q", ".", "M4", f], cwd=vlib.COQ, timeout=1200)
            except subprocess.TimeoutExpired:
                log += "\nTIMEOUT compiling %s" % f
                built = False
                break
            log += p.stdout + p.stderr
            if p.returncode != 0:
                built = False
                break
        ths = vlib.theorems_of("Properties/%s.v" % pf)
        assum = vlib.print_assumptions_of(log)
        bad_ax = [a for a in assum if a.startswith("Axioms:") and not any(s in a for s in vlib.STD_AXIOMS)]
        failed = []
        if gate:
            failed.append("forbidden constructs: " + "; ".join(gate[:5]))
        if not built:
            m = re.findall(r"File \"([^\"]+)\", line (\d+)[^\n]*\n(Error[^\n]*(?:\n[^\n]+){0,6})", log)
            for f, ln, err in m[:5]:
                failed.append("%s:%s %s" % (f, ln, err.replace("\n", " ")[:400]))
            if not m:
                failed.append("Properties/%s.vo did not build: %s" % (pf, log[-800:]))
        if bad_ax:
            failed.append("non-standard axioms: " + "; ".join(bad_ax))
        n = max(1, len(ths))
        ok = built and not gate and not bad_ax
        pr = dict(obligations=n, discharged=n if ok else 0, ok=ok, log=log, assumptions=assum, theorems=ths,
                  failed=failed, wall=time.time() - t0)
        res.add_proof(pr)
        if not ok:
            allok = False
            found = search(pr) if search else None
            if found:
                res.violation(found)
            else:
                path = vlib.write_replay(res.prop, "obligation", "obligation no longer checks: Properties/%s.v\n%s\n" % (
                    pf, "\n".join(failed)))
                res.violation(path, no_input=True)
    res.cov["checker_cmd"] = "cd /verif/coq && for f in %s; do coqc -Q . M4 $f; done" % " ".join(
        chain + ["Properties/%s.v" % p for p in prop_files])
    tb = ["Coq 8.16.1 kernel + vm_compute", "gcc 12 builds of /repo working tree", "tools/*.py"]
    for a in res.cov.get("print_assumptions", []):
        if a not in tb:
            tb.append("Print Assumptions: " + a)
    res.cov["trusted_base"] = tb
    return allok


def offending(table):
    out = []
    for name in sorted(table):
        bad = sorted(w for w in table[name]["writers"] if w not in ALLOWED)
        if bad:
            out.append((name, bad, table[name]["src"]))
    return out


# ----------------------------------------------------------------------------------------------
# runtime search
# ----------------------------------------------------------------------------------------------
class Harness:
    def __init__(self):
        self.vt = vlib.variant(name="ts-tsan", threadsafe=1, san="tsan")
        self.vp = vlib.variant(name="ts", threadsafe=1)
        self.exe = {"ts-tsan": vlib.build_harness(self.vt, "thread_harness.c"),
                    "ts": vlib.build_harness(self.vp, "thread_harness.c")}

    def run(self, build, args, timeout=600):
        env = dict(os.environ)
        env.update(TSAN_ENV)
        env.pop("OMP_NUM_THREADS", None)
        try:
            p = subprocess.run([self.exe[build]] + [str(a) for a in args], stdout=subprocess.PIPE, stderr=subprocess.PIPE,
                               text=True, errors="replace", timeout=timeout, env=env)
            return p.returncode, p.stdout, p.stderr
        except subprocess.TimeoutExpired as e:
            return -999, (e.stdout or b"").decode(errors="replace") if isinstance(e.stdout, bytes) else (e.stdout or ""), "TIMEOUT"

    def script(self, args):
        rc, out, err = self.run("ts", list(args) + ["list"])
        return rc, out


def classify(rc, out, err):
    """-> None (fine) | 'tsan' | 'mismatch' | 'crash'"""
    if "ThreadSanitizer" in err or rc == 66:
        return "tsan"
    if "RESULT MISMATCH" in out or rc == 1:
        return "mismatch"
    if rc != 0 or "RESULT OK" not in out:
        return "crash"
    return None


def shrink(h, build, args, kind, tries=3):
    """fewer threads / shorter scripts that still show the same kind of failure (scripts are prefix-stable:
    thread t's script depends on (seed, t) only and a shorter script is a prefix)."""
    seed, nthr, nops, maxdim = args
    best = list(args)

    def fails(a):
        for _ in range(tries):
            rc, out, err = h.run(build, a)
            if classify(rc, out, err) == kind:
                return (rc, out, err)
        return None

    for nt in (2, 3, 4, 8):
        if nt < best[1] and fails([seed, nt, best[2], maxdim]):
            best[1] = nt
            break
    while best[2] > 1:
        half = max(1, best[2] // 2)
        if fails([seed, best[1], half, maxdim]):
            best[2] = half
        else:
            break
    return best


def report(res, h, build, args, kind, rc, out, err):
    a = shrink(h, build, args, kind) if kind in ("tsan", "mismatch") else list(args)
    if a != list(args):
        for _ in range(3):
            rc2, out2, err2 = h.run(build, a)
            if classify(rc2, out2, err2) == kind:
                rc, out, err = rc2, out2, err2
                break
        else:
            a = list(args)
    _, script = h.script(a)
    first = err
    m = re.search(r"(WARNING: ThreadSanitizer.*?)(?:\n=+\n|\Z)", err, re.S)
    if m:
        first = m.group(1)
    txt = ("# property C15: %s in the thread-safe build (threads on private matrices)\n"
           "# replay: python3 tools/check.py C15 --replay <this file>\n"
           "kind: %s\nbuild: %s\nargs: %s\nexit: %d\n--- script (thread, op index, routine, dims, sequential digest)\n%s"
           "--- stdout\n%s\n--- stderr (first report)\n%s\n" % (
               {"tsan": "ThreadSanitizer reports a data race", "mismatch": "a thread's result differs from the sequential run",
                "crash": "the concurrent run crashes, the sequential one does not"}[kind],
               kind, build, " ".join(str(x) for x in a), rc, script[:6000], out[-3000:], first[:6000]))
    path = vlib.write_replay("C15", "%s-t%d" % (kind, a[1]), txt)
    res.violation(path)


def search(res, tier, seed):
    h = Harness()
    if tier == "quick":
        plan = [(nt, s, 32, md) for nt in range(2, 17) for s, md in ((0, 160), (1, 330), (2, 520), (3, 800))]
        plain = [(nt, s, 200, 400) for nt in (2, 3, 4, 7, 12, 16) for s in (10, 11)]
    else:
        plan = [(nt, s, 60, md) for nt in range(2, 17) for s, md in ((0, 160), (1, 330), (2, 520), (3, 700), (4, 90), (5, 1100))]
        plain = [(nt, s, 400, 600) for nt in range(2, 17) for s in (10, 11, 12, 13)]
    seen = set()
    dist = res.cov.setdefault("distribution", {})
    runs = []
    for build, items in (("ts-tsan", plan), ("ts", plain)):
        for nt, s, nops, md in items:
            args = [seed * 1000 + s * 17 + nt, nt, nops, md]
            rc0, script = h.script(args)
            if rc0 != 0:
                # the sequential pass itself dies: not a concurrency matter (other properties own it)
                res.cov.setdefault("sequential_failures", []).append(" ".join(map(str, args)))
                continue
            for line in script.split("\n"):
                f = line.split()
                if len(f) >= 8:
                    name, dims = f[4], tuple(int(x) for x in f[5:8])
                    key = (build, nt, name, tuple(d // 64 for d in dims))
                    res.count(key, max(dims) > 1)
                    d = dist.setdefault(name, {"n": 0})
                    d["n"] += 1
            rc, out, err = h.run(build, args)
            kind = classify(rc, out, err)
            runs.append(dict(build=build, threads=nt, ops=nops, maxdim=md, seed=args[0], result=kind or "ok"))
            if kind and (build, kind) not in seen:
                seen.add((build, kind))
                report(res, h, build, args, kind, rc, out, err)
            if len(res.cov["samples"]) < 4 and not kind:
                res.cov["samples"].append("thread_harness %s [%s]\n%s" % (" ".join(map(str, args)), build, script[:500]))
    res.cov["runs"] = runs
    # the sanitizer build and the plain build must agree on the sequential digests of the same scripts
    a = [seed, 3, 20, 300]
    d1 = re.search(r"digest (\w+)", h.run("ts", a)[1] or "")
    d2 = re.search(r"digest (\w+)", h.run("ts-tsan", a)[1] or "")
    res.cov["digest_cross_build"] = bool(d1 and d2 and d1.group(1) == d2.group(1))


def run(res, tier, seed):
    res.cov["rule"] = ("(1) table of writable static objects of the thread-safe build regenerated from the working tree and "
                       "checked by the Coq theorem globals_ok; (2) interleave_indep re-checked; (3) pthread harness: thread "
                       "counts 2..16, seeded scripts per thread of 20 routine kinds (products, echelon forms, PLE/PLUQ, solve, "
                       "kernel, TRSM, inversion, transpose, data movement, allocation churn) on private operands, sizes up to "
                       "the Strassen/PLE recursion regimes, under ThreadSanitizer and uninstrumented; a case = one call; "
                       "distinct by (build, thread count, routine, shape class in words)")
    table, changed = globals_extract.regenerate()
    res.cov["globals"] = {n: sorted(table[n]["writers"]) for n in sorted(table)}
    res.cov["globals_regenerated"] = changed

    def why(pr):
        off = offending(table)
        if not off:
            return None
        txt = ("# property C15: a writable object of static storage duration of the thread-safe build is stored to outside\n"
               "# load/unload time (obligation globals_ok of Properties_C15.v no longer checks)\n"
               "# replay: python3 tools/check.py C15 --replay <this file>\nkind: obligation\n")
        for name, bad, src in off:
            txt += "object: %s   [%s]\n  written by (store or escape): %s\n" % (name, "; ".join(src), ", ".join(bad))
        txt += "--- coq\n" + "\n".join(pr["failed"]) + "\n"
        return vlib.write_replay("C15", "globals", txt)

    ok = prove_listed_or_direct(res, PROOFS, CHAIN, search=why)
    if ok and offending(table):
        # cannot happen unless the Coq check and this script disagree: say so loudly
        path = vlib.write_replay("C15", "internal", "globals table has offending entries but globals_ok checked:\n%r\n" % offending(table))
        res.violation(path, no_input=True)
    search(res, tier, seed)


def replay(res, path):
    txt = open(path).read()
    m = re.search(r"^kind: (\w+)", txt, re.M)
    kind = m.group(1) if m else "obligation"
    if kind == "obligation" or "args:" not in txt:
        run_proofs_only(res)
        return
    build = re.search(r"^build: (\S+)", txt, re.M).group(1)
    args = [int(x) for x in re.search(r"^args: (.*)$", txt, re.M).group(1).split()]
    h = Harness()
    res.cov["samples"].append("thread_harness %s [%s]" % (" ".join(map(str, args)), build))
    for attempt in range(10):      # schedule dependent: give it a few chances
        rc, out, err = h.run(build, args)
        res.count(("replay", attempt))
        k = classify(rc, out, err)
        if k:
            report(res, h, build, args, k, rc, out, err)
            return


def run_proofs_only(res):
    table, changed = globals_extract.regenerate()
    res.cov["globals"] = {n: sorted(table[n]["writers"]) for n in sorted(table)}

    def why(pr):
        off = offending(table)
        if not off:
            return None
        txt = "kind: obligation\n" + "".join("object: %s written by %s\n" % (n, ", ".join(b)) for n, b, _ in off)
        return vlib.write_replay("C15", "globals", txt)

    prove_listed_or_direct(res, PROOFS, CHAIN, search=why)
