"""C20 -- allocation failure always ends in the library's controlled abort.

run():
  1. T3: regenerate coq/Sys/GenSites.v from /repo's working tree (tools/alloc_sites.py).
  2. Re-check Properties/Properties_C20.v (wrappers, cache front end, allocation-layer model,
     site table); GenSites.v selects whether the positive layer theorem or its refutation is the
     live statement for this tree.
  3. Correspondence: evaluate the Coq model (`predict`) on the allocation-layer scenarios and
     compare count and per-fault outcome with the real library.
  4. Fault enumeration: c/fault_harness.c, one process per (build, scenario, i); fate from wait
     status + stderr.  Only DIE (SIGABRT raised by abort() called from m4ri_die, after a diagnostic
     on stderr) satisfies the property.
Bad fates that match a `known` entry of known_findings.json ($VERIF_KNOWN overrides the path) on
scenario + function/origin + fate are KNOWN-FINDINGs, all others are VIOLATIONs with a replay file.

Fates:  DIE | ABRT-OTHER (abort() not called from m4ri_die: libpng, assert) | ERR-RETURN (routine
returned an error code / NULL after the failed request) | CONTINUE (returned normally) |
BAD-RESULT (returned normally with a wrong result) | SEGV | SIG<n> | ASAN | UBSAN | TIMEOUT |
EXIT<n> | NOT-REACHED (request i was never made in this run: not a fault, not counted).
"""
import json, os, re, shutil, subprocess, sys, time
from concurrent.futures import ThreadPoolExecutor

import vlib
import alloc_sites

PROP = "C20"
WRAP = ["malloc", "calloc", "realloc", "posix_memalign", "aligned_alloc", "memalign", "valloc", "reallocarray",
        "strdup", "strndup", "abort"]
EXTRA = ["-no-pie", "-Wl,--whole-archive", "/usr/lib/x86_64-linux-gnu/libpng16.a", "-Wl,--no-whole-archive",
         "/usr/lib/x86_64-linux-gnu/libz.a"]
WRAPPER_FUNCS = set(alloc_sites.WRAPPERS) | {"_mm_malloc"}
QUICK_CAP = 160          # per scenario and build: every i below, a spread sample above
QUICK_ASAN_SAMPLE = 14
RUN_TIMEOUT = 60


# ----------------------------------------------------------------------------------------------
# known findings
# ----------------------------------------------------------------------------------------------
def known_entries():
    return alloc_sites.known_entries()


def match_known(known, scenario, function, origin, callee, fate):
    for e in known:
        if "scenarios" in e and scenario not in e["scenarios"]:
            continue
        if "scenarios" not in e and "scenario" in e and e["scenario"] != scenario:
            continue
        if "fates" in e and fate not in e["fates"]:
            continue
        if "function" in e and e["function"] != function:
            continue
        if "origin" in e and e["origin"] != origin:
            continue
        if "callee" in e and callee and e["callee"] != callee:
            continue
        if not any(k in e for k in ("function", "origin")):
            continue      # never match on property id / scenario alone
        return e
    return None


def controlled_external(info, fate):
    """An allocation requested INSIDE libpng/zlib (png_malloc, inflateInit ...) never reaches m4ri as a
    null result: libpng reports it through its own error path, which ends either in png_error -> abort()
    with a diagnostic on stderr (ABRT-OTHER: mzd_from_png installs no error handler) or in an error return
    that m4ri passes on (ERR-RETURN: mzd_to_png returns non-zero, mzd_from_png returns NULL).  Neither
    dereferences a null result or continues with a half-initialised object, which is what the property
    forbids; the property's "library's error handler" is m4ri's and applies to the requests m4ri makes.
    libpng also recovers from some of its own failures (an optional tEXt chunk it cannot store is dropped with
    a warning) and the call then completes with the RIGHT result (fate CONTINUE; a wrong result is BAD-RESULT).
    A crash, sanitizer report or wrong result is still a violation."""
    return info.get("origin") == "libpng" and fate in ("ABRT-OTHER", "ERR-RETURN", "CONTINUE")


# ----------------------------------------------------------------------------------------------
# builds
# ----------------------------------------------------------------------------------------------
def build_variants(tier):
    vs = [("host", vlib.variant(name="host"))]
    vs.append(("asan", vlib.variant(name="asan", san="asan", opt="-O1")))
    if tier == "thorough":
        vs += [("ts", vlib.variant(name="ts", threadsafe=1)),
               ("omp", vlib.variant(name="omp", openmp=1)),
               ("nosse2", vlib.variant(name="nosse2", sse2=0)),
               ("small", vlib.variant(name="small", **vlib.SMALL)),
               ("pm", vlib.variant(name="pm", defs=["VERIF_C20_POSIX_MEMALIGN"])),
               ("ts-asan", vlib.variant(name="ts-asan", threadsafe=1, san="asan", opt="-O1"))]
    return vs


def build(name, v):
    """Library + harness of one variant.  `pm` = the posix_memalign variant of the wrappers
    (__M4RI_HAVE_MM_MALLOC 0), which vlib has no switch for: the config text is patched."""
    if name == "pm":
        orig = vlib._config_h

        def patched(tree, vv):
            txt = orig(tree, vv)
            txt, n = re.subn(r"(#define\s+__M4RI_HAVE_MM_MALLOC\s+)1", r"\g<1>0", txt)
            if n != 1:
                raise vlib.BuildError("m4ri_config.h.in: cannot instantiate the posix_memalign variant")
            return txt
        vlib._config_h = patched
        try:
            return vlib.build_harness(v, "fault_harness.c", extra=EXTRA, wrap=WRAP)
        finally:
            vlib._config_h = orig
    return vlib.build_harness(v, "fault_harness.c", extra=EXTRA, wrap=WRAP)


def model_cfg(name):
    """(avariant, hdr_cache, mmc_on) of the Coq model for a build."""
    return {"host": ("VMmMalloc", True, True), "asan": ("VMmMalloc", True, True), "small": ("VMmMalloc", True, True),
            "ts": ("VMmMalloc", False, False), "ts-asan": ("VMmMalloc", False, False),
            "omp": ("VMmMalloc", False, True), "nosse2": ("VPlain", True, True),
            "pm": ("VPosixMemalign", True, True)}[name]


# ----------------------------------------------------------------------------------------------
# running one (scenario, i)
# ----------------------------------------------------------------------------------------------
def env_for(name):
    e = dict(os.environ)
    e["FH_TMP"] = tmpdir()
    e["OMP_NUM_THREADS"] = "4"
    e["ASAN_OPTIONS"] = "allocator_may_return_null=1:detect_leaks=0:abort_on_error=0"
    e["UBSAN_OPTIONS"] = "print_stacktrace=1"
    return e


_tmp = None


def tmpdir():
    global _tmp
    if _tmp is None:
        _tmp = os.path.join(vlib.scratch(), "fh-tmp")
        os.makedirs(_tmp, exist_ok=True)
    return _tmp


def run_one(exe, name, scenario, i):
    try:
        p = subprocess.run([exe, scenario, str(i)], env=env_for(name), stdout=subprocess.PIPE, stderr=subprocess.PIPE,
                           timeout=RUN_TIMEOUT)
        return p.returncode, p.stdout.decode(errors="replace"), p.stderr.decode(errors="replace")
    except subprocess.TimeoutExpired as e:
        return "timeout", "", (e.stderr or b"").decode(errors="replace")


class Resolver:
    """addr2line over one executable, cached."""

    def __init__(self, exe):
        self.exe, self.cache = exe, {}

    def resolve(self, addrs):
        need = [a for a in addrs if a not in self.cache]
        if need:
            # return addresses: look up the byte before, i.e. inside the call instruction
            q = [hex(int(a, 16) - 1) for a in need]
            p = subprocess.run(["addr2line", "-f", "-i", "-a", "-e", self.exe] + q, stdout=subprocess.PIPE,
                               stderr=subprocess.DEVNULL)
            cur = None
            frames = {}
            lines = p.stdout.decode(errors="replace").split("\n")
            k = 0
            while k < len(lines):
                ln = lines[k]
                if re.match(r"^0x[0-9a-f]+$", ln):
                    cur = ln
                    frames[cur] = []
                    k += 1
                    continue
                if cur is not None and k + 1 < len(lines):
                    fn, loc = ln, lines[k + 1]
                    loc = loc.split(" (")[0]
                    f, _, l = loc.rpartition(":")
                    frames[cur].append((fn, f, int(l) if l.isdigit() else 0))
                    k += 2
                    continue
                k += 1
            for a, qa in zip(need, q):
                self.cache[a] = frames.get("0x%016x" % int(qa, 16), frames.get(qa, []))
        out = []
        for a in addrs:
            out.extend(self.cache.get(a, []))
        return out


def rel_m4ri(path):
    m = re.search(r"(?:^|/)(m4ri/[^/]+)$", path or "")
    return m.group(1) if m else None


ZLIB = ("zcalloc", "zcfree", "inflate", "deflate", "z_", "adler32", "crc32")


def analyse_chain(res, chain):
    """-> dict(origin m4ri|libpng|external, function = innermost m4ri function that is not a wrapper,
    site = (file, line) of its call, via = innermost non-m4ri function, callers, frames = all m4ri
    (file, line) of the chain including the wrappers' own)"""
    frames = res.resolve(chain.split(","))
    info = dict(origin="unknown", function="?", site=None, via=None, callers=[], frames=[])
    first_ext = None
    for fn, f, l in frames:
        if fn.startswith(("__wrap_", "fh_")) or (f and f.endswith("fault_harness.c") and not fn.startswith("sc_")):
            continue
        r = rel_m4ri(f)
        if fn.startswith("sc_") or fn == "main":
            if r is None:
                break
        if r is not None:
            info["frames"].append((r, l))
        if r is None and fn not in WRAPPER_FUNCS:
            if info["function"] == "?" and first_ext is None:
                first_ext = fn
            continue
        if fn in WRAPPER_FUNCS:
            continue
        info["callers"].append("%s (%s:%d)" % (fn, r, l))
        if info["function"] == "?":
            info["function"], info["site"] = fn, (r, l)
            info["via"] = first_ext
    if first_ext:
        info["via"] = first_ext
        info["origin"] = "libpng" if first_ext.startswith(("png_",) + ZLIB) else "external"
    elif info["function"] != "?":
        info["origin"] = "m4ri"
    return info


def classify(rc, out, err, exe_res):
    """-> (fate, inject dict or None, library stderr)"""
    inj = None
    m = re.search(r"^\[fh\] INJECT i=(\d+) fn=(\S+) size=(\d+) ra=(\S+)", err, re.M)
    if m:
        inj = dict(i=int(m.group(1)), callee=m.group(2), size=int(m.group(3)), chain=m.group(4))
    lib_err = "\n".join(l for l in err.split("\n") if not l.startswith("[fh] ")).strip()
    if rc == "timeout":
        return "TIMEOUT", inj, lib_err
    if "AddressSanitizer" in err or "LeakSanitizer" in err:
        return "ASAN", inj, lib_err
    if "runtime error:" in err:
        return "UBSAN", inj, lib_err
    if rc == 0:
        if inj is None:
            return ("NOT-REACHED" if "NOT-REACHED" in out else "COMPLETED"), inj, lib_err
        return "EXIT0", inj, lib_err
    if rc == 10:
        return "ERR-RETURN", inj, lib_err
    if rc == 11:
        return "CONTINUE", inj, lib_err
    if rc == 12:
        return "BAD-RESULT", inj, lib_err
    if rc == -6:
        ab = re.search(r"^\[fh\] ABORT ra=(\S+)", err, re.M)
        before = err.split("[fh] ABORT")[0]
        diag = "\n".join(l for l in before.split("\n") if not l.startswith("[fh] ")).strip()
        if ab:
            fr = exe_res.resolve([ab.group(1)])
            if fr and fr[0][0] == "m4ri_die" and diag:
                return "DIE", inj, lib_err
            if fr and fr[0][0] == "m4ri_die":
                return "DIE-SILENT", inj, lib_err
        return "ABRT-OTHER", inj, lib_err
    if rc == -11:
        return "SEGV", inj, lib_err
    if isinstance(rc, int) and rc < 0:
        return "SIG%d" % (-rc), inj, lib_err
    return "EXIT%s" % rc, inj, lib_err


def pick_indices(n, tier, name, scenario):
    if n <= 0:
        return []
    if tier == "thorough":
        return list(range(n))
    if name == "asan":
        if scenario in ("djb_compile", "djb_queue", "heap", "to_png", "from_png"):
            return list(range(min(n, 40)))
        k = QUICK_ASAN_SAMPLE
        if n <= k:
            return list(range(n))
        return sorted({0, 1, 2, n - 1, n - 2} | {int(j * (n - 1) / (k - 1)) for j in range(k)})
    if n <= QUICK_CAP:
        return list(range(n))
    extra = {int(QUICK_CAP + j * (n - 1 - QUICK_CAP) / 19) for j in range(20)}
    return sorted(set(range(QUICK_CAP)) | extra | {n - 1})


# ----------------------------------------------------------------------------------------------
# the Coq side
# ----------------------------------------------------------------------------------------------
def my_files():
    p = os.path.join(vlib.COQ, "Sys", "FILES_C20.txt")
    return [l.strip() for l in open(p) if l.strip().endswith(".v")]


def prove():
    """vlib.prove when the main _CoqProject lists the C20 files, else the same by direct coqc calls."""
    listed = set(vlib.coq_files())
    files = my_files()
    if all(f in listed for f in files):
        return vlib.prove("Properties_C20")
    t0 = time.time()
    gate = [g for g in vlib.grep_gate() if any(g.startswith("coq/" + f + ":") for f in files)]
    log, ok = "", True
    for f in files:
        vo = os.path.join(vlib.COQ, f[:-2] + ".vo")
        src = os.path.join(vlib.COQ, f)
        deps_newer = any(os.path.exists(os.path.join(vlib.COQ, g[:-2] + ".vo")) and os.path.exists(vo) and
                         os.path.getmtime(os.path.join(vlib.COQ, g[:-2] + ".vo")) > os.path.getmtime(vo)
                         for g in files[:files.index(f)])
        if (f.startswith("Properties/") or not os.path.exists(vo) or os.path.getmtime(vo) < os.path.getmtime(src)
                or deps_newer):
            if os.path.exists(vo):
                os.remove(vo)
            try:
                p = vlib.run(["coqc", "-Q", ".", "M4", f], cwd=vlib.COQ, timeout=900)
            except subprocess.TimeoutExpired:
                log += "\nTIMEOUT compiling %s\n" % f
                ok = False
                break
            log += p.stdout + p.stderr
            if p.returncode != 0:
                ok = False
                break
    ths = vlib.theorems_of("Properties/Properties_C20.v")
    assum = vlib.print_assumptions_of(log)
    bad_ax = [a for a in assum if a.startswith("Axioms:") and not any(s in a for s in vlib.STD_AXIOMS)]
    failed = []
    if gate:
        failed.append("forbidden constructs: " + "; ".join(gate[:5]))
    if not ok:
        m = re.findall(r"File \"([^\"]+)\", line (\d+)[^\n]*\n(Error[^\n]*(?:\n[^\n]+){0,6})", log)
        for f, ln, err in m[:5]:
            failed.append("%s:%s %s" % (f, ln, err.replace("\n", " ")[:400]))
        if not m:
            failed.append("Properties_C20.vo did not build: " + log[-800:])
    if bad_ax:
        failed.append("non-standard axioms: " + "; ".join(bad_ax))
    n = max(1, len(ths))
    good = ok and not gate and not bad_ax
    return dict(obligations=n, discharged=n if good else 0, ok=good, log=log, assumptions=assum, theorems=ths,
                failed=failed, wall=time.time() - t0)


def broken_theorems(pr):
    """Names of the statements at the error locations of a failed build."""
    names = []
    for f in pr["failed"]:
        m = re.match(r"\./?([^:]+\.v):(\d+) ", f) or re.match(r"([^:]+\.v):(\d+) ", f)
        if not m:
            continue
        path = os.path.join(vlib.COQ, m.group(1).lstrip("./"))
        if not os.path.exists(path):
            continue
        lines = open(path).read().split("\n")[:int(m.group(2))]
        for l in reversed(lines):
            mm = re.match(r"\s*(?:Theorem|Lemma|Corollary|Example|Definition)\s+([A-Za-z0-9_']+)", l)
            if mm:
                names.append("%s (%s)" % (mm.group(1), m.group(1)))
                break
    return names


LAYER_SCENARIOS = {
    # harness scenario -> Coq history (string), valid for builds whose header cache starts empty
    "init": "[LMzdInit 200 300 HSlot false]",
    "init_cached": "[LMzdInit 70 130 HSlot true]",
    "init_many": "(map (fun i => LMzdInit 3 (70 + N.of_nat i) (if Nat.eqb i 64 then HNewBlock else HSlot) false) (seq 0 70))",
    "window": "[LMzdWindow HSlot]",
    "window_many": "(map (fun i => LMzdWindow (if Nat.eqb i 63 then HNewBlock else HSlot)) (seq 0 70))",
    "mzp_init": "[LMzpInit 300]",
    "mzp_init_window": "[LMzpWindow]",
    "mzp_copy": "[LMzpInit 200]",
    "ple_table_init": "[LPleTable 5 200 HSlot false]",
    "build_all_codes": "[LCodebook 16]",
    "heap": "(LHeapInit :: repeat LHeapPush 40 ++ repeat LHeapPop 38)",
    "djb_queue": "(LDjbInit :: repeat LDjbPush 200)",
}


def predictions(build_names):
    """{(build, scenario): (count, [outcome,...])} and tree_pb_checked, evaluated by coqc."""
    d = os.path.join(vlib.scratch(), "predict")
    os.makedirs(d, exist_ok=True)
    L = ["From Coq Require Import List NArith Bool String.",
         "From M4 Require Import Sys.FaultTypes Sys.GenSites Sys.FaultModel Sys.Fault.",
         "Import ListNotations.", "Open Scope N_scope.",
         'Eval vm_compute in ("PB"%string, tree_pb_checked).']
    for b in build_names:
        v, hdr, mmc = model_cfg(b)
        for s, h in sorted(LAYER_SCENARIOS.items()):
            L.append('Eval vm_compute in ("PRED"%%string, "%s"%%string, "%s"%%string, predict (live_cfg %s %s %s) %s).'
                     % (b, s, v, str(hdr).lower(), str(mmc).lower(), h))
    with open(os.path.join(d, "Predict.v"), "w") as fh:
        fh.write("\n".join(L) + "\n")
    p = vlib.run(["coqc", "-Q", vlib.COQ, "M4", "Predict.v"], cwd=d, timeout=600)
    if p.returncode != 0:
        raise vlib.BuildError("model evaluation failed:\n" + (p.stdout + p.stderr)[-2000:])
    txt = re.sub(r"\s+", " ", p.stdout)
    pb = re.search(r'\("PB", (true|false)\)', txt)
    preds = {}
    for m in re.finditer(r'\("PRED", "([^"]+)", "([^"]+)", \((\d+), \[([^\]]*)\]\)\)', txt):
        outs = [x.strip() for x in m.group(4).split(";") if x.strip()]
        preds[(m.group(1), m.group(2))] = (int(m.group(3)), outs)
    return (pb.group(1) == "true") if pb else None, preds


MODEL_FATE = {"Die": {"DIE"}, "DerefNull": {"SEGV", "ASAN"}, "Continue": {"CONTINUE", "BAD-RESULT", "ERR-RETURN"},
              "Done": {"NOT-REACHED", "COMPLETED"}, "Stuck": set()}


# ----------------------------------------------------------------------------------------------
# enumeration
# ----------------------------------------------------------------------------------------------
def replay_text(kind, **kw):
    L = ["property: C20", "kind: " + kind]
    for k, v in kw.items():
        L.append("%s: %s" % (k, v))
    return "\n".join(L) + "\n"


def enumerate_build(res, tier, name, v, exe, known, groups, stats, only=None):
    """Run the enumeration for one build.  Returns list of (scenario, i, fate) that are bad and new."""
    rs = Resolver(exe)
    p = subprocess.run([exe, "list"], stdout=subprocess.PIPE)
    scenarios = p.stdout.decode().split()
    if only:
        scenarios = [s for s in scenarios if s in only]
    counts = {}
    with ThreadPoolExecutor(max_workers=vlib.NPROC) as ex:
        for s, (rc, out, err) in zip(scenarios, ex.map(lambda s: run_one(exe, name, s, -1), scenarios)):
            m = re.search(r"COUNT (\d+) ZERO (\d+)", out)
            if rc != 0 or not m:
                fate, _, lib_err = classify(rc, out, err, rs)
                txt = replay_text("fault", scenario=s, i=-1, build=name, variant=json.dumps(v, sort_keys=True),
                                  fate=fate, what="the scenario does not even complete without any injected failure",
                                  stderr_tail=json.dumps(err[-1500:]),
                                  rerun="python3 /verif/tools/check.py C20 --replay <this file>")
                res.violation(vlib.write_replay(PROP, "nofault-%s-%s" % (name, s), txt))
                counts[s] = (0, 0)
                continue
            counts[s] = (int(m.group(1)), int(m.group(2)))
    jobs = []
    for s in scenarios:
        for i in pick_indices(counts[s][0], tier, name, s):
            jobs.append((s, i))
    new_bad = []
    t0 = time.time()
    with ThreadPoolExecutor(max_workers=vlib.NPROC) as ex:
        results = list(ex.map(lambda j: run_one(exe, name, j[0], j[1]), jobs))
    observed = {}
    for (s, i), (rc, out, err) in zip(jobs, results):
        fate, inj, lib_err = classify(rc, out, err, rs)
        info = analyse_chain(rs, inj["chain"]) if inj else dict(origin="?", function="?", site=None, via=None, callers=[],
                                                                 frames=[])
        site = info["site"]
        res.count((name, s, site, inj["callee"] if inj else None), nontrivial=inj is not None)
        stats["fates"].setdefault(name, {}).setdefault(fate, 0)
        stats["fates"][name][fate] += 1
        if info["origin"] == "m4ri":
            for fr in info["frames"]:
                stats["sites"].setdefault("%s:%d" % fr, set()).add(s)
        observed[(s, i)] = fate
        if fate in ("DIE", "NOT-REACHED"):
            continue
        if controlled_external(info, fate):
            stats.setdefault("external_controlled", {}).setdefault("%s/%s" % (s, fate), 0)
            stats["external_controlled"]["%s/%s" % (s, fate)] += 1
            continue
        callee = inj["callee"] if inj else None
        e = match_known(known, s, info["function"], info["origin"], callee, fate)
        key = (s, info["function"], info["origin"], callee, fate, bool(e))
        g = groups.setdefault(key, dict(builds={}, entry=e, example=None))
        g["builds"].setdefault(name, []).append(i)
        if g["example"] is None or not e:
            g["example"] = dict(scenario=s, i=i, build=name, variant=v, fate=fate, info=info, inj=inj, rc=rc,
                                stderr=err, exe=exe)
        if not e:
            new_bad.append((s, i, fate))
    stats["runs"] += len(jobs)
    stats["counts"][name] = {s: c[0] for s, c in counts.items()}
    stats["zero_size"][name] = sum(c[1] for c in counts.values())
    stats["wall"][name] = round(time.time() - t0, 1)
    return new_bad, counts, observed


def report_groups(res, groups):
    for key in sorted(groups, key=lambda k: tuple(str(x) for x in k)):
        s, function, origin, callee, fate, is_known = key
        g = groups[key]
        where = "; ".join("%s i=%s" % (b, ",".join(str(i) for i in sorted(ix)[:12]) + ("…" if len(ix) > 12 else ""))
                          for b, ix in sorted(g["builds"].items()))
        ex = g["example"]
        if is_known:
            res.known_finding("scenario=%s function=%s origin=%s callee=%s fate=%s [%s]" % (
                s, function, origin, callee, fate, where))
            continue
        info, inj = ex["info"], ex["inj"]
        txt = replay_text(
            "fault", scenario=ex["scenario"], i=ex["i"], build=ex["build"], variant=json.dumps(ex["variant"], sort_keys=True),
            fate=fate, expected="DIE (SIGABRT raised by abort() in m4ri_die after a diagnostic on stderr)",
            request="%s(%s bytes) from %s" % (inj["callee"], inj["size"], " <- ".join(info["callers"]) or info["via"])
            if inj else "?",
            origin=origin, all_failing="%s" % where,
            stderr_tail=json.dumps(ex["stderr"][-1800:]),
            rerun="python3 /verif/tools/check.py C20 --replay <this file>",
            manual="build c/fault_harness.c against the %s variant (tools/props/c20.py build()), then: "
                   "FH_TMP=/var/tmp <harness> %s %d" % (ex["build"], ex["scenario"], ex["i"]))
        res.violation(vlib.write_replay(PROP, "%s-%s-%d" % (ex["build"], ex["scenario"], ex["i"]), txt))


def run(res, tier, seed):
    known = known_entries()
    res.cov["rule"] = ("fault = one (build, scenario, i): request i (from 0, of non-zero size, counted from the "
                       "scenario's start) answers NULL/ENOMEM, all others pass; non-trivial = a fault that was "
                       "actually injected; distinct = distinct (build, scenario, allocation site, allocator)")
    res.cov["checker_cmd"] = "python3 /verif/tools/check.py C20 --tier %s" % tier
    res.cov["trusted_base"] = [
        "Coq 8.16.1 kernel + vm_compute", "clang 14 JSON AST dump + tools/alloc_sites.py (site table, wrapper bodies)",
        "hand model of the allocation-layer calls (Sys/FaultModel.v part 3), tied by the predict/enumeration comparison",
        "gcc 12, ld --wrap, c/fault_harness.c, addr2line, libpng16.a/libz.a linked statically",
        "glibc: libc-internal requests (stdio, localtime) are not intercepted"]
    # 1. translator
    g = alloc_sites.generate(known)
    sites = g["sites"]
    res.cov["sites"] = dict(total=len(sites),
                            by_class={c: sum(1 for s in sites if s["cls"] == c)
                                      for c in ("via_wrapper", "raw_checked", "raw_unchecked", "unclassified")})
    exc = {(e.get("file"), e.get("function"), e.get("callee")) for e in known}
    not_ok = [s for s in sites if s["cls"] not in ("via_wrapper", "raw_checked")]
    unlisted = [s for s in not_ok if s["cls"] == "unclassified" or (s["file"], s["function"], s["callee"]) not in exc]
    res.cov["sites"]["not_ok"] = ["%s:%d %s in %s (%s)" % (s["file"], s["line"], s["callee"], s["function"], s["cls"])
                                  for s in not_ok]
    res.cov["sites"]["stale_known"] = sorted("%s %s %s" % e for e in exc if e[0] and not any(
        (s["file"], s["function"], s["callee"]) == e for s in not_ok))
    for pbm in g["problems"]:
        path = vlib.write_replay(PROP, "translator", replay_text("obligation", theorem="T3 alloc_sites.py", what=pbm))
        res.violation(path, no_input=True)
    # 2. proofs
    pr = prove()
    res.add_proof(pr)
    res.cov["proof_failed"] = pr["failed"]
    # 3/4. builds, model evaluation, enumeration
    variants = build_variants(tier)
    stats = dict(fates={}, sites={}, runs=0, counts={}, zero_size={}, wall={})
    groups = {}
    new_bad = []
    per_build = {}
    for name, v in variants:
        exe = build(name, v)
        nb, counts, observed = enumerate_build(res, tier, name, v, exe, known, groups, stats)
        new_bad += [(name,) + x for x in nb]
        per_build[name] = (counts, observed)
    report_groups(res, groups)
    # correspondence model <-> library on the layer scenarios
    pb_live = None
    mism = []
    if os.path.exists(os.path.join(vlib.COQ, "Sys", "Fault.vo")):
        try:
            pb_live, preds = predictions([n for n, _ in variants])
            for (b, s), (n, outs) in sorted(preds.items()):
                counts, observed = per_build[b]
                if s not in counts:
                    continue
                if counts[s][0] != n:
                    mism.append("%s/%s: model predicts %d requests, library makes %d" % (b, s, n, counts[s][0]))
                    continue
                for i, o in enumerate(outs):
                    f = observed.get((s, i))
                    if f is not None and f not in MODEL_FATE.get(o, set()):
                        mism.append("%s/%s i=%d: model %s, library %s" % (b, s, i, o, f))
            res.cov["model_comparisons"] = sum(len(o) for _, o in preds.values())
        except vlib.BuildError as e:
            mism.append(str(e)[:600])
    res.cov["live_layer_statement"] = {True: "layer_dies (positive)", False: "layer_dies_refuted (djb_push_back unchecked)",
                                       None: "unknown (Fault.vo not built)"}[pb_live]
    if mism:
        path = vlib.write_replay(PROP, "model", replay_text(
            "obligation", theorem="correspondence predict <-> fault_harness (Sys/FaultModel.v part 3)",
            what="the allocation-layer model no longer predicts the library:\n  " + "\n  ".join(mism[:40])))
        res.violation(path, no_input=True)
    # the refutation being live is itself a finding about the tree (site-level)
    if pb_live is False or any(s["function"] == "djb_push_back" for s in not_ok):
        pbs = [s for s in not_ok if s["function"] == "djb_push_back"]
        if pbs and all((s["file"], s["function"], s["callee"]) in exc for s in pbs):
            res.known_finding("site %s djb_push_back: %d realloc results used untested; live layer statement is "
                              "layer_dies_refuted" % (pbs[0]["file"], len(pbs)))
    # a broken obligation without a failing input of its own
    if not pr["ok"]:
        names = broken_theorems(pr)
        what = "; ".join(pr["failed"])[:1500]
        hint = ""
        if unlisted:
            hint = "unlisted non-ok sites: " + "; ".join(
                "%s:%d %s in %s (%s: %s)" % (s["file"], s["line"], s["callee"], s["function"], s["cls"], s["note"])
                for s in unlisted)
        if new_bad:
            # the enumeration already reported concrete (scenario, i): those VIOLATION lines are the failing inputs
            res.cov["broken_obligation"] = dict(theorems=names, what=what, hint=hint,
                                                failing_inputs=["%s/%s i=%d %s" % x for x in new_bad[:20]])
        else:
            if tier == "quick" and unlisted:
                # search: the enumeration at thorough depth in the configurations quick does not build
                for name, v in build_variants("thorough"):
                    if name in per_build or name.endswith("asan"):
                        continue
                    exe = build(name, v)
                    g2 = {}
                    nb, _, _ = enumerate_build(res, "thorough", name, v, exe, known, g2, stats)
                    report_groups(res, {k: x for k, x in g2.items() if not k[5]})
                    new_bad += [(name,) + x for x in nb]
                    if nb:
                        break
            if not new_bad:
                path = vlib.write_replay(PROP, "obligation", replay_text(
                    "obligation", theorem=", ".join(names) or "Properties_C20", what=what, hint=hint,
                    rerun="cd /verif/coq && coqc -Q . M4 <file>  (after python3 /verif/tools/alloc_sites.py)"))
                res.violation(path, no_input=True)
    res.cov["fates"] = stats["fates"]
    res.cov["runs"] = stats["runs"]
    res.cov["requests_per_scenario"] = stats["counts"]
    res.cov["zero_size_requests"] = stats["zero_size"]
    res.cov["enumeration_wall_s"] = stats["wall"]
    hit = {k: sorted(v) for k, v in stats["sites"].items()}
    table = {"%s:%d" % (s["file"], s["line"]) for s in sites}
    res.cov["sites_exercised"] = dict(in_table=sorted(k for k in hit if k in table),
                                      never_failed=sorted(table - set(hit)),
                                      not_in_table=sorted(k for k in hit if k not in table))
    res.cov["configurations"] = [dict(name=n, **{k: v[k] for k in ("sse2", "openmp", "threadsafe", "san", "l2", "l3")})
                                 for n, v in variants]
    res.cov["samples"] = ["%s/%s i=%d -> %s" % (b, s, i, f) for b, (c, o) in per_build.items()
                          for (s, i), f in list(sorted(o.items()))[:3]][:12]
    res.assumptions = [
        "only requests made by the objects linked into the harness (libm4ri.a, libpng16.a, libz.a) are failed; "
        "libc-internal requests (fopen buffers, localtime) are not",
        "0-byte requests are not fault points",
        "routines above the allocation layer are covered by the site table and the enumeration, not by the model",
        "OpenMP build: which request is the i-th may vary between runs; every run is judged on its own"]


# ----------------------------------------------------------------------------------------------
# replay
# ----------------------------------------------------------------------------------------------
def replay(res, path):
    txt = open(path).read()
    f = dict(re.findall(r"^([a-z_]+): (.*)$", txt, re.M))
    known = known_entries()
    if f.get("kind") == "obligation":
        alloc_sites.generate(known)
        pr = prove()
        res.add_proof(pr)
        if not pr["ok"]:
            print("replay: obligation still broken: " + "; ".join(pr["failed"])[:600])
            res.violation(path, no_input=True)
        else:
            print("replay: all obligations of Properties_C20 are discharged on the current tree")
        return
    name, scenario, i = f["build"], f["scenario"], int(f["i"])
    v = vlib.Variant(json.loads(f["variant"]))
    exe = build(name, v)
    rs = Resolver(exe)
    rc, out, err = run_one(exe, name, scenario, i)
    fate, inj, lib_err = classify(rc, out, err, rs)
    info = analyse_chain(rs, inj["chain"]) if inj else dict(origin="?", function="?", callers=[], via=None)
    print("replay: build=%s scenario=%s i=%d fate=%s request=%s" % (
        name, scenario, i, fate, (inj["callee"] + " from " + " <- ".join(info["callers"])) if inj else "-"))
    res.count((name, scenario, i))
    if fate in ("DIE", "NOT-REACHED", "COMPLETED"):
        return
    if controlled_external(info, fate):
        print("replay: the failing request was made inside libpng/zlib and ended in libpng's own error path (%s): controlled" % fate)
        return
    e = match_known(known, scenario, info["function"], info["origin"], inj["callee"] if inj else None, fate)
    if e:
        res.known_finding("scenario=%s function=%s origin=%s fate=%s [replay i=%d]" % (
            scenario, info["function"], info["origin"], fate, i))
    else:
        res.violation(path)
