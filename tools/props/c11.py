"""C11 — memory safety: valid calls stay inside their operands and invoke no UB; guards fire."""
import engine, ops, vlib, corr, gen

PROOFS = ["Properties_C11"]
OPS = [n for n, d in sorted(ops.CATALOG.items())]

# ill-dimensioned calls to the checked public wrappers: (op, builder of args from dims)
def bad_dim_cases(g, per):
    cases = []
    def mats(spec):
        return [g.mat_line(n, r, c, g.rows(r, c, "dense")[0]) for n, r, c in spec]
    for _ in range(per):
        m, l, n = g.dim(80), g.dim(80), g.dim(80)
        l2 = l + g.rng.choice([1, -1]) if l > 1 else l + 1
        for opn, extra in (("mul_naive", ""), ("mul_m4rm", " 0"), ("mul", " 0"), ("addmul_m4rm", " 0"), ("addmul", " 0"), ("addmul_naive", "")):
            # wrong destination
            lines = mats([("A", m, l), ("B", l, n), ("C", m + 1, n)]) + ["call %s - C A B%s" % (opn, extra), "dump A", "dump B", "dump C"]
            cases.append(g.case("bad-" + opn, lines, op=opn, bad="C dims"))
            if True:   # since fix F21 the cubic wrappers check the inner dimension as well
                lines = mats([("A", m, l), ("B", l2, n), ("C", m, n)]) + ["call %s - C A B%s" % (opn, extra), "dump A", "dump B", "dump C"]
                cases.append(g.case("bad-" + opn, lines, op=opn, bad="inner dims"))
        for opn in ("mul", "addmul"):
            lines = mats([("A", m, l), ("B", l, n), ("C", m, n)]) + ["call %s - C A B -1" % opn, "dump C"]
            cases.append(g.case("bad-" + opn, lines, op=opn, bad="cutoff<0"))
        lines = mats([("A", m, l), ("B", m + 1, l), ("C", m, l)]) + ["call add - C A B", "dump C"]
        cases.append(g.case("bad-add", lines, op="add", bad="dims"))
        lines = mats([("A", m, l), ("D", l + 1, m)]) + ["call transpose - D A", "dump D"]
        cases.append(g.case("bad-transpose", lines, op="transpose", bad="dims"))
        lines = mats([("A", m, l), ("B", m + 1, n)]) + ["call concat R - A B"]
        cases.append(g.case("bad-concat", lines, op="concat", bad="rows"))
        lines = mats([("A", m, l), ("B", n, l + 1)]) + ["call stack R - A B"]
        cases.append(g.case("bad-stack", lines, op="stack", bad="cols"))
        lines = mats([("A", m + 1, l), ("D", m, l)]) + ["call copy - D A", "dump D"]
        cases.append(g.case("bad-copy", lines, op="copy", bad="target too small"))
        # mzd_submatrix: a supplied destination that is too small in exactly ONE dimension (and in both)
        for dr, dc, why in ((1, 0, "S too few rows"), (0, 1, "S too few columns"), (1, 1, "S too small")):
            for c0 in (0, 3):
                if m + 2 <= 1 or l + 4 <= c0 + 1:
                    continue
                mm, ll = m + 2, l + 4 + c0
                br, bc = m + 1, l + 1
                lines = mats([("A", mm, ll), ("S", br - dr, bc - dc)]) + ["call submatrix - S A 0 %d %d %d" % (c0, br, c0 + bc), "dump S"]
                cases.append(g.case("bad-submatrix", lines, op="submatrix", bad=why + (" (aligned)" if c0 == 0 else " (unaligned)")))
    return cases


def run(res, tier, seed):
    res.cov["rule"] = ("every catalogue operation (owned operands and windows incl. row starts in both 16-byte phases) run in an "
                       "ASan+UBSan build (gcc -O1 -fsanitize=address,undefined -fno-sanitize-recover=all) with sse2 and without; "
                       "fate must be OK; ill-dimensioned calls to the checked wrappers must end in the library's error handler "
                       "(SIGABRT + diagnostic) in both model and implementation; allocation balance per call in the thread-safe "
                       "build (link-time --wrap counters) must return to its pre-call value plus the blocks of a returned "
                       "matrix; distinct by (build, op, shape class, placement)")
    engine.proof_part(res, PROOFS)
    n = n_full = 8 if tier == "quick" else 60
    for v in [vlib.variant(name="asan", san="asan", opt="-O1"), vlib.variant(name="asan-nosse", san="asan", opt="-O1", sse2=0)]:
        runner = corr.Runner(v)
        g = gen.G(seed)
        # the build without SSE2 (scalar kernels, other #if branches) gets a reduced share in the quick tier
        n = n_full if (tier == "thorough" or v["sse2"]) else max(2, n_full // 3)
        cases = [ops.build(name, g, None, 140) for name in OPS for _ in range(n)]
        cases += [ops.build(name, g, lambda role: {"wo": g.rng.choice([1, 3])}, 100) for name in OPS for _ in range(max(2, n // 2))]
        cases += [ops.build(name, g, lambda role: {"wo": g.rng.choice([0, 2])}, 100) for name in OPS for _ in range(max(2, n // 2))]
        # mixed phases: each operand independently owned / window at an even / odd word offset (row starts 0 and 8 mod 16
        # in the same call), rows of at least 4 words so that the vector loops are entered
        def mixed(role):
            x = g.rng.random()
            return None if x < 0.34 else {"wo": g.rng.choice([0, 2])} if x < 0.67 else {"wo": g.rng.choice([1, 3])}
        cases += [ops.build(name, g, mixed, 330) for name in OPS for _ in range(max(3, n // 2))]
        cout = runner.run_c(cases)
        seen = set()
        for c in cases:
            res.count((v["name"], c.meta.get("op"), tuple(s // 64 for s in c.meta.get("shape", ())), "win" in "".join(c.lines)))
            o = cout.get(c.id)
            fate = o[0] if o else "MISSING"
            if fate not in ("OK",):
                e = engine.match_known("C11", c, {"fate": fate, "windowed": any(l.startswith("win ") for l in c.lines)})
                if e is not None:
                    res.known_finding("%s: %s" % (e.get("id"), e.get("what")))
                    continue
                key = (c.meta.get("op"), fate)
                if key in seen:
                    continue
                seen.add(key)
                res.violation(vlib.write_replay("C11", c.meta.get("op", "x"), "# C11: fate %s in build %s\nmeta: %r\n--- script\n%s--- C side\n%s\n%s\n" % (
                    fate, v["name"], c.meta, c.text(), "\n".join(x[:300] for x in (o[1] if o else [])), o[2] if o else "")))
        res.cov.setdefault("fates", {})[v["name"]] = {f: sum(1 for c in cases if (cout.get(c.id) or ("MISSING",))[0] == f) for f in set((cout.get(c.id) or ("MISSING",))[0] for c in cases)}
    n = n_full
    # the block-recursive PLE (Schur complement, _mzd_compress_l word moves) and what is built on it, under the sanitizers:
    # only a small-L3 build enters the recursion at sizes a sanitized run can afford
    vs = vlib.variant(name="asan-stress", san="asan", opt="-O1", l1=4096, l2=32768, l3=4096)
    rec_ops = [nm for nm, d in sorted(ops.CATALOG.items()) if d["prop"] in ("C03", "C06", "C07") or nm in ("echelonize_pluq", "echelonize")]
    runner = corr.Runner(vs)
    g = gen.G(seed + 17)
    ops.REC_BIAS, ops.REC_WORDS = 0.6, ops.ple_cutoff_words(vs)
    try:
        cases = [ops.build(name, g, None, 260) for name in rec_ops for _ in range((3 * n if name in ("ple", "pluq") else n) if tier == "quick" else n // 2)]
    finally:
        ops.REC_BIAS = 0.0
    cout = runner.run_c(cases)
    seen = set()
    for c in cases:
        res.count((vs["name"], c.meta.get("op"), tuple(s_ // 64 for s_ in c.meta.get("shape", ()))))
        o = cout.get(c.id)
        fate = o[0] if o else "MISSING"
        if fate != "OK" and (c.meta.get("op"), fate) not in seen:
            e = engine.match_known("C11", c, {"fate": fate, "windowed": any(l.startswith("win ") for l in c.lines)})
            if e is not None:
                res.known_finding("%s: %s" % (e.get("id"), e.get("what")))
                continue
            seen.add((c.meta.get("op"), fate))
            res.violation(vlib.write_replay("C11", c.meta.get("op", "x"), "# C11: fate %s in build %s\nmeta: %r\n--- script\n%s--- C side\n%s\n%s\n" % (
                fate, vs["name"], c.meta, c.text(), "\n".join(x[:300] for x in (o[1] if o else [])), o[2] if o else "")))
    res.cov.setdefault("fates", {})[vs["name"]] = {f: sum(1 for c in cases if (cout.get(c.id) or ("MISSING",))[0] == f) for f in set((cout.get(c.id) or ("MISSING",))[0] for c in cases)}
    # guards
    g = gen.G(seed + 3)
    bad = bad_dim_cases(g, 3 if tier == "quick" else 20)
    runner = corr.Runner()
    cout, mout = runner.run(bad)
    for c in bad:
        res.count(("guard", c.meta["op"], c.meta["bad"]))
        co, mo = cout.get(c.id), mout.get(c.id)
        if not co or not mo or co[0] != "DIE" or mo[0] != "DIE":
            res.violation(vlib.write_replay("C11", "guard-" + c.meta["op"], "# C11: ill-dimensioned call (%s) must die before touching operands: C fate %s, model fate %s\n--- script\n%s--- C side\n%s\n" % (
                c.meta["bad"], co[0] if co else None, mo[0] if mo else None, c.text(), co[2] if co else "")))
    # allocation balance (thread-safe build: no caches, so every temporary must be freed by the call)
    vt = vlib.variant(name="ts-balance", threadsafe=1)
    runner = corr.Runner(vt, wrap=True)
    g = gen.G(seed + 11)
    cases = [ops.build(name, g, None, 140) for name in OPS for _ in range(n)]
    # wide factorisations (more than 8 words: the Four-Russians base case works on a column window it must release on every
    # path, also when a block has no pivot): rank-deficient inputs with zero column blocks
    wide_ops = [nm for nm in ("ple", "pluq", "_ple_russian", "_pluq_russian", "kernel_left_pluq", "solve_left", "echelonize_pluq") if nm in ops.CATALOG]
    cases += [ops.build(name, g, None, 720) for name in wide_ops for _ in range(max(4, n // 2))]
    # early exits (empty kernel: full column rank; inconsistent or padded systems; rank 0): the paths on which a
    # temporary is most easily left behind - many small cases
    exit_ops = [nm for nm in ("kernel_left_pluq", "solve_left", "pluq_solve_left", "echelonize_pluq", "inv_m4ri") if nm in ops.CATALOG]
    cases += [ops.build(name, g, None, 70) for name in exit_ops for _ in range(3 * n)]
    cout = runner.run_c(cases, env={"VERIF_BALANCE": "1"})
    seen = set()
    for c in cases:
        res.count(("balance", c.meta.get("op"), tuple(s // 64 for s in c.meta.get("shape", ()))))
        o = cout.get(c.id)
        # with both caches compiled out every header and block goes straight to malloc/free: a double or invalid free
        # that the header pool of the default build swallows ends the call here (glibc abort) - the fate counts too
        fate = o[0] if o else "MISSING"
        if fate != "OK" and ("fate", c.meta["op"]) not in seen:
            e = engine.match_known("C11", c, {"fate": fate, "windowed": False})
            if e is not None:
                res.known_finding("%s: %s" % (e.get("id"), e.get("what")))
            else:
                seen.add(("fate", c.meta["op"]))
                res.violation(vlib.write_replay("C11", "ts-" + c.meta["op"], "# C11: fate %s in the thread-safe build (no header pool, no block cache)\nmeta: %r\n--- script\n%s--- C side\n%s\n%s\n" % (
                    fate, c.meta, c.text(), "\n".join(x[:300] for x in (o[1] if o else [])), o[2] if o else "")))
            continue
        leaks = [l for l in (o[1] if o else []) if l.startswith("leak ")]
        if leaks and c.meta["op"] not in seen:
            e = engine.match_known("C11", c, {"leak": True})
            if e is not None:
                res.known_finding("%s: %s" % (e.get("id"), e.get("what")))
                continue
            seen.add(c.meta["op"])
            res.violation(vlib.write_replay("C11", "leak-" + c.meta["op"], "# C11: temporaries not released: %s\n--- script\n%s" % (leaks, c.text())))


def replay(res, path):
    engine.replay_file(res, "C11", path, variant=vlib.variant(name="asan", san="asan", opt="-O1"))
