"""C07 — the kernel routine returns a basis of the right null space, NULL iff it is trivial."""
import os
import engine, ops, vlib

OPS = ["kernel_left_pluq"]
PROOFS = ["Properties_C07"]


def run(res, tier, seed):
    res.cov["rule"] = ("seeded m x n matrices: shapes m<n / m=n / m>n around the word borders, right edge at every residue of "
                       "ncols mod 7k, shapes entering the block-recursive PLUQ in the stress build; contents with prescribed rank "
                       "profile (zero matrix, full column rank, pivot gaps and zero column blocks across word borders, pivots only in "
                       "the last columns, low rank) and the generic content classes; Strassen cutoffs 0/64/128/1024; host, small-cache "
                       "and stress (L3 = 4 KiB) builds.  Tier A: NULL iff rank A = n, else K is n x (n-r), A*K = 0 and "
                       "rank K^T = n-r, by the extracted checker x_kernel_ok (Gauss.rank / mmul / is_zero on the ORIGINAL A); Tier B: "
                       "A' and K bit-identical with Solve.kernel_left_cfg at the build's PLE cut-off.  distinct by (shape class, "
                       "rank-profile style, cutoff, PLE regime, build)")
    ops.proof_part(res, PROOFS[0])
    quick = tier == "quick"
    T = {n: ops.Tiers(res, "C07", ops.VARIANTS[n](vlib)) for n in ("host", "small", "stress")}
    res.cov["configurations"] = [dict(t.variant) for t in T.values()]
    ops.run_corpus(res, "C07", T)
    T["host"].run(OPS, seed, 300 if quick else 2500, 100)
    T["host"].run(OPS, seed + 1, 40 if quick else 400, 200 if quick else 600)
    T["small"].run(OPS, seed + 2, 60 if quick else 600, 130 if quick else 400)
    T["stress"].run(OPS, seed + 3, 120 if quick else 1000, 150 if quick else 300, rec_bias=0.5)


def replay(res, path):
    ops.replay_tiers(res, "C07", path)
