"""C03 — PLE / PLUQ factorisations reconstruct A, reveal rank and column rank profile."""
import os
import engine, ops, vlib

OPS = ["ple", "pluq", "_ple_naive", "_pluq_naive", "_ple_russian", "_pluq_russian"]
REC_OPS = ["ple", "pluq"]          # the routes that enter the block recursion of ple.c
PROOFS = ["Properties_C03", "Properties_C03r"]


def run(res, tier, seed):
    res.cov["rule"] = ("seeded m x n inputs per route (mzd_ple, mzd_pluq, _mzd_ple_naive, _mzd_pluq_naive, _mzd_ple_russian and "
                       "_mzd_pluq_russian with k in 0,2..8): m<n / m=n / m>n at the word borders, right edge at every residue of ncols "
                       "mod 7k (1..7 lookup tables), shapes entering the block recursion (width*nrows > PLE cut-off, ncols > 64) in "
                       "the small-cache (8192 words) and stress (L3 = 4 KiB, 512 words: entered at 130 x 180) builds, incl. the class "
                       "'compress' (ncols = 64w, left half of rank r1 in {0, 64, 100, n1-1}, Schur complement of rank r2 >= one word, rows "
                       "below r1+r2: the whole-word move loops of _mzd_compress_l); contents with "
                       "prescribed rank profile (pivot gaps across word borders, all-zero column blocks of width >= 7k, pivots only "
                       "in the last columns, rank 0 / low / full, independent rows first / last / middle / anywhere) and the generic "
                       "classes; P and Q pre-filled with junk; Strassen cutoffs 0/64/128/1024.  Tier A: the verified checkers "
                       "ple_ok / pluq_ok (PLEProofs.v) on the implementation's (A', P, Q, r); Tier B: (A', P, Q, r) bit-identical with "
                       "ple_rec over ple_naive at the build's PLE cut-off (pluq_rec, pluq_naive, pluq_of_ple).  distinct by (route, "
                       "shape class, rank-profile style, k / cutoff, regime, build)")
    for pf in PROOFS:
        ops.proof_part(res, pf)
    quick = tier == "quick"
    T = {n: ops.Tiers(res, "C03", ops.VARIANTS[n](vlib)) for n in ("host", "small", "stress")}
    res.cov["configurations"] = [dict(t.variant) for t in T.values()]
    ops.run_corpus(res, "C03", T)
    T["host"].run(OPS, seed, 60 if quick else 600, 100)
    T["host"].run(OPS, seed + 1, 8 if quick else 80, 200 if quick else 600)
    T["small"].run(OPS, seed + 2, 15 if quick else 150, 130 if quick else 400)
    T["stress"].run(OPS, seed + 3, 12 if quick else 120, 130 if quick else 300)
    T["stress"].run(REC_OPS, seed + 4, 45 if quick else 500, 150 if quick else 300, rec_bias=0.8)
    if not quick:
        # the small-cache build enters the recursion from about 130 x 2750 / 750 x 750
        T["small"].run(REC_OPS, seed + 5, 40, 500, rec_bias=0.9)
    # Tier B: the Four-Russians base case against its algorithm-faithful model (the model Properties_C03r.v is about)
    from props import tierb
    tierb.run(res, "C03", tier, seed)


def replay(res, path):
    ops.replay_tiers(res, "C03", path)
