"""C09 — views: operations on a window read and write only the viewed block."""
import itertools, random
import engine, ops, vlib

PROOFS = ["Properties_C09", "Properties_C09b"]
SKIP = set()


def placements(rng, roles):
    """each operand position a window or not: all non-empty subsets of roles as windows"""
    out = []
    for k in range(1, len(roles) + 1):
        for sub in itertools.combinations(roles, k):
            out.append(sub)
    return out


def run(res, tier, seed):
    res.cov["rule"] = ("every operation of the catalogue x every non-empty subset of its matrix operands passed as windows x "
                       "placement classes (row offset 0..2, word offset 0..2 i.e. odd and even, view width mod 64, parent wider "
                       "or not, surrounding bits random or all ones); result compared with the model on the standalone copy and "
                       "EVERY bit of each parent outside the view compared before/after (raw dump of the parents); distinct by "
                       "(op, which operands are windows, shape class, word offset parity)")
    engine.proof_part(res, PROOFS)
    rng = random.Random(seed)
    n = 12 if tier == "quick" else 120
    runner = None
    import corr
    runner = corr.Runner()
    k = 0
    for name, d in sorted(ops.CATALOG.items()):
        if name in SKIP:
            continue
        for sub in placements(rng, d["roles"]):
            k += 1
            for fill in ("rand", "ones"):
                W = (lambda sub, fill: (lambda role: ({"fill": fill} if role in sub else None)))(sub, fill)
                engine.run_ops(res, "C09", [name], seed + k, n, 100 if tier == "quick" else 200, W=W,
                               tag="/win=" + "+".join(sub), runner=runner)
    # row widths 1..10 words: the word-width specialised loops (add has one per width 1..8) behave differently per width;
    # destinations and sources as windows with partial last words, surroundings all ones / random
    wide_ops = [nm for nm, d in sorted(ops.CATALOG.items()) if d["prop"] == "C08" or nm in ("row_add", "row_swap", "col_swap")]
    for fill in ("ones", "rand"):
        W = (lambda fill: (lambda role: {"fill": fill}))(fill)
        engine.run_ops(res, "C09", wide_ops, seed + 1000 + len(fill), 10 if tier == "quick" else 60, 330, W=W, tag="/wide/win=all", runner=runner)


def replay(res, path):
    engine.replay_file(res, "C09", path)
