"""C10 — results are pure functions of operand values; owned matrices keep zero padding."""
import engine, ops, vlib, corr, gen

PROOFS = ["Properties_C10"]
OPS = [n for n, d in sorted(ops.CATALOG.items())]


def padding_violations(case, out):
    """owned matrices must have every row value < 2^ncols in every dump (dump prints raw words)."""
    wins = set(l.split()[1] for l in case.lines if l.startswith("win "))
    bad = []
    if not out:
        return bad
    for l in out[1]:
        t = l.split()
        if t[0] == "mat" and len(t) > 3 and t[2] != "NULL" and t[1] not in wins:
            nc = int(t[3])
            for i, h in enumerate(t[4:]):
                if int(h, 16) >> nc:
                    bad.append("%s row %d = %s has bits beyond column %d" % (t[1], i, h, nc))
                    break
    return bad


def hist_cases(g, names, per):
    cases = []
    for name in names:
        for _ in range(per):
            pres = [ops.build(g.rng.choice(OPS), g, None, 90) for _ in range(g.rng.randint(1, 3))]
            main = ops.build(name, g, None, 120)

            def priv(c):
                out = [l for l in c.lines if not l.startswith("dump")]
                names_ = []
                for l in c.lines:
                    t = l.split()
                    if t[0] in ("mat", "perm") and t[1] not in names_:
                        names_.append(t[1])
                    if t[0] == "call" and "R" in t[2:3] and "R" not in names_:
                        names_.append("R")
                wins = [l.split()[1] for l in c.lines if l.startswith("win ")]
                return out + ["free %s" % w for w in wins] + ["free %s" % x for x in names_]
            lines = []
            for p in pres:
                lines += priv(p)
            cases.append(corr.Case("hist-" + main.id, lines + main.lines, dict(main.meta, prelude=[p.meta["op"] for p in pres])))
    return cases


def run(res, tier, seed):
    res.cov["rule"] = ("every operation of the catalogue run (a) plainly, (b) with every block returned by posix_memalign/malloc "
                       "filled with a seed-derived pattern (link-time --wrap) and supplied destinations pre-filled with junk, (c) "
                       "after preludes of 1..3 other operations whose freed blocks stay dirty in the block cache; a violation is "
                       "an output that differs between two heap states/histories, or an owned matrix with a bit set beyond its "
                       "last column in any dump (dump prints raw words); distinct by (op, shape class, content kinds, heap state)")
    engine.proof_part(res, PROOFS)
    runner = corr.Runner(wrap=True)
    n = 25 if tier == "quick" else 200
    g = gen.G(seed)
    cases = [ops.build(name, g, None, 120 if tier == "quick" else 250) for name in OPS for _ in range(n)]
    cases += [ops.build(name, g, lambda role: {"fill": "rand"}, 100) for name in OPS for _ in range(max(3, n // 5))]
    # mixed forms: a random non-empty proper subset of the operands as views, the others owning their storage (a
    # supplied owned destination next to a view factor, and so on)
    gm = gen.G(seed + 17)
    for name in OPS:
        roles = ops.CATALOG[name]["roles"]
        if len(roles) < 2:
            continue
        for _ in range(max(3, n // 5)):
            sub = set(r_ for r_ in roles if gm.rng.random() < 0.5) or {gm.rng.choice(roles)}
            cases.append(ops.build(name, g, (lambda sub: (lambda role: {"fill": "rand"} if role in sub else None))(sub), 100))
    # squaring forms (both factors the same object) x {factor a view or owned} x {destination NULL, owned with junk, a view}
    ops.SAME_BIAS = 1.0
    try:
        for name in [o for o in ("mul", "addmul") if o in ops.CATALOG]:
            for sub in ((), ("A",), ("A", "C"), ("C",)):
                for _ in range(4 if tier == "quick" else 25):
                    cases.append(ops.build(name, g, (lambda sub: (lambda role: {"fill": "rand"} if role in sub else None))(sub), 100))
    finally:
        ops.SAME_BIAS = None
    hcases = hist_cases(gen.G(seed + 5), OPS, max(4, n // 4))
    base = runner.run_c(cases)
    pats = ["1", "77", "123456789"] if tier == "quick" else [str(i * 7919 + 1) for i in range(8)]
    reported = set()

    def report(case, what, outs):
        key = (case.meta.get("op"), what.split(":")[0])
        e = engine.match_known("C10", case, {"what": what})
        if e is not None:
            res.known_finding("%s: %s" % (e.get("id"), e.get("what")))
            return
        if key in reported:
            return
        reported.add(key)
        txt = "# C10: %s\nmeta: %r\n--- script\n%s" % (what, case.meta, case.text())
        for tag, o in outs:
            txt += "--- C side [%s]\n%s\n%s\n" % (tag, "\n".join(x[:400] for x in o[1]) if o else "(none)", o[2] if o else "")
        res.violation(vlib.write_replay("C10", case.meta.get("op", "case"), txt))

    def sweep(cs, outs0, tag0):
        for c in cs:
            for b in padding_violations(c, outs0.get(c.id)):
                report(c, "padding: " + b, [(tag0, outs0.get(c.id))])
                break
    sweep(cases, base, "plain")
    # the value-only model: the result must not depend on what a supplied destination held before (the junk the
    # generator pre-fills it with) nor on anything but the operands' values
    mout = corr.run_model(cases)
    for c, why, co, mo in corr.compare(cases, base, mout):
        e = engine.match_known("C10", c, {"why": why, "fate": co[0] if co else "MISSING", "windowed": any(l.startswith("win ") for l in c.lines)})
        if e is not None:
            res.known_finding("%s: %s" % (e.get("id"), e.get("what")))
            continue
        report(c, "value-dependence: output differs from the value-only model (%s)" % why, [("plain", co), ("model", mo)])
    # blocks above the block-cache threshold take a different allocation path (never cached, zeroed by the calloc
    # wrapper): small-cache build (threshold 64 KiB) with a poisoned heap and results larger than that
    big_ops = [o for o in ("add", "copy", "transpose", "concat", "stack", "submatrix", "mul_naive", "mul_m4rm", "mul", "set_ui") if o in ops.CATALOG]
    gb = gen.G(seed + 9)
    big = []
    for name in big_ops:
        tries = 0
        while sum(1 for c in big if c.meta["op"] == name) < (2 if tier == "quick" else 8) and tries < 60:
            tries += 1
            c = ops.build(name, gb, None, 1500)
            sh = sorted(c.meta.get("shape", (1,)))
            if sh[-1] * (sh[-2] if len(sh) > 1 else 1) >= 700000:
                big.append(c)
    if big:
        small = corr.Runner(vlib.variant(name="small", **vlib.SMALL), wrap=True)
        b0 = small.run_c(big)
        b1 = small.run_c(big, env={"VERIF_POISON": "987654321"})
        bm = corr.run_model(big)
        sweep(big, b0, "small/plain"); sweep(big, b1, "small/heap")
        for c in big:
            res.count(("big", c.meta.get("op"), tuple(s // 64 for s in c.meta.get("shape", ()))))
            a, b = b0.get(c.id), b1.get(c.id)
            if a is None or b is None or a[0] != b[0] or a[1] != b[1]:
                report(c, "heap-dependence above the cache threshold (small-cache build): output differs between plain and poisoned heap",
                       [("plain", a), ("heap", b)])
        for c, why, co, mo in corr.compare(big, b1, bm):
            report(c, "value-dependence above the cache threshold (small-cache build, poisoned heap): %s" % why, [("heap", co), ("model", mo)])
        res.cov["cases_big"] = len(big)
    # mzd_randomize overwrites its destination with the stream of random(): no value model, but after srandom(s) the
    # result must be the same whatever the destination held before (zero / ones / random), owned or a view
    gr = gen.G(seed + 13)
    rcases, groups = [], []
    for idx in range(12 if tier == "quick" else 80):
        nr = gr.rng.choice([1, 2, 5, 17, gr.rng.randint(1, 40)])
        nc = gr.rng.choice([1, 7, 63, 64, 65, 100, 127, 128, 129, 200, gr.rng.randint(1, 300)])
        sd = gr.rng.randrange(1, 1 << 30)
        win = None if idx % 3 else {"wo": gr.rng.choice([0, 1]), "fill": "rand"}
        grp = []
        for fill in ("zero", "ones", "dense"):
            rows, _ = gr.rows(nr, nc, fill)
            la, da = gr.operand("A", nr, nc, rows, win)
            c = corr.Case("randomize-%d-%s" % (idx, fill), la + ["call randomize A %d" % sd, "dump A"],
                          {"op": "randomize", "shape": (nr, nc), "kinds": (fill,), "windowed": win is not None})
            grp.append(c); rcases.append(c)
        groups.append(grp)
    ro = runner.run_c(rcases)
    sweep([c for c in rcases if not c.meta["windowed"]], ro, "randomize")
    for grp in groups:
        outs = [ro.get(c.id) for c in grp]
        res.count(("randomize", grp[0].meta["shape"], grp[0].meta["windowed"]))
        if any(o is None or o[0] != "OK" for o in outs) or len(set(tuple(o[1]) for o in outs)) != 1:
            report(grp[1], "destination-dependence: mzd_randomize after srandom(s) gives different matrices for different prior "
                   "contents of its destination", [(c.meta["kinds"][0], o) for c, o in zip(grp, outs)])
    res.cov["cases_randomize"] = len(rcases)
    for k, pat in enumerate(pats):
        out = runner.run_c(cases, env={"VERIF_POISON": pat})
        sweep(cases, out, "heap=" + pat)
        for c in cases:
            res.count((c.meta.get("op"), tuple(s // 64 for s in c.meta.get("shape", ())), c.meta.get("kinds"), pat))
            a, b = base.get(c.id), out.get(c.id)
            if a is None or b is None or a[0] != b[0] or a[1] != b[1]:
                report(c, "heap-dependence: output differs between plain heap and heap pattern " + pat, [("plain", a), ("heap=" + pat, b)])
    # histories: the main operation alone vs after a prelude
    alone = [corr.Case(c.id, [l for l in c.lines[len(c.lines) - len_main(c):]], c.meta) for c in hcases]
    oa = runner.run_c(alone)
    ob = runner.run_c(hcases, env={"VERIF_POISON": "4242"})
    sweep(hcases, ob, "history")
    for c in hcases:
        res.count(("hist", c.meta.get("op"), tuple(c.meta.get("prelude", ())), tuple(s // 64 for s in c.meta.get("shape", ()))))
        a, b = oa.get(c.id), ob.get(c.id)
        # the prelude's own 'ret' lines come first: compare the tail produced by the main operation
        if a is None or b is None or a[0] != b[0] or (a[1] and b[1][-len(a[1]):] != a[1]):
            report(c, "history-dependence: output after prelude %s differs from the call alone" % (c.meta.get("prelude"),),
                   [("alone", a), ("after prelude", b)])
    res.cov["samples"].append(hcases[0].text()[:800])
    res.cov["heap_patterns"] = pats
    res.cov["cases_plain"] = len(cases)
    res.cov["cases_history"] = len(hcases)


def len_main(c):
    # the main operation's lines are the tail of the script starting at its first 'mat'/'perm' after the last 'free'
    last_free = max([i for i, l in enumerate(c.lines) if l.startswith("free ")] + [-1])
    return len(c.lines) - (last_free + 1)


def replay(res, path):
    txt = open(path).read()
    body = txt.split("--- script\n", 1)[1].split("--- C side", 1)[0].strip().split("\n")
    case = corr.Case(body[0][5:].strip(), [l for l in body[1:] if not l.startswith("end")], {"op": body[0][5:].split("-")[0]})
    runner = corr.Runner(wrap=True)
    a = runner.run_c([case])
    b = runner.run_c([case], env={"VERIF_POISON": "4242"})
    res.count(("replay", case.id))
    res.cov["samples"].append(case.text()[:600])
    bad = padding_violations(case, a.get(case.id)) + padding_violations(case, b.get(case.id))
    if bad or a.get(case.id, (0, 0))[:2] != b.get(case.id, (1, 1))[:2]:
        res.violation(vlib.write_replay("C10", "replay", "# replayed: %s\n--- script\n%s" % (bad, case.text())))
