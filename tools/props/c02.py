"""C02 — echelon forms: rank, row space and the unique RREF, identical across algorithms."""
import engine

OPS = ["echelonize_naive", "gauss_delayed", "echelonize_m4ri", "echelonize_pluq", "echelonize", "_echelonize_m4ri",
       "top_echelonize_m4ri"]
PROOFS = ["Properties_C02", "Properties_C02b", "Properties_C02c"]


def run(res, tier, seed):
    res.cov["rule"] = ("seeded matrices with prescribed rank profiles (pivot gaps, zero column blocks across word borders, "
                       "dependent rows anywhere, rank 0..min) and generic content classes; every route, both values of full, "
                       "k in 0..10, thresholds; distinct by (route, shape class, rank profile kind, full, k)")
    engine.proof_part(res, PROOFS)
    engine.corpus(res, "C02")
    n = 80 if tier == "quick" else 700
    engine.run_ops(res, "C02", OPS, seed, n, 130 if tier == "quick" else 400)
    # Tier B: the faithful M4RI / PLUQ-route / hybrid / top-reduction models with the build's constants
    from props import tierb
    tierb.run(res, "C02", tier, seed)


def replay(res, path):
    engine.replay_file(res, "C02", path)
