"""C04 — triangular solves (TRSM, four variants): T*X = B resp. X*T = B, only the named triangle is read."""
import os
import engine, ops, vlib

OPS = ["trsm_upper_left", "trsm_lower_left", "trsm_upper_right", "trsm_lower_right",
       "_trsm_upper_left", "_trsm_lower_left", "_trsm_upper_right", "_trsm_lower_right"]
PROOFS = ["Properties_C04"]


def run(res, tier, seed):
    res.cov["rule"] = ("seeded systems for the four public routines and their four _mzd_ counterparts: unit diagonal T of dimension "
                       "n around 1, 64, 128, 256 (+-1) and generic, the unused triangle filled with GARBAGE (85 %) or zero; right-hand "
                       "sides of width/height around 64 and generic, all content classes; Strassen cutoffs 0/64/128/1024; host build "
                       "(word base case, Four-Russians / trtri middle regime) and small-cache build (MUL_BLOCKSIZE = 256: the "
                       "recursive regime is entered for n > 256).  The solution of a unit triangular system is unique, so Tier A is "
                       "exact equality of B after the call with the substitution model (TRSM.trsm_* : TRSMProofs.v) and of T with its "
                       "value before the call.  distinct by (routine, shape class, content kinds, cutoff, regime, build)")
    ops.proof_part(res, PROOFS[0])
    quick = tier == "quick"
    T = {n: ops.Tiers(res, "C04", ops.VARIANTS[n](vlib), unique=True) for n in ("host", "small")}
    res.cov["configurations"] = [dict(t.variant) for t in T.values()]
    ops.run_corpus(res, "C04", T)
    T["host"].run(OPS, seed, 150 if quick else 1200, 140)
    T["host"].run(OPS, seed + 1, 10 if quick else 80, 300 if quick else 600)
    T["small"].run(OPS, seed + 2, 80 if quick else 600, 140)
    T["small"].run(OPS, seed + 3, 30 if quick else 250, 300 if quick else 600, tri_big=(257, 330 if quick else 600, 0.8))
    # Tier B: the recursive models with the word base cases and the Four-Russians middle regime (TRSMRec.v), build's thresholds
    from props import tierb
    tierb.run(res, "C04", tier, seed)


def replay(res, path):
    ops.replay_tiers(res, "C04", path, unique=True)
