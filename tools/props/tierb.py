"""Tier B — the tie of the ALGORITHM-FAITHFUL Coq models to the C code (DESIGN.md 3.4).

The per-property engines compare the library with the SPECIFICATION functions (mmul, gauss_delayed / rref, the
substitution models of TRSM ...).  The faithful models — the ones that mirror the control flow of the C code
(regime switches, lookup tables, recursion, generated Strassen schedules) and are PROVEN equal to the
specifications — are run here against the library, with the constants of the BUILD UNDER TEST:

  routine (library)                          faithful model (coq/Extract.v x_tb_*)                  compared exactly
  ------------------------------------------ ------------------------------------------------------ ---------------------------
  mzd_make_table (public)                    Gray.make_table from dirty T / L                       every word of T, all of L
  djb_compile + djb_apply_mzd                DJB.djb_compile_run / djb_apply_run                    op list (target, source,
                                                                                                    srctyp, length), product
  mzd_mul_naive / mzd_addmul_naive           Mul.mul_naive / addmul_naive  (blk)                    product, fate
  mzd_mul_m4rm / mzd_addmul_m4rm             Mul.mul_m4rm / addmul_m4rm    (blk, k as in C)         product, fate
  mzd_mul / mzd_addmul / _mzd_addmul         StrassenGen.mzd_mul_gen ... over the M4RM model with   product, fate (Err Die /
  (mzd_mul_mp / mzd_addmul_mp: OpenMP build)   the schedules T2 regenerates from strassen.c / mp.c    OOB / UB / Fuel vs result)
  mzd_echelonize_m4ri / _mzd_echelonize_m4ri M4RI.m4ri_model (k as in C, density oracle at entry)   rank, matrix
  mzd_echelonize (hybrid)                    EchelonPLUQ over PLE.pluq_rec with the PLE cut-off     rank, matrix
  mzd_echelonize_pluq                        EchelonPLUQ.echelon_pluq (same)                        rank, matrix
  mzd_top_echelonize_m4ri                    M4RI.top_run                                           matrix
  mzd_trsm_* / _mzd_trsm_* (8)               TRSMRec.trsm_*_rec_f cfg (word base, Russian middle,   B after the call
                                               recursion above MUL_BLOCKSIZE)
  mzd_trtri_upper                            TrtriRussian.trtri_upper_rec_fr cfg (2*L3, SSE2 split)  U after the call, fate
                                               over the faithful base routine
  mzd_trtri_upper_russian (explicit k 1..16, TrtriRussian.trtri_upper_russian k (4 tables per block,    U after the call
    automatic k)                               L index array, stale tables)
  mzd_inv_m4ri                               the code's own route: M4RI model on [A|0|I|0]          inverse
  _mzd_ple_russian / _mzd_pluq_russian       PLERussian.ple_russian k (lazy pivot search on the      A', P, Q, rank
                                               column window, 1..7 tables with M/E/B; k as in C)

The build's constants (__M4RI_MUL_BLOCKSIZE, __M4RI_STRASSEN_MUL_CUTOFF, __M4RI_PLE_CUTOFF, cache sizes, SSE2,
OpenMP) are read from the harness compiled against the build (`consts`), written into every script as a
`consts K=V ...` line, re-checked by the harness and handed to the model by the driver: the model switches regimes
where the library does.  Which regime was taken is not observable, but a model that ends in an error value where
the library returns a result (or vice versa) is a difference, as is any difference of a result or intermediate.

Reporting (conventions of ops.Tiers): a Tier-B difference first re-runs the same inputs against the SPECIFICATION
(Tier A: a failing input => VIOLATION with replay); if the specification is met, a Tier-A search over more / larger
cases of the related routines follows; nothing found => VIOLATION ... no-failing-input-found ("the correspondence
of the faithful model no longer checks").  On the unchanged tree everything here is silent.

Replay of a Tier-B file:  python3 tools/props/tierb.py <replay file>"""
import os, re, sys, time

sys.path.insert(0, os.path.dirname(os.path.dirname(os.path.abspath(__file__))))
import vlib, corr, gen, ops, engine
from corr import Case

# operations that have a tb_ twin on the model side (ocaml/ext.ml); on the C side tb_<op> is <op>
TB_OPS = {"mul_naive", "addmul_naive", "mul_m4rm", "addmul_m4rm", "mul", "addmul", "_addmul", "mul_mp", "addmul_mp", "djb",
          "echelonize_m4ri", "_echelonize_m4ri", "echelonize", "echelonize_pluq", "top_echelonize_m4ri",
          "trsm_upper_left", "trsm_lower_left", "trsm_upper_right", "trsm_lower_right",
          "_trsm_upper_left", "_trsm_lower_left", "_trsm_upper_right", "_trsm_lower_right", "trtri_upper", "inv_m4ri",
          "_ple_russian", "_pluq_russian", "trtri_upper_russian"}

_consts_cache = {}


def build_consts(runner):
    """the constants of the build under test, as printed by the harness compiled against it"""
    key = runner.harness
    if key not in _consts_cache:
        out = corr.run_side(runner.harness, [Case("consts", ["consts"])], 20, None, 1)
        o = out.get("consts")
        line = [l for l in (o[1] if o else []) if l.startswith("consts ")]
        if not line:
            raise vlib.BuildError("the harness does not print the build constants: %r" % (o,))
        _consts_cache[key] = dict((kv.split("=")[0], int(kv.split("=")[1])) for kv in line[0].split()[1:])
    return _consts_cache[key]


def consts_line(c):
    return "consts " + " ".join("%s=%d" % (k, c[k]) for k in sorted(c))


def to_tb(case, cline):
    """the Tier-B script of a catalogue case: same operands, `call tb_<op>` for every op with a faithful model"""
    lines = [cline]
    for l in case.lines:
        t = l.split()
        if len(t) > 1 and t[0] == "call" and t[1] in TB_OPS:
            l = "call tb_" + l[5:]
        lines.append(l)
    meta = dict(case.meta)
    meta["twin"] = case
    return Case("tb-" + case.id, lines, meta)


def compare(cases, cout, mout):
    """-> (differences [(case, why, c, m)], number of cases the model does not cover)"""
    bad, unsupported = [], 0
    for c in cases:
        co, mo = cout.get(c.id), mout.get(c.id)
        if co is None or mo is None:
            bad.append((c, "missing output (%s)" % ("C" if co is None else "model"), co, mo))
            continue
        cf, mf = co[0], mo[0]
        if any(l.startswith("consts-mismatch") for l in co[1]):
            bad.append((c, "the script's constants are not those of this build", co, mo))
        elif mf == "UNSUPPORTED":
            unsupported += 1
        elif mf == "MODELERROR":
            bad.append((c, "model error", co, mo))
        elif mf == "TB-FUEL":
            bad.append((c, "fate C=%s, the faithful model runs out of fuel" % cf, co, mo))
        elif mf in ("TB-DIE", "DIE"):
            if cf != "DIE":
                bad.append((c, "fate C=%s, the faithful model ends in m4ri_die" % cf, co, mo))
        elif mf in ("TB-OOB", "TB-UB", "TB-NONE"):
            if cf == "OK":
                bad.append((c, "fate C=OK, the faithful model ends in an error value (%s)" % mf, co, mo))
        elif cf != mf:
            bad.append((c, "fate C=%s model=%s" % (cf, mf), co, mo))
        elif cf == "OK" and co[1] != mo[1]:
            k = 0
            while k < min(len(co[1]), len(mo[1])) and co[1][k] == mo[1][k]:
                k += 1
            what = (co[1][k] if k < len(co[1]) else mo[1][k]).split()
            bad.append((c, "output line %d differs (%s)" % (k, " ".join(what[:2])), co, mo))
    return bad, unsupported


# ----------------------------------------------------------------------------------------------------------------
# generators
# ----------------------------------------------------------------------------------------------------------------
def make_table_cases(g, n, cline):
    """mzd_make_table(M, r, c, k, T, L) on random M, r (also beyond the last row: skipped entries), c, k with DIRTY T
    (every word incl. the padding of the last one and row 0, which is never written) and DIRTY L"""
    r = g.rng
    out = []
    for idx in range(n):
        k = r.choice([1, 2, 2, 3, 3, 4, 4, 5, 5, 6, 7, 8] + ([9, 10] if idx % 9 == 8 else []))
        nc = r.choice([1, 2, 17, 63, 64, 65, 100, 127, 128, 129, 192, 200, 320, 64 * r.randint(1, 9), r.randint(1, 600)])
        nr = r.choice([1, 2, k, k + 1, r.randint(1, 80), r.randint(k, 80)])
        rr = r.choice([0, 0, max(0, nr - k), max(0, nr - 1), r.randint(0, nr), r.randint(0, nr + 2)])
        c = r.choice([0, 0, nc - 1, r.randrange(nc), (nc - 1) // 64 * 64, max(0, min(nc - 1, 64 * r.randint(0, 3) + r.choice([0, 1, 63])))])
        rows, kind = g.rows(nr, nc, r.choice(["dense", "dense", "dense", "sparse", "ones", "lowrank"]))
        w = (nc + 63) // 64
        dirty = r.choice(["rand", "rand", "rand", "ones", "zero"])
        if dirty == "zero":
            trow = [0] * (1 << k)
        elif dirty == "ones":
            trow = [(1 << (64 * w)) - 1] * (1 << k)
        else:
            trow = [r.getrandbits(64 * w) for _ in range(1 << k)]
        L = [r.randrange(0, 3000) if dirty != "zero" else 0 for _ in range(1 << k)]   # (unary nat on the model side)
        lines = [cline, g.mat_line("M", nr, nc, rows), g.mat_line("T", 1 << k, nc, trow),
                 "call tb_make_table M %d %d %d T %s" % (rr, c, k, " ".join(str(v) for v in L)), "dump T", "dump M"]
        out.append(g.case("tb_make_table", lines, op="tb_make_table", shape=(nr, nc), k=k, kinds=(kind, dirty), r=rr, c=c,
                          skipped=rr + k > nr, homeblock=c // 64))
    return out


def djb_cases(g, n, cline):
    """djb_compile on matrices with ties between rows (equal rows: the heap's tie-breaking decides the op list),
    single rows (the m >= 2 test), zero columns; then djb_apply_mzd"""
    r = g.rng
    out = []
    for _ in range(n):
        m = r.choice([1, 2, 3, 5, 8, 17, r.randint(1, 40), r.randint(1, 70)])
        l = r.choice([1, 2, 17, 63, 64, 65, 100, r.randint(1, 130)])
        nn = r.choice([1, 30, 64, 65, 128, r.randint(1, 200)])
        ra, ka = g.rows(m, l, r.choice(["dense", "dense", "sparse", "lowrank", "lowrank", "ones", "ident", "zero", "single", "lastcol"]))
        if m > 2 and r.random() < 0.4:
            ra[r.randrange(m)] = ra[r.randrange(m)]        # equal rows
        rv, kv = g.rows(l, nn, "dense")
        lines = [cline, g.mat_line("A", m, l, ra), g.mat_line("V", l, nn, rv), "call tb_djb R A V", "dump A", "dump V", "dump R"]
        twin = Case("djb-twin-%d" % g.n, [x.replace("call tb_djb", "call djb") for x in lines[1:]], {"op": "djb", "shape": (m, l, nn)})
        out.append(g.case("tb_djb", lines, op="tb_djb", shape=(m, l, nn), kinds=(ka, kv), twin=twin))
    return out


_WS = {"fill": "rand"}          # (an empty window spec is falsy = owned operand)
_WIN = [None, None, None, {"A": _WS}, {"C": _WS}, {"A": _WS, "B": _WS, "C": _WS}]


def catalogue_cases(g, names, n, sz, cline, windows=False, tri_big=None):
    out = []
    old = ops.TRI_BIG
    ops.TRI_BIG = tri_big
    try:
        for name in names:
            for _ in range(n):
                W = g.rng.choice(_WIN) if windows else None
                out.append(to_tb(ops.build(name, g, W, sz), cline))
    finally:
        ops.TRI_BIG = old
    return out


def strassen_cases(g, n, cline, consts, names=("mul", "addmul", "mul", "addmul", "_addmul")):
    """products that ENTER the Winograd recursion in this build: explicit cutoffs 64 / 128 with all dimensions beyond
    4*cutoff/3 (one or two levels, remainder strips in every direction), the squaring route, windowed operands; a few
    at cutoff 0 = __M4RI_STRASSEN_MUL_CUTOFF of the build when that is reachable"""
    r = g.rng
    dflt = consts["STRASSEN_MUL_CUTOFF"]
    out = []
    for idx in range(n):
        name = r.choice(names)
        # (_mzd_addmul takes the cutoff as it is: only values the wrappers would pass on)
        cut = r.choice([64, 64, 64, 128]) if name == "_addmul" else r.choice([64, 64, 64, 128, 65, 127, 1])
        cn = max(64, cut // 64 * 64)
        lo = max((4 * cn + 2) // 3, 128)          # closer(): base case iff 3a < 4*cutoff or a < 128
        if idx % 12 == 11 and dflt <= 512 and name != "_addmul":
            cut, lo = 0, (4 * dflt + 2) // 3
        dims = [r.choice([lo, lo + 1, 2 * lo, r.randint(lo, lo + 200), 64 * ((lo + 63) // 64), 64 * ((lo + 63) // 64) + 64, 128 * ((lo + 127) // 128) + r.choice([0, 1, 63, 65])])
                for _ in range(3)]
        if cut == 0:
            dims = [lo + r.randint(0, 40) for _ in range(3)]
        m, l, nn = dims
        same = name in ("mul", "addmul") and r.random() < 0.2
        if same:
            l = nn = m
        W = r.choice(_WIN) or {}
        lines, dumps = [cline], []
        ra, ka = g.rows(m, l, "dense")
        la, da = g.operand("A", m, l, ra, W.get("A") if not same else None)
        lines += la
        dumps += da
        if not same:
            rb, kb = g.rows(l, nn, r.choice(["dense", "dense", "sparse"]))
            lb, db = g.operand("B", l, nn, rb, W.get("B"))
            lines += lb
            dumps += db
        if name in ("addmul", "_addmul", "addmul_mp") or r.random() < 0.6:
            rc, kc = g.rows(m, nn, r.choice(["dense", "ones", "zero"]))
            lc, dc = g.operand("C", m, nn, rc, W.get("C"))
            lines += lc
            dumps += dc
            cn = "C"
        else:
            cn = "-"
            dumps.append("R")
        tb = lines + ["call tb_%s R %s A %s %d" % (name, cn, "A" if same else "B", cut)] + ["dump " + d for d in dict.fromkeys(dumps)]
        twin = Case("%s-twin-%d" % (name, g.n), [x.replace("call tb_", "call ") for x in tb[1:]], {"op": name, "shape": (m, l, nn)})
        out.append(g.case("tb_" + name, tb, op=name, shape=(m, l, nn), param=cut, same=same, windows=sorted(W), twin=twin,
                          kinds=("dense",), regime="recursion"))
    return out


def die_cases(g, cline):
    """calls the wrappers refuse (m4ri_die): the faithful models must refuse them too (Err Die / None)"""
    A, B, C = g.mat_line("A", 70, 80, [1] * 70), g.mat_line("B", 81, 90, [1] * 81), g.mat_line("C", 70, 91, [0] * 70)
    B2, C2 = g.mat_line("B", 80, 90, [1] * 80), g.mat_line("C", 70, 90, [0] * 70)
    out = []
    for call in ("tb_mul R - A B 64", "tb_addmul R C A B 64", "tb_mul_m4rm R - A B 0", "tb_addmul_m4rm R C A B 0", "tb_mul_naive R - A B"):
        out.append(g.case("tb_die", [cline, A, B, C, "call " + call], op=call.split()[0][3:], shape=(70, 80, 90), kinds=("die-inner",)))
    for call in ("tb_mul R C A B 64", "tb_addmul R C A B 0", "tb_mul_m4rm R C A B 3", "tb_addmul_naive R C A B"):
        out.append(g.case("tb_die", [cline, A, B2, C, "call " + call], op=call.split()[0][3:], shape=(70, 80, 90), kinds=("die-C",)))
    for call in ("tb_mul R - A B -1", "tb_addmul R C A B -64"):
        out.append(g.case("tb_die", [cline, A, B2, C2, "call " + call], op=call.split()[0][3:], shape=(70, 80, 90), kinds=("die-cutoff",)))
    return out


# ----------------------------------------------------------------------------------------------------------------
# engine
# ----------------------------------------------------------------------------------------------------------------
class TierB:
    def __init__(self, res, prop, variant, seed):
        self.res, self.prop, self.variant, self.seed = res, prop, variant, seed
        self.runner = corr.Runner(variant)
        self.consts = build_consts(self.runner)
        self.cline = consts_line(self.consts)
        self.tag = "/cfg=%s/tierB" % variant["name"]
        self.cov = res.cov.setdefault("tierB", {}).setdefault(variant["name"], {"constants": dict(self.consts), "families": {}})

    def run(self, family, cases, search_ops, search_sz=300, search_n=40):
        """run one family of Tier-B cases; on differences: Tier A on the same inputs, then a Tier-A search"""
        res = self.res
        t0 = time.time()
        cout, mout = self.runner.run(cases)
        bad, unsupported = compare(cases, cout, mout)
        f = self.cov["families"].setdefault(family, {"cases": 0, "differences": 0, "not_covered_by_model": 0, "wall_s": 0.0, "ops": {}})
        f["cases"] += len(cases)
        f["differences"] += len(bad)
        f["not_covered_by_model"] += unsupported
        for c in cases:
            m = c.meta
            f["ops"][m.get("op")] = f["ops"].get(m.get("op"), 0) + 1
            res.count(("tierB", family, m.get("op"), tuple(s // 64 for s in m.get("shape", ())), tuple(str(k) for k in m.get("kinds", ())),
                       m.get("param"), m.get("k"), m.get("full"), self.tag))
        if cases and len(res.cov["samples"]) < 8:
            res.cov["samples"].append(cases[0].text()[:600])
        if bad:
            self.report(family, bad, search_ops, search_sz, search_n)
        f["wall_s"] = round(f["wall_s"] + time.time() - t0, 1)
        return bad

    def report(self, family, bad, search_ops, search_sz, search_n):
        res = self.res
        # Tier A on the SAME inputs: the plain script against the specification
        twins = {}
        for c, why, co, mo in bad:
            t = c.meta.get("twin")
            if t is not None and t.id not in twins:
                twins[t.id] = t
        badA = []
        if twins:
            tw = list(twins.values())
            co2, mo2 = self.runner.run(tw)
            badA = corr.compare(tw, co2, mo2)
        if badA:
            engine.handle_mismatches(res, self.prop, [(c, "tier A (found by a Tier-B difference): " + why, co, mo) for c, why, co, mo in badA],
                                     self.runner, tag=self.tag + "-twin")
            return
        # Tier-A search: more and larger cases of the related routines against the specification
        g = gen.G(self.seed + 991)
        more = [ops.build(name, g, None, search_sz) for name in search_ops for _ in range(search_n)]
        for c in more:
            res.count(("tierA-search", c.meta.get("op"), c.meta.get("shape"), self.tag))
        hit = []
        if more:
            co3, mo3 = self.runner.run(more)
            hit = corr.compare(more, co3, mo3)
        if hit:
            engine.handle_mismatches(res, self.prop, [(c, "tier A (search after a Tier-B difference in %s): %s" % (family, why), co, mo)
                                                      for c, why, co, mo in hit], self.runner, tag=self.tag + "-search")
            return
        reported = set()
        for c, why, co, mo in bad:
            key = (c.meta.get("op"), why.split("(")[0][:24])
            if key in reported:
                continue
            reported.add(key)
            path = vlib.write_replay(self.prop, ("%s%s" % (c.meta.get("op"), self.tag)).replace("/", "_"),
                                     "# property %s: correspondence no longer checks: %s differs from the ALGORITHM-FAITHFUL model (%s) while the "
                                     "specification is met on the same input%s; a Tier-A search over %d further cases of %s found no failing "
                                     "input [%s]\n# replay: python3 tools/props/tierb.py <this file>\n%s" % (
                                         self.prop, c.meta.get("op"), why, "s" if len(twins) != 1 else "", len(more), ", ".join(search_ops) or "-",
                                         self.tag, corr.describe(Case(c.id, c.lines, dict((k, v) for k, v in c.meta.items() if k != "twin")), why, co, mo)))
            res.violation(path, no_input=True)


VARIANTS = dict(ops.VARIANTS)
# OpenMP build (mzd_mul_mp / mzd_addmul_mp exist only there), small caches
VARIANTS["small-omp"] = lambda vlib: vlib.variant(name="small-omp", openmp=1, **vlib.SMALL)


def c01(res, tier, seed):
    quick = tier == "quick"
    for vn in ("small", "host"):
        tb = TierB(res, "C01", VARIANTS[vn](vlib), seed)
        g = gen.G(seed + 7100 + (vn == "host"))
        small = vn == "small"
        k = 1 if quick else 8
        tb.run("make_table", make_table_cases(g, (40 if small else 20) * k, tb.cline), ["mul_m4rm", "addmul_m4rm", "mul"], 200)
        tb.run("djb", djb_cases(g, (30 if small else 10) * k, tb.cline), ["djb"], 100)
        # row-block loop (MUL_BLOCKSIZE = 256 in the small-cache build), 54-column switch, M4RM phases 1..3
        tb.run("m4rm", catalogue_cases(g, ["mul_naive", "addmul_naive", "mul_m4rm", "addmul_m4rm"], (8 if small else 4) * k,
                                       300 if small else 150, tb.cline), ["mul_naive", "addmul_naive", "mul_m4rm", "addmul_m4rm"], 300)
        tb.run("strassen", strassen_cases(g, (30 if small else 10) * k, tb.cline, tb.consts)
               + catalogue_cases(g, ["mul", "addmul"], (6 if small else 3) * k, 260, tb.cline, windows=True)
               + (die_cases(g, tb.cline) if small else []), ["mul", "addmul"], 300)
    # mp.c: the four-section front end (sched_mp_* of StrassenGen.v) exists in OpenMP builds only
    tb = TierB(res, "C01", VARIANTS["small-omp"](vlib), seed)
    g = gen.G(seed + 7150)
    tb.run("mp", strassen_cases(g, 16 * (1 if quick else 8), tb.cline, tb.consts, names=("mul_mp", "addmul_mp"))
           + catalogue_cases(g, ["mul_mp", "addmul_mp"], 4 * (1 if quick else 8), 260, tb.cline), ["mul_mp", "addmul_mp"], 300)


def c02(res, tier, seed):
    quick = tier == "quick"
    names = ["echelonize_m4ri", "_echelonize_m4ri", "echelonize", "echelonize_pluq", "top_echelonize_m4ri"]
    for vn in ("small", "host", "stress"):
        tb = TierB(res, "C02", VARIANTS[vn](vlib), seed)
        g = gen.G(seed + 7200 + ("small", "host", "stress").index(vn))
        k = 1 if quick else 8
        if vn == "stress":
            # L3 = 4 KiB: the automatic k of the M4RI routes drops (0.75 * 2^k * ncols > L3/2) and the PLUQ-based routes
            # enter the block recursion of ple.c (PLE cut-off 512 words: 130 x 180 and beyond)
            tb.run("echelon", catalogue_cases(g, names, 6 * k, 200, tb.cline), names, 300)
            big = []
            for _ in range(8 * k):
                nr, nc = g.rng.choice([(150, 260), (200, 200), (180, 300), (257, 193), (300, 130)])
                rows, kind = gen.rank_profile_rows2(g, nr, nc) if g.rng.random() < 0.7 else g.rows(nr, nc, "dense")
                call = g.rng.choice(["echelonize_pluq A %d", "echelonize A %d", "echelonize_pluq A %d"]) % g.rng.getrandbits(1)
                plain = g.case(call.split()[0], [g.mat_line("A", nr, nc, rows), "call " + call, "dump A"], op=call.split()[0],
                               shape=(nr, nc), kinds=(kind,), regime="ple-rec")
                big.append(to_tb(plain, tb.cline))
            tb.run("pluq-rec", big, ["echelonize_pluq", "echelonize"], 300)
            continue
        tb.run("echelon", catalogue_cases(g, names, (10 if vn == "small" else 4) * k, 160 if vn == "small" else 130, tb.cline), names, 300)
        if vn == "small":
            tb.run("make_table", make_table_cases(g, 15 * k, tb.cline), ["echelonize_m4ri", "top_echelonize_m4ri"], 200)


def c04(res, tier, seed):
    quick = tier == "quick"
    names = ["trsm_upper_left", "trsm_lower_left", "trsm_upper_right", "trsm_lower_right",
             "_trsm_upper_left", "_trsm_lower_left", "_trsm_upper_right", "_trsm_lower_right"]
    for vn in ("small", "host"):
        tb = TierB(res, "C04", VARIANTS[vn](vlib), seed)
        g = gen.G(seed + 7400 + (vn == "host"))
        k = 1 if quick else 8
        if vn == "small":
            # MUL_BLOCKSIZE = 256: word base (<= 64), Four-Russians / trtri middle regime (<= 256), recursion above
            tb.run("trsm", catalogue_cases(g, names, 3 * k, 140, tb.cline), names, 300)
            tb.run("trsm-rec", catalogue_cases(g, names, 3 * k, 300, tb.cline, tri_big=(257, 330, 0.9)), names, 330)
        else:
            tb.run("trsm", catalogue_cases(g, names, 2 * k, 200, tb.cline), names, 300)


def c05(res, tier, seed):
    quick = tier == "quick"
    for vn in ("small", "host"):
        tb = TierB(res, "C05", VARIANTS[vn](vlib), seed)
        g = gen.G(seed + 7500 + (vn == "host"))
        k = 1 if quick else 8
        if vn == "small":
            # mzd_trtri_upper recurses for n*n >= 2*L3 = 131072, i.e. n >= 363
            tb.run("trtri-rec", catalogue_cases(g, ["trtri_upper"], 16 * k, 400, tb.cline, tri_big=(363, 420, 0.9)), ["trtri_upper"], 420)
            tb.run("inv", catalogue_cases(g, ["inv_m4ri", "trtri_upper"], 12 * k, 140, tb.cline), ["inv_m4ri", "trtri_upper"], 300)
            tb.run("trtri-russian", catalogue_cases(g, ["trtri_upper_russian"], 40 * k, 200, tb.cline), ["trtri_upper_russian", "trtri_upper"], 300)
        else:
            tb.run("inv", catalogue_cases(g, ["inv_m4ri", "trtri_upper"], 5 * k, 200, tb.cline), ["inv_m4ri", "trtri_upper"], 300)
            tb.run("trtri-russian", catalogue_cases(g, ["trtri_upper_russian"], 25 * k, 260, tb.cline), ["trtri_upper_russian", "trtri_upper"], 300)


def c03(res, tier, seed):
    quick = tier == "quick"
    names = ["_ple_russian", "_pluq_russian"]
    for vn in ("host", "small"):
        tb = TierB(res, "C03", VARIANTS[vn](vlib), seed)
        g = gen.G(seed + 7300 + (vn == "host"))
        k = 1 if quick else 8
        # the automatic k depends on the L2 size of the build (ple_russian.c:393); explicit k 2..8 from the catalogue
        tb.run("ple-russian", catalogue_cases(g, names, (60 if vn == "host" else 40) * k, 140, tb.cline), names, 200)
        tb.run("ple-russian-wide", catalogue_cases(g, names, 12 * k, 330, tb.cline), names, 330)


RUN = {"C01": c01, "C02": c02, "C03": c03, "C04": c04, "C05": c05}


def run(res, prop, tier, seed):
    """called once by tools/props/cNN.py after its own passes"""
    t0 = time.time()
    res.cov["tierB_rule"] = ("Tier B: the algorithm-faithful models (regimes, tables, recursion, generated schedules) run with the "
                             "constants printed by the build under test; exact equality of results and observable intermediates "
                             "(make_table contents, DJB op list) and of the fate; see tools/props/tierb.py")
    RUN[prop](res, tier, seed)
    res.cov["tierB_wall_s"] = round(time.time() - t0, 1)


# ----------------------------------------------------------------------------------------------------------------
# replay of a Tier-B file
# ----------------------------------------------------------------------------------------------------------------
def replay(path):
    txt = open(path).read()
    head = txt.split("--- script", 1)[0]
    m = re.search(r"cfg=([a-z0-9-]+)", head)
    vn = m.group(1) if m and m.group(1) in VARIANTS else "host"
    body = txt.split("--- script\n", 1)[1].split("--- C side", 1)[0].strip().split("\n")
    case = Case(body[0][5:].strip(), [l for l in body[1:] if not l.startswith("end")], {})
    runner = corr.Runner(VARIANTS[vn](vlib))
    cout, mout = runner.run([case])
    bad, _ = compare([case], cout, mout)
    print("build %s: %s" % (vn, consts_line(build_consts(runner))))
    for c, why, co, mo in bad:
        print(corr.describe(c, why, co, mo))
    print("Tier B replay: %s" % ("DIFFERENCE" if bad else "no difference"))
    return 1 if bad else 0


if __name__ == "__main__":
    sys.exit(replay(sys.argv[1]))
