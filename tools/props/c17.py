"""C17 — observers agree with the abstract matrix."""
import engine

OPS = ["equal", "cmp", "is_zero", "first_zero_row", "find_pivot", "rw_bit"]
PROOFS = ["Properties_C17", "Properties_C17t"]


def run(res, tier, seed):
    res.cov["rule"] = ("seeded op scripts: pairs equal / differing in exactly one bit at first, middle, last partial word / "
                       "different dimensions; pivot search from every start class incl. the last 64 columns; owned operands "
                       "and windows; non-trivial unless 1x1; distinct by (op, shape class, content kind, mode)")
    engine.proof_part(res, PROOFS)
    engine.corpus(res, "C17")
    n = 300 if tier == "quick" else 3000
    engine.run_ops(res, "C17", OPS, seed, n, 130 if tier == "quick" else 300)
    # the same observers on windows (foreign bits around the view must not be seen)
    engine.run_ops(res, "C17", OPS, seed + 7, n // 2, 130, W=lambda role: {"fill": "rand"}, tag="/win")


def replay(res, path):
    engine.replay_file(res, "C17", path)
