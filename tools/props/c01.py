"""C01 — every multiplication route computes exactly A*B (or C + A*B)."""
import engine

OPS = ["mul_naive", "addmul_naive", "_mul_naive", "mul_va", "mul_m4rm", "addmul_m4rm", "mul", "addmul", "djb"]
PROOFS = ["Properties_C01a", "Properties_C01b", "Properties_C01c"]


def run(res, tier, seed):
    res.cov["rule"] = ("seeded products per route: shapes around multiples of 64 and the route thresholds, all content classes, "
                       "k in 0..10,16, cutoffs 0..2048, supplied/allocated destination, squaring route; distinct by "
                       "(route, shape class, content kinds, parameter)")
    # T2 (tools/sched_extract.py) regenerates Alg/StrassenGen.v from the current strassen.c / mp.c inside vlib.prove
    engine.proof_part(res, PROOFS)
    engine.corpus(res, "C01")
    n = 60 if tier == "quick" else 500
    engine.run_ops(res, "C01", OPS, seed, n, 150 if tier == "quick" else 400)
    # the theorems quantify over the row-block size and the cutoffs derived from the cache sizes: the small-cache
    # build makes the blocked loops (blocks of 256 rows) and the Strassen recursion reachable at moderate sizes
    import vlib, corr
    small = corr.Runner(vlib.variant(name="small", **vlib.SMALL))
    engine.run_ops(res, "C01", OPS, seed + 1, n // 2, 300 if tier == "quick" else 700, runner=small, tag="/cfg=small")
    # operands as views into wider matrices holding other data (the factors alone, the destination alone, all): a route
    # that reads whole words of a factor sees the parent's bits beyond the last column
    for k, sub in enumerate((("A",), ("B",), ("A", "B"), ("A", "B", "C"))):
        W = (lambda sub: (lambda role: {"fill": "rand"} if role in sub or (role == "V" and "B" in sub) else None))(sub)
        engine.run_ops(res, "C01", OPS, seed + 20 + k, max(4, n // 10), 150, W=W, tag="/win=" + "+".join(sub))
    # Tier B: the algorithm-faithful models (naive / M4RM / Strassen with the regenerated schedules / DJB / make_table) run
    # with the constants of the build under test; tables and the DJB op list compared bit for bit
    from props import tierb
    tierb.run(res, "C01", tier, seed)


def replay(res, path):
    engine.replay_file(res, "C01", path)
