"""C19 -- Gray-code tables and word-level bit kernels are exactly right (finite domains).

run():
  1. T1: regenerate coq/Leaf/Gen_leaf.v from /repo's working tree (tools/translate.py; written only
     if it changes).  A refusal of a required function is a broken obligation.
  2. Re-check Properties/Properties_C19.v: theorems about the TRANSLATED functions run by the CMini
     interpreter (code book k = 1..16, parity64 / swap_bits for all words through one symbolic run,
     masks 65 x 64, spread/shrink, lesser_LSB, log2_floor, gray_code).
  3. Correspondence with the real library through c/leaf_harness.c (static inline kernels compiled
     from the tree's headers, graycode.c / brilliantrussian.c from the fresh libm4ri.a):
       EXHAUSTIVE  m4ri_codebook[k]->ord/inc for k = 1..16 (262140 entries) against the proven closed
                   form of Gray.build_code (the mirror itself is compared on every run with coqc's
                   evaluation of the model for k <= 12/14);
       EXHAUSTIVE  all 65 x 64 LEFT/RIGHT/MIDDLE masks against the spec AND against the CMini
                   interpreter's value of the translated macros (coqc vm_compute);
       basis-complete: parity64 on the 4096 single-bit inputs, swap_bits on the 64 single bits,
                   lesser_LSB on all 65 x 65 pairs of (zero | single bit), log2_floor on all 2^k
                   boundaries, gray_code for every number < 2^l, l <= 10 -- each against the spec
                   and (a deterministic subset) against the interpreter's value;
       seeded random: 10^4 (quick) parity inputs, swap words, spread/shrink for every length with
                   random strictly increasing Q, lesser_LSB pairs, mzd_make_table for k = 1..8 (..10)
                   on random matrices (lookup property + increments).
     Any mismatch -> replay file with the exact harness command + VIOLATION.  If only the proof
     obligation broke the comparisons above are the search for a failing input.
"""
import os, random, re, subprocess, sys, time

import vlib
import engine
import translate

PROP = "C19"
M64 = (1 << 64) - 1
KCOQ = {"quick": 12, "thorough": 14}


# ----------------------------------------------------------------------------------------------
# specifications (python mirrors of the statements proven in Properties_C19.v)
# ----------------------------------------------------------------------------------------------
def ctz(x):
    return (x & -x).bit_length() - 1


def spec_ord(k):
    return [i ^ (i >> 1) for i in range(1 << k)]


def spec_inc(k):
    return [min(ctz(i + 1), k - 1) for i in range(1 << k)]


def spec_left(n):
    return (1 << (n if n else 64)) - 1


def spec_right(n):
    return (((1 << n) - 1) << (64 - n)) & M64


def spec_middle(n, off):
    return (spec_left(n) << off) & M64


def spec_parity(buf):
    r = 0
    for i, w in enumerate(buf):
        r |= (bin(w).count("1") & 1) << i
    return r


def spec_swap(v):
    return int("{:064b}".format(v)[::-1], 2)


def spec_spread(frm, q, ln, base):
    r = 0
    for j in range(ln):
        r |= ((frm >> j) & 1) << (q[j] - base)
    return r


def spec_shrink(frm, q, ln, base):
    r = 0
    for j in range(ln):
        r |= ((frm >> (q[j] - base)) & 1) << j
    return r


def spec_lsb(a, b):
    return 1 if (a != 0 and (b == 0 or ctz(a) < ctz(b))) else 0


def spec_log2(v):
    return v.bit_length() - 1 if v > 0 else 0


def spec_gray(n, l):
    n &= (1 << l) - 1
    return n ^ (n >> 1)


def expected(cmdline):
    """spec value of one harness command line (None if the command has no scalar spec)"""
    t = cmdline.split()
    c = t[0]
    if c == "parity":
        return "%x" % spec_parity([int(x, 16) for x in t[2:66]])
    if c == "swap":
        return "%x" % spec_swap(int(t[2], 16))
    if c in ("spread", "shrink"):
        frm, ln, base = int(t[2], 16), int(t[3]), int(t[4])
        q = [int(x) for x in t[5:5 + ln]]
        return "%x" % (spec_spread if c == "spread" else spec_shrink)(frm, q, ln, base)
    if c == "lsb":
        return "%d" % spec_lsb(int(t[2], 16), int(t[3], 16))
    if c == "log2":
        return "%d" % spec_log2(int(t[2]))
    if c == "gray":
        return "%d" % spec_gray(int(t[2]), int(t[3]))
    if c == "twopow":
        return "%d" % (1 << int(t[2]))
    return None


# ----------------------------------------------------------------------------------------------
# the real code
# ----------------------------------------------------------------------------------------------
class Harness:
    def __init__(self, variant=None):
        self.v = variant or vlib.variant()
        self.exe = vlib.build_harness(self.v, "leaf_harness.c")

    def run(self, lines, timeout=600):
        p = vlib.run([self.exe], input="\n".join(lines) + "\n", timeout=timeout)
        if p.returncode != 0:
            raise vlib.BuildError("leaf_harness exited with status %d on %d commands:\n%s" % (
                p.returncode, len(lines), (p.stdout[-500:] + p.stderr[-1500:])))
        return p.stdout.split("\n")


# ----------------------------------------------------------------------------------------------
# the model / the translated programs, evaluated by coqc
# ----------------------------------------------------------------------------------------------
COQ_PRELUDE = """From Coq Require Import ZArith NArith List String.
From M4 Require Import Leaf.CMini Leaf.Gen_leaf Alg.Gray.
Import ListNotations.
Local Open Scope Z_scope.
Definition zr (lo : Z) (n : nat) : list Z := map (fun i => lo + Z.of_nat i) (seq 0 n).
Definition code (r : res Z) : Z := match r with Ok z => z | UB _ => -1 | OOB => -2 | Die => -3 | OutOfFuel => -4 end.
Definition ci (f : string) (args : list Z) : Z :=
  code (ret_int (interp leaf_prog f (map (fun z => Vint z) args) empty_mem)).
Definition cbuf (f : string) (buf : list Z) : Z :=
  let mb := alloc_list (@empty_mem Z) buf in code (ret_int (interp leaf_prog f [Vptr (snd mb) 0] (fst mb))).
Definition cq (f : string) (from : Z) (q : list Z) (len base : Z) : Z :=
  let mb := alloc_list (@empty_mem Z) q in
  code (ret_int (interp leaf_prog f [Vint from; Vptr (snd mb) 0; Vint len; Vint base] (fst mb))).
Definition unit64 (i j : nat) : list Z := map (fun r => if Nat.eqb r i then 2 ^ Z.of_nat j else 0) (seq 0 64).
Definition bit0 (i : Z) : Z := if i <? 0 then 0 else 2 ^ i.
"""


def coq_eval(name, body, timeout=900):
    """Evaluate `body` (a list of (tag, coq term of type list Z)) with vm_compute; -> {tag: [ints]} or None
    if coqc fails (e.g. Gen_leaf.v does not compile)."""
    d = os.path.join(vlib.scratch(), "coqeval")
    os.makedirs(d, exist_ok=True)
    src = os.path.join(d, name + ".v")
    with open(src, "w") as fh:
        fh.write(COQ_PRELUDE)
        for tag, term in body:
            fh.write("Definition v_%s : list Z := %s.\n" % (tag, term))
            fh.write("Eval vm_compute in (%d, v_%s).\n" % (len(tag) * 0 + body.index((tag, term)), tag))
    try:
        p = vlib.run(["coqc", "-Q", vlib.COQ, "M4", src], timeout=timeout, cwd=d)
    except subprocess.TimeoutExpired:
        return None, "coqc timed out"
    if p.returncode != 0:
        return None, (p.stdout + p.stderr)[-1500:]
    out = {}
    chunks = re.split(r"^\s*=\s*\(", p.stdout, flags=re.M)[1:]
    for ch in chunks:
        m = re.match(r"\s*(\d+)%?[A-Za-z]*\s*,\s*(\[.*?\]|nil)", ch, flags=re.S)
        if not m:
            continue
        idx = int(m.group(1))
        out[body[idx][0]] = [int(x) for x in re.findall(r"-?\d+", re.sub(r"%[A-Za-z]+", "", m.group(2)))]
    return out, ""


def coq_codebooks(kmax):
    body = []
    for k in range(1, kmax + 1):
        body.append(("ord%d" % k, "map Z.of_N (fst (build_code_fast %d))" % k))
        body.append(("inc%d" % k, "map Z.of_nat (snd (build_code_fast %d))" % k))
    # the literal (slow) model itself for small k
    for k in range(1, 9):
        body.append(("mord%d" % k, "map Z.of_N (fst (build_code %d))" % k))
        body.append(("minc%d" % k, "map Z.of_nat (snd (build_code %d))" % k))
    return coq_eval("codebooks", body)


# spread/shrink cases evaluated on both sides: (from, q, len, base)
def det_spread_cases():
    cs = []
    for ln in range(1, 17):
        for base, stride in ((0, 1), (0, 3), (5, 2), (48 - ln + 1 if ln < 16 else 33, 1), (64 - 4 * ln if ln < 16 else 0, 4)):
            q = [base + j * stride for j in range(ln)]
            if q[-1] - base > 63 or q[-1] > 2000000000:
                continue
            cs.append(((1 << ln) - 1, q, ln, base))
            cs.append((0x5555 & ((1 << ln) - 1), q, ln, base))
    return cs


def coq_leaves(tier):
    zl = lambda l: "[" + "; ".join("(%d)" % x if x < 0 else "%d" % x for x in l) + "]"
    sp = det_spread_cases()
    body = [
        ("left", 'map (fun n => ci "stub_left_bitmask" [n]) (zr 0 65)'),
        ("right", 'map (fun n => ci "stub_right_bitmask" [n]) (zr 0 65)'),
        ("middle", 'flat_map (fun n => map (fun off => ci "stub_middle_bitmask" [n; off]) (zr 0 64)) (zr 0 65)'),
        ("twopow", 'map (fun n => ci "stub_twopow_int" [n]) (zr 0 31)'),
        ("swap", 'map (fun j => ci "m4ri_swap_bits" [2 ^ j]) (zr 0 64)'),
        ("lsb", 'flat_map (fun i => map (fun j => ci "m4ri_lesser_LSB" [bit0 i; bit0 j]) (zr (-1) 65)) (zr (-1) 65)'),
        ("log2", 'flat_map (fun k => [ci "log2_floor" [2 ^ k - 1]; ci "log2_floor" [2 ^ k]; ci "log2_floor" [2 ^ k + 1]]) (zr 0 31)'),
        ("gray", 'flat_map (fun l => map (fun n => ci "m4ri_gray_code" [n; l]) (zr 0 (2 ^ Z.to_nat l))) (zr 0 %d)' % (9 if tier == "quick" else 11)),
        ("parity", 'flat_map (fun i => map (fun j => cbuf "m4ri_parity64" (unit64 i j)) (seq 0 64)) (seq 0 64)'),
        ("spread", "[" + "; ".join('cq "m4ri_spread_bits" %d %s %d %d' % (f, zl(q), ln, b) for f, q, ln, b in sp) + "]"),
        ("shrink", "[" + "; ".join('cq "m4ri_shrink_bits" %d %s %d %d' % (spec_spread(f, q, ln, b), zl(q), ln, b) for f, q, ln, b in sp) + "]"),
    ]
    return coq_eval("leaves", body)


# ----------------------------------------------------------------------------------------------
# the correspondence
# ----------------------------------------------------------------------------------------------
class Corr:
    def __init__(self, res, tier, seed):
        self.res, self.tier, self.seed = res, tier, seed
        self.bad = []          # replay paths
        self.reported = set()
        self.stats = {}

    def mismatch(self, kind, cmd, got, want, who="specification proven in Properties_C19.v"):
        """one failing input: write the replay, report once per kind"""
        if kind in self.reported:
            self.stats[kind + "_more_mismatches"] = self.stats.get(kind + "_more_mismatches", 0) + 1
            return
        self.reported.add(kind)
        txt = ("# property C19: the implementation's result differs from the %s\n"
               "# replay: python3 tools/check.py C19 --replay <this file>\n"
               "kind %s\n--- input (c/leaf_harness.c command)\n%s\n--- implementation\n%s\n--- expected\n%s\n" % (
                   who, kind, cmd, got, want))
        path = vlib.write_replay(PROP, kind, txt)
        self.bad.append(path)
        self.res.violation(path)

    def n(self, kind, k=1):
        self.stats[kind] = self.stats.get(kind, 0) + k

    # ---- code book --------------------------------------------------------------------------
    def codebook(self, h, coqcb):
        out = h.run(["codebook"])
        tabs = {}
        for ln in out:
            t = ln.split()
            if t and t[0] in ("ord", "inc"):
                tabs[(t[0], int(t[1]))] = [int(x) for x in t[2:]]
            elif t and t[0] == "maxkay" and int(t[1]) != 16:
                self.mismatch("codebook-maxkay", "codebook", ln, "maxkay 16")
        for k in range(1, 17):
            for which, spec in (("ord", spec_ord(k)), ("inc", spec_inc(k))):
                got = tabs.get((which, k))
                self.n("codebook_entries", 1 << k)
                self.res.count(("codebook", which, k))
                if got is None or len(got) != len(spec):
                    self.mismatch("codebook", "codebook", "table %s k=%d missing or of wrong length" % (which, k), "%d entries" % len(spec))
                    continue
                if got != spec:
                    i = next(i for i in range(len(spec)) if got[i] != spec[i])
                    self.mismatch("codebook", "codebook   # m4ri_codebook[%d]->%s[%d]" % (k, which, i),
                                  "%s[%d] = %d" % (which, i, got[i]), "%s[%d] = %d  (Gray.build_code %d)" % (which, i, spec[i], k))
                # the mirror against coqc's evaluation of the model
                if coqcb is not None:
                    for tag in ("%s%d" % (which, k), "m%s%d" % (which, k)):
                        if tag in coqcb:
                            self.n("codebook_entries_vs_coq", 1 << k)
                            if coqcb[tag] != spec:
                                self.mismatch("codebook-model", "codebook   # k=%d %s" % (k, which),
                                              "python mirror of the closed form", "coqc evaluation of Gray.build_code(_fast) differs",
                                              who="model")

    # ---- masks ------------------------------------------------------------------------------
    def masks(self, h, coq):
        out = h.run(["masks"])
        seen = 0
        for ln in out:
            t = ln.split()
            if not t:
                continue
            if t[0] == "L":
                n = int(t[1]); want = spec_left(n); cv = coq["left"][n] if coq and "left" in coq else None
            elif t[0] == "R":
                n = int(t[1]); want = spec_right(n); cv = coq["right"][n] if coq and "right" in coq else None
            elif t[0] == "M":
                n, off = int(t[1]), int(t[2]); want = spec_middle(n, off)
                cv = coq["middle"][n * 64 + off] if coq and "middle" in coq else None
            else:
                continue
            seen += 1
            got = int(t[-1], 16)
            self.res.count(("mask", t[0], t[1], t[2] if t[0] == "M" else ""))
            if got != want:
                self.mismatch("mask-" + t[0], "masks   # %s" % " ".join(t[:-1]), "%x" % got, "%x" % want)
            if cv is not None and cv != got:
                self.mismatch("mask-interp-" + t[0], "masks   # %s" % " ".join(t[:-1]), "%x" % got,
                              "CMini interpreter on the translated macro: %s" % ("%x" % cv if cv >= 0 else "UB (code %d)" % cv),
                              who="CMini interpretation of the translated source")
        self.n("masks", seen)
        if seen != 65 + 64 + 65 * 64:
            self.mismatch("mask-count", "masks", "%d answers" % seen, "%d" % (65 + 64 + 65 * 64))
        if coq and "right" in coq and coq["right"][0] != -1:
            self.mismatch("mask-right0", "masks   # R 0", "interpreter value %d" % coq["right"][0], "UB (documented: n == 0 would fail)",
                          who="documented domain")

    # ---- scalar kernels ---------------------------------------------------------------------
    def scalar(self, h, cmds, kind, coqvals=None):
        """cmds: harness command lines with ids 0..n-1; compare with the spec (and the interpreter's values)"""
        out = h.run(cmds)
        ans = {}
        for ln in out:
            t = ln.split()
            if len(t) == 3:
                ans[t[1]] = t[2]
        for idx, c in enumerate(cmds):
            want = expected(c)
            got = ans.get(c.split()[1])
            self.n(kind)
            self.res.count((kind, idx if idx < 5000 else idx % 5000))
            if got != want:
                self.mismatch(kind, c, got, want)
            if coqvals is not None and idx < len(coqvals) and got is not None:
                cv = coqvals[idx]
                gi = int(got, 16) if c.split()[0] in ("parity", "swap", "spread", "shrink") else int(got)
                self.n(kind + "_vs_interp")
                if cv != gi:
                    self.mismatch(kind + "-interp", c, got, "CMini interpreter on the translated function: %s" % (
                        "%x" % cv if cv >= 0 else "error code %d" % cv), who="CMini interpretation of the translated source")

    def run(self):
        res, tier = self.res, self.tier
        rnd = random.Random(self.seed)
        h = Harness()
        thorough = tier == "thorough"
        coqcb, err1 = coq_codebooks(KCOQ[tier])
        coq, err2 = coq_leaves(tier)
        res.cov["coq_evaluation"] = dict(codebooks="ok" if coqcb else "failed: " + err1[-300:], leaves="ok" if coq else "failed: " + err2[-300:])
        g = lambda tag: (coq or {}).get(tag)

        self.codebook(h, coqcb)
        self.masks(h, coq)

        # parity64: complete basis + zero + all-ones + random
        cmds = []
        for i in range(64):
            for j in range(64):
                cmds.append("parity %d %s" % (len(cmds), " ".join("%x" % ((1 << j) if r == i else 0) for r in range(64))))
        nb = len(cmds)
        cmds.append("parity %d %s" % (len(cmds), " ".join(["0"] * 64)))
        cmds.append("parity %d %s" % (len(cmds), " ".join(["ffffffffffffffff"] * 64)))
        for _ in range(100000 if thorough else 10000):
            dens = rnd.choice((1, 1, 1, 2, 3))
            buf = []
            for r in range(64):
                w = rnd.getrandbits(64)
                for _ in range(dens - 1):
                    w &= rnd.getrandbits(64)
                buf.append(w)
            cmds.append("parity %d %s" % (len(cmds), " ".join("%x" % w for w in buf)))
        self.scalar(h, cmds, "parity64", g("parity"))
        res.cov["samples"].append(cmds[65][:200] + " ...")
        res.cov["samples"].append(cmds[nb + 5][:200] + " ...")

        # swap_bits: basis + random
        cmds = ["swap %d %x" % (j, 1 << j) for j in range(64)]
        cmds += ["swap %d %x" % (64 + i, w) for i, w in enumerate([0, M64] + [rnd.getrandbits(64) for _ in range(100000 if thorough else 10000)])]
        self.scalar(h, cmds, "swap_bits", g("swap"))
        res.cov["samples"].append(cmds[70])

        # lesser_LSB: all pairs of (zero | single bit), then random
        vals = [0] + [1 << i for i in range(64)]
        cmds = []
        for a in vals:
            for b in vals:
                cmds.append("lsb %d %x %x" % (len(cmds), a, b))
        for _ in range(100000 if thorough else 10000):
            a = rnd.getrandbits(64) << rnd.randrange(64) & M64
            b = rnd.getrandbits(64) << rnd.randrange(64) & M64
            if rnd.random() < 0.1:
                b = a ^ (rnd.getrandbits(64) << (ctz(a) + 1 if a else 0) & M64)
            cmds.append("lsb %d %x %x" % (len(cmds), a, b))
        self.scalar(h, cmds, "lesser_LSB", g("lsb"))
        res.cov["samples"].append(cmds[-1])

        # log2_floor: all boundaries + random
        cmds = []
        for k in range(31):
            for v in ((1 << k) - 1, 1 << k, (1 << k) + 1):
                cmds.append("log2 %d %d" % (len(cmds), v))
        cv = g("log2")
        cmds += ["log2 %d %d" % (93 + i, rnd.getrandbits(rnd.randrange(1, 32)) & 0x7fffffff) for i in range(5000)]
        self.scalar(h, cmds, "log2_floor", cv)

        # twopow
        self.scalar(h, ["twopow %d %d" % (i, i) for i in range(31)], "twopow", g("twopow"))

        # gray_code: every number below 2^l for l <= 12 (the code book above covers l <= 16 through ord)
        cmds = []
        lcoq = 9 if tier == "quick" else 11
        for l in range(0, 13):
            for nmb in range(1 << l):
                cmds.append("gray %d %d %d" % (len(cmds), nmb, l))
        ncoq = sum(1 << l for l in range(lcoq))
        cvg = g("gray")
        self.scalar(h, cmds, "gray_code", cvg[:ncoq] if cvg else None)
        cmds = ["gray %d %d %d" % (i, rnd.getrandbits(l) if l else 0, l) for i, l in enumerate([rnd.randrange(13, 32) for _ in range(5000)])]
        self.scalar(h, cmds, "gray_code_random")

        # spread / shrink: deterministic family (also evaluated by the interpreter) + random sorted Q
        sp = det_spread_cases()
        c1 = ["spread %d %x %d %d %s" % (i, f, ln, b, " ".join(map(str, q))) for i, (f, q, ln, b) in enumerate(sp)]
        c2 = ["shrink %d %x %d %d %s" % (i, spec_spread(f, q, ln, b), ln, b, " ".join(map(str, q))) for i, (f, q, ln, b) in enumerate(sp)]
        self.scalar(h, c1, "spread_bits", g("spread"))
        self.scalar(h, c2, "shrink_bits", g("shrink"))
        c1, c2, c3 = [], [], []
        per = 2000 if thorough else 300
        for ln in range(1, 17):
            for _ in range(per):
                base = rnd.choice((0, 0, 64, rnd.randrange(0, 100000), 2 ** 31 - 64))
                q = sorted(rnd.sample(range(64), ln))
                q = [base + x for x in q]
                if q[-1] >= 2 ** 31:
                    continue
                x = rnd.getrandbits(ln)
                y = rnd.getrandbits(64)
                c1.append("spread %d %x %d %d %s" % (len(c1), x, ln, base, " ".join(map(str, q))))
                # inverse directions: shrink(spread x) = x ; shrink of an arbitrary word
                c2.append("shrink %d %x %d %d %s" % (len(c2), spec_spread(x, q, ln, base), ln, base, " ".join(map(str, q))))
                c3.append("shrink %d %x %d %d %s" % (len(c3), y, ln, base, " ".join(map(str, q))))
        self.scalar(h, c1, "spread_bits_random")
        self.scalar(h, c2, "shrink_spread_inverse")
        self.scalar(h, c3, "shrink_bits_random")
        res.cov["samples"].append(c1[-1])
        res.cov["samples"].append(c3[-1])

        # mzd_make_table: lookup property on random matrices
        self.make_table(h, rnd, 10 if thorough else 8, 12 if thorough else 4)
        res.cov["comparisons"] = self.stats
        return self.bad

    def make_table(self, h, rnd, kmax, per):
        cmds, meta = [], []
        for k in range(1, kmax + 1):
            for _ in range(per):
                nc = rnd.choice((rnd.randrange(k, 65), rnd.randrange(65, 200), 64, 128, rnd.randrange(k, 400)))
                nc = max(nc, k)
                nr = rnd.randrange(k, k + 70)
                r = rnd.randrange(0, nr - k + 1)
                c = rnd.randrange(0, nc - k + 1)
                rows = [rnd.getrandbits(nc) for _ in range(nr)]
                cmds.append("mktable %d %d %d %d %d %d %s" % (len(cmds), nr, nc, r, c, k, " ".join("%x" % x for x in rows)))
                meta.append((nr, nc, r, c, k, rows))
        out = h.run(cmds)
        ans = {}
        for ln in out:
            t = ln.split()
            if t and t[0] == "mktable":
                ans[int(t[1])] = t[2:]
        for idx, (nr, nc, r, c, k, rows) in enumerate(meta):
            self.n("make_table")
            self.res.count(("make_table", k, nc // 64, c // 64, idx % 4))
            t = ans.get(idx)
            why = None
            if t is None or "|" not in t:
                why = "no answer"
            else:
                bar = t.index("|")
                T = [0] + [int(x, 16) for x in t[:bar]]
                L = [int(x) for x in t[bar + 1:]]
                keep = ((1 << nc) - 1) & ~((1 << c) - 1)        # columns c .. nc-1
                for x in range(1 << k):
                    want = 0
                    for b in range(k):
                        if (x >> b) & 1:
                            want ^= rows[r + b]
                    if not 0 <= L[x] < (1 << k):
                        why = "L[%d] = %d out of range" % (x, L[x]); break
                    if (T[L[x]] & keep) != (want & keep):
                        why = "x = %d: T[L[x]] = %x on columns >= %d, sum of the selected rows = %x" % (x, T[L[x]] & keep, c, want & keep); break
                    if T[L[x]] >> nc:
                        why = "x = %d: bits beyond ncols set" % x; break
            if why:
                self.mismatch("make_table", cmds[idx], " ".join(ans.get(idx, ["<none>"]))[:2000], why)


def obligation_text(pr, refused):
    s = []
    if refused:
        s.append("translator T1 refused: " + "; ".join("%s (%s)" % kv for kv in refused.items()))
    s += pr.get("failed", [])
    return "\n".join(s)


def run(res, tier, seed):
    res.cov["rule"] = (
        "EXHAUSTIVE: m4ri_codebook[k]->ord/inc for k=1..16 after m4ri_build_all_codes (2*(2^17-2) entries) and all "
        "65+64+65*64 LEFT/RIGHT/MIDDLE masks; basis-complete: parity64 on 4096 single-bit inputs, swap_bits on 64, "
        "lesser_LSB on 65x65 (zero|single bit) pairs, log2_floor on all 2^k-1,2^k,2^k+1, gray_code on every number < 2^l "
        "for l<=12; seeded random: parity64, swap_bits, lesser_LSB, log2_floor, gray_code l=13..31, spread/shrink for "
        "every length 1..16 with random strictly increasing Q (both inverse directions), mzd_make_table lookup property "
        "k=1..8(10). Each value is compared with the python mirror of the PROVEN specification; the deterministic part "
        "also with coqc's vm_compute of the CMini interpreter on the translated function (Gen_leaf.v) and, for the "
        "code book, with coqc's evaluation of Gray.build_code(_fast). distinct = (kernel, input index class).")
    # 1. translator
    changed, refused = translate.regenerate()
    res.cov["translator"] = dict(gen_leaf_rewritten=bool(changed), refused=refused)
    # 2. proofs (make rebuilds Gen_leaf.vo and everything that depends on it when it changed)
    corr = Corr(res, tier, seed)
    # One VIOLATION line per failing input (printed by Corr.mismatch); if the obligation itself is broken an
    # additional line below names the obligation and points at the failing input(s) found, if any.
    pr = vlib.prove("Properties_C19")
    res.add_proof(pr)
    res.cov["checker_cmd"] = "cd /verif/coq && make -k Properties/Properties_C19.vo"
    res.cov["trusted_base"] = ["Coq 8.16.1 kernel + vm_compute", "clang 14 AST dump + tools/translate.py (T1)",
                               "CMini semantics (Leaf/CMini.v) as a model of C11 on LP64 -- cross-checked against gcc on every run",
                               "gcc builds of /repo working tree, c/leaf_harness.c, tools/props/c19.py (spec mirrors)"]
    for a in res.cov.get("print_assumptions", []):
        if a != "Closed under the global context":
            res.cov["trusted_base"].append("Print Assumptions: " + a)
    broken = (not pr["ok"]) or bool(refused)
    bad = corr.run()
    res.cov["exhaustive"] = True
    res.cov["exhaustive_domains"] = ["codebook k=1..16 (all entries of ord and inc)", "LEFT_BITMASK n=0..64", "RIGHT_BITMASK n=1..64",
                                     "MIDDLE_BITMASK n=0..64 x offset=0..63", "parity64 single-bit basis (4096)", "swap_bits single-bit basis (64)",
                                     "lesser_LSB (zero|single bit)^2 (4225)", "gray_code l<=12 all numbers", "TWOPOW 0..30"]
    if broken:
        res.cov["broken_obligation"] = obligation_text(pr, refused)[:3000]
        txt = "obligation no longer checks: Properties/Properties_C19.v (after regenerating Leaf/Gen_leaf.v from the tree)\n%s\n" % obligation_text(pr, refused)
        if bad:
            txt += "failing input(s) found by the exhaustive / basis comparison:\n" + "\n".join(bad) + "\n"
            txt += "\n--- first failing input\n" + open(bad[0]).read()
            path = vlib.write_replay(PROP, "obligation", txt)
            res.violation(path)
        else:
            path = vlib.write_replay(PROP, "obligation", txt)
            res.violation(path, no_input=True)


def replay(res, path):
    """Re-run the input stored in a replay file on the current tree."""
    txt = open(path).read()
    res.cov["rule"] = "replay of " + os.path.basename(path)
    if "--- input" not in txt:
        # a broken-obligation replay without input: re-check the proofs
        engine.proof_part(res, ["Properties_C19"])
        return
    cmd = txt.split("--- input (c/leaf_harness.c command)\n", 1)[1].split("\n--- implementation", 1)[0].strip()
    cmd = cmd.split("\n")[0]
    corr = Corr(res, "quick", res.seed)
    h = Harness()
    res.cov["samples"].append(cmd[:600])
    base = cmd.split("#")[0].strip()
    if base == "codebook":
        coqcb, _ = coq_codebooks(10)
        corr.codebook(h, coqcb)
    elif base == "masks":
        coq, _ = coq_leaves("quick")
        corr.masks(h, coq)
    elif base.startswith("mktable"):
        t = base.split()
        nr, nc, r, c, k = (int(x) for x in t[2:7])
        rows = [int(x, 16) for x in t[7:7 + nr]]
        out = h.run([base])
        # reuse the checker through a one-element run
        corr2 = corr

        class One:
            def run(self, lines, timeout=600):
                return out
        # inline check
        tt = out[0].split()[2:]
        bar = tt.index("|")
        T = [0] + [int(x, 16) for x in tt[:bar]]
        L = [int(x) for x in tt[bar + 1:]]
        keep = ((1 << nc) - 1) & ~((1 << c) - 1)
        for x in range(1 << k):
            want = 0
            for b in range(k):
                if (x >> b) & 1:
                    want ^= rows[r + b]
            res.count(("replay", x))
            if not 0 <= L[x] < (1 << k) or (T[L[x]] & keep) != (want & keep):
                corr2.mismatch("make_table", base, out[0][:2000], "x = %d: sum of the selected rows = %x" % (x, want & keep))
                break
    else:
        corr.scalar(h, [base], base.split()[0] + "-replay")
    res.cov["comparisons"] = corr.stats
