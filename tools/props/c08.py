"""C08 — addition and data movement are exact."""
import engine, vlib, corr

OPS = ["add", "transpose", "copy", "copy_row", "set_ui", "submatrix", "concat", "stack", "extract_u", "extract_l"]
PROOFS = ["Properties_C08"]


def run(res, tier, seed):
    res.cov["rule"] = ("seeded op scripts per operation (shape classes around multiples of 64, content classes zero/identity/"
                       "single/dense/sparse/ones/low-rank, supplied or allocated destination, aliasing forms); a case is "
                       "non-trivial unless all operands are zero or 1x1; distinct by (op, shape class mod 64, content kinds, aliasing)")
    engine.proof_part(res, PROOFS)
    n = 60 if tier == "quick" else 600
    engine.run_ops(res, "C08", OPS, seed, n, 130 if tier == "quick" else 300)


def replay(res, path):
    engine.replay_file(res, "C08", path)
