"""C08 — addition and data movement are exact."""
import engine, vlib, corr

OPS = ["add", "transpose", "copy", "copy_row", "set_ui", "submatrix", "concat", "stack", "extract_u", "extract_l"]
PROOFS = ["Properties_C08", "Properties_C08t"]


def run(res, tier, seed):
    res.cov["rule"] = ("seeded op scripts per operation (shape classes around multiples of 64, content classes zero/identity/"
                       "single/dense/sparse/ones/low-rank, supplied or allocated destination, aliasing forms); a case is "
                       "non-trivial unless all operands are zero or 1x1; distinct by (op, shape class mod 64, content kinds, aliasing)")
    engine.proof_part(res, PROOFS)
    n = 60 if tier == "quick" else 600
    engine.corpus(res, "C08")
    engine.run_ops(res, "C08", OPS, seed, n, 130 if tier == "quick" else 300)
    # sources / destinations with different geometry: each operand independently owned or a window (different row strides,
    # word offsets, partial last words) - every source entry must still land at exactly its position
    import random
    rr = random.Random(seed + 2)

    def mixed(role):
        x = rr.random()
        return None if x < 0.4 else {"fill": rr.choice(["rand", "ones"])}
    engine.run_ops(res, "C08", OPS, seed + 2, n // 2, 130, W=mixed, tag="/mixed")
    # transposition of a VIEW for every residue of its width and of its height mod 64 (the wrapper copies a source view
    # with a partial last word only in some regimes; the kernels read whole source words): parent filled with other data
    import ops as _ops, gen as _gen
    gt = _gen.G(seed + 4)
    tcases = []
    try:
        for r in range(64):
            for shape in ((gt.rng.choice([3, 40, 64, 70, 130]), 64 * gt.rng.choice([0, 1, 2]) + r), (64 * gt.rng.choice([0, 1]) + r, gt.rng.choice([5, 64, 96, 100]))):
                if min(shape) < 1:
                    continue
                _ops.TR_FORCE = shape
                tcases.append(_ops.build("transpose", gt, lambda role: {"fill": "rand"} if role == "A" else None, 130))
    finally:
        _ops.TR_FORCE = None
    trunner = corr.Runner()
    cout, mout = trunner.run(tcases)
    for c in tcases:
        res.count(("transpose-view", c.meta["shape"][0] % 64, c.meta["shape"][1] % 64))
    engine.handle_mismatches(res, "C08", corr.compare(tcases, cout, mout), trunner, tag="/view-residues")
    # extraction of triangles beyond one word (rows 64, 128, ... have whole words left of the diagonal)
    engine.run_ops(res, "C08", ["extract_u", "extract_l", "transpose"], seed + 3, n // 4, 300, tag="/wide")


def replay(res, path):
    engine.replay_file(res, "C08", path)
