"""C14 -- allocation histories: fresh matrices are zero, disjoint and safely recyclable.

Proof part: coq/Properties/Properties_C14.v (theorems of Sys/AllocInv.v about the executable model
Sys/Alloc.v, for all histories and all parameter values).

Tie to the code (every run): the model is extracted to OCaml (ExtrOcamlBasic only), instantiated with
the constants of the freshly built library, and its predicted trace of system allocation calls,
returned data blocks / header slots, fresh-zero flags and heap balance after m4ri_fini() is compared
literally with the trace recorded by c/alloc_harness.c (-Wl,--wrap on the allocation functions)
  (i)  with the capacity hook (hooks/c14_capacities.diff present in the working tree): ALL
       well-formed op sequences up to a length bound, from several start states (preambles);
  (ii) at the real capacities: scripted histories (64 / 1024+ live headers, 17+ cached blocks,
       eviction by a zero-area free, threshold asymmetry) and seeded random histories.
Tier A = the property predicates evaluated on the C observations alone ('!' lines of the harness,
retention after fini); Tier B = literal equality of the two traces."""
import hashlib, json, os, random, re, shutil, subprocess, sys, time
from concurrent.futures import ThreadPoolExecutor

import vlib

PROP = "C14"
WRAP = ["posix_memalign", "malloc", "calloc", "realloc", "free"]
CORR = "correspondence Sys/Alloc.v (extracted) <-> m4ri/mmc.c, m4ri/mzd.c allocation trace"


# --------------------------------------------------------------------------------------------
# working tree facts
# --------------------------------------------------------------------------------------------
def hook_present():
    try:
        a = open(os.path.join(vlib.REPO, "m4ri", "mmc.h")).read()
        b = open(os.path.join(vlib.REPO, "m4ri", "mzd.c")).read()
    except OSError:
        return False
    return ("MALB_M4RI_VERIF_MMC_NBLOCKS" in a) and ("MALB_M4RI_VERIF_MZD_T_CACHE_MAX" in b)


def source_cache_max():
    s = open(os.path.join(vlib.REPO, "m4ri", "mzd.c")).read()
    m = re.findall(r"^\s*#\s*define\s+__M4RI_MZD_T_CACHE_MAX\s+(\d+)\s*$", s, re.M)
    if not m:
        raise vlib.BuildError("cannot find the numeric definition of __M4RI_MZD_T_CACHE_MAX in m4ri/mzd.c")
    return int(m[-1])


# --------------------------------------------------------------------------------------------
# builds
# --------------------------------------------------------------------------------------------
_cfg_cache = {}


def make_config(name, nb=None, cm=None, l3=65536, openmp=0, threadsafe=0):
    key = (name, nb, cm, l3, openmp, threadsafe)
    if key in _cfg_cache:
        return _cfg_cache[key]
    defs = []
    if nb is not None:
        defs.append("MALB_M4RI_VERIF_MMC_NBLOCKS=%d" % nb)
    if cm is not None:
        defs.append("MALB_M4RI_VERIF_MZD_T_CACHE_MAX=%d" % cm)
    v = vlib.variant(name="c14-" + name, l3=l3, openmp=openmp, threadsafe=threadsafe, defs=defs)
    h = vlib.build_harness(v, "alloc_harness.c", wrap=WRAP, extra=["-no-pie"])
    p = vlib.run([h, "--consts"], timeout=60)
    consts = dict(l.split() for l in p.stdout.strip().split("\n") if l.strip())
    if p.returncode != 0 or "NBLOCKS" not in consts:
        raise vlib.BuildError("alloc_harness --consts failed in %s: %s %s" % (name, p.stdout, p.stderr))
    if nb is not None and int(consts["NBLOCKS"]) != nb:
        raise vlib.BuildError("capacity hook present but __M4RI_MMC_NBLOCKS is %s, not %d" % (consts["NBLOCKS"], nb))
    if int(consts["SIZEOF_MZD_T"]) != 64:
        raise vlib.BuildError("sizeof(mzd_t) = %s, the model assumes 64" % consts["SIZEOF_MZD_T"])
    nmout = vlib.run(["nm", h]).stdout
    m = re.search(r"^([0-9a-f]+)\s+[bBdD]\s+mzd_cache$", nmout, re.M)
    cfg = dict(name=name, harness=h, NBLOCKS=int(consts["NBLOCKS"]), THRESHOLD=int(consts["THRESHOLD"]),
               CACHE_MAX=cm if cm is not None else source_cache_max(), mmc=int(consts["ENABLE_MMC"]),
               mzd=int(consts["ENABLE_MZD_CACHE"]), static_base=("0x" + m.group(1)) if m else None,
               variant=dict(nb=nb, cm=cm, l3=l3, openmp=openmp, threadsafe=threadsafe))
    _cfg_cache[key] = cfg
    return cfg


_driver = None


def build_model_driver():
    """Extract Sys/Alloc.v (ExtrOcamlBasic only) and build ocaml/alloc_driver.ml against it."""
    global _driver
    if _driver:
        return _driver
    vo = os.path.join(vlib.COQ, "Sys", "Alloc.vo")
    vsrc = os.path.join(vlib.COQ, "Sys", "Alloc.v")
    if not os.path.exists(vo) or os.path.getmtime(vo) < os.path.getmtime(vsrc):
        p = vlib.run(["coqc", "-Q", ".", "M4", "Sys/Alloc.v"], cwd=vlib.COQ, timeout=900)
        if p.returncode != 0:
            raise vlib.BuildError("Sys/Alloc.v does not compile:\n" + (p.stdout + p.stderr)[-3000:])
    d = os.path.join(vlib.scratch(), "c14model")
    os.makedirs(d, exist_ok=True)
    with open(os.path.join(d, "AllocExtract.v"), "w") as fh:
        fh.write("From M4 Require Import Sys.Alloc.\nRequire Import ExtrOcamlBasic.\n"
                 "Extraction \"alloc_model.ml\" init_state step run wf_ops all_freed.\n")
    p = vlib.run(["coqc", "-Q", vlib.COQ, "M4", "AllocExtract.v"], cwd=d, timeout=900)
    if p.returncode != 0:
        raise vlib.BuildError("extraction of Sys/Alloc.v failed:\n" + (p.stdout + p.stderr)[-3000:])
    shutil.copy(os.path.join(vlib.VERIF, "ocaml", "alloc_driver.ml"), d)
    p = vlib.run(["ocamlfind", "ocamlopt", "-O3", "-w", "-a", "alloc_model.mli", "alloc_model.ml", "alloc_driver.ml",
                  "-o", "alloc_driver"], cwd=d, timeout=600)
    if p.returncode != 0:
        raise vlib.BuildError("ocaml/alloc_driver.ml does not build:\n" + (p.stdout + p.stderr)[-3000:])
    _driver = os.path.join(d, "alloc_driver")
    return _driver


def prove_c14():
    """vlib.prove when the files are registered in _CoqProject; else compile the files of
    Sys/FILES_C14.txt directly (same obligations, same Print Assumptions parsing)."""
    if "Properties/Properties_C14.v" in vlib.coq_files():
        return vlib.prove("Properties_C14"), "make"
    t0 = time.time()
    files = [l.strip() for l in open(os.path.join(vlib.COQ, "Sys", "FILES_C14.txt")) if l.strip().endswith(".v")]
    gate = [g for g in vlib.grep_gate() if any(f in g for f in files)]
    log, built = "", True
    for f in files:
        vo = os.path.join(vlib.COQ, f[:-2] + ".vo")
        src = os.path.join(vlib.COQ, f)
        deps_new = any(os.path.exists(os.path.join(vlib.COQ, g[:-2] + ".vo")) and os.path.exists(vo) and
                       os.path.getmtime(os.path.join(vlib.COQ, g[:-2] + ".vo")) > os.path.getmtime(vo)
                       for g in files[:files.index(f)])
        if f.startswith("Properties/") or not os.path.exists(vo) or os.path.getmtime(vo) < os.path.getmtime(src) or deps_new:
            try:
                p = vlib.run(["coqc", "-Q", ".", "M4", f], cwd=vlib.COQ, timeout=1500)
            except subprocess.TimeoutExpired:
                built, log = False, log + "\nTIMEOUT " + f
                break
            log += p.stdout + p.stderr
            if p.returncode != 0:
                built = False
                break
    ths = vlib.theorems_of("Properties/Properties_C14.v")
    assum = vlib.print_assumptions_of(log)
    bad_ax = [a for a in assum if a.startswith("Axioms:") and not any(s in a for s in vlib.STD_AXIOMS)]
    failed = []
    if gate:
        failed.append("forbidden constructs: " + "; ".join(gate[:5]))
    if not built:
        failed.append("does not build: " + log[-1500:])
    if bad_ax:
        failed.append("non-standard axioms: " + "; ".join(bad_ax))
    n = max(1, len(ths))
    ok = built and not gate and not bad_ax
    return dict(obligations=n, discharged=n if ok else 0, ok=ok, log=log, assumptions=assum, theorems=ths,
                failed=failed, wall=time.time() - t0), "coqc (files not yet in _CoqProject)"


# --------------------------------------------------------------------------------------------
# histories
# --------------------------------------------------------------------------------------------
# an op is a tuple: ("I", r, c) ("W", h, r0, c0, r1, c1) ("F", h) ("X", h, v) ("Z",)
def op_line(o):
    return " ".join(str(x) for x in o)


class Track:
    """what the user knows about the handles (mirrors wf_ops of the model)"""

    def __init__(self):
        self.live, self.root, self.dims, self.win = [], [], [], []

    def copy(self):
        t = Track()
        t.live, t.root, t.dims, t.win = self.live[:], self.root[:], self.dims[:], self.win[:]
        return t

    def ok(self, o):
        k = o[0]
        if k in ("I", "Z"):
            return True
        h = o[1]
        if h >= len(self.live) or not self.live[h]:
            return False
        if k == "X":
            return self.live[self.root[h]]
        return True

    def apply(self, o):
        k = o[0]
        if k == "I":
            self.live.append(True); self.root.append(len(self.live) - 1); self.dims.append((o[1], o[2])); self.win.append(False)
        elif k == "W":
            h, r0, c0, r1, c1 = o[1:]
            pr, pc = self.dims[h]
            self.live.append(True); self.root.append(self.root[h])
            self.dims.append((min(r1 - r0, pr - r0), c1 - c0)); self.win.append(True)
        elif k == "F":
            self.live[o[1]] = False

    def usable(self, h):
        return self.live[h] and self.live[self.root[h]]

    def all_freed(self):
        return not any(self.live)


def epilogue(t, order="asc"):
    hs = [h for h in range(len(t.live)) if t.live[h]]
    if order == "desc":
        hs.reverse()
    return [("F", h) for h in hs] + [("Z",)]


def drop_op(ops, k):
    """history without op k; an Init/Window dropped takes along every op using its handle"""
    creators = [i for i, o in enumerate(ops) if o[0] in ("I", "W")]
    dead_ops, dead_handles = {k}, set()
    if ops[k][0] in ("I", "W"):
        dead_handles.add(creators.index(k))
    changed = True
    while changed:
        changed = False
        for i, o in enumerate(ops):
            if i in dead_ops or o[0] in ("I", "Z"):
                continue
            if o[1] in dead_handles:
                dead_ops.add(i)
                if o[0] == "W":
                    dead_handles.add(creators.index(i))
                changed = True
    ren, n = {}, 0
    for hidx, i in enumerate(creators):
        if i not in dead_ops:
            ren[hidx] = n
            n += 1
    out = []
    for i, o in enumerate(ops):
        if i in dead_ops:
            continue
        if o[0] in ("W", "F", "X"):
            o = (o[0], ren[o[1]]) + tuple(o[2:])
        out.append(o)
    return out


def is_wf(ops):
    t = Track()
    for o in ops:
        if not t.ok(o):
            return False
        t.apply(o)
    return True


def script(pre, hists):
    """harness input: preamble ops (run once, before forking), then named histories"""
    out = [op_line(o) for o in pre]
    for name, ops in hists:
        out.append("H " + name)
        out.extend(op_line(o) for o in ops)
        out.append("E")
    return "\n".join(out) + "\n"


# --- exhaustive enumeration ---------------------------------------------------------------
def window_args(dims):
    r, c = dims
    return (1 if r >= 2 else 0, 0, r, c)


def enumerate_histories(pre, sizes, depth, designated, with_fini=True):
    """all well-formed op sequences of length <= depth after the preamble.  Alphabet per step: Init
    of each size (followed by a Write when it has area), Window on each live explored handle
    (followed by a Write when usable and it has area), Free of each live explored or designated
    preamble handle, Fini.  Yields (ops-without-epilogue, Track)."""
    t0 = Track()
    for o in pre:
        t0.apply(o)
    n0 = len(t0.live)

    def rec(ops, t, d):
        yield ops, t
        if d == 0:
            return
        nh = len(t.live)
        for (r, c) in sizes:
            t2 = t.copy(); o = ("I", r, c); t2.apply(o)
            new = [o] + ([("X", nh, nh + 1)] if r and c else [])
            yield from rec(ops + new, t2, d - 1)
        for h in range(n0, nh):
            if t.live[h]:
                a = window_args(t.dims[h])
                o = ("W", h) + a
                t2 = t.copy(); t2.apply(o)
                wr, wc = t2.dims[-1]
                new = [o] + ([("X", nh, nh + 1)] if (t2.usable(nh) and wr and wc) else [])
                yield from rec(ops + new, t2, d - 1)
        for h in list(designated) + list(range(n0, nh)):
            if t.live[h]:
                o = ("F", h); t2 = t.copy(); t2.apply(o)
                yield from rec(ops + [o], t2, d - 1)
        if with_fini:
            yield from rec(ops + [("Z",)], t.copy(), d - 1)

    yield from rec([], t0, depth)


# --- scripted histories at the real capacities -----------------------------------------------
def scripted(cfg, rng):
    thr, nb, cm = cfg["THRESHOLD"], cfg["NBLOCKS"], cfg["CACHE_MAX"]
    out = []
    # rows x 64 columns: rowstride 2 => 16 bytes per row
    eq_rows = max(1, thr // 16)

    def finish(ops, order="rand"):
        t = Track()
        for o in ops:
            t.apply(o)
        hs = [h for h in range(len(t.live)) if t.live[h]]
        if order == "rand":
            rng.shuffle(hs)
        return ops + [("F", h) for h in hs] + [("Z",)]

    # (a) crossing the 64-header boundary, three free orders
    ops, base = [], 0
    for rnd, order in enumerate(("asc", "desc", "evenodd")):
        n = 70
        for k in range(n):
            ops.append(("I", k % 3, 1 + (k % 2)))
            if (k % 3) != 0:
                ops.append(("X", base + k, k + 1))
        hs = list(range(base, base + n))
        if order == "desc":
            hs.reverse()
        elif order == "evenodd":
            hs = hs[0::2] + hs[1::2]
        ops += [("F", h) for h in hs]
        base += n
    out.append(("hdr64", finish(ops)))
    # (b) more live headers than the header cache holds: CACHE_MAX blocks, then plain malloc
    nlive = 64 * cm + 76
    ops = [("I", 0, 0)] * nlive
    blk = list(range(128, 192)) if cm >= 3 else list(range(64, 128)) if cm >= 2 else []
    ops += [("F", h) for h in blk]                       # a middle block empties: unlink
    ops += [("I", 1, 1)] * 10                            # goes where the walk finds room
    ops += [("F", h) for h in range(64 * cm, 64 * cm + 30)]   # plain-malloc headers
    ops += [("F", h) for h in range(0, 64)]              # the static block empties
    ops += [("I", 0, 3)] * 100
    out.append(("hdr%d" % nlive, finish(ops)))
    ops = [("I", 0, 0)] * nlive
    out.append(("hdr%d-rev" % nlive, ops + [("F", h) for h in reversed(range(nlive))] + [("Z",)]))
    # (c) more cached blocks than slots: eviction, exact-size reuse, zero-area free with a full cache
    n = nb + 4
    ops = []
    for k in range(n):
        ops += [("I", k + 1, 64), ("X", k, k + 7)]
    ops += [("F", h) for h in range(n)]                  # nb fills, then 4 evictions
    for k in reversed(range(n)):
        ops += [("I", k + 1, 64)]                        # hits for the cached sizes, misses for the evicted
    ops += [("I", 0, 5), ("I", 3, 0)]
    ops += [("F", h) for h in range(n, 2 * n)]
    ops += [("F", 2 * n), ("F", 2 * n + 1)]              # zero-area frees against a full cache evict
    ops += [("I", 2, 64), ("I", 2, 64), ("I", 2, 64)]
    out.append(("evict", finish(ops)))
    # (d) threshold asymmetry: size == THRESHOLD is looked up but never cached; above: never cached
    ops = []
    for rows in (eq_rows - 1, eq_rows, eq_rows + 1, eq_rows - 1, eq_rows, eq_rows + 1):
        if rows >= 1:
            h = sum(1 for o in ops if o[0] in ("I", "W"))
            ops += [("I", rows, 64), ("X", h, 3), ("W", h, 0, 0, rows, 64)]
    t = Track()
    for o in ops:
        t.apply(o)
    roots = [h for h in range(len(t.live)) if not t.win[h]]
    ops += [("F", h) for h in roots[:3]]
    for rows in (eq_rows - 1, eq_rows, eq_rows + 1):
        if rows >= 1:
            ops += [("I", rows, 64)]
    out.append(("threshold", finish(ops)))
    return [(n_, o) for n_, o in out if is_wf(o)]



# --- header-block walks: macro histories at the granularity of the 64-slot header blocks ------------------
def blockwalk(rng, cfg, steps=14):
    """Random histories made of macro steps on whole header blocks (placement followed with HdrSim): empty the g-th
    linked block, punch a hole into it, allocate 1/2/63/64/65 more, free the newest / oldest 1/64/65 live headers.
    Longer and wider than blockwalk_enum (up to CACHE_MAX+3 blocks worth of headers, spill to plain malloc)."""
    cm = cfg["CACHE_MAX"]
    t, ops, sim = Track(), [], HdrSim(cm)

    def init(n, r=1, c=1):
        for _ in range(n):
            o = ("I", r, c)
            t.apply(o); ops.append(o); sim.malloc(len(t.live) - 1)
            if rng.random() < 0.15:
                ops.append(("X", len(t.live) - 1, rng.randint(1, 1 << 30)))

    def free(hs):
        for h in hs:
            if h < len(t.live) and t.live[h]:
                o = ("F", h); t.apply(o); ops.append(o); sim.free(h)

    ngroups = min(cm + 1, 3) if cm >= 2 else cm + 1
    init(64 * ngroups - rng.choice([0, 0, 1, 63]) + rng.choice([0, 1, 2]))
    for _ in range(steps):
        x = rng.random()
        if x < 0.30:
            hs = sorted(sim.handles_in(rng.randrange(len(sim.blocks))))
            if rng.random() < 0.5:
                rng.shuffle(hs)
            free(hs)
        elif x < 0.50:
            hs = sim.handles_in(rng.randrange(len(sim.blocks)))
            free([rng.choice(hs)] if hs else [])
        elif x < 0.80:
            init(rng.choice([1, 1, 2, 63, 64, 65]))
        elif x < 0.90:
            live = [h for h in range(len(t.live)) if t.live[h]]
            free(live[-rng.choice([1, 64, 65]):])
        else:
            live = [h for h in range(len(t.live)) if t.live[h]]
            free(live[:rng.choice([1, 64, 65])])
        if sum(t.live) > 64 * (cm + 3):
            break
    init(rng.choice([3, 70]), 2, 3)       # fresh matrices after the walk must be zero, disjoint, in sane slots
    hs = [h for h in range(len(t.live)) if t.live[h]]
    rng.shuffle(hs)
    return ops + [("F", h) for h in hs] + [("Z",)]


class HdrSim:
    """Generator-side mirror of the placement policy of mzd_t_malloc/mzd_t_free (mzd.c): only used to AIM the
    macro histories at whole header blocks (which live handles sit in which block); it decides nothing."""

    def __init__(self, cache_max):
        self.cm = cache_max
        self.blocks = [[0, 0]]          # [id, used mask]; block 0 = the static one
        self.cur = 0                    # index into self.blocks
        self.nextid = 1
        self.where = {}                 # handle -> block id or None (plain malloc)

    def malloc(self, h):
        FULL = (1 << 64) - 1
        if self.blocks[self.cur][1] == FULL:
            k = 0
            while k < len(self.blocks) and self.blocks[k][1] == FULL:
                self.cur = k
                k += 1
            if k == len(self.blocks) and k < self.cm:
                self.blocks.append([self.nextid, 0]); self.nextid += 1
                self.cur = len(self.blocks) - 1
            elif k == len(self.blocks):
                self.where[h] = None
                return
            else:
                self.cur = k
        b = self.blocks[self.cur]
        e = (~b[1] & ((1 << 64) - 1)).bit_length() - 1
        b[1] |= 1 << e
        self.where[h] = (b[0], e)

    def free(self, h):
        w = self.where.pop(h)
        if w is None:
            return
        bid, e = w
        k = [x[0] for x in self.blocks].index(bid)
        self.blocks[k][1] &= ~(1 << e)
        if self.blocks[k][1] == 0:
            if k == 0:
                self.cur = 0
            else:
                if self.cur == k:
                    self.cur = k - 1
                elif self.cur > k:
                    self.cur -= 1
                del self.blocks[k]

    def handles_in(self, pos):
        """live handles whose header sits in the pos-th linked block"""
        if pos >= len(self.blocks):
            return []
        bid = self.blocks[pos][0]
        return [h for h, w in self.where.items() if w is not None and w[0] == bid]


def blockwalk_enum(cfg, depth, start_extra=0):
    """ALL macro histories of exactly `depth` steps over the alphabet {E0,E1,E2 (free every header of the g-th
    linked header block), H0,H1,H2 (free one header of that block), A1, A64} from 3 full blocks
    (+start_extra headers): at most 8^depth histories.  The bounded-exhaustive counterpart of blockwalk() for the
    prev/next/current bookkeeping of the header-block list (e.g. the current block emptied while it has a successor)."""
    import itertools
    alphabet = [("E", 0), ("E", 1), ("E", 2), ("H", 0), ("H", 1), ("H", 2), ("A", 1), ("A", 64)]
    out = []
    for seq in itertools.product(alphabet, repeat=depth):
        t, ops, sim = Track(), [], HdrSim(cfg["CACHE_MAX"])
        def init(n):
            for _ in range(n):
                o = ("I", 1, 1); t.apply(o); ops.append(o); sim.malloc(len(t.live) - 1)
        def free(hs):
            for h in hs:
                if h < len(t.live) and t.live[h]:
                    o = ("F", h); t.apply(o); ops.append(o); sim.free(h)
        init(192 + start_extra)
        useful = True
        for k, (m, a) in enumerate(seq):
            n0 = len(ops)
            if m == "E":
                free(sorted(sim.handles_in(a)))
            elif m == "H":
                hs = sorted(sim.handles_in(a))
                free(hs[(7 + k) % len(hs):][:1] if hs else [])
            else:
                init(a)
            if len(ops) == n0:
                useful = False
                break
        if not useful:
            continue
        init(3)
        hs = [h for h in range(len(t.live)) if t.live[h]]
        ops += [("F", h) for h in hs] + [("Z",)]
        out.append(("bw-" + "".join("%s%d" % x for x in seq), ops))
    return out

# --- random histories ------------------------------------------------------------------------
def random_history(rng, n, cfg, big_targets):
    thr = cfg["THRESHOLD"]
    eq_rows = max(1, thr // 16)
    pool = [(3, 3), (1, 64), (2, 130), (7, 65), (3, 3), (5, 200)]
    t, ops = Track(), []
    target, until = 5, 0
    maxbig = 3
    while len(ops) < n:
        if len(ops) >= until:
            target = rng.choice(big_targets)
            until = len(ops) + rng.randint(30, max(40, 2 * target + 40))
        live = [h for h in range(len(t.live)) if t.live[h]]
        nlive = len(live)
        x = rng.random()
        p_init = 0.75 if nlive < target else 0.2
        if x < 0.02:
            o = ("Z",)
        elif x < 0.02 + 0.12 and live:
            us = [h for h in live if t.usable(h)]
            if not us:
                continue
            h = rng.choice(us[-20:] if rng.random() < 0.7 else us)
            o = ("X", h, rng.randint(1, 1 << 30))
        elif x < 0.14 + 0.10 and live:
            h = rng.choice(live[-10:] if rng.random() < 0.7 else live)
            r, c = t.dims[h]
            r0 = rng.randint(0, r); r1 = rng.randint(r0, r)
            c0 = 64 * rng.randint(0, c // 64); c1 = rng.randint(c0, c)
            if t.dims[h] == (0, 0) or (r == 0 or c == 0):
                r0 = r1 = 0 if r == 0 else r0
                c0 = 0 if c == 0 else c0
                c1 = c0 if c == 0 else c1
                r1 = r0 if r == 0 else r1
            o = ("W", h, r0, c0, r1, c1)
        elif rng.random() < p_init or not live:
            y = rng.random()
            if y < 0.45:
                r, c = rng.choice(pool)
            elif y < 0.60:
                r, c = rng.choice([(0, 0), (0, 7), (4, 0)])
            elif y < 0.85:
                r, c = rng.randint(1, 9), rng.randint(1, 300)
            elif y < 0.92:
                r, c = rng.choice([eq_rows, eq_rows - 1 if eq_rows > 1 else 1]), 64
            else:
                nbig = sum(1 for h in live if not t.win[h] and t.dims[h][0] * 16 > thr)
                if nbig >= maxbig:
                    continue
                r, c = eq_rows + rng.randint(1, 3), 64
            o = ("I", r, c)
        else:
            m = rng.random()
            h = live[-1] if m < 0.3 else live[0] if m < 0.45 else rng.choice(live)
            o = ("F", h)
        if not t.ok(o):
            continue
        t.apply(o)
        ops.append(o)
        if o[0] == "I" and o[1] and o[2] and rng.random() < 0.8:
            ops.append(("X", len(t.live) - 1, rng.randint(1, 1 << 30)))
    hs = [h for h in range(len(t.live)) if t.live[h]]
    rng.shuffle(hs)
    return ops + [("F", h) for h in hs] + [("Z",)]


# --------------------------------------------------------------------------------------------
# running and comparing
# --------------------------------------------------------------------------------------------
def run_c(cfg, text, timeout=1800):
    args = [cfg["harness"]] + (["--static-base=" + cfg["static_base"]] if cfg["static_base"] else [])
    try:
        p = vlib.run(args, input=text, timeout=timeout)
    except subprocess.TimeoutExpired:
        return "!CRASH timeout\n"
    return p.stdout + ("" if p.returncode == 0 else "!CRASH harness-exit=%d\n" % p.returncode)


def run_model(cfg, text, timeout=1800):
    args = [build_model_driver(), str(cfg["NBLOCKS"]), str(cfg["THRESHOLD"]), str(cfg["CACHE_MAX"]), str(cfg["mmc"]),
            str(cfg["mzd"]), "1" if cfg["static_base"] else "0"]
    p = vlib.run(args, input=text, timeout=timeout)
    if p.returncode != 0:
        raise vlib.BuildError("model driver failed: " + p.stderr[-2000:])
    return p.stdout


def split_blocks(out):
    """-> (preamble text, [(name, block text)])"""
    parts = re.split(r"^H (\S*)\n", out, flags=re.M)
    pre = parts[0]
    return pre, [(parts[i], parts[i + 1]) for i in range(1, len(parts) - 1, 2)]


def property_failures(ops, c_block):
    """Tier A: the property's own predicates on the C-side observations of one history."""
    bad = [l for l in c_block.split("\n") if l.startswith("!")]
    # retention: a Fini issued when every handle has been freed must leave nothing allocated
    t, zs = Track(), []
    for o in ops:
        if o[0] == "Z":
            zs.append(t.all_freed())
        if t.ok(o):
            t.apply(o)
    zl = [l for l in c_block.split("\n") if l.startswith("Z ")]
    for freed, l in zip(zs, zl):
        m = re.match(r"Z live=(\d+) base=(\d+)", l)
        if freed and m and (int(m.group(1)) != 0 or int(m.group(2)) != 0):
            bad.append("!RETAINED " + l)
    if "E" not in c_block.split("\n") and not any(b.startswith("!CRASH") for b in bad):
        bad.append("!CRASH no end marker")
    return bad


def kinds(bad):
    return sorted(set(b.split()[0] for b in bad))


def replay_text(cfg, ops, note):
    head = dict(property=PROP, config=cfg["variant"], name=cfg["name"], note=note,
                constants={k: cfg[k] for k in ("NBLOCKS", "THRESHOLD", "CACHE_MAX", "mmc", "mzd")})
    return "# " + json.dumps(head, sort_keys=True) + "\n" + script([], [("replay", ops)])


def shrink(cfg, ops, want, budget_s=90):
    """drop ops while a property failure of the same kind remains (delta debugging, chunks first)"""
    t_end = time.time() + budget_s

    def fails(cand):
        if not cand or not is_wf(cand):
            return False
        out = run_c(cfg, script([], [("s", cand)]), timeout=120)
        _, bl = split_blocks(out)
        return bool(bl) and bool(set(kinds(property_failures(cand, bl[0][1]))) & set(want))

    cur = list(ops)
    chunk = max(1, len(cur) // 2)
    while chunk >= 1 and time.time() < t_end:
        i, progress = 0, False
        while i < len(cur) and time.time() < t_end:
            cand = cur
            for k in reversed(range(i, min(len(cur), i + chunk))):
                if k < len(cand):
                    cand = drop_op(cand, k)
            if len(cand) < len(cur) and fails(cand):
                cur, progress = cand, True
            else:
                i += chunk
        if chunk == 1 and not progress:
            break
        chunk = chunk // 2 if chunk > 1 else (1 if progress else 0)
    return cur


class Engine:
    def __init__(self, res):
        self.res = res
        self.known = vlib.known_findings(PROP)
        self.reported = set()
        self.opdist = {}
        self.mismatch = 0
        self.propfail = 0

    def count_ops(self, ops):
        for o in ops:
            self.opdist[o[0]] = self.opdist.get(o[0], 0) + 1

    def report(self, cfg, pre, name, ops, c_block, m_block):
        full = list(pre) + list(ops)
        bad = property_failures(full, c_block)
        if bad:
            self.propfail += 1
            ks = kinds(bad)
            sig = (cfg["name"], tuple(ks))
            for e in self.known:
                if e.get("kind") in ks and e.get("config", cfg["name"]) == cfg["name"]:
                    self.res.known_finding("%s in configuration %s (%s)" % (e.get("kind"), cfg["name"], e.get("what", "")))
                    return
            if sig in self.reported:
                return
            self.reported.add(sig)
            small = shrink(cfg, full, ks)
            out = run_c(cfg, script([], [("replay", small)]), timeout=120)
            path = vlib.write_replay(PROP, "-".join(k.strip("!").lower() for k in ks),
                                     replay_text(cfg, small, "property predicates fail on the library: " + "; ".join(bad[:4]))
                                     + "# observed:\n" + "".join("# " + l + "\n" for l in out.split("\n")[:60]))
            self.res.violation(path)
        else:
            self.mismatch += 1
            sig = (cfg["name"], "trace")
            if sig in self.reported:
                return
            self.reported.add(sig)
            cl, ml = c_block.split("\n"), m_block.split("\n")
            k = next((i for i in range(min(len(cl), len(ml))) if cl[i] != ml[i]), min(len(cl), len(ml)))
            note = ("obligation: %s; history %s; first difference at output line %d: library '%s' / model '%s'; "
                    "the property predicates (fresh zero, disjointness, canaries, bad frees, retention) hold on the "
                    "library for every history explored" % (CORR, name, k, cl[k] if k < len(cl) else "<end>",
                                                            ml[k] if k < len(ml) else "<end>"))
            path = vlib.write_replay(PROP, "trace", replay_text(cfg, full, note))
            self.res.violation(path, no_input=True)

    def compare(self, cfg, pre, hists, tag, count_from=0):
        """hists: list of (name, ops). Runs both sides on one script, compares. Returns #histories."""
        text = script(pre, hists)
        with ThreadPoolExecutor(2) as ex:
            fc = ex.submit(run_c, cfg, text)
            fm = ex.submit(run_model, cfg, text)
            c_out, m_out = fc.result(), fm.result()
        if c_out == m_out and "!" not in c_out:
            return
        cpre, cb = split_blocks(c_out)
        mpre, mb = split_blocks(m_out)
        cbd, mbd = dict(cb), dict(mb)
        if cpre != mpre or any(l.startswith("!") for l in cpre.split("\n")):
            self.report(cfg, [], tag + ":preamble", pre, cpre + "E\n", mpre + "E\n")
        for name, ops in hists:
            c, m = cbd.get(name, "!CRASH missing\n"), mbd.get(name, "")
            if c != m or "!" in c:
                self.report(cfg, pre, name, ops, c, m)


def run_exhaustive(eng, cfg, pre, sizes, depth, designated, tag, batch=4000, full_epilogue_every=1):
    res = eng.res
    hists, n, futures = [], 0, []
    ex = ThreadPoolExecutor(max(1, vlib.NPROC // 2))
    for ops, t in enumerate_histories(pre, sizes, depth, designated):
        n += 1
        if full_epilogue_every and n % full_epilogue_every == 0:
            ep = epilogue(t, "desc" if n % 2 else "asc")
        else:
            n0 = sum(1 for o in pre if o[0] in ("I", "W"))
            ep = [("F", h) for h in range(n0, len(t.live)) if t.live[h]] + [("Z",)]
        full = ops + ep
        hists.append(("%s.%d" % (tag, n), full))
        res.count("%s/%s.%d" % (cfg["name"], tag, n), nontrivial=len(ops) >= 1)
        eng.count_ops(full)
        if len(hists) >= batch:
            futures.append(ex.submit(eng.compare, cfg, pre, hists, tag))
            hists = []
    if hists:
        futures.append(ex.submit(eng.compare, cfg, pre, hists, tag))
    for f in futures:
        f.result()
    ex.shutdown()
    return n


# --------------------------------------------------------------------------------------------
def run(res, tier, seed):
    t_start = time.time()
    pr, how = prove_c14()
    res.add_proof(pr)
    eng = Engine(res)
    hook = hook_present()
    thorough = tier == "thorough"
    rng = random.Random(seed)
    cov = res.cov
    cov["hook_present"] = hook
    cov["proof_build"] = how
    cov["configs"] = []
    cov["exhaustive_runs"] = []
    cov["scripted"] = []
    cov["random"] = []
    build_model_driver()

    THR = 1024          # bytes; __M4RI_CPU_L3_CACHE of the exhaustive builds
    S, Z, B, EQ, T2 = (3, 3), (0, 5), (65, 64), (64, 64), (1, 64)   # 48 B, no storage, 1040 B, 1024 B, 16 B
    pre63 = [("I", 0, 0)] * 63
    pre127 = [("I", 0, 0)] * 127

    if hook:
        d_main = 7 if thorough else 5
        d_pre = 6 if thorough else 4
        d_alt = 6 if thorough else 4
        plan = [
            # name, nb, cm, openmp, threadsafe, preamble, sizes, depth, designated
            ("hook-nb2-cm2", 2, 2, 0, 0, [], [Z, S, B], d_main, []),
            ("hook-nb2-cm2", 2, 2, 0, 0, [], [S, T2, EQ], d_alt, []),
            ("hook-nb2-cm2", 2, 2, 0, 0, pre63, [Z, S, B], d_pre, [0, 62]),
            ("hook-nb2-cm2", 2, 2, 0, 0, pre127, [Z, S, B], d_pre, [0, 64, 126]),
            ("hook-nb2-cm1", 2, 1, 0, 0, pre63, [Z, S, B], d_pre, [0, 62]),
            ("hook-nb3-cm3", 3, 3, 0, 0, [], [Z, S, T2], d_alt, []),
            ("hook-nb1-cm2", 1, 2, 0, 0, [], [Z, S, T2], d_alt, []),
            ("hook-openmp-nb2", 2, 2, 1, 0, [], [Z, S, B], d_alt, []),
            ("hook-threadsafe", 2, 2, 0, 1, [], [Z, S, B], d_alt, []),
        ]
        for (name, nb, cm, omp, ts, pre, sizes, depth, desig) in plan:
            cfg = make_config(name, nb=nb, cm=cm, l3=THR, openmp=omp, threadsafe=ts)
            if cfg["name"] not in [c["name"] for c in cov["configs"]]:
                cov["configs"].append({k: cfg[k] for k in ("name", "NBLOCKS", "THRESHOLD", "CACHE_MAX", "mmc", "mzd", "static_base")})
            t0 = time.time()
            tag = "x%d-%s" % (len(pre), "".join("%dx%d_" % s for s in sizes))
            n = run_exhaustive(eng, cfg, pre, sizes, depth, desig, tag, full_epilogue_every=1 if not pre else 8)
            cov["exhaustive_runs"].append(dict(config=name, preamble_headers=len(pre), sizes=sizes, max_len=depth,
                                          designated_preamble_frees=desig, histories=n, exhaustive=True,
                                          wall_s=round(time.time() - t0, 1)))
    else:
        cov["reduced_coverage"] = ("capacity hook (hooks/c14_capacities.diff) absent from the working tree: part (i), "
                                   "the bounded-exhaustive histories at capacities 1..3, is skipped; eviction / spill / "
                                   "unlink are reached only by the scripted and random histories at the real capacities")

    # (ii) real capacities
    real = [("real", 0, 0, 65536), ("real-openmp", 1, 0, 65536), ("real-threadsafe", 0, 1, 65536)]
    for name, omp, ts, l3 in real:
        cfg = make_config(name, l3=l3, openmp=omp, threadsafe=ts)
        cov["configs"].append({k: cfg[k] for k in ("name", "NBLOCKS", "THRESHOLD", "CACHE_MAX", "mmc", "mzd", "static_base")})
        hs = scripted(cfg, rng)
        nrand = (4 if name == "real" else 2) if thorough else (2 if name == "real" else 1)
        length = 10000 if thorough else 1000
        targets = [0, 3, 20, 70, 140] + ([64 * cfg["CACHE_MAX"] + 80] if thorough else [])
        rh = [("rand%d-%d" % (seed, i), random_history(rng, length, cfg, targets)) for i in range(nrand)]
        if cfg["mzd"]:
            nwalk = (120 if thorough else 30) if name == "real" else (20 if thorough else 6)
            rh += [("blockwalk%d-%d" % (seed, i), blockwalk(rng, cfg)) for i in range(nwalk)]
            if name == "real":
                rh += blockwalk_enum(cfg, 4) + (blockwalk_enum(cfg, 5) if thorough else [])
        for nm_, ops in hs + rh:
            res.count("%s/%s/%s" % (name, nm_, hashlib.sha1(script([], [("k", ops)]).encode()).hexdigest()[:10]))
            eng.count_ops(ops)
        with ThreadPoolExecutor(vlib.NPROC // 2) as ex:
            list(ex.map(lambda h: eng.compare(cfg, [], [h], h[0]), hs + rh))
        cov["scripted"].append(dict(config=name, histories=[(n_, len(o)) for n_, o in hs]))
        cov["random"].append(dict(config=name, histories=[(n_, len(o)) for n_, o in rh], seed=seed))
    if thorough:
        # the configured L3 size of this host as threshold (large blocks: a short scripted history only)
        cfg = make_config("real-hostL3", l3="host")
        cov["configs"].append({k: cfg[k] for k in ("name", "NBLOCKS", "THRESHOLD", "CACHE_MAX", "mmc", "mzd", "static_base")})
        hs = [h for h in scripted(cfg, rng) if h[0] in ("threshold", "evict")]
        for nm_, ops in hs:
            res.count("%s/%s" % (cfg["name"], nm_))
            eng.count_ops(ops)
            eng.compare(cfg, [], [(nm_, ops)], nm_)
        cov["scripted"].append(dict(config=cfg["name"], histories=[(n_, len(o)) for n_, o in hs]))

    if not pr["ok"]:
        txt = ("obligation: theorems of Properties/Properties_C14.v no longer check\n" + "\n".join(pr["failed"]) +
               "\nsearch: the correspondence histories of this run were evaluated with the property predicates "
               "(%d histories, %d property failures)\n" % (cov["evaluations"], eng.propfail))
        if not eng.propfail:
            res.violation(vlib.write_replay(PROP, "proof", txt), no_input=True)

    cov["op_kind_distribution"] = eng.opdist
    cov["trace_mismatches"] = eng.mismatch
    cov["property_failures"] = eng.propfail
    cov["rule"] = ("a history is a well-formed sequence of Init/Window/Free/Write/Fini ops; distinct = distinct op "
                   "sequence per configuration; non-trivial = at least one op before the epilogue; every history is "
                   "run on the library (trace of wrapped posix_memalign/free, data/header identities, zero check of "
                   "every word, canaries and header copies of all live matrices after every op, balance after "
                   "m4ri_fini) and on the extracted model, outputs compared literally")
    cov["samples"] = ["I 3 3 / X 0 1 / I 3 3 / X 1 2 / F 0 / F 1 / I 3 3 / X 2 3 / F 2 / Z",
                      "63 x (I 0 0) / I 3 3 / I 0 5 / F 62 / F 64 / Z"]
    cov["checker_cmd"] = "python3 /verif/tools/check.py C14 --tier %s" % tier
    cov["trusted_base"] = [
        "Coq 8.16.1 kernel; Print Assumptions: " + "; ".join(sorted(set(pr["assumptions"])) or ["(none printed)"]),
        "extraction with ExtrOcamlBasic only; OCaml 4.13.1; ocaml/alloc_driver.ml (printing, int<->N conversion)",
        "c/alloc_harness.c (wrap of posix_memalign/malloc/calloc/realloc/free, shadow copies, poisoning), gcc, GNU ld --wrap, nm (address of the static header block)",
        "libc contract: a block returned by posix_memalign is disjoint from all live blocks (model: fresh identity)",
        "model abstractions: one-value summary of block content; header-in-block test by identity; log2_floor(~used) = N.log2; no int overflow in r*rowstride",
        "tools/props/c14.py: generators, literal comparison, property predicates",
    ]
    cov["wall_s_engine"] = round(time.time() - t_start, 1)


def replay(res, path):
    txt = open(path).read()
    first = txt.split("\n", 1)[0]
    if not first.startswith("# {"):
        # a broken obligation: rebuild the theorems
        pr, _ = prove_c14()
        res.add_proof(pr)
        if not pr["ok"]:
            res.violation(path, no_input=True)
        return
    head = json.loads(first[2:])
    v = head["config"]
    if (v.get("nb") is not None or v.get("cm") is not None) and not hook_present():
        print("replay needs the capacity hook, which is absent from the working tree")
        res.violation(path, no_input=True)
        return
    cfg = make_config(head["name"], nb=v.get("nb"), cm=v.get("cm"), l3=v.get("l3", 65536), openmp=v.get("openmp", 0),
                      threadsafe=v.get("threadsafe", 0))
    body = "\n".join(l for l in txt.split("\n") if not l.startswith("#"))
    ops = []
    for l in body.split("\n"):
        w = l.split()
        if w and w[0] in ("I", "W", "F", "X", "Z"):
            ops.append(tuple([w[0]] + [int(x) for x in w[1:]]))
    pr, _ = prove_c14()
    res.add_proof(pr)
    text = script([], [("replay", ops)])
    c_out, m_out = run_c(cfg, text), run_model(cfg, text)
    res.count("replay")
    _, cb = split_blocks(c_out)
    bad = property_failures(ops, cb[0][1] if cb else "!CRASH none\n")
    print(c_out if len(c_out) < 6000 else c_out[:6000] + "...")
    if bad:
        print("property predicates fail: " + "; ".join(bad[:6]))
        res.violation(path)
    elif c_out != m_out:
        print("trace differs from the model's prediction; property predicates hold")
        res.violation(path, no_input=True)
    elif not pr["ok"]:
        res.violation(path, no_input=True)
    else:
        print("replay passes: trace equals the model's prediction, property predicates hold")
