"""C12 — results do not depend on build configuration or tuning parameters."""
import engine, ops, vlib, corr

PROOFS = ["Properties_C12"]
ALG_PROPS = ("C01", "C02", "C03", "C04", "C05", "C06", "C07")


def variants(tier):
    S = vlib.SMALL
    vs = [vlib.variant(name="small-nosse", sse2=0, **S),
          vlib.variant(name="mid-ts", l1=32768, l2=262144, l3=4194304, threadsafe=1),
          vlib.variant(name="small-omp", openmp=1, **S)]
    if tier == "thorough":
        vs += [vlib.variant(name="host"), vlib.variant(name="host-nosse", sse2=0), vlib.variant(name="host-omp", openmp=1),
               vlib.variant(name="host-ts", threadsafe=1), vlib.variant(name="small", **S),
               vlib.variant(name="small-ts-nosse", sse2=0, threadsafe=1, **S), vlib.variant(name="mid", l1=32768, l2=262144, l3=4194304),
               vlib.variant(name="mid-omp-nosse", l1=32768, l2=262144, l3=4194304, openmp=1, sse2=0),
               vlib.variant(name="tiny-l3", l1=4096, l2=32768, l3=65536, openmp=1, sse2=0)]
    return vs


def run(res, tier, seed):
    res.cov["rule"] = ("the same seeded cases of every algorithmic operation (products, echelon forms, factorisations, triangular "
                       "solves, inversion, solving, kernel) in a matrix of builds {cache triples (4K,32K,64K),(32K,256K,4M),host} x "
                       "{sse2,no-sse2} x {caches,thread-safe} x {openmp,none} (only combinations configure can produce), each "
                       "compared with the configuration-free model output; sizes large enough that small-cache builds enter the "
                       "blocked/recursive regimes; distinct by (configuration, op, shape class, parameter)")
    engine.proof_part(res, PROOFS)
    names = [n for n, d in sorted(ops.CATALOG.items()) if d["prop"] in ALG_PROPS]
    n = 12 if tier == "quick" else 80
    vs = variants(tier)
    res.cov["configurations"] = [dict(v) for v in vs]
    for v in vs:
        runner = corr.Runner(v)
        env = {"OMP_NUM_THREADS": "4"} if v["openmp"] else None
        engine.run_ops(res, "C12", names, seed, n, 260 if tier == "quick" else 500, runner=runner, env=env, tag="/cfg=" + v["name"])


def replay(res, path):
    engine.replay_file(res, "C12", path)
