"""C12 — results do not depend on build configuration or tuning parameters."""
import engine, ops, vlib, corr

PROOFS = ["Properties_C12"]
ALG_PROPS = ("C01", "C02", "C03", "C04", "C05", "C06", "C07")


def variants(tier):
    S = vlib.SMALL
    vs = [vlib.variant(name="small-nosse", sse2=0, **S),
          vlib.variant(name="mid-ts", l1=32768, l2=262144, l3=4194304, threadsafe=1),
          vlib.variant(name="small-omp", openmp=1, **S),
          # an L3 size whose derived block size sqrt(4*L3)/2 = 724 is NOT a multiple of 64 (512 KiB; machines without
          # an L3 get L3 := L2, so this is an ordinary value): cache-derived constants used as split points
          vlib.variant(name="l3-512k", l1=32768, l2=262144, l3=524288)]
    if tier == "thorough":
        vs += [vlib.variant(name="host"), vlib.variant(name="host-nosse", sse2=0), vlib.variant(name="host-omp", openmp=1),
               vlib.variant(name="host-ts", threadsafe=1), vlib.variant(name="small", **S),
               vlib.variant(name="small-ts-nosse", sse2=0, threadsafe=1, **S), vlib.variant(name="mid", l1=32768, l2=262144, l3=4194304),
               vlib.variant(name="mid-omp-nosse", l1=32768, l2=262144, l3=4194304, openmp=1, sse2=0),
               vlib.variant(name="tiny-l3", l1=4096, l2=32768, l3=65536, openmp=1, sse2=0)]
    return vs


def run(res, tier, seed):
    res.cov["rule"] = ("the same seeded cases of every algorithmic operation (products, echelon forms, factorisations, triangular "
                       "solves, inversion, solving, kernel) in a matrix of builds {cache triples (4K,32K,64K),(32K,256K,4M),host} x "
                       "{sse2,no-sse2} x {caches,thread-safe} x {openmp,none} (only combinations configure can produce), each "
                       "compared with the configuration-free model output; sizes large enough that small-cache builds enter the "
                       "blocked/recursive regimes; distinct by (configuration, op, shape class, parameter)")
    engine.proof_part(res, PROOFS)
    names = [n for n, d in sorted(ops.CATALOG.items()) if d["prop"] in ALG_PROPS]
    n = 12 if tier == "quick" else 36      # thorough: 13 configurations; 36 cases per operation keep it near one hour
    vs = variants(tier)
    res.cov["configurations"] = [dict(v) for v in vs]
    for v in vs:
        runner = corr.Runner(v)
        env = {"OMP_NUM_THREADS": "4"} if v["openmp"] else None
        engine.run_ops(res, "C12", names, seed, n, 260 if tier == "quick" else 400, runner=runner, env=env, tag="/cfg=" + v["name"])
        if v["openmp"]:
            # the parallel products exist only in this configuration; their block grid (multiples of 128 plus three
            # remainder strips) must give the product the sequential routes give
            mp = [nm for nm in ("mul_mp", "addmul_mp") if nm in ops.CATALOG]
            engine.run_ops(res, "C12", mp, seed + 11, n, 420 if tier == "quick" else 700, runner=runner, env=env,
                           tag="/mp/cfg=" + v["name"])
        # the cache-derived block size of this configuration (mzd.h: MIN(sqrt(4*L3)/2, 2048)) is the regime threshold AND,
        # in the recursive regimes, enters the split points of the triangular solves: systems just beyond it
        bs = min(int((4 * int(v["l3"])) ** 0.5) // 2, 2048)
        if bs <= 800:
            Tt = ops.Tiers(res, "C12", v, unique=True)
            Tt.tag = "/tri/cfg=" + v["name"]
            tri = [nm for nm in ("trsm_upper_right", "trsm_lower_right", "trsm_upper_left", "trsm_lower_left") if nm in ops.CATALOG]
            Tt.run(tri, seed + 7, 3 if tier == "quick" else 20, 260, tri_big=(bs + 1, bs + 300, 1.0))
            # triangular inversion recurses for n*n >= 2*L3 (its split point is computed in words and differs between
            # the SSE2 and the scalar build)
            n0 = int((2 * int(v["l3"])) ** 0.5) + 1
            if n0 <= 800 and "trtri_upper" in ops.CATALOG:
                Tt.run(["trtri_upper"], seed + 8, 3 if tier == "quick" else 12, 260, tri_big=(n0, n0 + 200, 1.0))
        # the automatic table parameter of the M4RI elimination is lowered when 0.75 * 2^k * ncols exceeds L3/2: matrices
        # wide enough for that rule to fire in this configuration (k from min(nrows, ncols), so wide AND not too flat)
        l3 = int(v["l3"])
        if l3 <= 1 << 20:
            import gen
            ge = gen.G(seed + 9)
            aimed = []
            for nr, kk in ((70, 5), (140, 6), (520, 7)):      # m4ri_opt_k(min(nrows, ncols)) = kk
                nc = max(nr + 5, min(4000, int(l3 / 2 / 0.75 / (1 << kk)) + ge.rng.choice([5, 70, 200])))
                if nr * nc > 1200000:
                    continue
                rows, kind = (gen.rank_profile_rows2(ge, nr, nc) if ge.rng.random() < 0.5 else ge.rows(nr, nc, "dense"))
                full = ge.rng.getrandbits(1)
                aimed.append(ge.case("echelonize_m4ri", [ge.mat_line("A", nr, nc, rows), "call echelonize_m4ri A %d 0" % full, "dump A"],
                                     op="echelonize_m4ri", shape=(nr, nc), kinds=(kind, "k-lowered"), full=full, k=0))
            if aimed:
                co, mo = runner.run(aimed)
                for c in aimed:
                    res.count(("k-lowered", c.meta["shape"], v["name"]))
                engine.handle_mismatches(res, "C12", corr.compare(aimed, co, mo), runner, tag="/klow/cfg=" + v["name"])
        # the cache-derived PLE cut-off of this configuration: inputs just large enough to enter the block recursion
        # (Schur complement, L compression) with rank-deficient column halves - ordinary sizes on a small-cache machine;
        # two-tier comparison of tools/ops.py (verified checker on the output, exact (A',P,r,Q) at the build's cut-off)
        if ops.ple_cutoff_words(v) <= 8192:
            T = ops.Tiers(res, "C12", v)
            T.tag = "/rec/cfg=" + v["name"]
            T.run(["ple", "pluq"], seed + 3, 2 if tier == "quick" else 30, 260, rec_bias=0.95)
            # and, aimed: every (r1 mod 64 == 0 or not) x (r2 >= 128 or not) class of the L-compression word moves
            import gen, re
            g = gen.G(seed + 4)
            want = {(a, b): None for a in (0, 64, 100, -1) for b in (True, False)}      # r1 (-1: n1-1), r2 >= 128
            ops.REC_BIAS, ops.REC_WORDS = 0.95, ops.ple_cutoff_words(v)
            try:
                for _ in range(400):
                    if all(x is not None for x in want.values()):
                        break
                    c = ops.build(g.rng.choice(["ple", "pluq"]), g, None, 260)
                    m = re.match(r"compress/w\d+/r1=(\d+)/r2=(\d+)", str(c.meta.get("kinds", ("",))[0]))
                    if m:
                        r1v = int(m.group(1))
                        key = (r1v if r1v in (0, 64, 100) else -1, int(m.group(2)) >= 128)
                        if want[key] is None:
                            want[key] = c
            finally:
                ops.REC_BIAS = 0.0
            aimed = [c for c in want.values() if c is not None]
            if aimed:
                T.run(None, seed + 5, 0, 260, cases=aimed)


def replay(res, path):
    engine.replay_file(res, "C12", path)
