#!/usr/bin/env python3
"""Generate the body of a Properties_Cnn.v file: for each `Module.lemma[=NewName]` argument emit
   Theorem <NewName> : <type as printed by Check>. Proof. exact lemma. Qed.  Print Assumptions <NewName>.
usage: mkprops.py PREFIX Mod1.lemma1 Mod2.lemma2=Name ...   (prints to stdout; header/imports are up to the caller)"""
import subprocess, sys, re, os
COQ = os.path.join(os.path.dirname(os.path.dirname(os.path.abspath(__file__))), "coq")

def main():
    prefix = sys.argv[1]
    items = []
    for a in sys.argv[2:]:
        lem, _, new = a.partition("=")
        mod, _, name = lem.rpartition(".")
        items.append((mod, name, new or (prefix + "_" + name)))
    mods = []
    for m, _, _ in items:
        if m not in mods:
            mods.append(m)
    script = "From Coq Require Import List NArith ZArith Arith Bool Sorted Permutation.\nFrom M4 Require Import %s.\nImport ListNotations.\nSet Printing Width 110.\nSet Printing Depth 1000.\n" % " ".join(mods)
    for m, n, new in items:
        script += 'Check @%s.\n' % n
    p = subprocess.run(["coqtop", "-Q", ".", "M4", "-quiet"], input=script, cwd=COQ, capture_output=True, text=True, timeout=600)
    out = p.stdout
    # coqtop echoes results separated by blank lines: "<name>\n     : type"
    chunks = re.split(r"\n(?=\S+\n\s+: )", "\n" + out)
    types = {}
    for ch in chunks:
        m = re.match(r"\s*@?(\S+)\n\s+: (.*)", ch, re.S)
        if m:
            types[m.group(1)] = m.group(2).strip()
    for m, n, new in items:
        if n not in types:
            sys.stderr.write("no type for %s\n%s\n%s\n" % (n, out[-2000:], p.stderr[-2000:]))
            sys.exit(1)
        t = types[n]
        t = "\n  ".join(x.rstrip() for x in t.split("\n"))
        print("Theorem %s :\n  %s.\nProof. exact @%s. Qed.\nPrint Assumptions %s.\n" % (new, t, n, new))

main()
