#!/usr/bin/env python3
"""For every `fixed` entry of known_findings.json: revert that fix in a scratch copy of /repo (tools/try_mutant.py) and run
the checks of the properties it is recorded under.  Writes evidence/revert_matrix.json: a fixed finding suppresses
nothing, so every one of them must be reported again as a VIOLATION when it returns."""
import json, os, subprocess, sys, tempfile
V = os.path.dirname(os.path.dirname(os.path.abspath(__file__)))
k = json.load(open(os.path.join(V, "known_findings.json")))
by = {}
for e in k:
    if e["status"] == "fixed":
        by.setdefault((e["id"], e["commit"]), []).append(e["property"])
only = set(sys.argv[1:])
out = {}
for (fid, commit), props in sorted(by.items()):
    if only and fid not in only:
        continue
    d = tempfile.mkdtemp(prefix="rev-", dir="/var/tmp")
    diff = os.path.join(d, "revert.diff")
    with open(diff, "w") as fh:
        fh.write(subprocess.check_output(["git", "-C", "/repo", "show", "-R", commit]).decode())
    p = subprocess.run([sys.executable, os.path.join(V, "tools", "try_mutant.py"), diff] + sorted(set(props)), capture_output=True, text=True)
    res = {}
    cur = None
    for line in p.stdout.split("\n"):
        if line.startswith("== "):
            cur = line.split()[1]
            res[cur] = {"exit": int(line.split("exit=")[1]), "violations": 0}
        elif "VIOLATION" in line and cur:
            res[cur]["violations"] += 1
    out[fid] = {"commit": commit, "checks": res}
    print(fid, commit, res, flush=True)
    subprocess.run(["rm", "-rf", d])
    json.dump(out, open(os.path.join(V, "evidence", "revert_matrix.json"), "w"), indent=1)
