#!/bin/sh
# Re-check every compiled Properties file (and everything it depends on) with the independent checker coqchk and
# collect the context summaries (axioms, type-in-type, unsafe fixpoints, assumed positivity) in evidence/coqchk.txt
cd "$(dirname "$0")/../coq"
out=../evidence/coqchk.txt; tmp=$(mktemp -d /var/tmp/coqchk.XXXX)
ls Properties/*.v | sed 's|Properties/||; s|\.v$||' | xargs -P 8 -I{} sh -c "timeout 3000 coqchk -o -silent -Q . M4 M4.Properties.{} > $tmp/{}.out 2>&1; echo {} \$? >> $tmp/status"
{ echo "coqchk -o -silent -Q . M4 M4.Properties.<file>   (Coq 8.16.1), $(date -u +%Y-%m-%dT%H:%MZ)"; for f in $(ls $tmp/*.out | sort); do b=$(basename $f .out); echo "== $b (exit $(grep "^$b " $tmp/status | cut -d' ' -f2))"; sed -n '/CONTEXT SUMMARY/,$p' $f | grep -v "^$\|=====" ; done; } > $out
rm -rf $tmp; grep -c "Axioms: <none>" $out
