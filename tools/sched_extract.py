#!/usr/bin/env python3
"""Translator T2: Strassen/Winograd schedules of m4ri/strassen.c and the section task lists of
m4ri/mp.c  ->  coq/Alg/StrassenGen.v   (DESIGN.md 3.2).

    python3 tools/sched_extract.py [--repo /repo] [--out /verif/coq/Alg/StrassenGen.v]

The C sources are copied to a scratch directory (mktemp under /var/tmp, removed at exit), the
configuration header is instantiated with OpenMP switched on (mp.c is empty otherwise) and each routine
is parsed with `clang -Xclang -ast-dump=json -Xclang -ast-dump-filter=<fn>`.  The statement sequence
of every routine is matched against a fixed skeleton

    [early return]  dims  if(closer..){base case; return C}  [mult/width, while loop]  split points
    windows  temporaries  block instructions  clean-up  "deal with rest" strips  return C

and ANYTHING that does not fit (unknown statement, unknown callee, unknown identifier, an operand
that is not a declared window/temporary, use after free, ...) raises T2Error: the translator never
guesses.  The output is written only if its content changed.
"""
import argparse, glob, json, os, re, shutil, subprocess, sys, tempfile

FUNCS = [("_mzd_mul_even", "Kmul"), ("_mzd_sqr_even", "Ksqr"),
         ("_mzd_addmul_even", "Kaddmul"), ("_mzd_addsqr_even", "Kaddsqr")]
MPFUNCS = [("_mzd_mul_mp4", False), ("_mzd_addmul_mp4", True)]

INTVARS = {"m": "Vm", "k": "Vk", "n": "Vn", "mmm": "Vmmm", "kkk": "Vkkk", "nnn": "Vnnn",
           "mult": "Vmult", "width": "Vwidth", "cutoff": "Vcutoff",
           "a": "Va", "b": "Vb", "c": "Vc", "anr": "Vanr", "anc": "Vanc", "bnr": "Vbnr", "bnc": "Vbnc"}
PARENTS = {"A": "PA", "B": "PB", "C": "PC"}
FIELDS = {"nrows": "Fnrows", "ncols": "Fncols"}


class T2Error(Exception):
    pass


def die(msg, node=None):
    loc = ""
    if node is not None:
        r = node.get("range", {}).get("begin", {})
        ln = r.get("line") or r.get("expansionLoc", {}).get("line") or r.get("spellingLoc", {}).get("line")
        loc = " (kind %s, line %s)" % (node.get("kind"), ln)
    raise T2Error(msg + loc)


# ------------------------------------------------------------------------------------------------
# clang
def parse_docs(text):
    dec = json.JSONDecoder()
    i, docs = 0, []
    while i < len(text):
        while i < len(text) and text[i].isspace():
            i += 1
        if i >= len(text):
            break
        o, i = dec.raw_decode(text, i)
        docs.append(o)
    return docs


def ast_of(scratch, cfile, name):
    cmd = ["clang", "-fopenmp", "-fsyntax-only", "-w", "-I" + scratch, "-I" + os.path.join(scratch, "m4ri"),
           "-Xclang", "-ast-dump=json", "-Xclang", "-ast-dump-filter=" + name,
           os.path.join(scratch, "m4ri", cfile)]
    p = subprocess.run(cmd, capture_output=True, text=True, timeout=300)
    if p.returncode != 0:
        raise T2Error("clang failed on %s (%s):\n%s" % (cfile, name, p.stderr[-2000:]))
    return [d for d in parse_docs(p.stdout) if d.get("name") == name]


def fn_body(scratch, cfile, name):
    ds = [d for d in ast_of(scratch, cfile, name) if d.get("kind") == "FunctionDecl"
          and any(c.get("kind") == "CompoundStmt" for c in d.get("inner", []))]
    if len(ds) != 1:
        raise T2Error("%s: expected exactly one definition in %s, found %d" % (name, cfile, len(ds)))
    f = ds[0]
    params = [c["name"] for c in f["inner"] if c.get("kind") == "ParmVarDecl"]
    body = [c for c in f["inner"] if c.get("kind") == "CompoundStmt"][0]
    return params, body


def radix_value(scratch):
    for d in ast_of(scratch, "strassen.c", "m4ri_radix"):
        if d.get("kind") == "VarDecl":
            e = strip(d.get("inner", [{}])[0]) if d.get("inner") else None
            if e and e.get("kind") == "IntegerLiteral":
                return int(e["value"])
    raise T2Error("cannot find the value of m4ri_radix")


# ------------------------------------------------------------------------------------------------
# expressions
def strip(e):
    while e.get("kind") in ("ImplicitCastExpr", "ParenExpr", "CStyleCastExpr", "ConstantExpr"):
        inner = [c for c in e.get("inner", []) if c.get("kind") != "TypeLoc"]
        if len(inner) != 1:
            die("cast/paren with %d children" % len(inner), e)
        e = inner[0]
    return e


class Ctx:
    def __init__(self, radix, intvars=INTVARS):
        self.radix = radix
        self.intvars = dict(intvars)


def aexp(e, cx):
    e = strip(e)
    k = e.get("kind")
    if k == "IntegerLiteral":
        return ("ANum", int(e["value"]))
    if k == "DeclRefExpr":
        nm = e["referencedDecl"]["name"]
        if nm == "m4ri_radix":
            return ("ANum", cx.radix)
        if nm in cx.intvars:
            return ("AVar", cx.intvars[nm])
        die("unknown integer identifier '%s'" % nm, e)
    if k == "MemberExpr":
        base = strip(e["inner"][0])
        if base.get("kind") != "DeclRefExpr" or base["referencedDecl"]["name"] not in PARENTS:
            die("field access on something that is not A, B or C", e)
        if e.get("name") not in FIELDS:
            die("unknown field '%s'" % e.get("name"), e)
        return ("AFld", PARENTS[base["referencedDecl"]["name"]], FIELDS[e["name"]])
    if k == "BinaryOperator":
        op = e["opcode"]
        l, r = e["inner"]
        if op == ">>":
            rr = strip(r)
            if rr.get("kind") != "IntegerLiteral":
                die("shift by a non-constant", e)
            return ("AShr", aexp(l, cx), int(rr["value"]))
        ops = {"+": "AAdd", "-": "ASub", "*": "AMul", "/": "ADiv", "%": "AMod"}
        if op in ops:
            return (ops[op], aexp(l, cx), aexp(r, cx))
        die("unsupported integer operator '%s'" % op, e)
    if k == "ConditionalOperator":          # MIN(x, y) = ((x) < (y)) ? (x) : (y)
        c, x, y = e["inner"]
        c = strip(c)
        if c.get("kind") == "BinaryOperator" and c["opcode"] == "<":
            cl, cr = aexp(c["inner"][0], cx), aexp(c["inner"][1], cx)
            if cl == aexp(x, cx) and cr == aexp(y, cx):
                return ("AMin", cl, cr)
        die("conditional expression that is not MIN(x,y)", e)
    die("unsupported integer expression", e)


def bexp(e, cx):
    e = strip(e)
    if e.get("kind") == "BinaryOperator":
        op = e["opcode"]
        l, r = e["inner"]
        if op == "||":
            return ("BOr", bexp(l, cx), bexp(r, cx))
        if op == "<":
            return ("BLt", aexp(l, cx), aexp(r, cx))
        if op == ">":
            return ("BLt", aexp(r, cx), aexp(l, cx))
        if op == "==":
            return ("BEq", aexp(l, cx), aexp(r, cx))
    die("unsupported condition", e)


def callee(e):
    e = strip(e)
    if e.get("kind") != "CallExpr":
        return None, None
    f = strip(e["inner"][0])
    if f.get("kind") != "DeclRefExpr":
        die("indirect call", e)
    return f["referencedDecl"]["name"], e["inner"][1:]


def mname(e):
    """an argument that must be the name of a matrix variable (or NULL)"""
    e = strip(e)
    if e.get("kind") == "DeclRefExpr":
        return e["referencedDecl"]["name"]
    if e.get("kind") in ("GNUNullExpr", "CXXNullPtrLiteralExpr"):
        return None
    if e.get("kind") == "IntegerLiteral" and int(e["value"]) == 0:
        return None
    die("matrix argument is not a plain identifier", e)


def lit(e):
    e = strip(e)
    if e.get("kind") != "IntegerLiteral":
        die("expected an integer literal", e)
    return int(e["value"])


def is_mzd_type(t):
    return bool(re.match(r"^(const\s+)?mzd_t(\s+const)?\s*\*$", t.strip()))


def is_int_type(t):
    return t.strip() in ("rci_t", "int", "wi_t", "const rci_t", "const int")


# ------------------------------------------------------------------------------------------------
# statements -> IR
def disj(e):
    e = strip(e)
    if e.get("kind") == "BinaryOperator" and e["opcode"] in ("||", "|"):
        return disj(e["inner"][0]) + disj(e["inner"][1])
    return [e]


def cond_ir(e, cx):
    parts = disj(e)
    names = [callee(p)[0] for p in parts]
    if all(n == "closer" for n in names):
        args = []
        for p in parts:
            _, a = callee(p)
            if len(a) != 2 or aexp(a[1], cx) != ("AVar", "Vcutoff"):
                die("closer() must be called as closer(x, cutoff)", p)
            args.append(aexp(a[0], cx))
        return ("closer", args)
    if all(n == "mzd_is_windowed" for n in names):
        return ("windowed", [mname(callee(p)[1][0]) for p in parts])
    if any(n is not None for n in names):
        die("condition mixes calls and comparisons", e)
    return ("bexp", bexp(e, cx))


def call_ir(e, cx):
    nm, a = callee(e)
    if nm == "_mzd_add":
        return ("instr", "Add", [mname(x) for x in a])
    if nm in ("_mzd_mul_even", "_mzd_addmul_even"):
        if aexp(a[3], cx) != ("AVar", "Vcutoff"):
            die("recursive call with a cutoff other than 'cutoff'", e)
        return ("instr", "Mul" if nm == "_mzd_mul_even" else "AddMul", [mname(x) for x in a[:3]])
    if nm in ("_mzd_sqr_even", "_mzd_addsqr_even"):
        if aexp(a[2], cx) != ("AVar", "Vcutoff"):
            die("recursive call with a cutoff other than 'cutoff'", e)
        return ("instr", "Sqr" if nm == "_mzd_sqr_even" else "AddSqr", [mname(x) for x in a[:2]])
    if nm == "_mzd_mul_m4rm":
        if lit(a[3]) != 0:
            die("_mzd_mul_m4rm with k != 0", e)
        return ("m4rm", [mname(x) for x in a[:3]], bool(lit(a[4])))
    if nm == "mzd_addmul_m4rm":
        if lit(a[3]) != 0:
            die("mzd_addmul_m4rm with k != 0", e)
        return ("addm4rm", [mname(x) for x in a[:3]])
    if nm == "mzd_mul_m4rm":
        if lit(a[3]) != 0:
            die("mzd_mul_m4rm with k != 0", e)
        return ("mulm4rm", [mname(x) for x in a[:3]])
    if nm == "mzd_copy":
        return ("copy", mname(a[0]), mname(a[1]))
    if nm == "mzd_add":
        return ("addto", [mname(x) for x in a])
    if nm == "mzd_free":
        return ("free", mname(a[0]))
    if nm == "mzd_free_window":
        return ("freewin", mname(a[0]))
    if nm == "mzd_mul":
        if mname(a[0]) is not None or aexp(a[3], cx) != ("AVar", "Vcutoff"):
            die("mzd_mul must be called as mzd_mul(NULL, x, y, cutoff)", e)
        return ("mulnew", mname(a[1]), mname(a[2]))
    if nm == "mzd_init":
        return ("init", aexp(a[0], cx), aexp(a[1], cx))
    if nm in ("mzd_init_window", "mzd_init_window_const"):
        p = mname(a[0])
        if p not in PARENTS:
            die("window of something that is not A, B or C", e)
        return ("window", PARENTS[p], [aexp(x, cx) for x in a[1:5]])
    die("unsupported call to '%s'" % nm, e)


def stmts_ir(node, cx):
    """flat list of IR statements of a CompoundStmt (nested plain blocks become ('block', [...]))"""
    out = []
    for st in node.get("inner", []):
        out.extend(stmt_ir(st, cx))
    return out


def stmt_ir(st, cx):
    k = st.get("kind")
    if k == "NullStmt":
        return []
    if k == "CompoundStmt":
        return [("block", stmts_ir(st, cx))]
    if k == "DeclStmt":
        out = []
        for d in st["inner"]:
            if d.get("kind") != "VarDecl":
                die("unsupported declaration", d)
            ty = d["type"]["qualType"]
            init = [c for c in d.get("inner", []) if c.get("kind") != "TypeLoc"
                    and not c.get("kind", "").endswith("Comment") and not c.get("kind", "").endswith("Attr")]
            if len(init) > 1:
                die("declaration with several initialisers", d)
            if is_int_type(ty):
                if d["name"] not in cx.intvars:
                    die("unknown integer variable '%s'" % d["name"], d)
                if init:
                    out.append(("assign", cx.intvars[d["name"]], aexp(init[0], cx)))
            elif is_mzd_type(ty):
                if init:
                    out.append(("mdecl", d["name"], call_ir(init[0], cx)))
                else:
                    out.append(("mdecl", d["name"], None))
            else:
                die("declaration of unsupported type '%s'" % ty, d)
        return out
    if k == "BinaryOperator" and st["opcode"] == "=":
        l = strip(st["inner"][0])
        if l.get("kind") != "DeclRefExpr":
            die("assignment to a non-variable", st)
        nm = l["referencedDecl"]["name"]
        if nm in cx.intvars and is_int_type(l["type"]["qualType"]):
            return [("assign", cx.intvars[nm], aexp(st["inner"][1], cx))]
        if is_mzd_type(l["type"]["qualType"]):
            return [("massign", nm, call_ir(st["inner"][1], cx))]
        die("assignment to '%s'" % nm, st)
    if k == "CompoundAssignOperator":
        l = strip(st["inner"][0])
        nm = l.get("referencedDecl", {}).get("name")
        if nm not in cx.intvars:
            die("compound assignment to '%s'" % nm, st)
        ops = {"+=": "AAdd", "-=": "ASub", "*=": "AMul", "/=": "ADiv", "%=": "AMod"}
        if st["opcode"] not in ops:
            die("unsupported compound assignment", st)
        v = cx.intvars[nm]
        return [("assign", v, (ops[st["opcode"]], ("AVar", v), aexp(st["inner"][1], cx)))]
    if k == "CallExpr":
        return [call_ir(st, cx)]
    if k == "IfStmt":
        inner = st["inner"]
        if st.get("hasInit") or st.get("hasVar"):
            die("if with init/var", st)
        c = cond_ir(inner[0], cx)
        th = stmt_ir(inner[1], cx)
        el = stmt_ir(inner[2], cx) if len(inner) > 2 else []
        unb = lambda l: l[0][1] if len(l) == 1 and l[0][0] == "block" else l
        return [("if", c, unb(th), unb(el))]
    if k == "WhileStmt":
        c = cond_ir(st["inner"][0], cx)
        if c[0] != "bexp":
            die("while condition", st)
        b = stmt_ir(st["inner"][1], cx)
        b = b[0][1] if len(b) == 1 and b[0][0] == "block" else b
        if not all(x[0] == "assign" for x in b):
            die("while body is not a list of integer assignments", st)
        return [("while", c[1], [(x[1], x[2]) for x in b])]
    if k == "ReturnStmt":
        return [("return", mname(st["inner"][0]))]
    if k == "OMPParallelSectionsDirective":
        cap = [c for c in st["inner"] if c.get("kind") == "CapturedStmt"]
        if len(cap) != 1:
            die("omp parallel sections without a captured statement", st)
        cd = [c for c in cap[0]["inner"] if c.get("kind") == "CapturedDecl"][0]
        comp = [c for c in cd["inner"] if c.get("kind") == "CompoundStmt"][0]
        secs = []
        for s in comp["inner"]:
            if s.get("kind") != "OMPSectionDirective":
                die("statement outside an omp section", s)
            body = stmts_ir(s, cx)
            body = body[0][1] if len(body) == 1 and body[0][0] == "block" else body
            secs.append(body)
        return [("sections", secs)]
    die("unsupported statement", st)


def flatten(ir):
    """splice plain nested blocks into the enclosing sequence (C block scope is checked separately by
    the per-strip handling; at top level the routines only use blocks for grouping)"""
    out = []
    for s in ir:
        if s[0] == "block":
            out.extend(flatten(s[1]))
        else:
            out.append(s)
    return out


# ------------------------------------------------------------------------------------------------
# skeleton matching
class Seq:
    def __init__(self, items, fn):
        self.items, self.i, self.fn = items, 0, fn

    def peek(self):
        return self.items[self.i] if self.i < len(self.items) else ("<end>",)

    def take(self, tag=None):
        s = self.peek()
        if tag is not None and s[0] != tag:
            raise T2Error("%s: expected '%s', found %r" % (self.fn, tag, s[:2]))
        self.i += 1
        return s

    def take_while(self, pred):
        out = []
        while self.i < len(self.items) and pred(self.items[self.i]):
            out.append(self.items[self.i])
            self.i += 1
        return out


def base_stmts(fn, l):
    """the statements of one branch of the base case"""
    out = []
    for s in l:
        if s[0] == "mdecl" and s[2] and s[2][0] == "copy" and s[2][1] is None:
            out.append(("BCopyNew", s[1], s[2][2]))
        elif s[0] == "mdecl" and s[2] and s[2][0] == "init":
            out.append(("BInit", s[1], s[2][1], s[2][2]))
        elif s[0] == "m4rm":
            out.append(("BM4rm",) + tuple(s[1]) + (s[2],))
        elif s[0] == "massign" and s[2][0] == "m4rm" and s[1] == s[2][1][0]:
            out.append(("BM4rm",) + tuple(s[2][1]) + (s[2][2],))      # Cbar = _mzd_mul_m4rm(Cbar, ...)
        elif s[0] == "addm4rm":
            out.append(("BAddM4rm",) + tuple(s[1]))
        elif s[0] == "copy" and s[1] is not None:
            out.append(("BCopyTo", s[1], s[2]))
        elif s[0] == "addto":
            out.append(("BAddTo",) + tuple(s[1]))
        elif s[0] == "free":
            out.append(("BFree", s[1]))
        else:
            raise T2Error("%s: unsupported statement in the base case: %r" % (fn, s[:2]))
    return out


def parse_base(fn, then):
    """then-branch of `if (closer(..) || ..)`: either if(windowed){..}else{..} return C, or (mp.c) a
    plain statement list followed by return C"""
    if not then or then[-1] != ("return", "C"):
        raise T2Error("%s: the base case does not end with 'return C'" % fn)
    body = then[:-1]
    if len(body) == 1 and body[0][0] == "if" and body[0][1][0] == "windowed":
        return (body[0][1][1], base_stmts(fn, flatten(body[0][2])), base_stmts(fn, flatten(body[0][3])))
    return ([], base_stmts(fn, flatten(body)), [])


def parse_strip(fn, pre, guard, body):
    """one remainder product: window declarations, one m4rm call on them, frees"""
    wins = {}
    op = None
    freed = set()
    for s in body:
        if s[0] == "mdecl" and s[2] and s[2][0] == "window":
            if s[1] in wins or s[1] in PARENTS:
                raise T2Error("%s: strip window '%s' declared twice" % (fn, s[1]))
            wins[s[1]] = (s[2][1], s[2][2])
        elif s[0] in ("m4rm", "addm4rm", "mulm4rm"):
            if op is not None:
                raise T2Error("%s: more than one product in a strip" % fn)
            if s[0] == "m4rm" and s[2] is not True:
                raise T2Error("%s: strip product _mzd_mul_m4rm without clear" % fn)
            op = ({"m4rm": "SClear", "mulm4rm": "SMulW", "addm4rm": "SAddW"}[s[0]], s[1])
        elif s[0] in ("freewin", "free"):
            if s[1] not in wins or op is None:
                raise T2Error("%s: bad mzd_free_window(%s) in a strip" % (fn, s[1]))
            freed.add(s[1])
        else:
            raise T2Error("%s: unsupported statement in a strip: %r" % (fn, s[:2]))
    if op is None:
        raise T2Error("%s: strip without a product" % fn)
    if freed != set(wins):
        raise T2Error("%s: strip windows not all freed: %r" % (fn, sorted(set(wins) - freed)))
    sop, (d, x, y) = op

    def opd(nm):
        if nm in wins:
            return ("OWin", wins[nm])
        if nm in PARENTS:
            return ("OPar", PARENTS[nm])
        raise T2Error("%s: strip operand '%s' is neither a strip window nor A/B/C" % (fn, nm))
    if d not in wins:
        raise T2Error("%s: strip destination '%s' is not a window" % (fn, d))
    used = [z for z in (d, x, y) if z in wins]
    if sorted(used) != sorted(wins):
        raise T2Error("%s: strip declares windows it does not use (or uses one twice)" % fn)
    return {"pre": pre, "guard": guard, "dst": wins[d], "x": opd(x), "y": opd(y), "op": sop}


def parse_strips(fn, seq):
    strips = []
    pre = []
    while seq.peek()[0] in ("assign", "if"):
        s = seq.take()
        if s[0] == "assign":
            pre.append((s[1], s[2]))
            continue
        c, th, el = s[1], s[2], s[3]
        if c[0] != "bexp" or el:
            raise T2Error("%s: unsupported strip guard" % fn)
        if th and all(x[0] == "block" for x in th):      # several products under one guard
            for j, b in enumerate(th):
                strips.append(parse_strip(fn, pre if j == 0 else [], c[1], b[1]))
        else:
            strips.append(parse_strip(fn, pre, c[1], th))
        pre = []
    if pre:
        raise T2Error("%s: integer assignments after the last strip" % fn)
    return strips


class Names:
    """windows and temporaries of the block phase, with liveness"""
    def __init__(self, fn):
        self.fn = fn
        self.wins, self.tmps, self.decl_only = [], [], set()
        self.live = set()
        self.freed_wins = set()

    def use(self, nm):
        if nm is None:
            raise T2Error("%s: NULL operand" % self.fn)
        if nm in dict(self.wins):
            if nm in self.freed_wins:
                raise T2Error("%s: window '%s' used after mzd_free_window" % (self.fn, nm))
            return
        if nm in self.live:
            return
        raise T2Error("%s: operand '%s' is not a live window or temporary" % (self.fn, nm))


def parse_body(fn, items, names, allow_sections=False):
    """block instructions; returns (instrs, sections)"""
    instrs, sections = [], None
    for s in items:
        if s[0] == "instr":
            for z in s[2]:
                names.use(z)
            instrs.append((s[1],) + tuple(s[2]))
        elif s[0] == "massign" and s[2][0] == "mulnew":
            names.use(s[2][1]); names.use(s[2][2])
            if s[1] in dict(names.wins) or s[1] in names.live:
                raise T2Error("%s: mzd_mul(NULL,..) assigned to live '%s'" % (fn, s[1]))
            if s[1] not in names.decl_only and s[1] not in dict(names.tmps):
                raise T2Error("%s: '%s' is not a declared temporary" % (fn, s[1]))
            names.live.add(s[1])
            instrs.append(("MulNew", s[1], s[2][1], s[2][2]))
        elif s[0] == "free" and s[1] in dict(names.wins):    # mzd_free_window is a macro for mzd_free
            if s[1] in names.freed_wins:
                raise T2Error("%s: window '%s' freed twice" % (fn, s[1]))
            names.freed_wins.add(s[1])
        elif s[0] == "free":
            if s[1] not in names.live:
                raise T2Error("%s: mzd_free(%s) of something not live" % (fn, s[1]))
            names.live.discard(s[1])
            instrs.append(("Free", s[1]))
        elif s[0] == "freewin":
            if s[1] not in dict(names.wins) or s[1] in names.freed_wins:
                raise T2Error("%s: bad mzd_free_window(%s)" % (fn, s[1]))
            names.freed_wins.add(s[1])
        elif s[0] == "sections" and allow_sections and sections is None:
            sections = []
            for sec in s[1]:
                ins, _ = parse_body(fn, sec, names)
                sections.append(ins)
        else:
            raise T2Error("%s: unsupported statement in the block phase: %r" % (fn, s[:2]))
    return instrs, sections


def parse_decls(fn, seq, names):
    for s in seq.take_while(lambda s: s[0] == "mdecl"):
        nm, init = s[1], s[2]
        if nm in dict(names.wins) or nm in dict(names.tmps) or nm in names.decl_only or nm in PARENTS:
            raise T2Error("%s: '%s' declared twice" % (fn, nm))
        if init is None:
            names.decl_only.add(nm)
        elif init[0] == "window":
            names.wins.append((nm, (init[1], init[2])))
        elif init[0] == "init":
            names.tmps.append((nm, (init[1], init[2])))
            names.live.add(nm)
        else:
            raise T2Error("%s: unsupported initialiser for '%s'" % (fn, nm))


def parse_closer(scratch, cfile, cx):
    params, body = fn_body(scratch, cfile, "closer")
    if params != ["a", "cutoff"]:
        raise T2Error("closer(): unexpected parameters %r" % params)
    c2 = Ctx(cx.radix, {"a": "Vca", "cutoff": "Vcutoff"})
    st = body["inner"]
    if len(st) != 1 or st[0].get("kind") != "ReturnStmt":
        raise T2Error("closer(): body is not a single return")
    return bexp(st[0]["inner"][0], c2)


def parse_strassen(scratch, fn, kind, cx):
    params, body = fn_body(scratch, "strassen.c", fn)
    sq = kind in ("Ksqr", "Kaddsqr")
    if params != (["C", "A", "cutoff"] if sq else ["C", "A", "B", "cutoff"]):
        raise T2Error("%s: unexpected parameters %r" % (fn, params))
    top = stmts_ir(body, cx)
    # the block phase is the one nested block that declares windows; keep it apart, splice the rest
    blocks = [i for i, s in enumerate(top) if s[0] == "block"
              and any(x[0] == "mdecl" for x in s[1])]
    if len(blocks) != 1:
        raise T2Error("%s: expected exactly one block-phase compound statement, found %d" % (fn, len(blocks)))
    bi = blocks[0]
    seq = Seq(flatten(top[:bi]), fn)
    r = {"kind": kind}
    # early return
    r["early"] = []
    if seq.peek()[0] == "if" and seq.peek()[1][0] == "bexp":
        s = seq.take()
        if s[2] != [("return", "C")] or s[3]:
            raise T2Error("%s: early exit is not 'return C'" % fn)

        def zero_tests(b):
            if b[0] == "BOr":
                return zero_tests(b[1]) + zero_tests(b[2])
            if b[0] == "BEq" and b[1][0] == "AFld" and b[2] == ("ANum", 0):
                return [(b[1][1], b[1][2])]
            raise T2Error("%s: unsupported early-exit condition" % fn)
        r["early"] = zero_tests(s[1][1])
    r["dims"] = [(s[1], s[2]) for s in seq.take_while(lambda s: s[0] == "assign")]
    s = seq.take("if")
    if s[1][0] != "closer" or s[3]:
        raise T2Error("%s: expected the closer() test" % fn)
    r["closer_args"] = s[1][1]
    r["base"] = parse_base(fn, s[2])
    r["pre"] = [(x[1], x[2]) for x in seq.take_while(lambda s: s[0] == "assign")]
    w = seq.take("while")
    r["loop"] = (w[1], w[2])
    r["splits"] = [(x[1], x[2]) for x in seq.take_while(lambda s: s[0] == "assign")]
    if seq.peek()[0] != "<end>":
        raise T2Error("%s: unexpected statement before the block phase: %r" % (fn, seq.peek()[:2]))
    # block phase
    names = Names(fn)
    bseq = Seq(top[bi][1], fn)
    parse_decls(fn, bseq, names)
    rest = bseq.items[bseq.i:]
    if any(x[0] == "block" for x in rest):
        raise T2Error("%s: nested block inside the block phase" % fn)
    r["body"], _ = parse_body(fn, rest, names)
    if names.live:
        raise T2Error("%s: temporaries never freed: %r" % (fn, sorted(names.live)))
    if names.freed_wins != set(dict(names.wins)):
        raise T2Error("%s: windows never freed: %r" % (fn, sorted(set(dict(names.wins)) - names.freed_wins)))
    r["wins"], r["tmps"] = names.wins, names.tmps
    # strips
    seq = Seq(top[bi + 1:], fn)
    r["strips"] = parse_strips(fn, seq)
    s = seq.take("return")
    if s[1] != "C" or seq.peek()[0] != "<end>":
        raise T2Error("%s: routine does not end with 'return C'" % fn)
    return r


def parse_mp(scratch, fn, acc, cx):
    params, body = fn_body(scratch, "mp.c", fn)
    if params != ["C", "A", "B", "cutoff"]:
        raise T2Error("%s: unexpected parameters %r" % (fn, params))
    seq = Seq(flatten(stmts_ir(body, cx)), fn)
    r = {"acc": acc}
    r["dims"] = [(s[1], s[2]) for s in seq.take_while(lambda s: s[0] == "assign")]
    s = seq.take("if")
    if s[1][0] != "closer" or s[3]:
        raise T2Error("%s: expected the closer() test" % fn)
    r["closer_args"] = s[1][1]
    r["base"] = parse_base(fn, s[2])
    r["splits"] = [(x[1], x[2]) for x in seq.take_while(lambda s: s[0] == "assign")]
    names = Names(fn)
    parse_decls(fn, seq, names)
    if names.tmps or names.decl_only:
        raise T2Error("%s: unexpected temporaries" % fn)
    s = seq.take("sections")
    _, secs = parse_body(fn, [s], names, allow_sections=True)
    r["sections"] = secs
    r["strips"] = parse_strips(fn, seq)
    cleanup = seq.take_while(lambda s: s[0] in ("freewin", "free"))
    parse_body(fn, cleanup, names)
    if names.freed_wins != set(dict(names.wins)):
        raise T2Error("%s: windows never freed" % fn)
    s = seq.take("return")
    if s[1] != "C" or seq.peek()[0] != "<end>":
        raise T2Error("%s: routine does not end with 'return C'" % fn)
    r["wins"] = names.wins
    return r


# ------------------------------------------------------------------------------------------------
# Coq printing
def pa(a):
    t = a[0]
    if t == "ANum":
        return "(ANum %d)" % a[1]
    if t == "AVar":
        return "(AVar %s)" % a[1]
    if t == "AFld":
        return "(AFld %s %s)" % (a[1], a[2])
    if t == "AShr":
        return "(AShr %s %d)" % (pa(a[1]), a[2])
    return "(%s %s %s)" % (t, pa(a[1]), pa(a[2]))


def pb(b):
    if b[0] == "BOr":
        return "(BOr %s %s)" % (pb(b[1]), pb(b[2]))
    return "(%s %s %s)" % (b[0], pa(b[1]), pa(b[2]))


def plist(xs, indent="    "):
    if not xs:
        return "[]"
    return "[ " + (";\n" + indent + "  ").join(xs) + " ]"


def passign(l):
    return plist(["(%s, %s)" % (v, pa(a)) for v, a in l])


def pwin(w):
    p, c = w
    return "(mkwin %s %s %s %s %s)" % (p, pa(c[0]), pa(c[1]), pa(c[2]), pa(c[3]))


def qs(s):
    return '"%s"' % s


def pinstr(i):
    return "%s %s" % (i[0], " ".join(qs(x) for x in i[1:]))


def popd(o):
    return "(OWin %s)" % pwin(o[1]) if o[0] == "OWin" else "(OPar %s)" % o[1]


def pstrip(s):
    return "mkstrip %s %s\n        %s\n        %s\n        %s %s" % (
        passign(s["pre"]), pb(s["guard"]), pwin(s["dst"]), popd(s["x"]), popd(s["y"]), s["op"])


def pbstmt(b):
    t = b[0]
    if t == "BInit":
        return "BInit %s %s %s" % (qs(b[1]), pa(b[2]), pa(b[3]))
    if t == "BM4rm":
        return "BM4rm %s %s %s %s" % (qs(b[1]), qs(b[2]), qs(b[3]), "true" if b[4] else "false")
    return "%s %s" % (t, " ".join(qs(x) for x in b[1:]))


def pbase(b):
    return "mkbase %s\n      %s\n      %s" % (plist([qs(x) for x in b[0]]),
                                              plist([pbstmt(x) for x in b[1]], "      "),
                                              plist([pbstmt(x) for x in b[2]], "      "))


def emit(routines, mps, closer_s, closer_mp, radix):
    o = []
    o.append("(* Alg/StrassenGen.v — GENERATED by tools/sched_extract.py (translator T2) from m4ri/strassen.c and\n"
             "   m4ri/mp.c.  DO NOT EDIT: rerun the translator.  m4ri_radix = %d. *)" % radix)
    o.append("From Coq Require Import List NArith Arith Bool String ZArith.")
    o.append("From M4 Require Import Base.Bits Lin.Mat Lin.Ops Word.WMat Alg.Strassen.")
    o.append("Import ListNotations.\nLocal Open Scope nat_scope.\nLocal Open Scope string_scope.\n")
    names = {"Kmul": "sched_mul", "Ksqr": "sched_sqr", "Kaddmul": "sched_addmul", "Kaddsqr": "sched_addsqr"}
    for r in routines:
        nm = names[r["kind"]]
        o.append("Definition %s : sched := {|" % nm)
        o.append("  s_kind := %s;" % r["kind"])
        o.append("  s_early := %s;" % plist(["(%s, %s)" % x for x in r["early"]]))
        o.append("  s_dims := %s;" % passign(r["dims"]))
        o.append("  s_closer := %s;" % pb(closer_s))
        o.append("  s_closer_args := %s;" % plist([pa(x) for x in r["closer_args"]]))
        o.append("  s_base := %s;" % pbase(r["base"]))
        o.append("  s_pre := %s;" % passign(r["pre"]))
        o.append("  s_loop := (%s,\n    %s);" % (pb(r["loop"][0]), passign(r["loop"][1])))
        o.append("  s_splits := %s;" % passign(r["splits"]))
        o.append("  s_wins := %s;" % plist(["(%s, %s)" % (qs(n), pwin(w)) for n, w in r["wins"]]))
        o.append("  s_tmps := %s;" % plist(["(%s, (%s, %s))" % (qs(n), pa(d[0]), pa(d[1])) for n, d in r["tmps"]]))
        o.append("  s_body := %s;" % plist([pinstr(i) for i in r["body"]]))
        o.append("  s_strips := %s" % plist([pstrip(s) for s in r["strips"]]))
        o.append("|}.\n")
    mpn = {False: "sched_mp_mul", True: "sched_mp_addmul"}
    for r in mps:
        o.append("Definition %s : mpsched := {|" % mpn[r["acc"]])
        o.append("  mp_acc := %s;" % ("true" if r["acc"] else "false"))
        o.append("  mp_dims := %s;" % passign(r["dims"]))
        o.append("  mp_closer := %s;" % pb(closer_mp))
        o.append("  mp_closer_args := %s;" % plist([pa(x) for x in r["closer_args"]]))
        o.append("  mp_base := %s;" % pbase(r["base"]))
        o.append("  mp_splits := %s;" % passign(r["splits"]))
        o.append("  mp_wins := %s;" % plist(["(%s, %s)" % (qs(n), pwin(w)) for n, w in r["wins"]]))
        o.append("  mp_sections := %s;" % plist([plist([pinstr(i) for i in sec], "      ") for sec in r["sections"]]))
        o.append("  mp_strips := %s" % plist([pstrip(s) for s in r["strips"]]))
        o.append("|}.\n")
    o.append("""Definition gen_table (k : kind) : sched :=
  match k with Kmul => sched_mul | Ksqr => sched_sqr | Kaddmul => sched_addmul | Kaddsqr => sched_addsqr end.
Definition gen_mp (acc : bool) : mpsched := if acc then sched_mp_addmul else sched_mp_mul.

(** the models of strassen.c / mp.c instantiated with the generated schedules;
    [base] = _mzd_mul_m4rm(C,A,B,0,clear), [dflt] = __M4RI_STRASSEN_MUL_CUTOFF *)
Definition strassen_gen base dflt := strassen base dflt gen_table.
Definition mzd_mul_gen base dflt := mzd_mul_model base dflt gen_table.
Definition mzd_addmul_gen base dflt := mzd_addmul_model base dflt gen_table.
Definition _mzd_addmul_gen base dflt := _mzd_addmul_model base dflt gen_table.
Definition mp4_gen base dflt := mp4 base dflt gen_table gen_mp.
Definition mzd_mul_mp_gen base dflt := mzd_mul_mp_model base dflt gen_table gen_mp.
Definition mzd_addmul_mp_gen base dflt := mzd_addmul_mp_model base dflt gen_table gen_mp.

Lemma sched_kinds : forall k, s_kind (gen_table k) = k.
Proof. intros []; reflexivity. Qed.
Lemma sched_mp_accs : forall b, mp_acc (gen_mp b) = b.
Proof. intros []; reflexivity. Qed.

Lemma sched_mul_ok : check_sched sched_mul = true. Proof. vm_compute. reflexivity. Qed.
Lemma sched_sqr_ok : check_sched sched_sqr = true. Proof. vm_compute. reflexivity. Qed.
Lemma sched_addmul_ok : check_sched sched_addmul = true. Proof. vm_compute. reflexivity. Qed.
Lemma sched_addsqr_ok : check_sched sched_addsqr = true. Proof. vm_compute. reflexivity. Qed.
Lemma sched_mp_mul_ok : check_mp sched_mp_mul = true. Proof. vm_compute. reflexivity. Qed.
Lemma sched_mp_addmul_ok : check_mp sched_mp_addmul = true. Proof. vm_compute. reflexivity. Qed.""")
    return "\n".join(o) + "\n"


# ------------------------------------------------------------------------------------------------
def prepare_scratch(repo, scratch):
    src = os.path.join(repo, "m4ri")
    dst = os.path.join(scratch, "m4ri")
    os.makedirs(dst)
    for pat in ("*.c", "*.h", "*.in"):
        for f in glob.glob(os.path.join(src, pat)):
            shutil.copy(f, dst)
    cfg = os.path.join(dst, "m4ri_config.h")
    if os.path.exists(cfg):
        txt = open(cfg).read()
    elif os.path.exists(cfg + ".in"):
        txt = re.sub(r"@[A-Za-z0-9_]+@", "0", open(cfg + ".in").read())
    else:
        raise T2Error("no m4ri/m4ri_config.h(.in) under %s" % repo)
    txt, n = re.subn(r"(#define\s+__M4RI_HAVE_OPENMP\s+)\S+", r"\g<1>1", txt)
    if n != 1:
        raise T2Error("cannot switch __M4RI_HAVE_OPENMP on in m4ri_config.h")
    txt = re.sub(r"(#define\s+__M4RI_HAVE_SSE2\s+)\S+", r"\g<1>0", txt)
    open(cfg, "w").write(txt)


def main():
    ap = argparse.ArgumentParser()
    ap.add_argument("--repo", default="/repo")
    ap.add_argument("--out", default="/verif/coq/Alg/StrassenGen.v")
    a = ap.parse_args()
    os.makedirs("/var/tmp", exist_ok=True)
    scratch = tempfile.mkdtemp(prefix="t2-", dir="/var/tmp")
    try:
        prepare_scratch(a.repo, scratch)
        radix = radix_value(scratch)
        cx = Ctx(radix)
        closer_s = parse_closer(scratch, "strassen.c", cx)
        closer_mp = parse_closer(scratch, "mp.c", cx)
        routines = [parse_strassen(scratch, fn, kind, cx) for fn, kind in FUNCS]
        mps = [parse_mp(scratch, fn, acc, cx) for fn, acc in MPFUNCS]
        text = emit(routines, mps, closer_s, closer_mp, radix)
    except T2Error as e:
        sys.stderr.write("sched_extract: REFUSED: %s\n" % e)
        return 2
    finally:
        shutil.rmtree(scratch, ignore_errors=True)
    old = open(a.out).read() if os.path.exists(a.out) else None
    if old != text:
        tmp = a.out + ".tmp%d" % os.getpid()
        open(tmp, "w").write(text)
        os.replace(tmp, a.out)
        print("sched_extract: wrote %s" % a.out)
    else:
        print("sched_extract: %s unchanged" % a.out)
    return 0


if __name__ == "__main__":
    sys.exit(main())
