#!/usr/bin/env python3
"""Translator T3 (C20): allocation call sites of /repo's working tree -> coq/Sys/GenSites.v

METHOD.  clang 14 JSON AST (`clang -fsyntax-only -Xclang -ast-dump=json`) of every m4ri/*.c of the
*current working tree* (vlib.copy_tree()), under three instantiations of m4ri_config.h so that every
`#if` branch that holds an allocation is parsed once:

    mm : __M4RI_USE_MM_MALLOC       sse2=1 have_mm_malloc=1              caches on,  no OpenMP
    pm : __M4RI_USE_POSIX_MEMALIGN  sse2=1 have_mm_malloc=0              caches off (thread-safe build)
    pl : plain malloc/calloc        sse2=0                               OpenMP on (header cache off)

The union of the sites seen (keyed by file, line, column, callee) is the table.  Completeness of
that union is cross-checked *lexically*: every occurrence of an allocator name followed by `(` in
m4ri/*.{c,h} (comments, strings and `#if 0` regions blanked) must be either the declarator of a
wrapper function or a site seen in some AST; an occurrence the ASTs never saw (an `#if` branch no
configuration enables) becomes a site of class `unclassified`, which no theorem accepts.

NAMES.  raw allocators: malloc calloc realloc reallocarray _mm_malloc posix_memalign aligned_alloc
memalign valloc pvalloc strdup strndup asprintf vasprintf; wrappers: m4ri_mm_malloc m4ri_mm_calloc
m4ri_mm_malloc_aligned m4ri_mmc_malloc m4ri_mmc_calloc.  A reference to one of these names that is
not the callee of a call (address taken, passed as a function pointer) is a site of class
raw_unchecked.

CLASSIFICATION (purely syntactic, decided per site):
  via_wrapper    the callee is one of the five wrappers.
  raw_checked    the callee is a raw allocator, the call is the right-hand side of an assignment /
                 initialisation that is itself a statement of a block `{ ... }` (casts and parentheses
                 ignored; `*X = (T){ .f = call }` counts as an assignment to `X->f`; for
                 `R = posix_memalign(&V, ..)` the next statement must be `if (R) V = NULL;` or
                 `if (R) m4ri_die(..)` and V is the result), giving a result lvalue L, and scanning
                 the statements that FOLLOW in the same block, the first one that mentions L at all is
                     if (COND) m4ri_die(...);      or   if (COND) { m4ri_die(...); ... }
                 where COND is `L == NULL`, `NULL == L`, `!L`, a disjunction one of whose disjuncts
                 is such a test, or `L == NULL && (SZ > 0)` with SZ textually the size argument of the
                 call (then the site gets guard=true: the check is void for a zero-size request;
                 Fault.v proves what that means).  The form `if ((L = call) == NULL) m4ri_die(..)` /
                 `if (!(L = call)) m4ri_die(..)` is accepted as well.
  raw_unchecked  every other raw site: result discarded, returned, passed on, used before the check,
                 checked by something that does not call m4ri_die, or never checked in its block.
                 DECISION: "returns an error that the caller checks" is NOT accepted -- the property
                 demands the library's error handler, and no caller in the tree checks anything.
  unclassified   lexical occurrence not present in any AST (see above).

WRAPPER BODIES.  For m4ri_mm_malloc / m4ri_mm_calloc / m4ri_mm_malloc_aligned and each of mm/pm/pl
the function body is translated statement by statement into the tiny language `wstmt` of
Sys/FaultTypes.v (system request, null test with or without size guard, memset, return; anything
else becomes WUnknown and fails `wf_body`), so that `wrappers_die` is a theorem about the text of
misc.h of this tree, not about a transcription.  For m4ri_mmc_malloc the list of `return`
expressions per configuration is classified (cached block / call of m4ri_mm_malloc(size) / other).

KNOWN EXCEPTIONS.  Entries of known_findings.json ($VERIF_KNOWN overrides the path) with
property C20, status known and keys file/function/callee are copied into `known_exceptions`;
`sites_ok_except` accepts a non-ok site only if (file, function, callee) is listed -- never by line.
"""
import json, os, re, shutil, subprocess, sys
from concurrent.futures import ProcessPoolExecutor

sys.path.insert(0, os.path.dirname(os.path.abspath(__file__)))
import vlib

RAW = ["malloc", "calloc", "realloc", "reallocarray", "_mm_malloc", "posix_memalign", "aligned_alloc", "memalign",
       "valloc", "pvalloc", "strdup", "strndup", "asprintf", "vasprintf"]
WRAPPERS = ["m4ri_mm_malloc", "m4ri_mm_calloc", "m4ri_mm_malloc_aligned", "m4ri_mmc_malloc", "m4ri_mmc_calloc"]
WRAPPER_DEFS = ["m4ri_mm_malloc", "m4ri_mm_calloc", "m4ri_mm_malloc_aligned"]
NAMES = set(RAW) | set(WRAPPERS)
# index of the size argument (for the `&& size > 0` guard); None = no single size argument
SIZE_ARG = {"malloc": 0, "realloc": 1, "_mm_malloc": 0, "posix_memalign": 2, "aligned_alloc": 1, "memalign": 1,
            "valloc": 0, "pvalloc": 0}
CONFIGS = ["mm", "pm", "pl"]
DIE = "m4ri_die"


def known_path():
    return os.environ.get("VERIF_KNOWN") or os.path.join(vlib.VERIF, "known_findings.json")


def known_entries():
    p = known_path()
    if not os.path.exists(p):
        return []
    return [e for e in json.load(open(p)) if e.get("property") == "C20" and e.get("status") == "known"]


# ----------------------------------------------------------------------------------------------
# configurations
# ----------------------------------------------------------------------------------------------
def _make_cfg_tree(name, base):
    tree = vlib.copy_tree()
    d = os.path.join(base, name)
    if os.path.isdir(d):
        shutil.rmtree(d)
    shutil.copytree(tree, d)
    if name == "mm":
        v = vlib.variant(sse2=1)
    elif name == "pm":
        v = vlib.variant(sse2=1, threadsafe=1)
    else:
        v = vlib.variant(sse2=0, openmp=1)
    txt = vlib._config_h(tree, v)
    if name == "pm":
        txt, n = re.subn(r"(#define\s+__M4RI_HAVE_MM_MALLOC\s+)1", r"\g<1>0", txt)
        if n != 1:
            raise vlib.BuildError("m4ri_config.h.in: cannot instantiate the posix_memalign variant")
    with open(os.path.join(d, "m4ri", "m4ri_config.h"), "w") as fh:
        fh.write(txt)
    flags = ["-std=gnu99", "-w", "-I.", "-I/usr/include/libpng16", "-DNDEBUG"]
    if name in ("mm", "pm"):
        flags.append("-msse2")
    else:
        flags.append("-fopenmp")
    return d, flags


# ----------------------------------------------------------------------------------------------
# AST helpers
# ----------------------------------------------------------------------------------------------
class Locs:
    """Undo clang's delta encoding of file/line in JSON locations (keys are visited in document order)."""

    def __init__(self):
        self.file, self.line = "", 0

    def bare(self, d):
        if "file" in d:
            self.file = d["file"]
        if "line" in d:
            self.line = d["line"]
        d["_f"], d["_l"] = self.file, self.line

    def loc(self, d):
        if not isinstance(d, dict):
            return
        if "spellingLoc" in d or "expansionLoc" in d:
            if "spellingLoc" in d:
                self.bare(d["spellingLoc"])
            if "expansionLoc" in d:
                self.bare(d["expansionLoc"])
        elif d:
            self.bare(d)

    def walk(self, n):
        if isinstance(n, dict):
            for k, v in n.items():
                if k == "loc":
                    self.loc(v)
                elif k == "range":
                    self.loc(v.get("begin"))
                    self.loc(v.get("end"))
                elif k == "inner":
                    for c in v:
                        self.walk(c)
                elif isinstance(v, (dict, list)) and k not in ("type", "referencedDecl", "decl", "ownedTagDecl"):
                    self.walk(v)
        elif isinstance(n, list):
            for c in n:
                self.walk(c)


def where(n):
    """(file, line, col) where the node is written in the source (expansion location)."""
    b = (n.get("range") or {}).get("begin") or {}
    if "expansionLoc" in b:
        b = b["expansionLoc"]
    f = os.path.normpath(b.get("_f", "")) if b.get("_f") else ""
    return f, b.get("_l", 0), b.get("col", 0)


TRANSPARENT = ("ImplicitCastExpr", "ParenExpr", "CStyleCastExpr", "ConstantExpr")


def strip(n):
    while isinstance(n, dict) and n.get("kind") in TRANSPARENT and n.get("inner"):
        n = n["inner"][-1]
    return n


def is_null(n):
    n0 = n
    while isinstance(n, dict) and n.get("kind") in TRANSPARENT and n.get("inner"):
        n = n["inner"][-1]
    return isinstance(n, dict) and n.get("kind") == "IntegerLiteral" and n.get("value") == "0" or \
        (isinstance(n, dict) and n.get("kind") == "GNUNullExpr")


def key(n):
    """Canonical text of an lvalue-ish expression; None when not expressible."""
    n = strip(n)
    if not isinstance(n, dict):
        return None
    k = n.get("kind")
    if k == "DeclRefExpr":
        return n.get("referencedDecl", {}).get("name")
    if k == "MemberExpr":
        b = key(n["inner"][0])
        return None if b is None else b + ("->" if n.get("isArrow") else ".") + n.get("name", "?")
    if k == "UnaryOperator" and n.get("opcode") in ("*", "&"):
        b = key(n["inner"][0])
        if b is None:
            return None
        return n["opcode"] + "(" + b + ")"
    if k == "ArraySubscriptExpr":
        a, b = key(n["inner"][0]), key(n["inner"][1])
        return None if a is None or b is None else "%s[%s]" % (a, b)
    if k == "IntegerLiteral":
        return n.get("value")
    if k == "BinaryOperator":
        a, b = key(n["inner"][0]), key(n["inner"][1])
        return None if a is None or b is None else "(%s%s%s)" % (a, n.get("opcode"), b)
    if k == "UnaryExprOrTypeTraitExpr":
        t = n.get("argType", {}).get("qualType")
        if t is None and n.get("inner"):
            t = key(n["inner"][0])
        return "%s(%s)" % (n.get("name", "sizeof"), t)
    return None


def callee_name(call):
    if call.get("kind") != "CallExpr" or not call.get("inner"):
        return None
    c = strip(call["inner"][0])
    if isinstance(c, dict) and c.get("kind") == "DeclRefExpr":
        return c.get("referencedDecl", {}).get("name")
    return None


def subnodes(n):
    if isinstance(n, dict):
        yield n
        for c in n.get("inner", []):
            for x in subnodes(c):
                yield x


def mentions(stmt, L):
    for e in subnodes(stmt):
        if e.get("kind") in ("DeclRefExpr", "MemberExpr", "UnaryOperator", "ArraySubscriptExpr") and key(e) == L:
            return True
    return False


def is_die_stmt(s):
    s = strip(s)
    if not isinstance(s, dict):
        return False
    if s.get("kind") == "CallExpr":
        return callee_name(s) == DIE
    if s.get("kind") == "CompoundStmt" and s.get("inner"):
        return is_die_stmt(s["inner"][0])
    return False


def null_test(cond, L, size_key):
    """Does `cond` hold whenever L is NULL?  Returns None (no) | 'plain' | 'guard' (only when size > 0)."""
    c = strip(cond)
    if not isinstance(c, dict):
        return None
    k = c.get("kind")
    if k == "BinaryOperator" and c.get("opcode") == "==":
        a, b = c["inner"]
        if (key(a) == L and is_null(b)) or (key(b) == L and is_null(a)):
            return "plain"
        return None
    if k == "UnaryOperator" and c.get("opcode") == "!":
        return "plain" if key(c["inner"][0]) == L else None
    if k == "BinaryOperator" and c.get("opcode") == "||":
        r = [null_test(x, L, size_key) for x in c["inner"]]
        if "plain" in r:
            return "plain"
        if "guard" in r:
            return "guard"
        return None
    if k == "BinaryOperator" and c.get("opcode") == "&&":
        a, b = c["inner"]
        for x, y in ((a, b), (b, a)):
            if null_test(x, L, size_key) == "plain":
                g = strip(y)
                if (size_key is not None and isinstance(g, dict) and g.get("kind") == "BinaryOperator"
                        and g.get("opcode") == ">" and key(g["inner"][0]) == size_key and key(g["inner"][1]) == "0"):
                    return "guard"
        return None
    return None


def nonzero_test(cond, R):
    c = strip(cond)
    if key(c) == R:
        return True
    if isinstance(c, dict) and c.get("kind") == "BinaryOperator" and c.get("opcode") == "!=":
        a, b = c["inner"]
        return (key(a) == R and key(b) == "0") or (key(b) == R and key(a) == "0")
    return False


def if_parts(s):
    """(cond, then, else) of an IfStmt (C: no init/condvar)."""
    inner = s.get("inner", [])
    cond = inner[0] if inner else None
    then = inner[1] if len(inner) > 1 else None
    els = inner[2] if len(inner) > 2 else None
    return cond, then, els


def assign_target(stmt, call, records):
    """If `stmt` is `L = call`, `T L = call` or `*X = (T){.f = call}`: the key of the lvalue that
    receives the result, else None."""
    s = stmt
    if s.get("kind") == "DeclStmt":
        for v in s.get("inner", []):
            if v.get("kind") == "VarDecl" and v.get("inner") and strip(v["inner"][-1]) is call:
                return v.get("name")
        return None
    s = strip(s)
    if s.get("kind") == "BinaryOperator" and s.get("opcode") == "=":
        lhs, rhs = s["inner"]
        r = strip(rhs)
        if r is call:
            return key(lhs)
        if isinstance(r, dict) and r.get("kind") == "CompoundLiteralExpr" and r.get("inner"):
            il = strip(r["inner"][0])
            if il.get("kind") == "InitListExpr":
                t = il.get("type", {})
                tn = t.get("desugaredQualType") or t.get("qualType") or ""
                tn = re.sub(r"^(const\s+)?(struct|union)\s+", "", tn).strip()
                fields = records.get(tn)
                for j, c in enumerate(il.get("inner", [])):
                    if strip(c) is call and fields and j < len(fields):
                        l0 = strip(lhs)
                        if l0.get("kind") == "UnaryOperator" and l0.get("opcode") == "*":
                            b = key(l0["inner"][0])
                            return None if b is None else b + "->" + fields[j]
                        b = key(l0)
                        return None if b is None else b + "." + fields[j]
    return None


def classify_raw(call, name, block, idx, records):
    """block: list of statements of the enclosing CompoundStmt, idx: index of the statement that
    contains the call.  Returns (class, guard, note)."""
    stmt = block[idx]
    args = call.get("inner", [])[1:]
    size_key = key(args[SIZE_ARG[name]]) if name in SIZE_ARG and SIZE_ARG[name] < len(args) else None
    rest = block[idx + 1:]
    # if ((L = call) == NULL) die   /   if (!(L = call)) die
    if stmt.get("kind") == "IfStmt":
        cond, then, _ = if_parts(stmt)
        c = strip(cond)
        asg = None
        if isinstance(c, dict) and c.get("kind") == "BinaryOperator" and c.get("opcode") == "==":
            a, b = c["inner"]
            asg = strip(a) if is_null(b) else strip(b) if is_null(a) else None
        elif isinstance(c, dict) and c.get("kind") == "UnaryOperator" and c.get("opcode") == "!":
            asg = strip(c["inner"][0])
        if (isinstance(asg, dict) and asg.get("kind") == "BinaryOperator" and asg.get("opcode") == "="
                and strip(asg["inner"][1]) is call and name != "posix_memalign" and is_die_stmt(then)):
            return "raw_checked", False, "tested in the condition"
        if name == "posix_memalign" and (strip(cond) is call or (
                isinstance(c, dict) and c.get("kind") == "BinaryOperator" and c.get("opcode") == "!=" and
                strip(c["inner"][0]) is call and key(c["inner"][1]) == "0")) and is_die_stmt(then):
            return "raw_checked", False, "error code tested in the condition"
        return "raw_unchecked", False, "call inside an if condition that is not a recognised null test"
    if name == "posix_memalign":
        R = assign_target(stmt, call, records)
        a0 = strip(args[0]) if args else None
        V = None
        if isinstance(a0, dict) and a0.get("kind") == "UnaryOperator" and a0.get("opcode") == "&":
            V = key(a0["inner"][0])
        if R is None or V is None or not rest or rest[0].get("kind") != "IfStmt":
            return "raw_unchecked", False, "posix_memalign: error code not tested by the next statement"
        cond, then, els = if_parts(rest[0])
        if not nonzero_test(cond, R):
            return "raw_unchecked", False, "posix_memalign: error code not tested by the next statement"
        if is_die_stmt(then):
            return "raw_checked", False, "error code -> m4ri_die"
        t = strip(then)
        if isinstance(t, dict) and t.get("kind") == "CompoundStmt" and len(t.get("inner", [])) == 1:
            t = strip(t["inner"][0])
        if not (isinstance(t, dict) and t.get("kind") == "BinaryOperator" and t.get("opcode") == "=" and
                key(t["inner"][0]) == V and is_null(t["inner"][1]) and els is None):
            return "raw_unchecked", False, "posix_memalign: failure not normalised to NULL"
        L, rest = V, rest[1:]
    else:
        L = assign_target(stmt, call, records)
        if L is None:
            return "raw_unchecked", False, "result is not assigned to an lvalue by a statement of a block"
    for s in rest:
        if s.get("kind") == "IfStmt":
            cond, then, _ = if_parts(s)
            t = null_test(cond, L, size_key)
            if t and is_die_stmt(then):
                return "raw_checked", t == "guard", "checked: " + L
        if mentions(s, L):
            return "raw_unchecked", False, "%s is used before any null test that reaches m4ri_die" % L
    return "raw_unchecked", False, "%s is never tested in its block" % L


# ----------------------------------------------------------------------------------------------
# wrapper bodies -> wstmt
# ----------------------------------------------------------------------------------------------
SYSFN = {"_mm_malloc": "SMmMalloc", "posix_memalign": "SPosixMemalign", "calloc": "SCalloc", "malloc": "SMalloc"}


def translate_wrapper(body, records):
    """list of wstmt constructor strings for the statements of a wrapper body."""
    out = []
    stmts = list(body.get("inner", []))
    i = 0
    var = None
    aliases = set()

    def unknown(s, why):
        f, l, c = where(s)
        return 'WUnknown "%s line %d"' % (why, l)

    while i < len(stmts):
        s = stmts[i]
        k = s.get("kind")
        calls = [e for e in subnodes(s) if e.get("kind") == "CallExpr"]
        names = [callee_name(c) for c in calls]
        if k == "DeclStmt" and not calls:
            vds = [v for v in s.get("inner", []) if v.get("kind") == "VarDecl"]
            if all(not v.get("inner") for v in vds):
                i += 1
                continue  # declaration without initialiser
            if len(vds) == 1 and var is not None and key(vds[0]["inner"][-1]) == var:
                aliases.add(vds[0]["name"])
                out.append("WAlias")
                i += 1
                continue
            out.append(unknown(s, "declaration"))
            i += 1
            continue
        if len(calls) == 1 and names[0] in SYSFN and k in ("DeclStmt", "BinaryOperator"):
            call, nm = calls[0], names[0]
            if nm == "posix_memalign":
                R = assign_target(s, call, records)
                a0 = strip(call["inner"][1])
                V = key(a0["inner"][0]) if a0.get("kind") == "UnaryOperator" and a0.get("opcode") == "&" else None
                nxt = stmts[i + 1] if i + 1 < len(stmts) else None
                ok = False
                if R and V and nxt is not None and nxt.get("kind") == "IfStmt":
                    cond, then, els = if_parts(nxt)
                    t = strip(then)
                    if (nonzero_test(cond, R) and els is None and isinstance(t, dict) and t.get("kind") == "BinaryOperator"
                            and t.get("opcode") == "=" and key(t["inner"][0]) == V and is_null(t["inner"][1])):
                        ok = True
                if ok:
                    var = V
                    out.append("WSys SPosixMemalign")
                    i += 2
                    continue
                out.append(unknown(s, "posix_memalign without normalisation to NULL"))
                i += 1
                continue
            L = assign_target(s, call, records)
            if L is None:
                out.append(unknown(s, "allocator result not assigned"))
            else:
                var = L
                out.append("WSys " + SYSFN[nm])
            i += 1
            continue
        if k == "IfStmt" and var is not None:
            cond, then, els = if_parts(s)
            t = null_test(cond, var, "size")
            if t and is_die_stmt(then):
                out.append("WIfNullDie %s" % ("true" if t == "guard" else "false"))
                if els is not None:
                    e = strip(els)
                    if e.get("kind") == "CompoundStmt" and len(e.get("inner", [])) == 1:
                        e = strip(e["inner"][0])
                    if e.get("kind") == "ReturnStmt" and e.get("inner") and key(e["inner"][0]) == var:
                        out.append("WReturn")
                    else:
                        out.append(unknown(els, "else branch"))
                i += 1
                continue
            out.append(unknown(s, "if"))
            i += 1
            continue
        if k == "CallExpr" and callee_name(s) == "memset" and var is not None:
            a = s["inner"][1:]
            if len(a) == 3 and key(a[0]) in ({var} | aliases) and key(a[1]) == "0":
                out.append("WMemset")
                i += 1
                continue
            out.append(unknown(s, "memset"))
            i += 1
            continue
        if k == "ReturnStmt" and var is not None and s.get("inner") and key(s["inner"][0]) == var:
            out.append("WReturn")
            i += 1
            continue
        out.append(unknown(s, "statement"))
        i += 1
    return out


def mmc_returns(fn):
    """Classify the return expressions of m4ri_mmc_malloc."""
    body = [c for c in fn.get("inner", []) if c.get("kind") == "CompoundStmt"][0]
    param = [c.get("name") for c in fn.get("inner", []) if c.get("kind") == "ParmVarDecl"]
    assigns = {}
    for e in subnodes(body):
        if e.get("kind") == "BinaryOperator" and e.get("opcode") == "=":
            l = key(e["inner"][0])
            assigns.setdefault(l, []).append(e["inner"][1])
        if e.get("kind") == "VarDecl" and e.get("inner"):
            assigns.setdefault(e.get("name"), []).append(e["inner"][-1])
    out = []
    for e in subnodes(body):
        if e.get("kind") != "ReturnStmt" or not e.get("inner"):
            continue
        r = strip(e["inner"][0])
        if r.get("kind") == "CallExpr" and callee_name(r) == "m4ri_mm_malloc" and len(r["inner"]) == 2 and \
                param and key(r["inner"][1]) == param[0]:
            out.append("MRWrapper")
        elif r.get("kind") == "DeclRefExpr":
            v = key(r)
            srcs = assigns.get(v, [])
            good = bool(srcs) and all(is_null(x) or (strip(x).get("kind") == "MemberExpr" and strip(x).get("name") == "data")
                                      for x in srcs)
            out.append("MRCacheVar" if good else "MROther")
        else:
            out.append("MROther")
    return out


# ----------------------------------------------------------------------------------------------
# one translation unit
# ----------------------------------------------------------------------------------------------
def scan_tu(args):
    cfgdir, flags, src, cfg = args
    p = subprocess.run(["clang", "-fsyntax-only", "-Xclang", "-ast-dump=json"] + flags + [src], cwd=cfgdir,
                       stdout=subprocess.PIPE, stderr=subprocess.PIPE)
    if p.returncode != 0:
        return dict(error="clang failed on %s (%s): %s" % (src, cfg, p.stderr.decode(errors="replace")[-1500:]))
    ast = json.loads(p.stdout)
    del p
    Locs().walk(ast)
    records, by_id, typedefs = {}, {}, []
    for n in subnodes(ast):
        k = n.get("kind")
        if k == "RecordDecl" and n.get("completeDefinition"):
            fs = [c.get("name") for c in n.get("inner", []) if c.get("kind") == "FieldDecl"]
            by_id[n.get("id")] = fs
            if n.get("name"):
                records[n["name"]] = fs
        elif k == "TypedefDecl" and n.get("inner"):
            typedefs.append(n)
    for n in typedefs:   # typedef struct {...} name;
        for t in subnodes(n):
            od = t.get("ownedTagDecl") or t.get("decl")
            if isinstance(od, dict) and od.get("kind") == "RecordDecl":
                if od.get("id") in by_id:
                    records.setdefault(n.get("name"), by_id[od["id"]])
                break
    sites, decls, wrappers, mmc = [], [], {}, None
    for fn in ast.get("inner", []):
        if fn.get("kind") != "FunctionDecl":
            continue
        f, l, c = where(fn)
        if not f.startswith("m4ri/"):
            continue
        if fn.get("name") in NAMES:
            lf = fn.get("loc", {})
            lf = lf.get("expansionLoc", lf)
            decls.append((os.path.normpath(lf.get("_f", f)), lf.get("_l", l)))
        bodies = [x for x in fn.get("inner", []) if x.get("kind") == "CompoundStmt"]
        if not bodies:
            continue
        body = bodies[0]
        if fn.get("name") in WRAPPER_DEFS:
            wrappers[fn["name"]] = translate_wrapper(body, records)
        if fn.get("name") == "m4ri_mmc_malloc":
            mmc = mmc_returns(fn)
        consumed = set()

        def visit(n, block, idx):
            if not isinstance(n, dict):
                return
            k = n.get("kind") or ""
            if k == "CallExpr":
                nm = callee_name(n)
                if nm in NAMES:
                    consumed.add(id(strip(n["inner"][0])))
                    sf, sl, sc = where(n)
                    if nm in WRAPPERS:
                        cls, guard, note = "via_wrapper", False, ""
                    elif block is None:
                        cls, guard, note = "raw_unchecked", False, "not inside a block statement"
                    else:
                        cls, guard, note = classify_raw(n, nm, block, idx, records)
                    sites.append(dict(file=sf, line=sl, col=sc, function=fn.get("name"), callee=nm, cls=cls,
                                      guard=guard, note=note, cfg=cfg))
            elif k == "DeclRefExpr" and n.get("referencedDecl", {}).get("name") in NAMES and id(n) not in consumed:
                sf, sl, sc = where(n)
                sites.append(dict(file=sf, line=sl, col=sc, function=fn.get("name"),
                                  callee=n["referencedDecl"]["name"], cls="raw_unchecked", guard=False,
                                  note="allocator referenced without being called (function pointer)", cfg=cfg))
            if k == "CompoundStmt":
                ch = n.get("inner", [])
                for j, c2 in enumerate(ch):
                    visit(c2, ch, j)
            elif k in ("IfStmt", "ForStmt", "WhileStmt", "DoStmt", "SwitchStmt", "CaseStmt", "DefaultStmt", "LabelStmt",
                       "AttributedStmt", "CapturedStmt", "CapturedDecl") or k.startswith("OMP"):
                ch = n.get("inner", [])
                for j, c2 in enumerate(ch):
                    if k == "IfStmt" and j == 0 and block is not None:
                        visit(c2, block, idx)   # call inside the condition: classify against the if statement
                    elif c2.get("kind") == "CompoundStmt":
                        visit(c2, None, 0)
                    else:
                        # a single statement used as a body: its own one-statement block
                        visit(c2, [c2], 0)
            else:
                for c2 in n.get("inner", []):
                    visit(c2, block, idx)

        visit(body, None, 0)
    return dict(sites=sites, decls=decls, wrappers=wrappers, mmc=mmc, cfg=cfg, src=src)


# ----------------------------------------------------------------------------------------------
# lexical cross-check
# ----------------------------------------------------------------------------------------------
def blank_noise(txt):
    """Blank comments, string/char literals and `#if 0` regions, keeping line structure."""
    out = list(txt)

    def blank(a, b):
        for j in range(a, b):
            if out[j] != "\n":
                out[j] = " "

    i, n = 0, len(txt)
    while i < n:
        if txt.startswith("/*", i):
            j = txt.find("*/", i + 2)
            j = n if j < 0 else j + 2
            blank(i, j)
            i = j
        elif txt.startswith("//", i):
            j = txt.find("\n", i)
            j = n if j < 0 else j
            blank(i, j)
            i = j
        elif txt[i] in "\"'":
            q = txt[i]
            j = i + 1
            while j < n and txt[j] != q and txt[j] != "\n":
                j += 2 if txt[j] == "\\" else 1
            blank(i + 1, min(j, n))
            i = j + 1
        else:
            i += 1
    s = "".join(out)
    lines = s.split("\n")
    depth0 = None
    depth = 0
    for k, line in enumerate(lines):
        m = re.match(r"\s*#\s*(if|ifdef|ifndef|else|elif|endif)\b(.*)", line)
        if m:
            d = m.group(1)
            if d in ("if", "ifdef", "ifndef"):
                depth += 1
                if depth0 is None and d == "if" and m.group(2).strip() == "0":
                    depth0 = depth
                    continue
            elif d in ("else", "elif"):
                if depth0 is not None and depth == depth0:
                    depth0 = None
            elif d == "endif":
                if depth0 is not None and depth == depth0:
                    depth0 = None
                depth -= 1
        if depth0 is not None:
            lines[k] = ""
    return lines


def lexical_hits(tree):
    pat = re.compile(r"(?<![A-Za-z0-9_])(%s)\s*\(" % "|".join(sorted(NAMES, key=len, reverse=True)))
    hits = []
    for f in sorted(os.listdir(os.path.join(tree, "m4ri"))):
        if not f.endswith((".c", ".h")) or f in ("m4ri_config.h", "config.h"):
            continue
        lines = blank_noise(open(os.path.join(tree, "m4ri", f), errors="replace").read())
        for ln, line in enumerate(lines, 1):
            for m in pat.finditer(line):
                hits.append(("m4ri/" + f, ln, m.group(1)))
    return hits


# ----------------------------------------------------------------------------------------------
# driver
# ----------------------------------------------------------------------------------------------
def collect():
    base = os.path.join(vlib.scratch(), "t3")
    os.makedirs(base, exist_ok=True)
    jobs = []
    for cfg in CONFIGS:
        d, flags = _make_cfg_tree(cfg, base)
        for f in sorted(os.listdir(os.path.join(d, "m4ri"))):
            if f.endswith(".c"):
                jobs.append((d, flags, "m4ri/" + f, cfg))
    with ProcessPoolExecutor(max_workers=vlib.NPROC) as ex:
        results = list(ex.map(scan_tu, jobs))
    problems = [r["error"] for r in results if "error" in r]
    results = [r for r in results if "error" not in r]
    sites = {}
    decls = set()
    wrappers = {}   # (cfg, name) -> list of wstmt
    mmc = {}
    for r in results:
        decls.update(r["decls"])
        for s in r["sites"]:
            k = (s["file"], s["line"], s["col"], s["callee"])
            if k in sites:
                o = sites[k]
                o["cfgs"].add(s["cfg"])
                if o["cls"] != s["cls"]:      # the same token classified differently: keep the worse
                    order = ["via_wrapper", "raw_checked", "raw_unchecked"]
                    if order.index(s["cls"]) > order.index(o["cls"]):
                        o.update(cls=s["cls"], note=s["note"], guard=s["guard"])
            else:
                s = dict(s)
                s["cfgs"] = {s.pop("cfg")}
                sites[k] = s
        for nm, b in r["wrappers"].items():
            prev = wrappers.get((r["cfg"], nm))
            if prev is not None and prev != b:
                problems.append("wrapper %s translated differently in two translation units (%s)" % (nm, r["cfg"]))
            wrappers[(r["cfg"], nm)] = b
        if r["mmc"] is not None:
            mmc[r["cfg"]] = r["mmc"]
    seen = {(s["file"], s["line"], s["callee"]) for s in sites.values()}
    tree = vlib.copy_tree()
    for f, ln, nm in lexical_hits(tree):
        if (f, ln, nm) in seen or (f, ln) in decls:
            continue
        sites[(f, ln, 0, nm)] = dict(file=f, line=ln, col=0, function="?", callee=nm, cls="unclassified", guard=False,
                                     note="seen lexically, in no AST (no configuration enables this branch)", cfgs=set())
    out = sorted(sites.values(), key=lambda s: (s["file"], s["line"], s["col"], s["callee"]))
    for cfg in CONFIGS:
        for nm in WRAPPER_DEFS:
            if (cfg, nm) not in wrappers:
                problems.append("wrapper %s not found in configuration %s" % (nm, cfg))
                wrappers[(cfg, nm)] = ['WUnknown "function not found"']
        if cfg not in mmc:
            problems.append("m4ri_mmc_malloc not found in configuration %s" % cfg)
            mmc[cfg] = ["MROther"]
    return out, wrappers, mmc, problems


def coq_str(s):
    return '"' + s.replace('"', '""') + '"'


CLS = {"via_wrapper": "ViaWrapper", "raw_checked": "RawChecked", "raw_unchecked": "RawUnchecked",
       "unclassified": "Unclassified"}
VAR = {"mm": "VMmMalloc", "pm": "VPosixMemalign", "pl": "VPlain"}
WK = {"m4ri_mm_malloc": "WMalloc", "m4ri_mm_calloc": "WCalloc", "m4ri_mm_malloc_aligned": "WAligned"}


def render(sites, wrappers, mmc, known):
    L = []
    L.append("(* GENERATED by tools/alloc_sites.py from the working tree of the C library -- do not edit.")
    L.append("   Allocation call sites of m4ri/*.{c,h} (clang JSON AST, three configurations + lexical")
    L.append("   completeness check), the wrapper bodies of misc.h as wstmt lists, the return routes of")
    L.append("   m4ri_mmc_malloc, and the C20 exceptions copied from known_findings.json. *)")
    L.append("From Coq Require Import String List NArith.")
    L.append("From M4 Require Import Sys.FaultTypes.")
    L.append("Import ListNotations.")
    L.append("Open Scope string_scope.")
    L.append("Open Scope N_scope.")
    L.append("")
    L.append("Definition sites : list site := [")
    rows = []
    for s in sites:
        rows.append("  mk_site %s %d %s %s %s %s" % (coq_str(s["file"]), s["line"], coq_str(s["function"] or "?"),
                                                 coq_str(s["callee"]), CLS[s["cls"]], "true" if s["guard"] else "false"))
    L.append(";\n".join(rows))
    L.append("].")
    L.append("")
    L.append("(* why a raw site was classified the way it was")
    for s in sites:
        if s["cls"] != "via_wrapper":
            L.append("   %s:%d %s in %s: %s -- %s [%s]" % (s["file"], s["line"], s["callee"], s["function"], s["cls"],
                                                       s["note"].replace("*)", "* )"), ",".join(sorted(s["cfgs"]))))
    L.append("*)")
    L.append("")
    L.append("Definition gen_body (v : avariant) (k : wkind) : list wstmt :=")
    L.append("  match v, k with")
    for cfg in CONFIGS:
        for nm in WRAPPER_DEFS:
            L.append("  | %s, %s => [%s]" % (VAR[cfg], WK[nm], "; ".join(wrappers[(cfg, nm)])))
    L.append("  end.")
    L.append("")
    L.append("Definition gen_mmc_returns (v : avariant) : list mmc_ret :=")
    L.append("  match v with")
    for cfg in CONFIGS:
        L.append("  | %s => [%s]" % (VAR[cfg], "; ".join(mmc[cfg])))
    L.append("  end.")
    L.append("")
    L.append("(* (file, function, callee) of the C20 entries with status known in known_findings.json *)")
    L.append("Definition known_exceptions : list (string * string * string) := [")
    ex = sorted({(e["file"], e["function"], e["callee"]) for e in known
                 if all(isinstance(e.get(k), str) for k in ("file", "function", "callee"))})
    L.append(";\n".join("  (%s, %s, %s)" % tuple(coq_str(x) for x in e) for e in ex))
    L.append("].")
    L.append("")
    return "\n".join(L)


def generate(known=None):
    """Regenerate coq/Sys/GenSites.v.  Returns dict(sites, wrappers, mmc, problems, changed, path)."""
    known = known_entries() if known is None else known
    sites, wrappers, mmc, problems = collect()
    txt = render(sites, wrappers, mmc, known)
    path = os.path.join(vlib.COQ, "Sys", "GenSites.v")
    changed = vlib.write_if_changed(path, txt)
    return dict(sites=sites, wrappers=wrappers, mmc=mmc, problems=problems, changed=changed, path=path)


if __name__ == "__main__":
    g = generate()
    for s in g["sites"]:
        print("%-26s %5d %-34s %-24s %-14s%s %s" % (s["file"], s["line"], s["function"], s["callee"], s["cls"],
                                                   " guard" if s["guard"] else "", s["note"]))
    for k in sorted(g["wrappers"]):
        print(k, g["wrappers"][k])
    print(g["mmc"])
    for p in g["problems"]:
        print("PROBLEM:", p)
    print("%d sites, GenSites.v %s" % (len(g["sites"]), "rewritten" if g["changed"] else "unchanged"))
