#!/bin/sh
# usage: coqshow.sh File.v LINE  -- replace line LINE by "Show. admit." prefix and compile a scratch copy (debug only)
f=$1; n=$2
d=/var/tmp/coqshow; mkdir -p $d
head -$((n-1)) $f > $d/D.v
echo "Show." >> $d/D.v
cd /verif/coq && timeout 600 coqc -Q . M4 $d/D.v 2>&1 | grep -v "^Closed" | tail -${3:-60}
