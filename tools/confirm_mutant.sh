#!/bin/sh
# usage: confirm_mutant.sh ID k   (worktree /tmp/mut/ID, deliverables /tmp/mut/ID-out/mutant<k>.diff demo<k>.c)
# Confirms independently: with the change the suite passes 15/15 and the demo fails; without it the demo passes.
ID=$1; k=$2; W=/tmp/mut/$ID; O=/tmp/mut/$ID-out; L=$O/confirm$k.log
cd $W || exit 2
git checkout -q -- . ; : > $L
git apply $O/mutant$k.diff || { echo "APPLY FAILED" >> $L; exit 2; }
make -j8 >/dev/null 2>&1
make -j8 check 2>&1 | grep -E "^# (TOTAL|PASS|FAIL|ERROR)" | tr '\n' ' ' >> $L; echo >> $L
gcc -O2 -I$W $O/demo$k.c $W/.libs/libm4ri.a -lm -lpng16 -lpthread $EXTRA -o $O/demo$k.bin >> $L 2>&1
( cd $O && timeout 600 ./demo$k.bin > $O/demo$k.mut.out 2>&1 ); echo "demo with change: exit $?" >> $L
git checkout -q -- . ; make -j8 >/dev/null 2>&1
gcc -O2 -I$W $O/demo$k.c $W/.libs/libm4ri.a -lm -lpng16 -lpthread $EXTRA -o $O/demo$k.bin >> $L 2>&1
( cd $O && timeout 600 ./demo$k.bin > $O/demo$k.clean.out 2>&1 ); echo "demo without change: exit $?" >> $L
rm -f $O/demo$k.bin
cat $L
