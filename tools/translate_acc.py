#!/usr/bin/env python3
"""Translator T1, struct mode: the accessor family of m4ri/mzd.h  ->  CMini terms (coq/Leaf/Gen_access.v).

Extends the offset mode of tools/translate.py (class FnP: every C pointer is the pair (root block, `long`
offset)) by one rule for `mzd_t *` / `mzd_t const *`:

  * a PARAMETER of that type becomes a BUNDLE of CMini parameters, one per member of `struct mzd_t` in the
    order of the struct declaration read from the clang AST (never hard-coded): an integer member `f`
    becomes the integer parameter `M__f` of the member's C type; the pointer member (`data`) becomes the two
    parameters `M__data` (the block = the word array the matrix lives in) and `M__data_off` (`long`, the
    offset of M->data inside that block: 0 for a matrix that owns its block, > 0 for a window); array members
    (`padding`) are not part of the bundle;
  * `M->f` read as a value is the variable `M__f`; `M->data` is the pointer (M__data, M__data_off);
  * a call f(..., M, ...) / f(..., (mzd_t *)M, ...) of another translated function passes the whole bundle;
  * a function whose C result type is a pointer (mzd_row, mzd_row_const) returns the `long` OFFSET; the root
    is fixed statically: every `return` must yield a pointer into the block of the same pointer parameter
    (recorded, and printed in the comment above the definition); at a call site the result is a pointer
    into the block the caller passed for that parameter.
  * ANY other use of a `mzd_t *` value refuses the function: a write to a member (`M->f = e`, `M->f op= e`,
    `++M->f`, `&M->f`), a member of anything but a parameter (`W->f` for a local W, `(*M).f`, `M[1].f`), a
    read of an array member, an assignment to / comparison of / arithmetic on the struct pointer itself.

Three extensions of the offset mode that the larger accessors need (all refuse when their side condition
fails; nothing is ever skipped):
  * a call of a translated function nested in a pointer expression (`mzd_row(M, r) + startblock`) is hoisted
    in front of the statement into a fresh variable, provided the callee is PURE (contains no store and calls
    only pure functions) and the full expression contains no ++/--;
  * `p++` / `++p` / `p--` / `--p` on a pointer variable inside a full expression, under the rule of FnP for
    integers (the variable occurs exactly once in the full expression, not under && || ?:);
  * `while (c)` whose condition contains hoistable ++/--:  int t; loop { pre; t = c; post; if (!t) break; body }.

mzd_row_add_offset has an `#if __M4RI_HAVE_SSE2` branch (SIMD intrinsics, a pointer-to-integer cast): it is
translated from a translation unit whose m4ri_config.h says __M4RI_HAVE_SSE2 0, i.e. the SCALAR branch; the
SSE2 branch of that one function stays outside the translation (it is covered by the correspondence runs only).

Usage:  translate_acc.py [--stdout] [--out FILE]      (exit status 1 if a required function was refused)
        translate_acc.py --selftest                   (edits scratch copies of the repository; see selftest();
                                                       12 cases, about 20 minutes)
Translated: mzd_row, mzd_row_const, mzd_read_bit, mzd_write_bit, mzd_read_bits, mzd_xor_bits, mzd_and_bits,
mzd_clear_bits, _mzd_row_swap, mzd_row_swap, mzd_col_swap_in_rows, mzd_col_swap, mzd_row_add_offset (scalar branch).
Specifications: coq/Leaf/AccessSpecs.v .. AccessSpecs9.v, restated in coq/Properties/Properties_C13t.v.
The source is the working tree of vlib.REPO (environment VERIF_REPO), copied by vlib.copy_tree().
"""
import json, os, re, subprocess, sys

sys.path.insert(0, os.path.dirname(os.path.abspath(__file__)))
import vlib
import translate
from translate import Refuse, Unit, Fn, FnP, promote, DIE_FUNCTIONS

GEN_A = os.path.join(vlib.COQ, "Leaf", "Gen_access.v")

STUB_ACC = r'''
#include <m4ri/mzd.h>
'''

# (unit name, stub, sse2 setting of m4ri_config.h, [(C name, name in the Coq program)])
# Callees (mzd_row, mzd_row_const) are pulled in automatically under their C name.
UNITS_A = [
    ("acc", STUB_ACC, 1, [
        ("mzd_row", "mzd_row"),
        ("mzd_row_const", "mzd_row_const"),
        ("mzd_read_bit", "mzd_read_bit"),
        ("mzd_write_bit", "mzd_write_bit"),
        ("mzd_read_bits", "mzd_read_bits"),
        ("mzd_xor_bits", "mzd_xor_bits"),
        ("mzd_and_bits", "mzd_and_bits"),
        ("mzd_clear_bits", "mzd_clear_bits"),
        ("_mzd_row_swap", "_mzd_row_swap"),
        ("mzd_row_swap", "mzd_row_swap"),
        ("mzd_col_swap_in_rows", "mzd_col_swap_in_rows"),
        ("mzd_col_swap", "mzd_col_swap"),
    ]),
    ("acc_scalar", STUB_ACC, 0, [
        ("mzd_row_add_offset", "mzd_row_add_offset"),
    ]),
]

STRUCT = "mzd_t"
_QUAL = r"(?:const|volatile|restrict|__restrict)"
_MZD_PTR = re.compile(r"^(?:%s\s+)*(?:struct\s+)?%s(?:\s+%s)*\s*\*(?:\s*%s)*$" % (_QUAL, STRUCT, _QUAL, _QUAL))


def is_mzd_ptr(ty):
    for key in ("qualType", "desugaredQualType"):
        s = ty.get(key)
        if s and _MZD_PTR.match(s.strip()):
            return True
    return False


class UnitS(Unit):
    """A parsed translation unit that also knows the members of struct mzd_t."""

    def __init__(self, name, stub, incdir, flags):
        self.name = name
        src = os.path.join(vlib.scratch(), "stub_%s.c" % name)
        with open(src, "w") as fh:
            fh.write(stub)
        cmd = ["clang", "-fsyntax-only", "-w", "-std=gnu99"] + flags + ["-I" + incdir, "-Xclang", "-ast-dump=json", src]
        p = subprocess.run(cmd, stdout=subprocess.PIPE, stderr=subprocess.PIPE, text=True)
        if p.returncode != 0:
            raise vlib.BuildError("clang does not accept the stub %s:\n%s" % (name, p.stderr[-3000:]))
        ast = json.loads(p.stdout)
        self.typedefs, self.globals, self.functions = {}, {}, {}
        record = None
        for n in ast["inner"]:
            k = n.get("kind")
            if k == "TypedefDecl":
                self.typedefs[n["name"]] = n["type"]
            elif k == "VarDecl":
                self.globals[n["id"]] = n
            elif k == "FunctionDecl":
                if any(c.get("kind") == "CompoundStmt" for c in n.get("inner", [])):
                    self.functions[n["name"]] = n
            elif k == "RecordDecl" and n.get("name") == STRUCT and n.get("completeDefinition"):
                record = n
        # members of struct mzd_t: [(name, decl id, kind)]  kind = ('int', t) | ('ptr', t) | ('arr', t, n)
        self.members = []
        self.members_error = None
        if record is None:
            self.members_error = "no complete definition of struct %s in the translation unit" % STRUCT
        else:
            if record.get("tagUsed") != "struct":
                self.members_error = "%s is not a struct" % STRUCT
            for f in record.get("inner", []):
                if f.get("kind") != "FieldDecl":
                    continue
                if f.get("isBitfield"):
                    self.members_error = "bit-field member %s" % f.get("name")
                try:
                    kind = self.ctype(f["type"])
                except Refuse as e:
                    self.members_error = "member %s: %s" % (f.get("name"), e)
                    continue
                self.members.append((f["name"], f["id"], kind))
            if sum(1 for m in self.members if m[2][0] == "ptr") != 1:
                self.members_error = "struct %s must have exactly one pointer member" % STRUCT


class FnS(FnP):
    """struct mode"""

    def __init__(self, unit, node, resolve_callee, registry):
        FnP.__init__(self, unit, node, resolve_callee)
        self.registry = registry      # coq name -> {"ret_root": C parameter index | None, "pure": bool}
        self.bundles = {}             # ParmVarDecl id -> {"name":, "fields": {member id: var}, "root": var, "off": var, "vars": [...]}
        self.cparams = []             # per C parameter: ("int", var) | ("ptr", root, off) | ("bundle", record)
        self.ret_is_ptr = False
        self.ret_root = None          # root variable of the returned pointer
        self.pure_fn = True

    # ---- bundles --------------------------------------------------------------------------------------
    def new_var(self, name, kind):
        x = len(self.order) + 1
        self.order.append((x, name, kind))
        return x

    def declare_bundle(self, c):
        if self.u.members_error:
            raise Refuse(self.u.members_error)
        name = c.get("name", "_")
        rec = {"name": name, "fields": {}, "root": None, "off": None, "vars": [], "params": []}
        for mname, mid, kind in self.u.members:
            if kind[0] == "int":
                x = self.new_var("%s__%s" % (name, mname), kind)
                rec["fields"][mid] = x
                rec["vars"].append(x)
                rec["params"].append("(%d, Pint %s)" % (x, kind[1]))
            elif kind[0] == "ptr":
                b = self.new_var("%s__%s" % (name, mname), kind)
                o = self.new_var("%s__%s_off" % (name, mname), ("int", self.OFF))
                rec["root"], rec["off"], rec["ptr_member"] = b, o, mid
                rec["vars"] += [b, o]
                rec["params"] += ["(%d, Pptr %s)" % (b, kind[1]), "(%d, Pint %s)" % (o, self.OFF)]
            # array members are not part of the bundle
        self.bundles[c["id"]] = rec
        return rec

    def bundle_of(self, n):
        """n: expression of type mzd_t * that denotes a bundle parameter (possibly through casts that only
        change qualifiers) -> its record"""
        while True:
            k = n.get("kind")
            if k in ("ParenExpr", "ConstantExpr"):
                n = n["inner"][0]
            elif k in ("ImplicitCastExpr", "CStyleCastExpr") and n.get("castKind") in ("NoOp", "LValueToRValue"):
                if not is_mzd_ptr(n["type"]) or not is_mzd_ptr(n["inner"][0]["type"]):
                    raise Refuse("cast between %s * and another type" % STRUCT)
                n = n["inner"][0]
            else:
                break
        if n.get("kind") == "DeclRefExpr" and n.get("referencedDecl", {}).get("id") in self.bundles:
            return self.bundles[n["referencedDecl"]["id"]]
        raise Refuse("%s * expression that is not a parameter of that type (%s)" % (STRUCT, n.get("kind")))

    def member(self, n):
        """MemberExpr node -> (bundle record, member id, kind)"""
        if not n.get("isArrow"):
            raise Refuse("member access that is not  parameter->member")
        rec = self.bundle_of(n["inner"][0])
        mid = n.get("referencedMemberDecl")
        for mname, i, kind in self.u.members:
            if i == mid:
                return rec, mid, kind, mname
        raise Refuse("member %s is not a member of struct %s" % (n.get("name"), STRUCT))

    # ---- lvalues ----------------------------------------------------------------------------------------
    def read_lvalue(self, n):
        s = self.strip(n)
        if s.get("kind") == "MemberExpr":
            rec, mid, kind, mname = self.member(s)
            if kind[0] != "int":
                raise Refuse("member %s read as an integer value" % mname)
            return "(Evar %d)" % rec["fields"][mid]
        return FnP.read_lvalue(self, n)

    def lv(self, n):
        s = self.strip(n)
        if s.get("kind") == "MemberExpr":
            raise Refuse("write to the member %s of a %s" % (s.get("name"), STRUCT))
        r = FnP.lv(self, n)
        if r.startswith("(Lindex"):
            self.pure_fn = False
        return r

    def pslot(self, n):
        s = self.strip(n)
        if s.get("kind") == "MemberExpr":
            raise Refuse("write to the member %s of a %s" % (s.get("name"), STRUCT))
        return FnP.pslot(self, n)

    # ---- pointers ---------------------------------------------------------------------------------------
    def ptr_incdec(self, n):
        """++/-- on a pointer variable inside a full expression -> (root, offset expression)"""
        if self.pre is None:
            raise Refuse("++/-- nested in an expression that is not a hoistable full expression")
        l = self.strip(n["inner"][0])
        if l.get("kind") != "DeclRefExpr" or l["referencedDecl"]["id"] not in self.pinfo:
            raise Refuse("++/-- of a pointer that is not a local pointer variable")
        vid = l["referencedDecl"]["id"]
        slot = self.pinfo[vid]
        if slot["root"] is None:
            raise Refuse("pointer variable used before an assignment fixed its root")
        if n["id"] not in self.done:
            if self.count_refs(self.fullexpr, vid) != 1:
                raise Refuse("variable modified by ++/-- occurs more than once in the full expression")
            e = "(Ebinop %s %s (Evar %d) (Econst 1))" % ("Oadd" if n["opcode"] == "++" else "Osub", self.OFF, slot["off"])
            upd = "(Sassign (Lvar %d) %s)" % (slot["off"], e)
            (self.post if n.get("isPostfix") else self.pre).append(upd)
            self.done[n["id"]] = "(Evar %d)" % slot["off"]
        return slot["root"], self.done[n["id"]]

    def ptr2(self, n):
        s = self.strip(n)
        k = s.get("kind")
        if k in ("ImplicitCastExpr", "CStyleCastExpr") and s.get("castKind") == "LValueToRValue":
            inner = self.strip(s["inner"][0])
            if inner.get("kind") == "MemberExpr":
                rec, mid, kind, mname = self.member(inner)
                if kind[0] != "ptr":
                    raise Refuse("member %s used as a pointer" % mname)
                return rec["root"], "(Evar %d)" % rec["off"]
        if k == "UnaryOperator" and s.get("opcode") in ("++", "--"):
            if self.u.ctype(s["type"])[0] != "ptr":
                raise Refuse("pointer expected")
            return self.ptr_incdec(s)
        if k == "CallExpr":
            if self.u.ctype(s["type"])[0] != "ptr":
                raise Refuse("pointer expected")
            if self.pre is None:
                raise Refuse("call nested in an expression that is not a hoistable full expression")
            if s["id"] in self.done:
                return self.done[s["id"]]
            t = self.new_var("__call%d" % (len(self.order) + 1), ("int", self.OFF))
            stmt, root, pure = self.call_ptr(s, "(Lvar %d)" % t)
            if not pure:
                raise Refuse("call of a function with side effects nested in an expression")
            self.hoisted_calls += 1
            self.pre += ["(Sdecl %d None)" % t, stmt]
            self.done[s["id"]] = (root, "(Evar %d)" % t)
            return self.done[s["id"]]
        return FnP.ptr2(self, n)

    hoisted_calls = 0

    def with_effects(self, n, f):
        save = self.hoisted_calls
        self.hoisted_calls = 0
        try:
            pre, r, post = FnP.with_effects(self, n, f)
            if self.hoisted_calls and (len(pre) != 2 * self.hoisted_calls or post):
                raise Refuse("call nested in a full expression that also contains ++/--")
            if self.hoisted_calls > 1:
                # two hoisted pure calls: their relative order is irrelevant, but keep it simple
                raise Refuse("more than one call nested in one full expression")
            return pre, r, post
        finally:
            self.hoisted_calls = save

    # ---- expressions ------------------------------------------------------------------------------------
    def rv(self, n):
        if n.get("kind") == "MemberExpr":
            raise Refuse("member used without lvalue conversion")
        return FnP.rv(self, n)

    # ---- calls ------------------------------------------------------------------------------------------
    def callee_name(self, n):
        callee = self.strip(n["inner"][0])
        while callee.get("kind") == "ImplicitCastExpr":
            callee = self.strip(callee["inner"][0])
        if callee.get("kind") != "DeclRefExpr" or callee["referencedDecl"].get("kind") != "FunctionDecl":
            raise Refuse("indirect call")
        return callee["referencedDecl"]["name"]

    def call_args(self, n):
        """-> (argument expressions, per C argument the root it carries or None)"""
        args, roots = [], []
        for a in n["inner"][1:]:
            if is_mzd_ptr(a["type"]):
                rec = self.bundle_of(a)
                args += ["(Evar %d)" % v for v in rec["vars"]]
                roots.append(rec["root"])
            elif self.u.ctype(a["type"])[0] == "ptr":
                root, off = self.ptr2(a)
                args += ["(Evar %d)" % root, off]
                roots.append(root)
            else:
                args.append(self.rv(a))
                roots.append(None)
        return args, roots

    def result_is_ptr(self, n):
        s = (n["type"].get("desugaredQualType") or n["type"]["qualType"]).strip()
        if s == "void":
            return False
        if _MZD_PTR.match(s):
            raise Refuse("call with a result of type %s *" % STRUCT)
        return self.u._ctype(s)[0] == "ptr"

    def call(self, n, dst):
        name = self.callee_name(n)
        if name in DIE_FUNCTIONS:
            return "Sdie"
        if self.result_is_ptr(n) and dst is not None:
            raise Refuse("pointer result of %s used as an integer" % name)
        cname = self.resolve_callee(self.u, name)
        info = self.registry.get(cname)
        if info is None:
            raise Refuse("recursive call of %s" % name)
        if not info["pure"]:
            self.pure_fn = False
        args, _ = self.call_args(n)
        return "(Scall %s \"%s\" [%s])" % ("(Some %s)" % dst if dst else "None", cname, "; ".join(args))

    def call_ptr(self, n, dst):
        """call of a function with a pointer result, offset stored into dst -> (statement, root, callee is pure)"""
        name = self.callee_name(n)
        if name in DIE_FUNCTIONS:
            raise Refuse("pointer result of a function that does not return")
        cname = self.resolve_callee(self.u, name)
        info = self.registry.get(cname)
        if info is None:
            raise Refuse("recursive call of %s" % name)
        if info["ret_root"] is None:
            raise Refuse("%s does not return a pointer into one of its arguments" % name)
        if not info["pure"]:
            self.pure_fn = False
        args, roots = self.call_args(n)
        root = roots[info["ret_root"]]
        if root is None:
            raise Refuse("internal: result root of %s is not a pointer argument" % name)
        return "(Scall (Some %s) \"%s\" [%s])" % (dst, cname, "; ".join(args)), root, info["pure"]

    @staticmethod
    def unwrap_noop(n):
        n = Fn.strip(n)
        while n.get("kind") in ("ImplicitCastExpr", "CStyleCastExpr") and n.get("castKind") == "NoOp":
            n = Fn.strip(n["inner"][0])
        return n

    # ---- statements -------------------------------------------------------------------------------------
    def decl(self, d):
        if d.get("kind") != "VarDecl":
            raise Refuse("unsupported declaration %s" % d.get("kind"))
        if is_mzd_ptr(d["type"]):
            raise Refuse("local variable of type %s *" % STRUCT)
        kind = self.u.ctype(d["type"])
        if kind[0] == "ptr":
            if d.get("storageClass") in ("static", "extern"):
                raise Refuse("static pointer local")
            init = [c for c in d.get("inner", []) if "kind" in c and not c["kind"].endswith("Comment") and not c["kind"].endswith("Attr")]
            if init and self.unwrap_noop(init[0]).get("kind") == "CallExpr":
                x = self.new_off(d.get("name", "_"))
                stmt, root, _ = self.call_ptr(self.unwrap_noop(init[0]), "(Lvar %d)" % x)
                self.pinfo[d["id"]] = {"off": x, "root": root}
                return self.seq(["(Sdecl %d None)" % x, stmt])
            if init:
                pre, ro, post = self.with_effects(init[0], self.ptr2)
                if post:
                    raise Refuse("postfix ++/-- in a pointer initialiser")
                root, off = ro
                x = self.new_off(d.get("name", "_"))
                self.pinfo[d["id"]] = {"off": x, "root": root}
                return self.seq(pre + ["(Sdecl %d (Some %s))" % (x, off)])
        return FnP.decl(self, d)

    def st(self, n):
        k = n.get("kind")
        if k == "WhileStmt":
            if len(n["inner"]) != 2:
                raise Refuse("unsupported while form")
            cond, body = n["inner"]
            if self.u.ctype(cond["type"])[0] != "int":
                raise Refuse("non-integer loop condition")
            # the condition is translated first (it is evaluated first), then the body
            pre, c, post = self.with_effects(cond, self.rv)
            b = self.st(body)
            if not pre and not post:
                return "(Sloop (Some %s)\n %s\n Sskip)" % (c, b)
            if self.u.ity(cond["type"]) != "tint" and (pre or post):
                c = "(Ecmp Cne %s (Econst 0))" % c
            # the value of the condition is kept in a variable declared in front of the loop
            t = self.new_var("__cond%d" % (len(self.order) + 1), ("int", "tint"))
            head = pre + ["(Sassign (Lvar %d) %s)" % (t, c)] + post + ["(Sif (Evar %d) Sskip Sbreak)" % t]
            return self.seq(["(Sdecl %d None)" % t, "(Sloop None\n %s\n Sskip)" % self.seq(head + [b])])
        if k == "ReturnStmt" and self.ret_is_ptr:
            if not n.get("inner"):
                raise Refuse("return without a value in a function with a pointer result")
            e = self.unwrap_noop(n["inner"][0])
            if e.get("kind") == "CallExpr":
                t = self.new_var("__tmp%d" % (len(self.order) + 1), ("int", self.OFF))
                stmt, root, _ = self.call_ptr(e, "(Lvar %d)" % t)
                self.set_ret_root(root)
                return self.seq(["(Sdecl %d None)" % t, stmt, "(Sreturn (Some (Evar %d)))" % t])
            root, off = self.no_effects(n["inner"][0], self.ptr2)
            self.set_ret_root(root)
            return "(Sreturn (Some %s))" % off
        return FnP.st(self, n)

    def set_ret_root(self, root):
        if self.ret_root is None:
            self.ret_root = root
        elif self.ret_root != root:
            raise Refuse("function returns pointers into two different arrays")

    def translate(self, coqname):
        n = self.node
        params = []
        body = None
        for c in n.get("inner", []):
            if c.get("kind") == "ParmVarDecl":
                if is_mzd_ptr(c["type"]):
                    rec = self.declare_bundle(c)
                    params += rec["params"]
                    self.cparams.append(("bundle", rec["root"]))
                    continue
                kind = self.u.ctype(c["type"])
                if kind[0] == "int":
                    x = self.declare(c, kind)
                    params.append("(%d, Pint %s)" % (x, kind[1]))
                    self.cparams.append(("int", None))
                elif kind[0] == "ptr":
                    b = self.declare(c, kind)
                    o = self.new_off(c.get("name", "_") + "_off")
                    self.pinfo[c["id"]] = {"off": o, "root": b}
                    params.append("(%d, Pptr %s)" % (b, kind[1]))
                    params.append("(%d, Pint %s)" % (o, self.OFF))
                    self.cparams.append(("ptr", b))
                else:
                    raise Refuse("unsupported parameter type")
            elif c.get("kind") == "CompoundStmt":
                body = c
        if n.get("variadic"):
            raise Refuse("variadic function")
        m = re.match(r"^(.*?)\(", n["type"]["qualType"])
        rts = m.group(1)
        if _MZD_PTR.match(rts.strip()):
            raise Refuse("result of type %s *" % STRUCT)
        rk = self.u._ctype(rts)
        note = ""
        if rk[0] == "void":
            ret = "None"
        elif rk[0] == "int":
            ret = "(Some %s)" % rk[1]
        elif rk[0] == "ptr":
            ret = "(Some %s)" % self.OFF
            self.ret_is_ptr = True
        else:
            raise Refuse("unsupported result type")
        b = self.st(body)
        b = self.seq([txt for _, txt in self.garr.values()] + [b])
        ret_root_param = None
        if self.ret_is_ptr:
            if self.ret_root is None:
                raise Refuse("function with a pointer result never returns one")
            idx = [i for i, (kd, root) in enumerate(self.cparams) if root == self.ret_root]
            if len(idx) != 1:
                raise Refuse("the returned pointer does not point into the array of a parameter")
            ret_root_param = idx[0]
            name = [nm for num, nm, _ in self.order if num == self.ret_root][0]
            note = "(* C result type %s: the result is the offset of the returned pointer inside the block of parameter %d=%s *)\n" % (
                rts.strip(), self.ret_root, name)
        self.registry[coqname] = {"ret_root": ret_root_param, "pure": self.pure_fn}
        vars_doc = ", ".join("%d=%s" % (num, name) for num, name, _ in self.order)
        return ("(* variables: %s *)\n%sDefinition f_%s : func := {|\n fn_params := [%s]%%positive;\n fn_ret := %s;\n fn_body :=\n %s |}.\n"
                % (vars_doc, note, coqname, "; ".join(params), ret, b))


HEADER_A = """(* GENERATED by tools/translate_acc.py from the clang AST of the working tree of the repository
   (m4ri/mzd.h, the accessor family).  DO NOT EDIT: regenerated on every check run.
   Struct mode: a parameter `mzd_t *M` is the bundle of parameters listed in [mzd_t_bundle] below (one per
   member of struct mzd_t, in declaration order; the pointer member `data` is the pair block, `long` offset;
   array members are left out); `M->f` is the variable M__f.  Every other C pointer is (root block, `long`
   offset) as in Gen_transpose.v.  A function with a pointer result returns the offset.
   mzd_row_add_offset is translated with __M4RI_HAVE_SSE2 0 (its scalar branch).
   See the docstring of tools/translate_acc.py for the exact modelling rules. *)
From Coq Require Import ZArith List String.
From M4 Require Import Leaf.CMini.
Import ListNotations.
Local Open Scope Z_scope.
Local Open Scope string_scope.

"""


def _setup_acc(sse2):
    """scratch include tree with m4ri_config.h instantiated for the given sse2 setting -> (include dir, clang flags)"""
    tree = vlib.copy_tree()
    v = vlib.variant(sse2=sse2)
    inc = os.path.join(vlib.scratch(), "t1inc_acc_sse%d" % sse2)
    if not os.path.isdir(inc):
        os.makedirs(os.path.join(inc, "m4ri"))
        for f in sorted(os.listdir(os.path.join(tree, "m4ri"))):
            with open(os.path.join(tree, "m4ri", f)) as src, open(os.path.join(inc, "m4ri", f), "w") as dst:
                dst.write(src.read())
        with open(os.path.join(inc, "m4ri", "m4ri_config.h"), "w") as fh:
            fh.write(vlib._config_h(tree, v))
    flags = [f for f in vlib.cflags(v) if f.startswith("-D") or f in ("-msse2",)] + ["-I/usr/include/libpng16"]
    return inc, flags


def generate_accessors():
    """-> (text of Gen_access.v, {coq function name: reason} of refusals)"""
    defs, order, refused, registry = {}, [], {}, {}
    bundle_doc = []

    def resolve(unit, cname):
        want(unit, cname, cname)
        if cname in refused:
            raise Refuse("callee %s was refused: %s" % (cname, refused[cname]))
        return cname

    def want(unit, cname, coq):
        if coq in defs or coq in refused:
            return
        node = unit.functions.get(cname)
        if node is None:
            refused[coq] = "no definition of %s found in translation unit %s" % (cname, unit.name)
            return
        defs[coq] = None            # cycle guard (registry has no entry yet: a recursive call is refused)
        try:
            txt = FnS(unit, node, resolve, registry).translate(coq)
        except Refuse as e:
            del defs[coq]
            registry.pop(coq, None)
            refused[coq] = str(e)
            return
        except (KeyError, IndexError, ValueError, TypeError, AttributeError) as e:
            del defs[coq]
            registry.pop(coq, None)
            refused[coq] = "unexpected AST shape (%s: %s)" % (type(e).__name__, e)
            return
        defs[coq] = txt
        order.append(coq)

    for uname, stub, sse2, fns in UNITS_A:
        try:
            inc, flags = _setup_acc(sse2)
            unit = UnitS(uname, stub, inc, flags)
        except vlib.BuildError as e:
            for cname, coq in fns:
                refused[coq] = str(e)[:600]
            continue
        doc = []
        for mname, mid, kind in unit.members:
            if kind[0] == "int":
                doc.append('("%s", Pint %s)' % (mname, kind[1]))
            elif kind[0] == "ptr":
                doc.append('("%s", Pptr %s)' % (mname, kind[1]))
                doc.append('("%s_off", Pint %s)' % (mname, FnP.OFF))
        if not bundle_doc:
            bundle_doc = doc
        elif bundle_doc != doc:
            for cname, coq in fns:
                refused[coq] = "struct %s differs between the translation units" % STRUCT
            continue
        for cname, coq in fns:
            want(unit, cname, coq)

    out = [HEADER_A]
    out.append("(* the bundle of parameters that stands for one parameter of type mzd_t * *)\n")
    out.append("Definition mzd_t_bundle : list (string * pkind) :=\n [%s].\n\n" % ";\n  ".join(bundle_doc))
    for coq in order:
        out.append(defs[coq])
        out.append("\n")
    for coq, why in sorted(refused.items()):
        out.append("(* REFUSED %s: %s *)\n" % (coq, why.replace("*)", "* )").replace("(*", "( *")))
    out.append("\nDefinition access_prog : program :=\n [%s].\n" % ";\n  ".join('("%s", f_%s)' % (c, c) for c in order))
    return "".join(out), refused


def regenerate_accessors(path=None):
    """write Gen_access.v (only if its content changes). -> (changed, refusals)"""
    text, refused = generate_accessors()
    return vlib.write_if_changed(path or GEN_A, text), refused


# ------------------------------------------------------------------------------------------------
# Self-test: does the tie bite?  Each case edits a scratch copy of the repository, regenerates Gen_access.v
# from it (a subprocess with VERIF_REPO pointing at the copy, exactly as a check run on a changed tree would)
# and compiles the specification files against the result in a scratch Coq tree.
# ------------------------------------------------------------------------------------------------
SPEC_FILES = ["Leaf/AccessSpecs.v", "Leaf/AccessSpecs2.v", "Leaf/AccessSpecs3.v", "Leaf/AccessSpecs4.v",
              "Leaf/AccessSpecs5.v", "Leaf/AccessSpecs6.v", "Leaf/AccessSpecs7.v", "Leaf/AccessSpecs8.v",
              "Leaf/AccessSpecs9.v", "Properties/Properties_C13t.v"]

A1, A2, A4, A5, A7, A8 = ("Leaf/AccessSpecs.v", "Leaf/AccessSpecs2.v", "Leaf/AccessSpecs4.v", "Leaf/AccessSpecs5.v",
                          "Leaf/AccessSpecs7.v", "Leaf/AccessSpecs8.v")

SELFTEST_CASES = [
    # (name, file, old text, new text, expectation, spec files to compile (None = all))
    #   expectation: "ok" = everything still compiles, "proof" = a spec file no longer compiles, "refuse" = refusal
    ("unchanged", None, None, None, "ok", None),
    ("xor_bits: values >> space -> values >> spot", "mzd.h",
     "if (n > space) { row[block + 1] ^= values >> space; }", "if (n > space) { row[block + 1] ^= values >> spot; }",
     "proof", [A1, A2]),
    ("read_bits: spill off by one", "mzd.h",
     "int const spill  = spot + n - m4ri_radix;", "int const spill  = spot + n - m4ri_radix + 1;", "proof", [A1]),
    ("clear_bits: second word not complemented", "mzd.h",
     "if (n > space) { row[block + 1] &= ~(values >> space); }", "if (n > space) { row[block + 1] &= (values >> space); }",
     "proof", [A1, A2]),
    ("mzd_row: width instead of rowstride", "mzd.h",
     "return M->data + M->rowstride * row;", "return M->data + M->width * row;", "proof", [A1]),
    ("write_bit: also writes a member", "mzd.h",
     "    word * truerow = mzd_row(M, row);", "    M->flags = 0; word * truerow = mzd_row(M, row);", "refuse", [A1]),
    ("read_bit: harmless rewrite (same value)", "mzd.h",
     "return __M4RI_GET_BIT(truerow[col / m4ri_radix], col % m4ri_radix);",
     "rci_t const c = col; return __M4RI_GET_BIT(truerow[c / m4ri_radix], c % m4ri_radix);", "ok", [A1]),
    ("_mzd_row_swap: second store of the swap stores a[i]", "mzd.h",
     "    b[i] = tmp;", "    b[i] = a[i];", "proof", [A1, A4]),
    ("row_add_offset: excess bits taken from src after the loop", "mzd.h",
     "dst[i - 1] ^= src_last & ~mask_end;", "dst[i - 1] ^= src[i - 1] & ~mask_end;", "proof", [A1, A4, A5]),
    ("col_swap_in_rows: two-word form shifts the wrong way", "mzd.h",
     "min_ptr[max_offset] ^= xor_v << offset;", "min_ptr[max_offset] ^= xor_v >> offset;", "proof", [A1, A4, A7]),
    ("col_swap_in_rows: unrolled loop advances 3 rows", "mzd.h",
     "ptr += 4 * rowstride;", "ptr += 3 * rowstride;", "proof", [A1, A4, A7, A8]),
    # the stated blind spot: the SSE2 branch of mzd_row_add_offset is not translated (the unit is built with
    # __M4RI_HAVE_SSE2 0), so a change confined to it is NOT seen by this tie (correspondence runs cover it)
    ("BLIND SPOT row_add_offset: change inside #if __M4RI_HAVE_SSE2", "mzd.h",
     "      *dst++ ^= *src++;\n      --wide;", "      *dst++ |= *src++;\n      --wide;", "ok", [A1, A4, A5]),
]


def _vo_closure(files):
    """the .vo files (relative to vlib.COQ) that compiling `files` needs, transitively, except the files themselves"""
    import collections
    seen, todo = set(), collections.deque(files)
    own = set(files)
    while todo:
        f = todo.popleft()
        p = vlib.run(["coqdep", "-Q", ".", "M4", f], cwd=vlib.COQ)
        for tok in p.stdout.replace("\\\n", " ").split():
            if tok.endswith(".vo") and not tok.startswith("/"):
                v = tok[:-1]
                if v not in seen and v not in own and os.path.exists(os.path.join(vlib.COQ, v)):
                    seen.add(v)
                    todo.append(v)
    return sorted(seen)


def selftest(cases=None, verbose=True):
    """-> [(case name, expectation, outcome, detail)]; outcome in ok | refuse | proof | error"""
    import shutil, tempfile
    base = tempfile.mkdtemp(prefix="acc-selftest-", dir=os.environ.get("VERIF_SCRATCH_BASE", "/var/tmp"))
    results = []
    try:
        specs = [f for f in SPEC_FILES if os.path.exists(os.path.join(vlib.COQ, f))]
        deps = [d for d in _vo_closure(specs) if d != "Leaf/Gen_access.v"]
        for idx, (name, fname, old, new, expect, only) in enumerate(cases or SELFTEST_CASES):
            repo = os.path.join(base, "repo%d" % idx)
            os.makedirs(os.path.join(repo, "m4ri"))
            for f in os.listdir(os.path.join(vlib.REPO, "m4ri")):
                if f.endswith((".c", ".h", ".in")):
                    shutil.copy(os.path.join(vlib.REPO, "m4ri", f), os.path.join(repo, "m4ri", f))
            if fname:
                path = os.path.join(repo, "m4ri", fname)
                text = open(path).read()
                if text.count(old) != 1:
                    results.append((name, expect, "error", "the text to edit occurs %d times" % text.count(old)))
                    continue
                open(path, "w").write(text.replace(old, new))
            coq = os.path.join(base, "coq%d" % idx)
            for d in deps + specs:
                os.makedirs(os.path.join(coq, os.path.dirname(d)), exist_ok=True)
            for d in deps:
                shutil.copy(os.path.join(vlib.COQ, d + "o"), os.path.join(coq, d + "o"))
            for f in specs:
                shutil.copy(os.path.join(vlib.COQ, f), os.path.join(coq, f))
            gen = os.path.join(coq, "Leaf", "Gen_access.v")
            env = dict(os.environ, VERIF_REPO=repo)
            p = vlib.run([sys.executable, os.path.abspath(__file__), "--out", gen], env=env)
            refusals = [l for l in p.stderr.splitlines() if l.startswith("REFUSED")]
            outcome, detail = "ok", ""
            if refusals:
                outcome, detail = "refuse", refusals[0][:200]
            for f in ["Leaf/Gen_access.v"] + [x for x in specs if only is None or x in only]:
                if outcome not in ("ok", "refuse"):
                    break
                q = vlib.run(["coqc", "-Q", ".", "M4", f], cwd=coq, timeout=900)
                if q.returncode != 0:
                    err = [l for l in q.stderr.splitlines() if l.startswith("File")]
                    msg = "%s does not compile: %s" % (f, (err[0] if err else q.stderr[-200:]).replace(coq + "/", ""))
                    if outcome == "refuse":
                        detail += " | " + msg
                    else:
                        outcome, detail = "proof", msg
                    break
            results.append((name, expect, outcome, detail))
            if verbose:
                print("%-55s expected %-7s got %-7s %s" % (name, expect, outcome, detail), flush=True)
    finally:
        shutil.rmtree(base, ignore_errors=True)
    return results


if __name__ == "__main__":
    if "--selftest" in sys.argv:
        res = selftest()
        bad = [r for r in res if r[1] != r[2]]
        print("self-test: %d cases, %d unexpected" % (len(res), len(bad)))
        sys.exit(1 if bad else 0)
    out = None
    if "--out" in sys.argv:
        out = sys.argv[sys.argv.index("--out") + 1]
    if "--stdout" in sys.argv:
        text, refused = generate_accessors()
        sys.stdout.write(text)
    else:
        changed, refused = regenerate_accessors(out)
        print("%s %s" % (os.path.basename(out or GEN_A), "rewritten" if changed else "unchanged"))
    for k, why in refused.items():
        print("REFUSED %s: %s" % (k, why), file=sys.stderr)
    sys.exit(1 if refused else 0)
