#!/bin/sh
# usage: confirm_mutant2.sh ID k 'DEMOCMD'   — like confirm_mutant.sh but the demonstration is built and run by DEMOCMD
# (a shell command run in /tmp/mut/ID-out with $WT = worktree; its exit status is the demo's verdict)
ID=$1; k=$2; CMD=$3; WT=/tmp/mut/$ID; O=/tmp/mut/$ID-out; L=$O/confirm$k.log
export WT
cd $WT || exit 2
git checkout -q -- . ; : > $L
git apply $O/mutant$k.diff || { echo "APPLY FAILED" >> $L; exit 2; }
make -j8 >/dev/null 2>&1
make -j8 check 2>&1 | grep -E "^# (TOTAL|PASS|FAIL|ERROR)" | tr '\n' ' ' >> $L; echo >> $L
( cd $O && timeout 1800 sh -c "$CMD" > $O/demo$k.mut.out 2>&1 ); echo "demo with change: exit $?" >> $L
git checkout -q -- . ; make -j8 >/dev/null 2>&1
( cd $O && timeout 1800 sh -c "$CMD" > $O/demo$k.clean.out 2>&1 ); echo "demo without change: exit $?" >> $L
echo "demo command: $CMD" >> $L
cat $L
