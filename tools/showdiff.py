#!/usr/bin/env python3
"""print a compact view of replay files: script + first differing output line"""
import sys
for f in sys.argv[1:]:
    t = open(f).read()
    try:
        script = t.split("--- script\n")[1].split("--- C side")[0]
        c = t.split("--- C side\n")[1].split("--- model side")[0].strip().split("\n")
        m = t.split("--- model side\n")[1].strip().split("\n")
    except Exception:
        print(f, "unparsable"); continue
    print("=====", f.split("/")[-1])
    for l in script.strip().split("\n"):
        print("   ", l[:230])
    for a, b in zip(c, m):
        if a != b:
            print("  C:", a[:230]); print("  M:", b[:230]); break
