"""Catalogue of library operations as op-script case builders.

Each builder takes (g, W, sz) — g: gen.G, W: role -> window spec (None = owned operand),
sz: size bound — and returns (lines, meta).  All operands (and the parents of windows) are dumped
after the call so that 'sources unchanged' and 'nothing outside the view changed' are observed.
The catalogue is shared by the per-property engines (C01..C13, C17) and by the cross-cutting ones
(C09 views, C10 histories/heap fill, C11 sanitizers, C12 configurations)."""
import random

CATALOG = {}


def op(name, prop, roles, tags=()):
    def deco(f):
        CATALOG[name] = dict(name=name, prop=prop, roles=roles, build=f, tags=set(tags))
        return f
    return deco


def _finish(lines, dumps, perms=()):
    seen = []
    for d in dumps:
        if d not in seen:
            seen.append(d)
    return lines + ["dump %s" % d for d in seen] + ["dumpperm %s" % p for p in perms]


def _dst(g, W, role, nr, nc):
    """optional destination: None (allocated by the call), or a supplied matrix with junk content"""
    w = W(role)
    if w is None and g.rng.random() < 0.4:
        return [], [], "-"
    rows, _ = g.rows(nr, nc, g.rng.choice(["dense", "ones", "zero"]))
    l, d = g.operand(role, nr, nc, rows, w)
    return l, d, role


# ------------------------------------------------------------------------------------------------
# C08
# ------------------------------------------------------------------------------------------------
@op("add", "C08", ["C", "A", "B"])
def b_add(g, W, sz):
    nr, nc = g.dim(sz), g.dim(max(sz, 64 * g.rng.randint(1, 10)))
    ra, ka = g.rows(nr, nc)
    rb, kb = g.rows(nr, nc)
    la, da = g.operand("A", nr, nc, ra, W("A"))
    lb, db = g.operand("B", nr, nc, rb, W("B"))
    alias = g.rng.choice(["none", "none", "C=A", "C=B", "A=B", "C=A=B"]) if W("C") is None else "none"
    if alias == "none":
        lc, dc, cn = _dst(g, W, "C", nr, nc)
        lines = la + lb + lc + ["call add R %s A B" % cn]
        dumps = da + db + dc + (["R"] if cn == "-" else [])
    elif alias == "C=A":
        lines, dumps = la + lb + ["call add - A A B"], da + db
    elif alias == "C=B":
        lines, dumps = la + lb + ["call add - B A B"], da + db
    elif alias == "A=B":
        lines, dumps = la + ["call add R - A A"], da + ["R"]
    else:
        lines, dumps = la + ["call add - A A A"], da
    return _finish(lines, dumps), dict(shape=(nr, nc), kinds=(ka, kb), alias=alias, width=(nc + 63) // 64)


@op("transpose", "C08", ["D", "A"])
def b_transpose(g, W, sz):
    cls = g.rng.choice(["small", "small", "mid", "big"])
    if cls == "small":
        nr, nc = g.dim(min(sz, 70)), g.dim(min(sz, 70))
    elif cls == "mid":
        nr, nc = g.dim(sz), g.dim(sz)
    else:
        nr, nc = g.dim(sz), g.dim(min(3 * sz, 800))
        if g.rng.random() < 0.5:
            nr, nc = nc, nr
    ra, ka = g.rows(nr, nc)
    la, da = g.operand("A", nr, nc, ra, W("A"))
    ld, dd, dn = _dst(g, W, "D", nc, nr)
    lines = la + ld + ["call transpose R %s A" % dn]
    return _finish(lines, da + dd + (["R"] if dn == "-" else [])), dict(shape=(nr, nc), kinds=(ka,), cls=cls)


@op("copy", "C08", ["D", "A"])
def b_copy(g, W, sz):
    nr, nc = g.dim(sz), g.dim(sz * 2)
    ra, ka = g.rows(nr, nc)
    la, da = g.operand("A", nr, nc, ra, W("A"))
    bigger = g.rng.random() < 0.25
    w = W("D")
    if w is None and not bigger and g.rng.random() < 0.4:
        ld, dd, dn = [], [], "-"
    else:
        dr, dc = (nr + g.rng.randint(0, 2), nc + g.rng.choice([0, 1, 63, 64])) if bigger else (nr, nc)
        rows, _ = g.rows(dr, dc, g.rng.choice(["dense", "ones"]))
        ld, dd = g.operand("D", dr, dc, rows, w)
        dn = "D"
    lines = la + ld + ["call copy R %s A" % dn]
    return _finish(lines, da + dd + (["R"] if dn == "-" else [])), dict(shape=(nr, nc), kinds=(ka,), bigger=bigger)


@op("copy_row", "C08", ["B", "A"])
def b_copy_row(g, W, sz):
    nra, nrb = g.small(6), g.small(6)
    nca = g.dim(sz * 2)
    ncb = nca + g.rng.choice([0, 0, 1, 63, 64, 70])
    ra, ka = g.rows(nra, nca)
    rb, kb = g.rows(nrb, ncb, "dense")
    la, da = g.operand("A", nra, nca, ra, W("A"))
    lb, db = g.operand("B", nrb, ncb, rb, W("B"))
    i, j = g.rng.randrange(nrb), g.rng.randrange(nra)
    return _finish(la + lb + ["call copy_row B %d A %d" % (i, j)], da + db), dict(shape=(nca, ncb), kinds=(ka,))


@op("set_ui", "C08", ["A"])
def b_set_ui(g, W, sz):
    nr, nc = g.dim(sz), g.dim(sz * 2)
    ra, ka = g.rows(nr, nc, "dense")
    la, da = g.operand("A", nr, nc, ra, W("A"))
    v = g.rng.choice([0, 1, 1, 2, 3])
    return _finish(la + ["call set_ui A %d" % v], da), dict(shape=(nr, nc), v=v)


@op("submatrix", "C08", ["S", "M"])
def b_submatrix(g, W, sz):
    nr, nc = g.dim(sz), g.dim(max(sz, 200))
    ra, ka = g.rows(nr, nc)
    la, da = g.operand("M", nr, nc, ra, W("M"))
    r0 = g.rng.randint(0, nr - 1)
    r1 = g.rng.randint(r0 + 1, nr)
    if g.rng.random() < 0.4:
        c0 = 64 * g.rng.randint(0, (nc - 1) // 64)
    else:
        c0 = g.rng.randint(0, nc - 1)
    c1 = g.rng.choice([nc, g.rng.randint(c0 + 1, nc), min(nc, c0 + g.rng.choice([1, 63, 64, 65, 128]))])
    c1 = max(c1, c0 + 1)
    w = W("S")
    if w is None and g.rng.random() < 0.5:
        ls, ds, sn = [], [], "-"
    else:
        # (a destination larger than the block is accepted by the C wrapper but what happens to its other
        #  entries is not specified anywhere; not generated)
        dr, dc = r1 - r0, c1 - c0
        rows, _ = g.rows(dr, dc, g.rng.choice(["dense", "ones"]))
        ls, ds = g.operand("S", dr, dc, rows, w)
        sn = "S"
    lines = la + ls + ["call submatrix R %s M %d %d %d %d" % (sn, r0, c0, r1, c1)]
    return _finish(lines, da + ds + (["R"] if sn == "-" else [])), dict(shape=(nr, nc), sub=(r0, c0, r1, c1),
                                                                       aligned=c0 % 64 == 0, kinds=(ka,))


@op("concat", "C08", ["C", "A", "B"])
def b_concat(g, W, sz):
    nr, nca, ncb = g.dim(sz), g.dim(sz), g.dim(sz)
    ra, ka = g.rows(nr, nca)
    rb, kb = g.rows(nr, ncb)
    la, da = g.operand("A", nr, nca, ra, W("A"))
    lb, db = g.operand("B", nr, ncb, rb, W("B"))
    lc, dc, cn = _dst(g, W, "C", nr, nca + ncb)
    lines = la + lb + lc + ["call concat R %s A B" % cn]
    return _finish(lines, da + db + dc + (["R"] if cn == "-" else [])), dict(shape=(nr, nca, ncb), kinds=(ka, kb))


@op("stack", "C08", ["C", "A", "B"])
def b_stack(g, W, sz):
    nra, nrb, nc = g.dim(sz), g.dim(sz), g.dim(sz * 2)
    ra, ka = g.rows(nra, nc)
    rb, kb = g.rows(nrb, nc)
    la, da = g.operand("A", nra, nc, ra, W("A"))
    lb, db = g.operand("B", nrb, nc, rb, W("B"))
    lc, dc, cn = _dst(g, W, "C", nra + nrb, nc)
    lines = la + lb + lc + ["call stack R %s A B" % cn]
    return _finish(lines, da + db + dc + (["R"] if cn == "-" else [])), dict(shape=(nra, nrb, nc), kinds=(ka, kb))


def _extract(which):
    def b(g, W, sz):
        nr, nc = g.dim(sz), g.dim(sz)
        ra, ka = g.rows(nr, nc, g.rng.choice(["dense", "ones", "sparse"]))
        la, da = g.operand("A", nr, nc, ra, W("A"))
        k = min(nr, nc)
        ld, dd, dn = _dst(g, W, "D", k, k)
        lines = la + ld + ["call extract_%s R %s A" % (which, dn)]
        return _finish(lines, da + dd + (["R"] if dn == "-" else [])), dict(shape=(nr, nc), kinds=(ka,))
    return b


op("extract_u", "C08", ["D", "A"])(_extract("u"))
op("extract_l", "C08", ["D", "A"])(_extract("l"))


# ------------------------------------------------------------------------------------------------
# C13
# ------------------------------------------------------------------------------------------------
def _one(name, mk_call, prop="C13", min_rows=1):
    def b(g, W, sz):
        nr, nc = max(min_rows, g.dim(sz)), g.dim(sz * 2)
        ra, ka = g.rows(nr, nc, g.rng.choice(["dense", "dense", "ones", "sparse"]))
        la, da = g.operand("A", nr, nc, ra, W("A"))
        call, meta = mk_call(g, nr, nc)
        m = dict(shape=(nr, nc), kinds=(ka,))
        m.update(meta)
        return _finish(la + [call], da), m
    op(name, prop, ["A"])(b)


def _col(g, nc):
    return g.rng.choice([0, nc - 1, g.rng.randrange(nc), min(nc - 1, 63), min(nc - 1, 64), (nc - 1) // 64 * 64])


_one("row_swap", lambda g, nr, nc: (lambda a, b: ("call row_swap A %d %d" % (a, b), dict(same=a == b)))(
    g.rng.randrange(nr), g.rng.randrange(nr)))
_one("col_swap", lambda g, nr, nc: (lambda a, b: ("call col_swap A %d %d" % (a, b), dict(sameword=a // 64 == b // 64)))(
    _col(g, nc), _col(g, nc)))


def _csir(g, nr, nc):
    a, b = _col(g, nc), _col(g, nc)
    r0 = g.rng.randint(0, nr)
    r1 = g.rng.randint(r0, nr)
    return "call col_swap_in_rows A %d %d %d %d" % (a, b, r0, r1), dict(sameword=a // 64 == b // 64, nrows=r1 - r0)


_one("col_swap_in_rows", _csir)
_one("row_add", lambda g, nr, nc: ("call row_add A %d %d" % (g.rng.randrange(nr), g.rng.randrange(nr)), {}))
_one("row_add_offset", lambda g, nr, nc: (lambda d, s, c: ("call row_add_offset A %d %d %d" % (d, s, c), dict(off=c % 64, same=d == s)))(
    g.rng.randrange(nr), g.rng.randrange(nr), _col(g, nc)))
_one("row_clear_offset", lambda g, nr, nc: (lambda c: ("call row_clear_offset A %d %d" % (g.rng.randrange(nr), c), dict(off=c % 64, word=c // 64)))(
    _col(g, nc)))


def _bits(kind):
    def f(g, nr, nc):
        n = g.rng.randint(1, min(64, nc))
        y = g.rng.choice([0, nc - n, g.rng.randint(0, nc - n)])
        x = g.rng.randrange(nr)
        if kind == "xor_bits":
            return "call xor_bits A %d %d %d %x" % (x, y, n, g.rng.getrandbits(n)), dict(n=n, spot=y % 64, spill=y % 64 + n > 64)
        return "call %s A %d %d %d" % (kind, x, y, n), dict(n=n, spot=y % 64, spill=y % 64 + n > 64)
    return f


_one("xor_bits", _bits("xor_bits"))
_one("clear_bits", _bits("clear_bits"))
_one("read_bits", _bits("read_bits"))


def _perm_op(name, side, full_only=False):
    def b(g, W, sz):
        nr, nc = g.dim(sz), g.dim(sz * 2)
        ra, ka = g.rows(nr, nc, g.rng.choice(["dense", "dense", "sparse", "ident"]))
        la, da = g.operand("A", nr, nc, ra, W("A"))
        n = nr if side == "left" else nc
        if full_only or g.rng.random() < 0.6:
            length = n
        else:
            length = g.rng.randint(1, n)
        pk = g.rng.choice(["rand", "rand", "ident", "single", "last"])
        p = g.lapack_perm(length, n, pk)
        short_escape = length < n and any(v >= length for v in p)
        lines = la + [g.perm_line("P", p), "call %s A P" % name]
        return _finish(lines, da, ["P"]), dict(shape=(nr, nc), kinds=(ka,), plen=length, full=length == n, pk=pk,
                                               short_escape=short_escape)
    op(name, "C13", ["A"])(b)


_perm_op("apply_p_left", "left")
_perm_op("apply_p_left_trans", "left")
_perm_op("apply_p_right", "right")
_perm_op("apply_p_right_trans", "right")
_perm_op("apply_p_right_trans_tri", "right", full_only=True)


# ------------------------------------------------------------------------------------------------
# C17
# ------------------------------------------------------------------------------------------------
def _pair(name):
    def b(g, W, sz):
        nr, nc = g.dim(sz), g.dim(sz * 2)
        ra, ka = g.rows(nr, nc)
        mode = g.rng.choice(["same", "onebit", "onebit", "rand", "dims"])
        rb = list(ra)
        nrb, ncb = nr, nc
        if mode == "onebit":
            i = g.rng.randrange(nr)
            rb[i] ^= 1 << _col(g, nc)
        elif mode == "rand":
            rb, _ = g.rows(nr, nc)
        elif mode == "dims":
            if g.rng.random() < 0.5 and nr > 1:
                nrb = nr - 1
                rb = rb[:nrb]
            else:
                ncb = nc + 1
        la, da = g.operand("A", nr, nc, ra, W("A"))
        lb, db = g.operand("B", nrb, ncb, rb, W("B"))
        swap = g.rng.random() < 0.5
        call = "call %s %s" % (name, "B A" if swap else "A B")
        return _finish(la + lb + [call], da + db), dict(shape=(nr, nc), mode=mode, kinds=(ka,))
    op(name, "C17", ["A", "B"])(b)


_pair("equal")
_pair("cmp")


@op("is_zero", "C17", ["A"])
def b_is_zero(g, W, sz):
    nr, nc = g.dim(sz), g.dim(sz * 2)
    ra, ka = g.rows(nr, nc, g.rng.choice(["zero", "zero", "single", "lastcol", "sparse"]))
    la, da = g.operand("A", nr, nc, ra, W("A"))
    return _finish(la + ["call is_zero A"], da), dict(shape=(nr, nc), kinds=(ka,))


@op("first_zero_row", "C17", ["A"])
def b_fzr(g, W, sz):
    nr, nc = g.dim(sz), g.dim(sz * 2)
    ra, ka = g.rows(nr, nc, g.rng.choice(["zero", "single", "lastcol", "sparse", "dense"]))
    z = g.rng.randint(0, nr)
    ra = ra[:nr - z] + [0] * z
    la, da = g.operand("A", nr, nc, ra, W("A"))
    return _finish(la + ["call first_zero_row A"], da), dict(shape=(nr, nc), kinds=(ka,), width=(nc + 63) // 64, zeros=z)


@op("find_pivot", "C17", ["A"])
def b_find_pivot(g, W, sz):
    nr, nc = g.dim(sz), g.dim(max(sz * 2, 200))
    ra, ka = g.rows(nr, nc, g.rng.choice(["zero", "single", "lastcol", "sparse", "sparse", "dense"]))
    r0 = g.rng.choice([0, g.rng.randrange(nr)])
    c0 = g.rng.choice([0, _col(g, nc), max(0, nc - g.rng.randint(1, 64)), g.rng.randrange(nc)])
    # often clear everything left of some column so that the left-most non-zero column is far right
    if g.rng.random() < 0.5:
        cut = g.rng.randrange(nc)
        ra = [v >> cut << cut for v in ra]
    la, da = g.operand("A", nr, nc, ra, W("A"))
    return _finish(la + ["call find_pivot A %d %d" % (r0, c0)], da), dict(shape=(nr, nc), kinds=(ka,), start=(r0, c0),
                                                                          lastword=nc - c0 < 64)


@op("rw_bit", "C17", ["A"])
def b_rw(g, W, sz):
    nr, nc = g.dim(sz), g.dim(sz * 2)
    ra, ka = g.rows(nr, nc)
    la, da = g.operand("A", nr, nc, ra, W("A"))
    i, j, v = g.rng.randrange(nr), _col(g, nc), g.rng.getrandbits(1)
    lines = la + ["call read_bit A %d %d" % (i, j), "call write_bit A %d %d %d" % (i, j, v), "call read_bit A %d %d" % (i, j)]
    return _finish(lines, da), dict(shape=(nr, nc))


# ------------------------------------------------------------------------------------------------
# C01
# ------------------------------------------------------------------------------------------------
def _mul_shapes(g, sz, route):
    r = g.rng
    m, l, n = g.dim(sz), g.dim(sz), g.dim(sz)
    c = r.random()
    if route in ("mul", "addmul", "mul_mp", "addmul_mp") and c > 0.6:
        # Strassen split limits: for cutoff c the recursion is entered when all dimensions are >= 4c/3;
        # with c = 64 a dimension in [86, 127] is then too small to be split on a word boundary
        grid = [85, 86, 100, 127, 128, 129, 171, 192, 255, 256, 257]
        m, l, n = r.choice(grid), r.choice(grid), r.choice(grid)
    elif c < 0.15:
        n = r.choice([1, 30, 53, 54, 55])      # naive: transposed / row-combination switch
    elif c < 0.3:
        m = r.choice([1, 15, 16, 17])          # m4rm falls back below 16 rows
    return m, l, n


def _mul(name, accumulate, param):
    def b(g, W, sz):
        m, l, n = _mul_shapes(g, sz, name)
        ra, ka = g.rows(m, l)
        rb, kb = g.rows(l, n)
        la, da = g.operand("A", m, l, ra, W("A"))
        lb, db = g.operand("B", l, n, rb, W("B"))
        p = param(g)
        same = False
        if accumulate:
            rc, kc = g.rows(m, n, g.rng.choice(["dense", "zero", "ones"]))
            lc, dc = g.operand("C", m, n, rc, W("C"))
            cn = "C"
        else:
            lc, dc, cn = _dst(g, W, "C", m, n)
        if m == l == n and W("A") is None and W("B") is None and g.rng.random() < 0.3 and name in ("mul", "addmul", "mul_mp", "addmul_mp"):
            same = True      # squaring route: both factors the same object
            lines = la + lc + ["call %s R %s A A%s" % (name, cn, p)]
            dumps = da + dc
        else:
            lines = la + lb + lc + ["call %s R %s A B%s" % (name, cn, p)]
            dumps = da + db + dc
        return _finish(lines, dumps + (["R"] if cn == "-" else [])), dict(shape=(m, l, n), kinds=(ka, kb), param=p.strip(), same=same)
    op(name, "C01", ["C", "A", "B"])(b)


_K = lambda g: " %d" % g.rng.choice([0, 0, 1, 2, 3, 4, 5, 6, 7, 8, 9, 10, 16])
_CUT = lambda g: " %d" % g.rng.choice([0, 0, 1, 64, 64, 64, 65, 127, 128, 128, 192, 256, 512, 1024, 2048])
_mul("mul_naive", False, lambda g: "")
_mul("addmul_naive", True, lambda g: "")
_mul("mul_m4rm", False, _K)
_mul("addmul_m4rm", True, _K)
_mul("mul", False, _CUT)
_mul("addmul", True, _CUT)
_mul("mul_mp", False, _CUT)
_mul("addmul_mp", True, _CUT)


@op("mul_va", "C01", ["C", "A", "B"])
def b_mul_va(g, W, sz):
    m, l, n = g.dim(sz), g.dim(sz), g.dim(sz)
    ra, ka = g.rows(m, l)
    rb, kb = g.rows(l, n)
    rc, kc = g.rows(m, n, "dense")
    la, da = g.operand("A", m, l, ra, W("A"))
    lb, db = g.operand("B", l, n, rb, W("B"))
    lc, dc = g.operand("C", m, n, rc, W("C"))
    clear = g.rng.getrandbits(1)
    return _finish(la + lb + lc + ["call mul_va - C A B %d" % clear], da + db + dc), dict(shape=(m, l, n), clear=clear)


@op("djb", "C01", ["A", "V"])
def b_djb(g, W, sz):
    m, l, n = g.dim(min(sz, 100)), g.dim(min(sz, 100)), g.dim(sz)
    ra, ka = g.rows(m, l)
    rv, kv = g.rows(l, n)
    la, da = g.operand("A", m, l, ra, W("A"))
    lv, dv = g.operand("V", l, n, rv, W("V"))
    return _finish(la + lv + ["call djb R A V"], da + dv + ["R"]), dict(shape=(m, l, n), kinds=(ka, kv))


# ------------------------------------------------------------------------------------------------
# C02
# ------------------------------------------------------------------------------------------------
def _ech(name, mk):
    def b(g, W, sz):
        nr, nc = g.dim(sz), g.dim(sz * 2)
        if g.rng.random() < 0.7:
            ra, ka = g.rank_profile_rows(nr, nc)
        else:
            ra, ka = g.rows(nr, nc)
        la, da = g.operand("A", nr, nc, ra, W("A"))
        call, meta = mk(g)
        m = dict(shape=(nr, nc), kinds=(ka,))
        m.update(meta)
        return _finish(la + [call], da), m
    op(name, "C02", ["A"])(b)


_full = lambda g: g.rng.getrandbits(1)
_ech("echelonize_naive", lambda g: (lambda f: ("call echelonize_naive A %d" % f, dict(full=f)))(_full(g)))
_ech("gauss_delayed", lambda g: (lambda f: ("call gauss_delayed A 0 %d" % f, dict(full=f)))(_full(g)))
_ech("echelonize_m4ri", lambda g: (lambda f, k: ("call echelonize_m4ri A %d %d" % (f, k), dict(full=f, k=k)))(
    _full(g), g.rng.choice([0, 0, 1, 2, 3, 4, 5, 6, 7, 8, 9, 10])))
_ech("echelonize_pluq", lambda g: (lambda f: ("call echelonize_pluq A %d" % f, dict(full=f)))(_full(g)))
_ech("echelonize", lambda g: (lambda f: ("call echelonize A %d" % f, dict(full=f)))(_full(g)))
_ech("_echelonize_m4ri", lambda g: (lambda f, k, h, t: ("call _echelonize_m4ri A %d %d %d %s" % (f, k, h, t), dict(full=f, k=k, heur=h, thr=t)))(
    _full(g), g.rng.choice([0, 1, 3, 5, 8]), g.rng.getrandbits(1), g.rng.choice(["0", "0.01", "0.15", "0.5", "1"])))


@op("top_echelonize_m4ri", "C02", ["A"])
def b_top(g, W, sz):
    """complete a row echelon form produced by a non-reduced route"""
    nr, nc = g.dim(sz), g.dim(sz * 2)
    ra, ka = g.rank_profile_rows(nr, nc)
    la, da = g.operand("A", nr, nc, ra, W("A"))
    k = g.rng.choice([0, 0, 1, 2, 4, 6, 8])
    first = g.rng.choice(["echelonize_naive A 0", "echelonize_m4ri A 0 0", "echelonize_pluq A 0"])
    return _finish(la + ["call " + first, "call top_echelonize_m4ri A %d" % k], da), dict(shape=(nr, nc), kinds=(ka,), k=k)


def build(name, g, W=None, sz=130):
    d = CATALOG[name]
    Wf = (lambda role: None) if W is None else (W if callable(W) else (lambda role: W.get(role)))
    lines, meta = d["build"](g, Wf, sz)
    meta["op"] = name
    c = g.case(name, lines, **meta)
    return c
