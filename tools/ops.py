"""Catalogue of library operations as op-script case builders.

Each builder takes (g, W, sz) — g: gen.G, W: role -> window spec (None = owned operand),
sz: size bound — and returns (lines, meta).  All operands (and the parents of windows) are dumped
after the call so that 'sources unchanged' and 'nothing outside the view changed' are observed.
The catalogue is shared by the per-property engines (C01..C13, C17) and by the cross-cutting ones
(C09 views, C10 histories/heap fill, C11 sanitizers, C12 configurations)."""
import random

CATALOG = {}


def op(name, prop, roles, tags=()):
    def deco(f):
        CATALOG[name] = dict(name=name, prop=prop, roles=roles, build=f, tags=set(tags))
        return f
    return deco


def _finish(lines, dumps, perms=()):
    seen = []
    for d in dumps:
        if d not in seen:
            seen.append(d)
    return lines + ["dump %s" % d for d in seen] + ["dumpperm %s" % p for p in perms]


def _dst(g, W, role, nr, nc):
    """optional destination: None (allocated by the call), or a supplied matrix with junk content"""
    w = W(role)
    if w is None and g.rng.random() < 0.4:
        return [], [], "-"
    rows, _ = g.rows(nr, nc, g.rng.choice(["dense", "ones", "zero"]))
    l, d = g.operand(role, nr, nc, rows, w)
    return l, d, role


# word-width classes of the unrolled kernels (`width % 8` cases of _mzd_combine / process_rows / TRSM): column
# counts of 1..9, 15, 16, 17 words, mostly with a partial last word; independent of sz (C09 passes sz = 100),
# bounded by 1100 columns; used as a low-probability class so that the quick tiers stay fast
_WIDE_WORDS = [1, 2, 3, 4, 5, 6, 7, 8, 9, 15, 16, 17]
P_WIDE = 0.06


def _wide_cols(g):
    w = g.rng.choice(_WIDE_WORDS)
    return 64 * w - g.rng.randint(1, 63) if g.rng.random() < 0.8 else 64 * w


# ------------------------------------------------------------------------------------------------
# C08
# ------------------------------------------------------------------------------------------------
_add_count = [0]


@op("add", "C08", ["C", "A", "B"])
def b_add(g, W, sz):
    nr, nc = g.dim(sz), g.dim(max(sz, 64 * g.rng.randint(1, 10)))
    if g.rng.random() < 0.5:
        # _mzd_add has one unrolled loop per row width 1..8 words and a generic one beyond: walk through every width,
        # mostly with a partial last word (independent of sz)
        _add_count[0] += 1
        w = 1 + _add_count[0] % 10
        nc = 64 * (w - 1) + (g.rng.randint(1, 63) if g.rng.random() < 0.8 else 64)
        nr = g.rng.choice([1, 2, 3, 5, 8])
    ra, ka = g.rows(nr, nc)
    rb, kb = g.rows(nr, nc)
    la, da = g.operand("A", nr, nc, ra, W("A"))
    lb, db = g.operand("B", nr, nc, rb, W("B"))
    alias = g.rng.choice(["none", "none", "C=A", "C=B", "A=B", "C=A=B"]) if W("C") is None else "none"
    if alias == "none":
        lc, dc, cn = _dst(g, W, "C", nr, nc)
        lines = la + lb + lc + ["call add R %s A B" % cn]
        dumps = da + db + dc + (["R"] if cn == "-" else [])
    elif alias == "C=A":
        lines, dumps = la + lb + ["call add - A A B"], da + db
    elif alias == "C=B":
        lines, dumps = la + lb + ["call add - B A B"], da + db
    elif alias == "A=B":
        lines, dumps = la + ["call add R - A A"], da + ["R"]
    else:
        lines, dumps = la + ["call add - A A A"], da
    return _finish(lines, dumps), dict(shape=(nr, nc), kinds=(ka, kb), alias=alias, width=(nc + 63) // 64)


TR_FORCE = None       # set by an engine: (nrows, ncols) of the next transpose cases
_tr_count = [0]
_TR_SPECIAL = [0, 1, 7, 8, 9, 15, 16, 17, 31, 32, 33, 63]


@op("transpose", "C08", ["D", "A"])
def b_transpose(g, W, sz):
    cls = g.rng.choice(["small", "small", "mid", "big", "residue", "residue"])
    if TR_FORCE is not None:
        cls, (nr, nc) = "forced", TR_FORCE
    elif cls == "residue":
        # the kernels are chosen by the residues of both dimensions mod 64 (le8 / le16 / le32 / le64 tails, fewer than 64
        # rows or columns, lookup table per residue): one residue walks through 0..63, the other takes the boundaries
        _tr_count[0] += 1
        r1 = _tr_count[0] % 64
        r2 = g.rng.choice(_TR_SPECIAL + [g.rng.randrange(64)])
        a, b = g.rng.choice([0, 1, 1, 2]), g.rng.choice([0, 1, 1, 2])
        nr, nc = max(1, 64 * a + r1), max(1, 64 * b + r2)
        if g.rng.random() < 0.5:
            nr, nc = nc, nr
    elif cls == "small":
        nr, nc = g.dim(min(sz, 70)), g.dim(min(sz, 70))
    elif cls == "mid":
        nr, nc = g.dim(sz), g.dim(sz)
    else:
        nr, nc = g.dim(sz), g.dim(min(3 * sz, 800))
        if g.rng.random() < 0.5:
            nr, nc = nc, nr
    ra, ka = g.rows(nr, nc)
    la, da = g.operand("A", nr, nc, ra, W("A"))
    ld, dd, dn = _dst(g, W, "D", nc, nr)
    lines = la + ld + ["call transpose R %s A" % dn]
    return _finish(lines, da + dd + (["R"] if dn == "-" else [])), dict(shape=(nr, nc), kinds=(ka,), cls=cls)


@op("copy", "C08", ["D", "A"])
def b_copy(g, W, sz):
    nr, nc = g.dim(sz), g.dim(sz * 2)
    ra, ka = g.rows(nr, nc)
    la, da = g.operand("A", nr, nc, ra, W("A"))
    bigger = g.rng.random() < 0.25
    w = W("D")
    if w is None and not bigger and g.rng.random() < 0.4:
        ld, dd, dn = [], [], "-"
    else:
        dr, dc = (nr + g.rng.randint(0, 2), nc + g.rng.choice([0, 1, 63, 64])) if bigger else (nr, nc)
        rows, _ = g.rows(dr, dc, g.rng.choice(["dense", "ones"]))
        ld, dd = g.operand("D", dr, dc, rows, w)
        dn = "D"
    lines = la + ld + ["call copy R %s A" % dn]
    return _finish(lines, da + dd + (["R"] if dn == "-" else [])), dict(shape=(nr, nc), kinds=(ka,), bigger=bigger)


@op("copy_row", "C08", ["B", "A"])
def b_copy_row(g, W, sz):
    nra, nrb = g.small(6), g.small(6)
    nca = g.dim(sz * 2)
    ncb = nca + g.rng.choice([0, 0, 1, 63, 64, 70])
    ra, ka = g.rows(nra, nca)
    rb, kb = g.rows(nrb, ncb, "dense")
    la, da = g.operand("A", nra, nca, ra, W("A"))
    lb, db = g.operand("B", nrb, ncb, rb, W("B"))
    i, j = g.rng.randrange(nrb), g.rng.randrange(nra)
    return _finish(la + lb + ["call copy_row B %d A %d" % (i, j)], da + db), dict(shape=(nca, ncb), kinds=(ka,))


@op("set_ui", "C08", ["A"])
def b_set_ui(g, W, sz):
    nr, nc = g.dim(sz), g.dim(sz * 2)
    ra, ka = g.rows(nr, nc, "dense")
    la, da = g.operand("A", nr, nc, ra, W("A"))
    v = g.rng.choice([0, 1, 1, 2, 3])
    return _finish(la + ["call set_ui A %d" % v], da), dict(shape=(nr, nc), v=v)


@op("submatrix", "C08", ["S", "M"])
def b_submatrix(g, W, sz):
    nr, nc = g.dim(sz), g.dim(max(sz, 200))
    ra, ka = g.rows(nr, nc)
    la, da = g.operand("M", nr, nc, ra, W("M"))
    r0 = g.rng.randint(0, nr - 1)
    r1 = g.rng.randint(r0 + 1, nr)
    if g.rng.random() < 0.4:
        c0 = 64 * g.rng.randint(0, (nc - 1) // 64)
    else:
        c0 = g.rng.randint(0, nc - 1)
    c1 = g.rng.choice([nc, g.rng.randint(c0 + 1, nc), min(nc, c0 + g.rng.choice([1, 63, 64, 65, 128]))])
    c1 = max(c1, c0 + 1)
    w = W("S")
    if w is None and g.rng.random() < 0.5:
        ls, ds, sn = [], [], "-"
    else:
        # (a destination larger than the block is accepted by the C wrapper but what happens to its other
        #  entries is not specified anywhere; not generated)
        dr, dc = r1 - r0, c1 - c0
        rows, _ = g.rows(dr, dc, g.rng.choice(["dense", "ones"]))
        ls, ds = g.operand("S", dr, dc, rows, w)
        sn = "S"
    lines = la + ls + ["call submatrix R %s M %d %d %d %d" % (sn, r0, c0, r1, c1)]
    return _finish(lines, da + ds + (["R"] if sn == "-" else [])), dict(shape=(nr, nc), sub=(r0, c0, r1, c1),
                                                                       aligned=c0 % 64 == 0, kinds=(ka,))


@op("concat", "C08", ["C", "A", "B"])
def b_concat(g, W, sz):
    nr, nca, ncb = g.dim(sz), g.dim(sz), g.dim(sz)
    ra, ka = g.rows(nr, nca)
    rb, kb = g.rows(nr, ncb)
    la, da = g.operand("A", nr, nca, ra, W("A"))
    lb, db = g.operand("B", nr, ncb, rb, W("B"))
    lc, dc, cn = _dst(g, W, "C", nr, nca + ncb)
    lines = la + lb + lc + ["call concat R %s A B" % cn]
    return _finish(lines, da + db + dc + (["R"] if cn == "-" else [])), dict(shape=(nr, nca, ncb), kinds=(ka, kb))


@op("stack", "C08", ["C", "A", "B"])
def b_stack(g, W, sz):
    nra, nrb, nc = g.dim(sz), g.dim(sz), g.dim(sz * 2)
    ra, ka = g.rows(nra, nc)
    rb, kb = g.rows(nrb, nc)
    la, da = g.operand("A", nra, nc, ra, W("A"))
    lb, db = g.operand("B", nrb, nc, rb, W("B"))
    lc, dc, cn = _dst(g, W, "C", nra + nrb, nc)
    lines = la + lb + lc + ["call stack R %s A B" % cn]
    return _finish(lines, da + db + dc + (["R"] if cn == "-" else [])), dict(shape=(nra, nrb, nc), kinds=(ka, kb))


def _extract(which):
    def b(g, W, sz):
        nr, nc = g.dim(sz), g.dim(sz)
        ra, ka = g.rows(nr, nc, g.rng.choice(["dense", "ones", "sparse"]))
        la, da = g.operand("A", nr, nc, ra, W("A"))
        k = min(nr, nc)
        ld, dd, dn = _dst(g, W, "D", k, k)
        lines = la + ld + ["call extract_%s R %s A" % (which, dn)]
        return _finish(lines, da + dd + (["R"] if dn == "-" else [])), dict(shape=(nr, nc), kinds=(ka,))
    return b


op("extract_u", "C08", ["D", "A"])(_extract("u"))
op("extract_l", "C08", ["D", "A"])(_extract("l"))


# ------------------------------------------------------------------------------------------------
# C13
# ------------------------------------------------------------------------------------------------
def _one(name, mk_call, prop="C13", min_rows=1):
    def b(g, W, sz):
        nr, nc = max(min_rows, g.dim(sz)), g.dim(sz * 2)
        ra, ka = g.rows(nr, nc, g.rng.choice(["dense", "dense", "ones", "sparse"]))
        la, da = g.operand("A", nr, nc, ra, W("A"))
        call, meta = mk_call(g, nr, nc)
        m = dict(shape=(nr, nc), kinds=(ka,))
        m.update(meta)
        return _finish(la + [call], da), m
    op(name, prop, ["A"])(b)


def _col(g, nc):
    return g.rng.choice([0, nc - 1, g.rng.randrange(nc), min(nc - 1, 63), min(nc - 1, 64), (nc - 1) // 64 * 64])


_one("row_swap", lambda g, nr, nc: (lambda a, b: ("call row_swap A %d %d" % (a, b), dict(same=a == b)))(
    g.rng.randrange(nr), g.rng.randrange(nr)))
_one("col_swap", lambda g, nr, nc: (lambda a, b: ("call col_swap A %d %d" % (a, b), dict(sameword=a // 64 == b // 64)))(
    _col(g, nc), _col(g, nc)))


def _csir(g, nr, nc):
    a, b = _col(g, nc), _col(g, nc)
    r0 = g.rng.randint(0, nr)
    r1 = g.rng.randint(r0, nr)
    return "call col_swap_in_rows A %d %d %d %d" % (a, b, r0, r1), dict(sameword=a // 64 == b // 64, nrows=r1 - r0)


_one("col_swap_in_rows", _csir)
_one("row_add", lambda g, nr, nc: ("call row_add A %d %d" % (g.rng.randrange(nr), g.rng.randrange(nr)), {}))
_one("row_add_offset", lambda g, nr, nc: (lambda d, s, c: ("call row_add_offset A %d %d %d" % (d, s, c), dict(off=c % 64, same=d == s)))(
    g.rng.randrange(nr), g.rng.randrange(nr), _col(g, nc)))
_one("row_clear_offset", lambda g, nr, nc: (lambda c: ("call row_clear_offset A %d %d" % (g.rng.randrange(nr), c), dict(off=c % 64, word=c // 64)))(
    _col(g, nc)))


def _bits(kind):
    def f(g, nr, nc):
        n = g.rng.randint(1, min(64, nc))
        y = g.rng.choice([0, nc - n, g.rng.randint(0, nc - n)])
        x = g.rng.randrange(nr)
        if kind == "xor_bits":
            return "call xor_bits A %d %d %d %x" % (x, y, n, g.rng.getrandbits(n)), dict(n=n, spot=y % 64, spill=y % 64 + n > 64)
        return "call %s A %d %d %d" % (kind, x, y, n), dict(n=n, spot=y % 64, spill=y % 64 + n > 64)
    return f


_one("xor_bits", _bits("xor_bits"))
_one("clear_bits", _bits("clear_bits"))
_one("read_bits", _bits("read_bits"))


def _perm_op(name, side, full_only=False):
    def b(g, W, sz):
        nr, nc = g.dim(sz), g.dim(sz * 2)
        ra, ka = g.rows(nr, nc, g.rng.choice(["dense", "dense", "sparse", "ident"]))
        la, da = g.operand("A", nr, nc, ra, W("A"))
        n = nr if side == "left" else nc
        if full_only or g.rng.random() < 0.6:
            length = n
        else:
            length = g.rng.randint(1, n)
        pk = g.rng.choice(["rand", "rand", "ident", "single", "last"])
        p = g.lapack_perm(length, n, pk)
        short_escape = length < n and any(v >= length for v in p)
        lines = la + [g.perm_line("P", p), "call %s A P" % name]
        return _finish(lines, da, ["P"]), dict(shape=(nr, nc), kinds=(ka,), plen=length, full=length == n, pk=pk,
                                               short_escape=short_escape)
    op(name, "C13", ["A"])(b)


_perm_op("apply_p_left", "left")
_perm_op("apply_p_left_trans", "left")
_perm_op("apply_p_right", "right")
_perm_op("apply_p_right_trans", "right")
_perm_op("apply_p_right_trans_tri", "right", full_only=True)


# ------------------------------------------------------------------------------------------------
# C17
# ------------------------------------------------------------------------------------------------
def _pair(name):
    def b(g, W, sz):
        nr, nc = g.dim(sz), g.dim(sz * 2)
        ra, ka = g.rows(nr, nc)
        mode = g.rng.choice(["same", "onebit", "onebit", "rand", "dims", "twobit", "wordpair"])
        rb = list(ra)
        nrb, ncb = nr, nc
        if mode == "onebit":
            i = g.rng.randrange(nr)
            rb[i] ^= 1 << _col(g, nc)
        elif mode == "twobit":               # two differences, same or different rows
            for _ in range(2):
                rb[g.rng.randrange(nr)] ^= 1 << _col(g, nc)
        elif mode == "wordpair":             # differences at the same bit offset of two (or three) words of one row
            if nc <= 64:
                nc = ncb = 65 + g.rng.randrange(200)
                ra, ka = g.rows(nr, nc)
                rb = list(ra)
            i, c = g.rng.randrange(nr), g.rng.randrange(nc)
            cols = sorted(set([c] + [x for x in range(c % 64, nc, 64)][:g.rng.choice([2, 2, 3, 99])]))
            cols = g.rng.sample(cols, min(len(cols), g.rng.choice([2, 2, 3])))
            for x in cols:
                rb[i] ^= 1 << x
        elif mode == "rand":
            rb, _ = g.rows(nr, nc)
        elif mode == "dims":
            if g.rng.random() < 0.5 and nr > 1:
                nrb = nr - 1
                rb = rb[:nrb]
            else:
                ncb = nc + 1
        la, da = g.operand("A", nr, nc, ra, W("A"))
        lb, db = g.operand("B", nrb, ncb, rb, W("B"))
        swap = g.rng.random() < 0.5
        call = "call %s %s" % (name, "B A" if swap else "A B")
        return _finish(la + lb + [call], da + db), dict(shape=(nr, nc), mode=mode, kinds=(ka,))
    op(name, "C17", ["A", "B"])(b)


_pair("equal")
_pair("cmp")


@op("is_zero", "C17", ["A"])
def b_is_zero(g, W, sz):
    nr, nc = g.dim(sz), g.dim(sz * 2)
    ra, ka = g.rows(nr, nc, g.rng.choice(["zero", "zero", "single", "lastcol", "sparse", "period64", "period64"]))
    if ka == "period64":
        # content repeating with period 64 within a row (two or more equal word-aligned copies, the rest zero): sums
        # and parities of the words of a row vanish although the row does not
        nc = max(nc, 129 + g.rng.randrange(200))
        ra = []
        for _ in range(nr):
            blk = g.rng.choice([0, 1 << g.rng.randrange(64), g.rng.getrandbits(64)])
            reps = g.rng.choice([2, 2, 4, 3])
            off = 64 * g.rng.randrange(0, max(1, nc // 64 - reps + 1))
            v = 0
            for t in range(reps):
                v |= blk << (off + 64 * t)
            ra.append(v & ((1 << nc) - 1))
    la, da = g.operand("A", nr, nc, ra, W("A"))
    return _finish(la + ["call is_zero A"], da), dict(shape=(nr, nc), kinds=(ka,))


@op("first_zero_row", "C17", ["A"])
def b_fzr(g, W, sz):
    nr, nc = g.dim(sz), g.dim(sz * 2)
    ra, ka = g.rows(nr, nc, g.rng.choice(["zero", "single", "lastcol", "sparse", "dense"]))
    z = g.rng.randint(0, nr)
    ra = ra[:nr - z] + [0] * z
    la, da = g.operand("A", nr, nc, ra, W("A"))
    return _finish(la + ["call first_zero_row A"], da), dict(shape=(nr, nc), kinds=(ka,), width=(nc + 63) // 64, zeros=z)


@op("find_pivot", "C17", ["A"])
def b_find_pivot(g, W, sz):
    nr, nc = g.dim(sz), g.dim(max(sz * 2, 200))
    ra, ka = g.rows(nr, nc, g.rng.choice(["zero", "single", "lastcol", "sparse", "sparse", "dense"]))
    r0 = g.rng.choice([0, g.rng.randrange(nr)])
    c0 = g.rng.choice([0, _col(g, nc), max(0, nc - g.rng.randint(1, 64)), g.rng.randrange(nc)])
    # often clear everything left of some column so that the left-most non-zero column is far right
    if g.rng.random() < 0.5:
        cut = g.rng.randrange(nc)
        ra = [v >> cut << cut for v in ra]
    la, da = g.operand("A", nr, nc, ra, W("A"))
    return _finish(la + ["call find_pivot A %d %d" % (r0, c0)], da), dict(shape=(nr, nc), kinds=(ka,), start=(r0, c0),
                                                                          lastword=nc - c0 < 64)


@op("rw_bit", "C17", ["A"])
def b_rw(g, W, sz):
    nr, nc = g.dim(sz), g.dim(sz * 2)
    ra, ka = g.rows(nr, nc)
    la, da = g.operand("A", nr, nc, ra, W("A"))
    i, j, v = g.rng.randrange(nr), _col(g, nc), g.rng.getrandbits(1)
    lines = la + ["call read_bit A %d %d" % (i, j), "call write_bit A %d %d %d" % (i, j, v), "call read_bit A %d %d" % (i, j)]
    return _finish(lines, da), dict(shape=(nr, nc))


# ------------------------------------------------------------------------------------------------
# C13: row combination from given word offsets (mzd.h:920 mzd_combine_even_in_place, :994 mzd_combine_even, :1069
# mzd_combine).  Domain: destination and source segments of the same length n = ncols(A) - 64*a_startblock, B with at
# least n columns from its start word on.  The (width, start word) pairs are walked, not drawn: the vector loops
# depend on the parity of the start words and on the number of words to the row end.
# ------------------------------------------------------------------------------------------------
_comb_count = [0]
_COMB_PAIRS = [(w, sb) for w in range(1, 11) for sb in range(w)]


def _combine_case(g, W, three):
    r = g.rng
    _comb_count[0] += 1
    wa, asb = _COMB_PAIRS[_comb_count[0] % len(_COMB_PAIRS)]
    nca = 64 * wa - (0 if r.random() < 0.3 else r.randint(1, 63))
    if nca <= 64 * asb:
        nca = 64 * asb + 1
    n = nca - 64 * asb
    bsb = r.choice([0, 1, 1, 2, 3, asb])
    ncb = 64 * bsb + n + r.choice([0, 0, 1, 64, r.randint(0, 130)])
    nra, nrb = r.randint(1, 5), r.randint(1, 5)
    ar, br = r.randrange(nra), r.randrange(nrb)
    ra, ka = g.rows(nra, nca)
    rb, kb = g.rows(nrb, ncb, r.choice(["dense", "dense", "ones", "sparse"]))
    la, da = g.operand("A", nra, nca, ra, W("A"))
    lb, db = g.operand("B", nrb, ncb, rb, W("B"))
    meta = dict(shape=(nra, nca), kinds=(ka, kb), width=wa, startwords=(asb, bsb), words_left=wa - asb)
    if not three:
        return _finish(la + lb + ["call combine_even_in_place A %d %d B %d %d" % (ar, asb, br, bsb)], da + db), meta
    form = r.choice(["inplace", "inplace", "three", "three", "three", "same-other-row", "same-row-shifted", "same-row-shifted"])
    if form == "same-row-shifted" and asb >= 1:
        # C == A, same row, destination start word BELOW the source start word (overlapping segments of one row, written
        # front to back): the three-operand kernel; b start word equal to a's or not
        csb = r.randrange(asb)
        bsb2 = r.choice([asb, asb, bsb])
        if ncb < 64 * bsb2 + n:
            bsb2 = bsb
        return _finish(la + lb + ["call combine A %d %d A %d %d B %d %d" % (ar, csb, ar, asb, br, bsb2)], da + db), dict(meta, form=form, startwords=(asb, bsb2), cstart=csb)
    if form == "inplace":          # C == A, same row, same start word: dispatches to the in-place kernel
        return _finish(la + lb + ["call combine A %d %d A %d %d B %d %d" % (ar, asb, ar, asb, br, bsb)], da + db), dict(meta, form=form)
    if form == "same-other-row" and nra > 1:   # C == A but another row: the three-operand kernel on one object
        cr = (ar + 1) % nra
        return _finish(la + lb + ["call combine A %d %d A %d %d B %d %d" % (cr, asb, ar, asb, br, bsb)], da + db), dict(meta, form=form)
    csb = r.choice([0, 1, 2, 3, asb])
    ncc, nrc = 64 * csb + n, r.randint(1, 4)
    rc, _ = g.rows(nrc, ncc, r.choice(["dense", "ones", "zero"]))
    lc, dc = g.operand("C", nrc, ncc, rc, W("C"))
    cr = r.randrange(nrc)
    return _finish(la + lb + lc + ["call combine C %d %d A %d %d B %d %d" % (cr, csb, ar, asb, br, bsb)], da + db + dc), dict(meta, form="three", cstart=csb)


@op("combine_even_in_place", "C13", ["A", "B"])
def b_combine_in_place(g, W, sz):
    return _combine_case(g, W, False)


@op("combine", "C13", ["C", "A", "B"])
def b_combine(g, W, sz):
    return _combine_case(g, W, True)


# ------------------------------------------------------------------------------------------------
# C01
# ------------------------------------------------------------------------------------------------
def _mul_shapes(g, sz, route):
    r = g.rng
    m, l, n = g.dim(sz), g.dim(sz), g.dim(sz)
    c = r.random()
    if route in ("mul", "addmul", "mul_mp", "addmul_mp") and c > 0.95:
        # two or more halvings with ONE thin dimension (the split granularity is a multiple of 64 that doubles per level and
        # must not exceed any of the three dimensions): independent of sz, cheap (one dimension stays small)
        big = lambda: r.choice([260, 300, 384, 511, 512, 600])
        thin = lambda: r.choice([128, 130, 191, 200, 255])
        m, l, n = big(), big(), big()
        which = r.choice(["l", "l", "m", "n"])
        if which == "l":
            l = thin()
        elif which == "m":
            m = thin()
        else:
            n = thin()
    elif route in ("mul", "addmul", "mul_mp", "addmul_mp") and c > 0.6:
        # Strassen split limits: for cutoff c the recursion is entered when all dimensions are >= 4c/3;
        # with c = 64 a dimension in [86, 127] is then too small to be split on a word boundary
        grid = [85, 86, 100, 127, 128, 129, 171, 192, 255, 256, 257]
        m, l, n = r.choice(grid), r.choice(grid), r.choice(grid)
    elif c < 0.15:
        n = r.choice([1, 30, 53, 54, 55])      # naive: transposed / row-combination switch
    elif c < 0.3:
        m = r.choice([1, 15, 16, 17])          # m4rm falls back below 16 rows
    elif c < 0.38:
        # row-block loop of _mzd_mul_naive: A->nrows an exact multiple of __M4RI_MUL_BLOCKSIZE (2048 on the host,
        # 256 in the small-cache build) or one off, with a thin B (< 54 columns: the row-combination route)
        m = r.choice([256, 512, 255, 257] + ([2048, 2047] if sz >= 400 else []))
        n = r.choice([1, 5, 30, 53])
        l = min(l, 130)
    elif c < 0.38 + P_WIDE:
        # word-width classes of the combine kernels: C / B of 1..9, 15, 16, 17 words, more than 64 rows
        n = _wide_cols(g)
        m = r.randint(65, 100)
        l = r.choice([r.randint(1, 70), 17, 64, 65])
    return m, l, n


SAME_BIAS = None      # set by an engine: probability of the squaring form (both factors the same object, square shape)


def _mul(name, accumulate, param):
    def b(g, W, sz):
        m, l, n = _mul_shapes(g, sz, name)
        force_same = False
        if name in ("mul", "addmul", "mul_mp", "addmul_mp") and g.rng.random() < (0.1 if SAME_BIAS is None else SAME_BIAS):
            m = l = n = g.rng.choice([1, 17, 63, 64, 65, 100, 127, 128, 129, 192, 200, 256, g.dim(sz), g.dim(sz)])
            force_same = g.rng.random() < 0.6
        ra, ka = g.rows(m, l)
        rb, kb = g.rows(l, n)
        la, da = g.operand("A", m, l, ra, W("A"))
        lb, db = g.operand("B", l, n, rb, W("B"))
        p = param(g)
        same = False
        if accumulate:
            rc, kc = g.rows(m, n, g.rng.choice(["dense", "zero", "ones"]))
            lc, dc = g.operand("C", m, n, rc, W("C"))
            cn = "C"
        else:
            lc, dc, cn = _dst(g, W, "C", m, n)
        if W("A") is None and W("B") is None and l > 1 and g.rng.random() < 0.07:
            # two views that share their first entry (rows of M^2, a leading block times the whole): A a window on the
            # top rows of B, or B a window on the top-left block of A.  Distinct objects, overlapping storage, read-only.
            if g.rng.random() < 0.6 or m < l:
                n = l
                rb, kb = g.rows(l, n)
                m = g.rng.choice([1, l // 2, l - 1, g.rng.randint(1, l - 1)]) or 1
                lb = [g.mat_line("B", l, n, rb), "win A B 0 0 %d %d" % (m, l)]
                la, da, db = [], ["A"], ["B"]
                ra = rb[:m]
            else:
                n = g.rng.choice([1, l // 2, l, g.rng.randint(1, l)]) or 1
                la = [g.mat_line("A", m, l, ra), "win B A 0 0 %d %d" % (l, n)]
                lb, da, db = [], ["A"], ["B"]
                rb = [x & ((1 << n) - 1) for x in ra[:l]]
            if accumulate:
                rc, kc = g.rows(m, n, g.rng.choice(["dense", "zero", "ones"]))
                lc, dc = g.operand("C", m, n, rc, None)
            else:
                lc, dc, cn = _dst(g, lambda role: None, "C", m, n)
            lines = la + lb + lc + ["call %s R %s A B%s" % (name, cn, p)]
            return _finish(lines, da + db + dc + (["R"] if cn == "-" else [])), dict(shape=(m, l, n), kinds=(ka, kb, "shared-view"), param=p.strip(), same=False)
        if m == l == n and (W("A") is not None or W("B") is None) and (force_same or g.rng.random() < 0.3) and name in ("mul", "addmul", "mul_mp", "addmul_mp"):
            same = True      # squaring route: both factors the same object
            lines = la + lc + ["call %s R %s A A%s" % (name, cn, p)]
            dumps = da + dc
        else:
            lines = la + lb + lc + ["call %s R %s A B%s" % (name, cn, p)]
            dumps = da + db + dc
        return _finish(lines, dumps + (["R"] if cn == "-" else [])), dict(shape=(m, l, n), kinds=(ka, kb), param=p.strip(), same=same)
    op(name, "C01", ["C", "A", "B"])(b)


_K = lambda g: " %d" % g.rng.choice([0, 0, 1, 2, 3, 4, 5, 6, 7, 8, 9, 10, 16])
_CUT = lambda g: " %d" % g.rng.choice([0, 0, 1, 64, 64, 64, 65, 127, 128, 128, 192, 256, 512, 1024, 2048])
_mul("mul_naive", False, lambda g: "")
_mul("addmul_naive", True, lambda g: "")
_mul("mul_m4rm", False, _K)
_mul("addmul_m4rm", True, _K)
_mul("mul", False, _CUT)
_mul("addmul", True, _CUT)
_mul("mul_mp", False, _CUT)
_mul("addmul_mp", True, _CUT)


@op("mul_va", "C01", ["C", "A", "B"])
def b_mul_va(g, W, sz):
    m, l, n = g.dim(sz), g.dim(sz), g.dim(sz)
    ra, ka = g.rows(m, l)
    rb, kb = g.rows(l, n)
    rc, kc = g.rows(m, n, "dense")
    la, da = g.operand("A", m, l, ra, W("A"))
    lb, db = g.operand("B", l, n, rb, W("B"))
    lc, dc = g.operand("C", m, n, rc, W("C"))
    clear = g.rng.getrandbits(1)
    return _finish(la + lb + lc + ["call mul_va - C A B %d" % clear], da + db + dc), dict(shape=(m, l, n), clear=clear)


@op("_mul_naive", "C01", ["C", "A", "B"])
def b__mul_naive(g, W, sz):
    """_mzd_mul_naive(C, A, Bt, clear): the documented kernel on a pre-transposed second factor, any width of C (the
    public wrappers only reach it with fewer than 54 columns)"""
    m, l = g.dim(sz), g.dim(sz)
    n = g.rng.choice([g.dim(sz), g.dim(sz), 64, 65, 70, 127, 128, 130, 200])
    ra, ka = g.rows(m, l)
    rb, kb = g.rows(n, l)
    rc, kc = g.rows(m, n, g.rng.choice(["dense", "ones", "zero"]))
    la, da = g.operand("A", m, l, ra, W("A"))
    lb, db = g.operand("B", n, l, rb, W("B"))
    lc, dc = g.operand("C", m, n, rc, W("C"))
    clear = g.rng.getrandbits(1)
    return _finish(la + lb + lc + ["call _mul_naive - C A B %d" % clear], da + db + dc), dict(shape=(m, l, n), kinds=(ka, kb), clear=clear)


@op("djb", "C01", ["A", "V"])
def b_djb(g, W, sz):
    m, l, n = g.dim(min(sz, 100)), g.dim(min(sz, 100)), g.dim(sz)
    ra, ka = g.rows(m, l)
    rv, kv = g.rows(l, n)
    la, da = g.operand("A", m, l, ra, W("A"))
    lv, dv = g.operand("V", l, n, rv, W("V"))
    return _finish(la + lv + ["call djb R A V"], da + dv + ["R"]), dict(shape=(m, l, n), kinds=(ka, kv))


# ------------------------------------------------------------------------------------------------
# C02
# ------------------------------------------------------------------------------------------------
def _ech_split_case(g):
    """the 1..6-table split of _mzd_echelonize_m4ri depends on kbar = number of pivots found in the current block of
    up to 6k columns: explicit k in 2..10, ncols = 6k*q + rem for q in 0..2 and EVERY rem in 1..6k-1 (in particular
    rem in (5k, 6k)), nrows = ncols + 14; dense (full column rank), 10 % density, or a pivot gap after exactly such a
    number of pivots"""
    r = g.rng
    k = r.choice([2, 3, 4, 5, 6, 7, 8, 9, 9, 10, 10])      # 6k <= 64: k = 9, 10 are admissible explicit parameters
    q = r.choice([0, 1, 2])
    rem = r.choice([r.randint(1, 6 * k - 1), r.randint(5 * k + 1, 6 * k - 1), r.randint(1, 6 * k - 1)])
    if r.random() < 0.35:
        # a strip eliminated with t tables whose pivot count crosses a 32-bit boundary of the strip word (kbar >= 33):
        # (t, k) with t*k >= 33, remainder in [max((t-1)k + 1, 33), t*k]
        t, k = r.choice([(tt, kk) for tt in range(1, 7) for kk in range(2, 11) if tt * kk >= 33])
        rem = min(6 * k - 1, r.randint(max((t - 1) * k + 1, 33), t * k))
    nc = 6 * k * q + rem
    nr = nc + 14
    style = r.choice(["dense", "dense", "density10", "gap"])
    if style == "density10":
        rows = []
        for _ in range(nr):
            v = 0
            for j in range(nc):
                if r.random() < 0.1:
                    v |= 1 << j
            rows.append(v)
    else:
        rows = [r.getrandbits(nc) for _ in range(nr)]
    if style == "gap":
        # pivots in the columns 0..p-1, then a zero column block, then pivots again
        p = min(nc - 1, 6 * k * r.choice([0, 1]) + r.randint(1, 6 * k - 1)) if nc > 1 else 0
        gw = r.choice([1, 2, k, 6 * k, 64 - p % 64 if p % 64 else 1])
        mask = ~(((1 << gw) - 1) << p)
        rows = [v & mask & ((1 << nc) - 1) for v in rows]
        style = "gap%d+%d" % (p, gw)
    return k, nr, nc, rows, "split/k%d/q%d/rem%d/%s" % (k, q, rem, style)


def _ech_switch_case(g):
    """the density-switching hybrid (brilliantrussian.c:683-709): M4RI runs while the sampled density is below the
    threshold and hands the remaining window to PLUQ, then top-reduces the rows it had finished.  Sparse leading
    columns (M4RI gets past column 256 with r > 0), optionally a zero column block so that the cursor lands on a
    word boundary, then a dense remainder containing pivots; more than 256 columns, independent of sz."""
    r = g.rng
    nc = r.choice([320, 384, 400, 512, 640, 672])
    nr = r.randint(nc // 2, nc + 60)
    cut = r.choice([256, 257, 288, 320]) if nc > 330 else 256
    cut = min(cut, nc - 32)
    dens = r.choice([0.01, 0.03, 0.06])
    rows = []
    for _ in range(nr):
        v = 0
        for j in range(cut):
            if r.random() < dens:
                v |= 1 << j
        v |= r.getrandbits(nc - cut) << cut
        rows.append(v)
    if r.random() < 0.5:
        z0 = r.randint(8, cut - 40)
        zw = r.choice([8, 33, 64 - z0 % 64 if z0 % 64 else 64])
        mask = ~(((1 << zw) - 1) << z0)
        rows = [v & mask for v in rows]
    return nr, nc, rows, "switch/cut%d/d%g" % (cut, dens)


def _ech(name, mk, kcall=None):
    def b(g, W, sz):
        c = g.rng.random()
        if name in ("echelonize", "_echelonize_m4ri") and 0.3 <= c < 0.42:
            nr, nc, ra, ka = _ech_switch_case(g)
            la, da = g.operand("A", nr, nc, ra, W("A"))
            call, meta = mk(g)
            if name == "_echelonize_m4ri":
                # heuristic on, automatic k, a threshold the sparse part stays below
                f = g.rng.getrandbits(1)
                thr = g.rng.choice(["0.15", "0.15", "0.5"])
                call, meta = "call _echelonize_m4ri A %d 0 1 %s" % (f, thr), dict(full=f, k=0, heur=1, thr=thr)
            m = dict(shape=(nr, nc), kinds=(ka,))
            m.update(meta)
            return _finish(la + [call], da), m
        if kcall is not None and c < 0.3:
            k, nr, nc, ra, ka = _ech_split_case(g)
            la, da = g.operand("A", nr, nc, ra, W("A"))
            call, meta = kcall(g, k)
            m = dict(shape=(nr, nc), kinds=(ka,))
            m.update(meta)
            return _finish(la + [call], da), m
        widegap = False
        if c > 1.0 - P_WIDE:
            nr, nc = g.rng.randint(65, 100), _wide_cols(g)
        elif c > 1.0 - P_WIDE - 0.08:
            # nine and more words to the right of a block that holds few pivots (pivot gaps, zero column blocks): the
            # one- and two-table kernels with their unrolled row updates over many words
            nr, nc = g.rng.randint(40, 100), 64 * g.rng.randint(9, 17) - g.rng.choice([0, 1, 17, 40, 63])
            widegap = True
        else:
            nr, nc = g.dim(sz), g.dim(sz * 2)
        if widegap:
            ra, ka = _gen.rank_profile_rows2(g, nr, nc, g.rng.choice(["zeroblock", "gap64", "wordgap", "spread", "lowrank"]))
            ka = "widegap/" + str(ka)
        elif g.rng.random() < 0.7:
            ra, ka = g.rank_profile_rows(nr, nc)
        else:
            ra, ka = g.rows(nr, nc)
        la, da = g.operand("A", nr, nc, ra, W("A"))
        call, meta = mk(g)
        m = dict(shape=(nr, nc), kinds=(ka,))
        m.update(meta)
        return _finish(la + [call], da), m
    op(name, "C02", ["A"])(b)


_full = lambda g: g.rng.getrandbits(1)
_ech("echelonize_naive", lambda g: (lambda f: ("call echelonize_naive A %d" % f, dict(full=f)))(_full(g)))
_ech("gauss_delayed", lambda g: (lambda f: ("call gauss_delayed A 0 %d" % f, dict(full=f)))(_full(g)))
_ech("echelonize_m4ri", lambda g: (lambda f, k: ("call echelonize_m4ri A %d %d" % (f, k), dict(full=f, k=k)))(
    _full(g), g.rng.choice([0, 0, 1, 2, 3, 4, 5, 6, 7, 8, 9, 10])),
     kcall=lambda g, k: (lambda f: ("call echelonize_m4ri A %d %d" % (f, k), dict(full=f, k=k)))(_full(g)))
_ech("echelonize_pluq", lambda g: (lambda f: ("call echelonize_pluq A %d" % f, dict(full=f)))(_full(g)))
_ech("echelonize", lambda g: (lambda f: ("call echelonize A %d" % f, dict(full=f)))(_full(g)))
_ech("_echelonize_m4ri", lambda g: (lambda f, k, h, t: ("call _echelonize_m4ri A %d %d %d %s" % (f, k, h, t), dict(full=f, k=k, heur=h, thr=t)))(
    _full(g), g.rng.choice([0, 1, 3, 5, 8]), g.rng.getrandbits(1), g.rng.choice(["0", "0.01", "0.15", "0.5", "1"])),
     kcall=lambda g, k: (lambda f, h, t: ("call _echelonize_m4ri A %d %d %d %s" % (f, k, h, t), dict(full=f, k=k, heur=h, thr=t)))(
         _full(g), g.rng.getrandbits(1), g.rng.choice(["0", "0.01", "0.15", "0.5", "1"])))


@op("top_echelonize_m4ri", "C02", ["A"])
def b_top(g, W, sz):
    """complete a row echelon form produced by a non-reduced route"""
    nr, nc = g.dim(sz), g.dim(sz * 2)
    ra, ka = g.rank_profile_rows(nr, nc)
    la, da = g.operand("A", nr, nc, ra, W("A"))
    k = g.rng.choice([0, 0, 1, 2, 4, 6, 8])
    first = g.rng.choice(["echelonize_naive A 0", "echelonize_m4ri A 0 0", "echelonize_pluq A 0"])
    return _finish(la + ["call " + first, "call top_echelonize_m4ri A %d" % k], da), dict(shape=(nr, nc), kinds=(ka,), k=k)


# ------------------------------------------------------------------------------------------------
# C03 — PLE / PLUQ.  P and Q are pre-filled with junk; every output (A', P, Q, r) is dumped.
# The integer argument of mzd_ple/mzd_pluq/_mzd_ple/_mzd_pluq is the STRASSEN cutoff handed on to
# TRSM/addmul (the PLE base-case threshold __M4RI_PLE_CUTOFF is a build constant, ple.h:40).
# ------------------------------------------------------------------------------------------------
import gen as _gen

_SCUT = [0, 0, 64, 128, 1024]
# set by the engines around runs in the stress build: fraction of shapes forced into the block recursion of
# ple.c for a PLE cut-off of REC_WORDS words (ncols > 64 and width * nrows > REC_WORDS)
REC_BIAS = 0.0
REC_WORDS = 512


def _rec_shape(g, cap):
    r = g.rng
    if REC_WORDS <= 1024 and r.random() < 0.08:
        # one word of columns above the size cut-off: the "ncols <= 64 => base case" clause of _mzd_ple alone keeps
        # these out of the column-splitting recursion (whose split point would be 0)
        return REC_WORDS + r.choice([1, 2, r.randint(1, 60)]), r.choice([64, 64, 63, 33])
    n = min(max(cap, 65), r.choice([65, 100, 127, 128, 129, 130, 130, 191, 192, 193, 200, 257, 300]))
    need = REC_WORDS // ((n + 63) // 64) + 1
    return need + r.choice([0, 1, 2, 7, r.randint(0, 40), r.randint(0, 120)]), n


def _ple_shape(g, sz, k=None):
    r = g.rng
    if REC_BIAS and r.random() < REC_BIAS:
        return _rec_shape(g, 2 * sz)
    c = r.random()
    cap = 2 * sz
    if c > 1.0 - P_WIDE:
        return r.randint(65, 100), _wide_cols(g)       # word-width classes of the process_rows kernels
    if c < 0.3:
        m, n = g.dim(sz), g.dim(cap)
    elif c < 0.5:
        # m < n, m = n, m > n with n at the word borders
        n = r.choice([d for d in (1, 2, 63, 64, 65, 127, 128, 129, 130, 191, 192, 193, 256, 257) if d <= cap])
        m = max(1, min(cap, r.choice([1, 2, n - 1, n, n + 1, 2 * n + 1, n // 2, r.randint(1, sz)])))
    elif c < 0.75:
        # number of lookup tables of the Four-Russians base case: right edge at every residue of ncols mod 7k
        kk = k if k else r.choice([2, 3, 4, 5, 6, 7, 8])
        n = max(1, min(cap, 7 * kk * r.randint(0, 3) + r.randint(0, 7 * kk)))
        m = g.dim(sz)
    else:
        # entry of the block recursion in the stress build (L3 = 4 KiB: width * nrows > 512 and ncols > 64)
        n = min(cap, r.choice([65, 100, 128, 129, 130, 192, 193, 200, 257, 300]))
        m = min(cap, r.choice([100, 150, 171, 180, 200, 256, 257, 300]))
    return m, n


def _ple_content(g, m, n):
    if g.rng.random() < 0.7:
        return _gen.rank_profile_rows2(g, m, n)
    return g.rows(m, n)


# Finding F22: _mzd_ple_russian / _mzd_pluq_russian called directly on a window at an ODD word offset fault in
# SSE2 builds when the window is >= 3 words wide (table rows not in the 16-byte phase of the destination, same
# family as F9/F14/F20).  The library itself only calls them on a fresh copy (ple.c:77).  Until the entry exists in
# known_findings.json (F22, C09/C11) matches these operations; False restricts their windows to even word offsets.
RUSSIAN_ODD_WINDOW = True


def _echelon_basis(g, r, ncols):
    """r rows in echelon form with spread random pivots: rank exactly r"""
    piv = sorted(g.rng.sample(range(ncols), r))
    full = (1 << ncols) - 1
    return [((g.rng.getrandbits(ncols) >> (p + 1) << (p + 1)) | (1 << p)) & full for p in piv]


def _compress_case(g):
    """inputs for the whole-word move loops of _mzd_compress_l (mzp.c:294): ncols = 64 w, the split of ple.c at
    n1 = 64 ((w+1)/2); the left n1 columns have rank r1 < n1 with r1 in {0, 64, 100, n1-1} (r1 % 64 == 0 included), the
    Schur complement of the right part has rank r2 in {64, 128, 129, ...} >= one word, rows below r1 + r2 exist, and
    width * nrows exceeds the PLE cut-off REC_WORDS so that the block recursion is entered"""
    r = g.rng
    w = r.choice([3, 3, 4, 4, 5, 5, 10])
    n = 64 * w
    n1 = 64 * ((w + 1) // 2)
    nR = n - n1
    r1 = r.choice([x for x in (0, 64, 100, n1 - 1) if x < n1 and (x <= 64 or n1 > x)])
    r2 = min(nR, r.choice([64, 128, 129, min(192, nR)]))
    m = max(r1 + r2 + 20, REC_WORDS // w + 1) + r.choice([0, 1, 7, r.randint(0, 60)])
    B1 = _echelon_basis(g, r1, n1)
    B2 = _echelon_basis(g, r2, nR)
    basis = [b | (r.getrandbits(nR) << n1) for b in B1] + [b << n1 for b in B2]
    nb = len(basis)
    rows = []
    for i in range(m):
        c = r.getrandbits(nb) if nb else 0
        rows.append(c)
    # a few dependent rows on top and in the middle
    if m > 8 and nb:
        rows[2] = rows[0] ^ rows[1]
        rows[m // 2] = rows[m // 2 - 1]
        rows[m // 2 + 1] = 0
    return m, n, _gen.mat_mul_rows(rows, basis), "compress/w%d/r1=%d/r2=%d" % (w, r1, r2)


def _ple(name, has_k):
    def b(g, W, sz):
        k = g.rng.choice([0, 0, 2, 3, 4, 5, 6, 7, 8, 1, 9]) if has_k else None   # 7k <= 64 is asserted (ple_russian.c:404)
        if REC_BIAS and name in ("ple", "pluq") and g.rng.random() < 0.35:
            m, n, ra, ka = _compress_case(g)
        else:
            m, n = _ple_shape(g, sz, k)
            ra, ka = _ple_content(g, m, n)
        w = W("A")
        if w is not None and has_k and not RUSSIAN_ODD_WINDOW:
            w = dict(w)
            w["wo"] = (w["wo"] // 2 * 2) if "wo" in w else g.rng.choice([0, 2])
        la, da = g.operand("A", m, n, ra, w)
        lines = la + [g.perm_line("P", _gen.junk_perm(g, m)), g.perm_line("Q", _gen.junk_perm(g, n))]
        if name in ("_ple_naive", "_pluq_naive"):
            par, call = None, "call %s A P Q" % name
        elif has_k:
            par, call = k, "call %s A P Q %d" % (name, k)
        else:
            par = g.rng.choice(_SCUT)
            call = "call %s A P Q %d" % (name, par)
        return _finish(lines + [call], da, ["P", "Q"]), dict(shape=(m, n), kinds=(ka,), k=k if has_k else None,
                                                              param=None if has_k else par, width=(n + 63) // 64)
    op(name, "C03", ["A"])(b)


_ple("ple", False)
_ple("pluq", False)
_ple("_ple_naive", False)
_ple("_pluq_naive", False)
_ple("_ple_russian", True)
_ple("_pluq_russian", True)


# ------------------------------------------------------------------------------------------------
# C04 — triangular solves: unit diagonal, garbage in the unused triangle, T and B dumped
# ------------------------------------------------------------------------------------------------
# set by the engines: (lo, hi, probability) — dimensions of triangular / square systems forced into [lo, hi]
# (beyond MUL_BLOCKSIZE resp. the trtri recursion threshold of the small-cache build)
TRI_BIG = None


def _tri_dim(g, sz):
    if TRI_BIG and g.rng.random() < TRI_BIG[2]:
        return g.rng.choice([TRI_BIG[0], TRI_BIG[0] + 1, g.rng.randint(TRI_BIG[0], TRI_BIG[1]), g.rng.randint(TRI_BIG[0], TRI_BIG[1])])
    return _gen.tri_dim(g, sz)


def _trsm(name, upper, left):
    def b(g, W, sz):
        n = _tri_dim(g, sz)
        w = g.rng.choice([g.dim(sz), g.dim(sz), g.rng.choice([d for d in (1, 63, 64, 65, 127, 128, 129, 130) if d <= max(sz, 1)])])
        if TRI_BIG is None and g.rng.random() < P_WIDE:
            # word-width classes: B of 1..9, 15, 16, 17 words with more than 64 rows (left variants: B is n x w;
            # right variants: B is w x n, so the triangular matrix itself is that wide)
            if left:
                n, w = g.rng.choice([65, 66, 100, 128, 129]), _wide_cols(g)
            else:
                n, w = _wide_cols(g), g.rng.choice([65, 66, 100])
        garbage = g.rng.random() < 0.85
        rt = g.unit_tri_rows(n, upper, garbage=garbage)
        br, bc = (n, w) if left else (w, n)
        rb, kb = g.rows(br, bc, g.rng.choice(["dense", "dense", "dense", "sparse", "ident", "ones", "lowrank", "zero", "single"]))
        lt, dt = g.operand("T", n, n, rt, W("T"))
        lb, db = g.operand("B", br, bc, rb, W("B"))
        cut = g.rng.choice(_SCUT)
        return _finish(lt + lb + ["call %s T B %d" % (name, cut)], dt + db), dict(shape=(n, w), kinds=(("tri+garbage/" if garbage else "tri/") + g.last_tri_style, kb),
                                                                                  param=cut, upper=upper, left=left)
    op(name, "C04", ["T", "B"])(b)


for _pre in ("", "_"):
    _trsm(_pre + "trsm_upper_left", True, True)
    _trsm(_pre + "trsm_lower_left", False, True)
    _trsm(_pre + "trsm_upper_right", True, False)
    _trsm(_pre + "trsm_lower_right", False, False)


# ------------------------------------------------------------------------------------------------
# C05 — inversion of invertible matrices; in-place inversion of unit upper triangular matrices
# ------------------------------------------------------------------------------------------------
_inv_count = [0]


@op("inv_m4ri", "C05", ["D", "A"])
def b_inv_m4ri(g, W, sz):
    n = _tri_dim(g, sz)
    if g.rng.random() < 0.6:
        # mzd_inv_m4ri echelonises [A | I] with the automatic k (6 for 128 <= n < 512): every block is full except the
        # last one, whose width is n mod 6k - walk through EVERY residue (each selects a different table split 1..6 and
        # different table widths), independent of sz
        _inv_count[0] += 1
        n = 128 + 36 * g.rng.randint(0, 4) + (_inv_count[0] * 7) % 36
    ra = g.invertible_rows(n)
    la, da = g.operand("A", n, n, ra, W("A"))
    ld, dd, dn = _dst(g, W, "D", n, n)
    k = g.rng.choice([0, 0, 1, 2, 3, 4, 5, 6, 7, 8, 9, 10, 16])
    return _finish(la + ld + ["call inv_m4ri R %s A %d" % (dn, k)], da + dd + (["R"] if dn == "-" else [])), dict(
        shape=(n, n), kinds=("invertible",), k=k, width=(n + 63) // 64)


@op("invert_naive", "C05", ["D", "A", "I"])
def b_invert_naive(g, W, sz):
    n = _tri_dim(g, sz)
    ra = g.invertible_rows(n)
    la, da = g.operand("A", n, n, ra, W("A"))
    li, di = g.operand("I", n, n, [1 << i for i in range(n)], W("I"))
    ld, dd, dn = _dst(g, W, "D", n, n)
    return _finish(la + li + ld + ["call invert_naive R %s A I" % dn], da + di + dd + (["R"] if dn == "-" else [])), dict(
        shape=(n, n), kinds=("invertible",), width=(n + 63) // 64)


@op("trtri_upper_russian", "C05", ["A"])
def b_trtri_upper_russian(g, W, sz):
    """the Four-Russians base of the triangular inversion with an EXPLICIT table parameter (public entry point): k in
    0..16; 4k index bits per step, so k >= 9 uses more than 32 bits of the table words; n >= 8k so that the main loop
    runs more than once"""
    k = g.rng.choice([0, 1, 2, 3, 4, 5, 6, 7, 8, 9, 10, 11, 12, 13, 14, 15, 16])
    n = g.rng.choice([g.rng.randint(1, 40), 63, 64, 65, 100, 128, 129, g.rng.randint(8 * max(k, 1), 8 * max(k, 1) + 70)])
    garbage = g.rng.random() < 0.5
    ra = g.unit_tri_rows(n, True, garbage=garbage)
    w = W("A")
    if w is not None:
        w = dict(w)
        w["wo"] = (w["wo"] // 2 * 2) if "wo" in w else g.rng.choice([0, 2])     # odd word offsets: recorded finding F9
    la, da = g.operand("A", n, n, ra, w)
    return _finish(la + ["call trtri_upper_russian A %d" % k], da), dict(shape=(n, n), kinds=(("tri+garbage/" if garbage else "tri/") + g.last_tri_style,), k=k,
                                                                         width=(n + 63) // 64)


@op("trtri_upper", "C05", ["A"])
def b_trtri_upper(g, W, sz):
    n = _tri_dim(g, sz)
    # the stored diagonal is read by the Four-Russians base (must be one); the lower triangle is not touched
    garbage = g.rng.random() < 0.5
    ra = g.unit_tri_rows(n, True, garbage=garbage)
    la, da = g.operand("A", n, n, ra, W("A"))
    return _finish(la + ["call trtri_upper A"], da), dict(shape=(n, n), kinds=(("tri+garbage/" if garbage else "tri/") + g.last_tri_style,), width=(n + 63) // 64)


# ------------------------------------------------------------------------------------------------
# C06 — solving.  B has max(m, n) rows; rows >= m are the padding rows.
# ------------------------------------------------------------------------------------------------
def _solve_system(g, sz):
    r = g.rng
    c = r.random()
    if REC_BIAS and r.random() < REC_BIAS:
        m, n = _rec_shape(g, 2 * sz)
    elif c < 0.3:
        n = g.dim(sz)
        m = r.randint(1, n)                  # m <= n: padding rows exist when m < n
    elif c < 0.45:
        n = g.dim(sz)
        m = n
    elif c < 0.7:
        m = g.dim(sz)
        n = r.randint(1, m)
    else:
        n = r.choice([d for d in (2, 3, 5, 17, 63, 64, 65, 66, 100, 127, 128, 129, 130) if d <= max(sz, 3)])
        m = max(1, n - r.choice([1, 1, 2, 3, n // 2, n - 1]))
    w = r.choice([1, 1, 2, 3, r.randint(1, 130), r.randint(1, 130), 63, 64, 65, 127, 128, 129, 130])
    ck = r.random()
    if ck < 0.55:
        ra, ka = _gen.rank_profile_rows2(g, m, n)
    elif ck < 0.7:
        ra, ka = _gen.rank_profile_rows2(g, m, n, "fullrank")
    elif ck < 0.78:
        ra, ka = [0] * m, "zero"
    elif ck < 0.9 and min(m, n) >= 2:
        # structured systems: A = L * U (cut / padded to m x n) with sparse or structured unit triangular factors, many
        # right-hand sides: rows and column blocks of U without entries (data-dependent shortcuts of the table-driven
        # back-substitution)
        d = max(m, n)
        st = r.choice(["sparse", "few", "colsparse", "band", "rowsparse"])
        L = g.unit_tri_rows(d, False, garbage=False, style=r.choice(["few", "sparse", st]))
        U = g.unit_tri_rows(d, True, garbage=False, style=st)
        ra = [x & ((1 << n) - 1) for x in _gen.mat_mul_rows(L, U)[:m]]
        ka = "LU-" + st
        w = r.choice([64, 65, 100, 128, 130, w])
    else:
        ra, ka = g.rows(m, n)
    rows_b = max(m, n)
    x0, _ = g.rows(n, w, r.choice(["dense", "dense", "sparse", "zero", "ones"]))
    b = _gen.mat_mul_rows(ra, x0) + [0] * (rows_b - m)
    mode = r.choice(["consistent", "consistent", "consistent", "pad-one", "pad-one", "pad-last", "pad-first", "random", "flip", "zero"])
    if mode.startswith("pad") and m >= n:
        mode = "flip"
    if mode == "pad-one":
        b[r.randrange(m, rows_b)] ^= 1 << r.choice([0, w - 1, r.randrange(w)])     # ONE bit in ONE padding row
    elif mode == "pad-last":
        b[rows_b - 1] ^= 1 << r.randrange(w)
    elif mode == "pad-first":
        b[m] ^= 1 << r.randrange(w)
    elif mode == "random":
        b, _ = g.rows(rows_b, w, "dense")
    elif mode == "flip":
        b[r.randrange(m)] ^= 1 << r.randrange(w)
    elif mode == "zero":
        b = [0] * rows_b
    return m, n, w, ra, ka, b, mode


@op("solve_left", "C06", ["A", "B"])
def b_solve_left(g, W, sz):
    m, n, w, ra, ka, rb, mode = _solve_system(g, sz)
    la, da = g.operand("A", m, n, ra, W("A"))
    lb, db = g.operand("B", max(m, n), w, rb, W("B"))
    cut = g.rng.choice(_SCUT)
    check = 0 if g.rng.random() < 0.25 else 1
    return _finish(la + lb + ["call solve_left A B %d %d" % (cut, check)], da + db), dict(
        shape=(m, n, w), kinds=(ka,), mode=mode, param=cut, check=check, rel="m<n" if m < n else ("m=n" if m == n else "m>n"))


@op("pluq_solve_left", "C06", ["A", "B"])
def b_pluq_solve_left(g, W, sz):
    m, n, w, ra, ka, rb, mode = _solve_system(g, sz)
    la, da = g.operand("A", m, n, ra, W("A"))
    lb, db = g.operand("B", max(m, n), w, rb, W("B"))
    cut = g.rng.choice(_SCUT)
    check = 0 if g.rng.random() < 0.25 else 1
    lines = la + lb + [g.perm_line("P", _gen.junk_perm(g, m)), g.perm_line("Q", _gen.junk_perm(g, n)),
                       "call pluq A P Q %d" % cut, "call pluq_solve_left A ret P Q B %d %d" % (cut, check)]
    return _finish(lines, da + db, ["P", "Q"]), dict(shape=(m, n, w), kinds=(ka,), mode=mode, param=cut, check=check,
                                                      rel="m<n" if m < n else ("m=n" if m == n else "m>n"))


# ------------------------------------------------------------------------------------------------
# C07 — kernel
# ------------------------------------------------------------------------------------------------
@op("kernel_left_pluq", "C07", ["A"])
def b_kernel(g, W, sz):
    m, n = _ple_shape(g, sz)
    if n > max(2 * sz, 330):
        # the word-width class is capped at 5 words here: K is n x (n - r) and the checker's rank / product on a
        # 1100 x 1000 basis would dominate the quick tier
        n = 64 * g.rng.choice([1, 2, 3, 4, 5]) - g.rng.randint(1, 63)
    ra, ka = _ple_content(g, m, n)
    if g.rng.random() < 0.15:
        # full column rank: the empty-kernel early exit (NULL returned, every temporary still to be released)
        n = min(n, m)
        ra, ka = (_gen.rank_profile_rows2(g, m, n, "fullrank") if g.rng.random() < 0.5 else g.rows(m, n, "ident"))
        ka = "fullcolrank/" + str(ka)
    la, da = g.operand("A", m, n, ra, W("A"))
    cut = g.rng.choice(_SCUT)
    return _finish(la + ["call kernel_left_pluq R A %d" % cut], da + ["R"]), dict(shape=(m, n), kinds=(ka,), param=cut)


# ------------------------------------------------------------------------------------------------
# Tier A for the non-unique outputs: the implementation's own output is handed to the VERIFIED checkers
# (chk_* commands of ocaml/ext.ml).  A checker script = the definitions of the original script + the
# matrices / permutations the C side printed + one chk_ call; the model must answer "ok 1".
# ------------------------------------------------------------------------------------------------
CHECKERS = {}


def _chk_plu(cmd):
    def f(case, outs, rets):
        if not ("A" in outs and "P" in outs and "Q" in outs and rets):
            return None
        return [" ".join(["mat", "A_out"] + outs["A"][2:]), " ".join(["perm", "P_out"] + outs["P"][2:]),
                " ".join(["perm", "Q_out"] + outs["Q"][2:]), "call %s A A_out P_out Q_out %s" % (cmd, rets[0])]
    return f


for _n in ("ple", "_ple_naive", "_ple_russian"):
    CHECKERS[_n] = _chk_plu("chk_ple")
for _n in ("pluq", "_pluq_naive", "_pluq_russian"):
    CHECKERS[_n] = _chk_plu("chk_pluq")


def _chk_solve(case, outs, rets):
    if "B" not in outs or not rets:
        return None
    return [" ".join(["mat", "X_out"] + outs["B"][2:]), "call chk_solve A B X_out %s %d" % (rets[-1], case.meta.get("check", 1))]


CHECKERS["solve_left"] = _chk_solve
CHECKERS["pluq_solve_left"] = _chk_solve


def _chk_kernel(case, outs, rets):
    if "R" not in outs:
        return None
    if outs["R"][2] == "NULL":
        return ["call chk_kernel A NULL"]
    return [" ".join(["mat", "K_out"] + outs["R"][2:]), "call chk_kernel A K_out"]


CHECKERS["kernel_left_pluq"] = _chk_kernel


def checker_case(case, co):
    """the Tier-A checker script for a case, given the C side's output (fate, lines, fateline); None if the
    operation has no checker or the C side did not finish"""
    from corr import Case
    f = CHECKERS.get(case.meta.get("op"))
    if f is None or co is None or co[0] != "OK":
        return None
    defs = []
    for l in case.lines:
        if l.startswith("call "):
            break
        defs.append(l)
    outs, rets = {}, []
    for l in co[1]:
        t = l.split()
        if t[0] == "ret":
            rets.append(t[1])
        elif t[0] in ("mat", "perm") and t[1] not in outs:
            outs[t[1]] = t
    if "check" not in case.meta:
        # replayed case: recover the inconsistency_check argument from the call line
        for l in case.lines:
            t = l.split()
            if t[0] == "call" and t[1] in ("solve_left", "pluq_solve_left"):
                case.meta["check"] = int(t[-1])
    extra = f(case, outs, rets)
    if extra is None:
        return None
    return Case("chk-" + case.id, defs + extra, {"op": case.meta.get("op"), "of": case.id})


def tier_a(cases, cout):
    """-> list of (case, why, c_out, checker_out) for the cases whose C output fails the verified checker"""
    import corr
    chk = {}
    for c in cases:
        cc = checker_case(c, cout.get(c.id))
        if cc is not None:
            chk[c.id] = cc
    mo = corr.run_model(list(chk.values()))
    bad = []
    for c in cases:
        cc = chk.get(c.id)
        if cc is None:
            continue
        o = mo.get(cc.id)
        if o is None or o[0] != "OK" or not o[1] or any(l.strip() != "ok 1" for l in o[1]):
            bad.append((c, "tier A: the checker (%s) rejects the implementation's output" % cc.lines[-1].split()[1], cout.get(c.id), o))
    return bad, len(chk)


# ------------------------------------------------------------------------------------------------
# Two-tier engine of the factorisation / solving properties (C03..C07), used by tools/props/c03..c07.py.
#   Tier A  the property on the implementation's output: unique outputs (TRSM solution, inverse, verdict)
#           equal the model's; non-unique outputs (P/L/E, X of a rank-deficient system, kernel basis) pass
#           the verified checker; the call ends normally.  A failure is a failing input: VIOLATION + replay.
#   Tier B  exact equality of every dumped object with the algorithm-faithful model (ple_rec over ple_naive
#           with the build's PLE cut-off, Solve.*_cfg).  Tier B failing alone triggers a Tier-A search at
#           larger sizes; no hit => VIOLATION ... no-failing-input-found.
# ------------------------------------------------------------------------------------------------
VARIANTS = {
    "host": lambda vlib: vlib.variant(),
    "small": lambda vlib: vlib.variant(name="small", **vlib.SMALL),
    # L3 = 4 KiB: __M4RI_PLE_CUTOFF = 512 words, the block recursion of ple.c is entered at 130 x 180
    "stress": lambda vlib: vlib.variant(name="stress", l1=4096, l2=32768, l3=4096),
}


def ple_cutoff_words(variant):
    return min(524288, int(variant["l3"]) >> 3)      # ple.h:40


def regime_of(case, variant):
    """which cache-dependent regime the call enters in this build (reported in the evidence distribution)"""
    m = case.meta
    prop = CATALOG.get(m.get("op"), {}).get("prop")
    sh = m.get("shape", ())
    if m.get("op") in ("_ple_naive", "_pluq_naive", "_ple_russian", "_pluq_russian"):
        return "naive" if "naive" in m["op"] else "russian k=%s" % m.get("k")
    if prop in ("C03", "C07") or m.get("op") in ("solve_left", "pluq_solve_left"):
        nr, nc = sh[0], sh[1]
        return "ple-rec" if nc > 64 and ((nc + 63) // 64) * nr > ple_cutoff_words(variant) else "ple-base"
    if prop == "C04":
        n = sh[0]
        bs = min(int((4 * int(variant["l3"])) ** 0.5) // 2, 2048)
        return "word" if n <= 64 else ("middle" if n <= bs and m.get("op", "").lstrip("_") != "trsm_lower_right" else "rec")
    if m.get("op") == "trtri_upper":
        return "rec" if sh[0] * sh[0] >= 2 * int(variant["l3"]) else "russian"
    return "-"


def proof_part(res, name):
    """engine.proof_part for Properties/<name>.v if that file exists AND is registered in _CoqProject (files
    still being written by their owners are not); otherwise the run is correspondence-only and says so."""
    import os, engine, vlib
    f = "Properties/%s.v" % name
    if os.path.exists(os.path.join(vlib.COQ, f)) and f in vlib.coq_files():
        return engine.proof_part(res, [name])
    engine.proof_part(res, [])
    res.cov["proof_note"] = "coq/%s %s: correspondence only in this run" % (
        f, "is not registered in _CoqProject yet" if os.path.exists(os.path.join(vlib.COQ, f)) else "does not exist yet")
    return True


class Tiers:
    def __init__(self, res, prop, variant, unique=False, tag=None):
        import corr
        self.res, self.prop, self.variant, self.unique = res, prop, variant, unique
        self.tag = tag if tag is not None else "/cfg=" + variant["name"]
        self.runner = corr.Runner(variant)
        self.nA = self.nB = self.ncases = self.nchk = 0
        self.force_b = False      # exact mismatches are Tier B only (inputs outside the property's domain)

    def env(self):
        import os
        os.environ["VERIF_PLE_CUTOFF"] = str(ple_cutoff_words(self.variant))

    def evaluate(self, cases):
        """-> (tierA failures, tierB-only failures, cout, mout)"""
        import corr
        self.env()
        cout, mout = self.runner.run(cases)
        exact = corr.compare(cases, cout, mout)
        badA, nchk = tier_a(cases, cout)
        self.nchk += nchk
        seen = set(b[0].id for b in badA)
        onlyB = []
        for b in exact:
            c, why = b[0], b[1]
            if c.id in seen:
                continue
            has_checker = c.meta.get("op") in CHECKERS
            if ((self.unique or not has_checker) and not self.force_b) or why.startswith("fate") or why.startswith("missing"):
                badA.append((c, "tier A: " + why, b[2], b[3]))
                seen.add(c.id)
            else:
                onlyB.append((c, "tier B only (the verified checker accepts the output): " + why, b[2], b[3]))
        return badA, onlyB, cout, mout

    def shrink(self, case, W, seed):
        """a smaller failing case of the same operation, by regeneration"""
        import gen
        for sz in (6, 12, 24, 48, 70):
            g = gen.G(seed + sz)
            cs = [build(case.meta["op"], g, W, sz) for _ in range(25)]
            badA, _, _, _ = self.evaluate(cs)
            if badA:
                badA.sort(key=lambda b: len(b[0].text()))
                return badA[0]
        return None

    def run(self, opnames, seed, n_per_op, sz, W=None, cases=None, search_sz=None, rec_bias=0.0, tri_big=None):
        import gen, engine, corr, vlib
        global REC_BIAS, REC_WORDS, TRI_BIG
        res = self.res
        if cases is None:
            g = gen.G(seed)
            REC_BIAS, REC_WORDS, TRI_BIG = rec_bias, ple_cutoff_words(self.variant), tri_big
            try:
                cases = [build(name, g, W, sz) for name in opnames for _ in range(n_per_op)]
            finally:
                REC_BIAS, TRI_BIG = 0.0, None
        badA, onlyB, cout, mout = self.evaluate(cases)
        dist = res.cov.setdefault("distribution", {})
        for c in cases:
            m = c.meta
            reg = regime_of(c, self.variant)
            nontrivial = not all(k in ("zero",) for k in m.get("kinds", ("x",))) and max(m.get("shape", (2,))) > 1
            key = (m.get("op"), tuple(s // 64 for s in m.get("shape", ())), tuple(s % 64 == 0 for s in m.get("shape", ())),
                   tuple(str(k).split("/", 1)[-1] for k in m.get("kinds", ())), m.get("param"), m.get("k"), m.get("mode"), m.get("check"), reg, self.tag)
            res.count(key, nontrivial)
            d = dist.setdefault(m.get("op") + self.tag, {"n": 0})
            d["n"] += 1
            d[reg] = d.get(reg, 0) + 1
            co = cout.get(c.id)
            rets = [l for l in (co[1] if co else []) if l.startswith("ret ")]
            if rets and m.get("op") in ("solve_left", "pluq_solve_left"):
                kk = "verdict " + rets[-1][4:] + ("" if m.get("check") else " (check off)")
                d[kk] = d.get(kk, 0) + 1
            if m.get("mode"):
                d["mode " + m["mode"]] = d.get("mode " + m["mode"], 0) + 1
            if m.get("op") == "kernel_left_pluq" and co:
                kk = "NULL" if any(l.startswith("mat R NULL") for l in co[1]) else "basis"
                d[kk] = d.get(kk, 0) + 1
        if cases and len(res.cov["samples"]) < 6:
            res.cov["samples"].append(cases[0].text()[:600])
            res.cov["samples"].append(cases[-1].text()[:600])
        self.ncases += len(cases)
        self.nA += len(badA)
        self.nB += len(onlyB)
        t = res.cov.setdefault("tiers", {})
        tt = t.setdefault(self.tag.replace("/cfg=", "").replace("/corpus", "").replace("/replay", ""), {"cases": 0, "tierA_checker_runs": 0, "tierA_failures": 0, "tierB_only": 0})
        tt["cases"], tt["tierA_checker_runs"], tt["tierA_failures"], tt["tierB_only"] = self.ncases, self.nchk, self.nA, self.nB
        engine.handle_mismatches(res, self.prop, badA, self.runner, tag=self.tag + "/tierA",
                                 regen=lambda case: self.shrink(case, W, seed + 1))
        # Tier B alone: search for a failing input among larger / more cases of the same operations, Tier A only
        if onlyB and not badA:
            opsB = sorted(set(b[0].meta["op"] for b in onlyB))
            g = gen.G(seed + 99)
            REC_BIAS, REC_WORDS, TRI_BIG = rec_bias, ple_cutoff_words(self.variant), tri_big
            try:
                more = [build(name, g, W, search_sz or max(sz, min(2 * sz, 400)) or 130) for name in opsB for _ in range(max(40, 2 * n_per_op))]
            finally:
                REC_BIAS, TRI_BIG = 0.0, None
            for c in more:
                res.count(("tierA-search", c.meta.get("op"), c.meta.get("shape"), c.meta.get("kinds"), self.tag))
            fb, self.force_b = self.force_b, False
            hitA, _, _, _ = self.evaluate(more)
            self.force_b = fb
            if hitA:
                engine.handle_mismatches(res, self.prop, hitA, self.runner, tag=self.tag + "/tierA-search")
            else:
                reported = set()
                for c, why, co, mo in onlyB:
                    if c.meta["op"] in reported:
                        continue
                    reported.add(c.meta["op"])
                    path = vlib.write_replay(self.prop, (c.meta["op"] + self.tag + "/tierB").replace("/", "_"),
                                             "# property %s: correspondence no longer checks: the output of %s differs from the algorithm-faithful "
                                             "model while the verified checker accepts it; a Tier-A search over %d further cases found no failing input [%s]\n"
                                             "# replay: python3 tools/check.py %s --replay <this file>\n%s" % (
                                                 self.prop, c.meta["op"], len(more), self.tag, self.prop, corr.describe(c, why, co, mo)))
                    res.violation(path, no_input=True)
        elif onlyB:
            res.cov.setdefault("tierB_mismatches_beside_tierA", 0)
            res.cov["tierB_mismatches_beside_tierA"] += len(onlyB)
        return cases, badA, onlyB


def corpus_cases(prop):
    """(variant name, Case) of every committed script of corpus/<prop>/"""
    import glob, os, re, vlib
    from corr import Case
    out = []
    for f in sorted(glob.glob(os.path.join(vlib.VERIF, "corpus", prop, "*.txt"))):
        txt = open(f).read()
        if "--- script" not in txt:
            continue
        body = txt.split("--- script\n", 1)[1].split("--- C side", 1)[0].strip().split("\n")
        m = re.search(r"cfg=([a-z0-9-]+)", txt.split("--- script", 1)[0])
        opn = body[0][5:].strip().split("-")[0]
        lines = [l for l in body[1:] if not l.startswith("end")]
        out.append((m.group(1) if m and m.group(1) in VARIANTS else "host",
                    Case("corpus-" + os.path.basename(f)[:-4], lines, {"op": opn, "corpus": os.path.basename(f), "shape": (2, 2)})))
    return out


def run_corpus(res, prop, tiers_by_variant):
    by = {}
    for vn, c in corpus_cases(prop):
        by.setdefault(vn if vn in tiers_by_variant else "host", []).append(c)
    for vn, cs in by.items():
        t = tiers_by_variant[vn]
        old = t.tag
        t.tag = old + "/corpus"
        t.run([], 0, 0, 0, cases=cs)
        t.tag = old
        res.cov["corpus_cases"] = res.cov.get("corpus_cases", 0) + len(cs)


def replay_tiers(res, prop, path, unique=False):
    """re-run the script of a replay file in the build it was found in, both tiers"""
    import re, vlib
    from corr import Case
    txt = open(path).read()
    if "--- script" not in txt:
        return None
    head = txt.split("--- script", 1)[0]
    m = re.search(r"cfg=([a-z0-9-]+)", head)
    vn = m.group(1) if m and m.group(1) in VARIANTS else "host"
    body = txt.split("--- script\n", 1)[1].split("--- C side", 1)[0].strip().split("\n")
    cid = body[0][5:].strip()
    case = Case(cid, [l for l in body[1:] if not l.startswith("end")], {"op": cid.split("-")[0] if not cid.startswith("corpus-") else "", "shape": (2, 2)})
    if not case.meta["op"]:
        for l in case.lines:
            if l.startswith("call "):
                case.meta["op"] = l.split()[1]
    t = Tiers(res, prop, VARIANTS[vn](vlib), unique=unique)
    t.tag += "/replay"
    t.run([], 0, 0, 0, cases=[case])
    return t


def build(name, g, W=None, sz=130):
    d = CATALOG[name]
    Wf = (lambda role: None) if W is None else (W if callable(W) else (lambda role: W.get(role)))
    lines, meta = d["build"](g, Wf, sz)
    meta["op"] = name
    c = g.case(name, lines, **meta)
    return c
