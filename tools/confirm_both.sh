#!/bin/sh
# usage: confirm_both.sh ID : confirm mutant 1 and 2 of /tmp/mut/ID-out (see confirm_mutant.sh)
for k in 1 2; do sh /verif/tools/confirm_mutant.sh $1 $k > /dev/null 2>&1; done
cat /tmp/mut/$1-out/confirm1.log /tmp/mut/$1-out/confirm2.log
