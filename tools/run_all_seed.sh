#!/bin/sh
# run_all_seed.sh SEED : every quick check once with VERIF_SEED=SEED, evidence redirected; summary /var/tmp/runs/seed-SEED.summary
S=$1; out=/var/tmp/runs/seed-$S.summary; : > $out
for p in C01 C02 C03 C04 C05 C06 C07 C08 C09 C10 C11 C12 C13 C14 C15 C16 C17 C18 C19 C20; do
  s=$(date +%s)
  VERIF_SEED=$S VERIF_EVIDENCE=/var/tmp/runs/ev-seed-$S timeout 3000 python3 tools/check.py $p --tier quick > /var/tmp/runs/seed-$S-$p.log 2>&1; rc=$?
  e=$(date +%s)
  echo "$p rc=$rc $((e-s))s $(grep -c '^VIOLATION' /var/tmp/runs/seed-$S-$p.log) violations | $(tail -1 /var/tmp/runs/seed-$S-$p.log | cut -c1-140)" >> $out
done
echo DONE >> $out
