#!/usr/bin/env python3
"""Translator T1, struct mode, part 2: the OBSERVERS of m4ri/mzd.c (and two small writers) -> CMini terms
(coq/Leaf/Gen_observers.v).

Reuses tools/translate_acc.py (class FnS: `mzd_t *` parameters are bundles of their members, M->data is an
offset-mode pointer into the matrix's word array; see its docstring) and adds, in the subclass FnO, exactly
three guarded rules.  Everything else is inherited; whatever is not handled REFUSES the function, nothing is
ever skipped.

  1. IDENTITY TEST OF TWO MATRIX PARAMETERS.  `A == B` / `A != B` where both operands are (casts of) bundle
     parameters: for the same parameter the constant 1 / 0; for two different parameters the read of a fresh
     `int` PARAMETER  A__is__B  appended behind the C parameters (the truth value of the pointer comparison,
     which the bundle model cannot compute: two different mzd_t objects may describe the same view).  The
     specifications quantify over its value under the hypothesis "A__is__B = 1 -> the two bundles are equal"
     and require it to be 0 or 1.  Any other use of a struct pointer is still refused (FnS).  A function with
     such a parameter cannot be called from a translated function (refused).
  2. CALL WITH AN INTEGER RESULT NESTED IN A FULL EXPRESSION (`if (m4ri_lesser_LSB(curr, data))`): hoisted in
     front of the statement into a fresh variable, provided the callee is a translated PURE function (no
     store, calls only pure functions), the full expression contains no ++/-- and no other hoisted call, and
     the call is not in a conditionally evaluated operand (second operand of && / ||, branches of ?: — these
     are refused by FnP.rv because pure() is false for a CallExpr).  Loop conditions refuse (no_effects).
  3. `int` / `rci_t` results, early `return` inside nested loops, `break`, `?:` and output parameters
     `rci_t *r` are already in the CMini subset of translate.py (Sreturn, Sbreak, Econd, offset-mode
     pointers): nothing added.

Source: m4ri/mzd.c of the working tree (vlib.REPO, environment VERIF_REPO, copied by vlib.copy_tree()), in the
DEFAULT configuration (__M4RI_HAVE_SSE2 1).  None of the translated functions has an SSE2-only branch (the
callee mzd_row_add_offset of translate_acc.py, which has one, is not used here).  `assert` is compiled out
(-DNDEBUG, like the shipped build) and the __M4RI_DD_* debug-dump macros expand to nothing.

Translated: mzd_is_zero, mzd_equal, mzd_cmp, mzd_first_zero_row, mzd_find_pivot, mzd_row_clear_offset,
mzd_copy_row and their callees mzd_row, mzd_row_const, mzd_read_bits (mzd.h), m4ri_lesser_LSB (misc.h).
Specifications: coq/Leaf/CMiniObs.v (loop rule), coq/Leaf/ObsSpecs.v .. ObsSpecs13.v, restated in
coq/Properties/Properties_C17t.v.

Usage:  translate_obs.py [--stdout] [--out FILE]     (exit status 1 if a required function was refused)
        translate_obs.py --selftest [--specs Leaf/ObsSpecs.v,...] [--cases substring,...]
                                                     (edits scratch copies of the repository; see selftest())
"""
import os, re, sys

sys.path.insert(0, os.path.dirname(os.path.abspath(__file__)))
import vlib
import translate
import translate_acc
from translate import Refuse, FnP, DIE_FUNCTIONS
from translate_acc import FnS, UnitS, is_mzd_ptr, STRUCT, _MZD_PTR, _setup_acc

GEN_O = os.path.join(vlib.COQ, "Leaf", "Gen_observers.v")

STUB_OBS = r'''
#include <m4ri/mzd.c>
'''

# (unit name, stub, sse2 setting of m4ri_config.h, [(C name, name in the Coq program)])
UNITS_O = [
    ("obs", STUB_OBS, 1, [
        ("mzd_is_zero", "mzd_is_zero"),
        ("mzd_equal", "mzd_equal"),
        ("mzd_cmp", "mzd_cmp"),
        ("mzd_first_zero_row", "mzd_first_zero_row"),
        ("mzd_find_pivot", "mzd_find_pivot"),
        ("mzd_row_clear_offset", "mzd_row_clear_offset"),
        ("mzd_copy_row", "mzd_copy_row"),
    ]),
]


class FnO(FnS):
    """struct mode + identity tests of bundle parameters + hoisted calls of pure integer functions"""

    def __init__(self, unit, node, resolve_callee, registry):
        FnS.__init__(self, unit, node, resolve_callee, registry)
        self.same = {}            # (root var of bundle 1, root var of bundle 2) -> variable of the parameter
        self.extra_params = []    # texts "(n, Pint tint)" appended behind the C parameters
        self.extra_doc = []

    # ---- rule 1: A == B on two bundle parameters ------------------------------------------------------
    def identity_test(self, n):
        a, b = n["inner"]
        ra, rb = self.bundle_of(a), self.bundle_of(b)
        if ra is rb:
            v = "(Econst 1)"
        else:
            key = (min(ra["root"], rb["root"]), max(ra["root"], rb["root"]))
            if key not in self.same:
                first, second = (ra, rb) if ra["root"] < rb["root"] else (rb, ra)
                name = "%s__is__%s" % (first["name"], second["name"])
                x = self.new_var(name, ("int", "tint"))
                self.same[key] = x
                self.extra_params.append("(%d, Pint tint)" % x)
                self.extra_doc.append("%d=%s" % (x, name))
            v = "(Ecmp Cne (Evar %d) (Econst 0))" % self.same[key]
        return v if n["opcode"] == "==" else "(Enot %s)" % v

    # ---- rule 2: calls of pure integer functions inside a full expression -----------------------------
    def hoist_int_call(self, n):
        if self.u.ctype(n["type"])[0] != "int":
            raise Refuse("call with a non-integer result nested in an expression")
        if self.pre is None:
            raise Refuse("call nested in an expression that is not a hoistable full expression")
        if n["id"] in self.done:
            return self.done[n["id"]]
        name = self.callee_name(n)
        if name in DIE_FUNCTIONS:
            raise Refuse("value of a function that does not return")
        cname = self.resolve_callee(self.u, name)
        info = self.registry.get(cname)
        if info is None:
            raise Refuse("recursive call of %s" % name)
        if not info["pure"]:
            raise Refuse("call of a function with side effects nested in an expression")
        kind = self.u.ctype(n["type"])
        t = self.new_var("__call%d" % (len(self.order) + 1), kind)
        stmt = self.call(n, "(Lvar %d)" % t)
        self.hoisted_calls += 1
        self.pre += ["(Sdecl %d None)" % t, stmt]
        self.done[n["id"]] = "(Evar %d)" % t
        return self.done[n["id"]]

    def rv(self, n):
        k = n.get("kind")
        if k == "BinaryOperator" and n.get("opcode") in ("==", "!=") and len(n.get("inner", [])) == 2 \
                and is_mzd_ptr(n["inner"][0]["type"]) and is_mzd_ptr(n["inner"][1]["type"]):
            return self.identity_test(n)
        if k == "CallExpr":
            return self.hoist_int_call(n)
        return FnS.rv(self, n)

    def call(self, n, dst):
        name = self.callee_name(n)
        if name not in DIE_FUNCTIONS:
            cname = self.resolve_callee(self.u, name)
            info = self.registry.get(cname)
            if info is not None and info.get("extra"):
                raise Refuse("call of %s, which has an identity-test parameter" % name)
        return FnS.call(self, n, dst)

    # ---- the function ---------------------------------------------------------------------------------
    def translate(self, coqname):
        txt = FnS.translate(self, coqname)
        self.registry[coqname]["extra"] = bool(self.extra_params)
        if self.extra_params:
            # the identity-test parameters go behind the C parameters
            marker = "]%positive;\n fn_ret :="
            if txt.count(marker) != 1:
                raise Refuse("internal: cannot place the identity-test parameter")
            txt = txt.replace(marker, "; " + "; ".join(self.extra_params) + marker)
            note = "(* identity-test parameters (truth value of the pointer comparison of two matrix parameters): %s *)\n" % (
                ", ".join(self.extra_doc))
            head, rest = txt.split("\n", 1)
            txt = head + "\n" + note + rest
        return txt


HEADER_O = """(* GENERATED by tools/translate_obs.py from the clang AST of the working tree of the repository
   (m4ri/mzd.c: the observers mzd_is_zero, mzd_equal, mzd_cmp, mzd_first_zero_row, mzd_find_pivot, the writers
   mzd_row_clear_offset, mzd_copy_row, and their callees from mzd.h / misc.h).  DO NOT EDIT: regenerated on every
   check run.  Default configuration (__M4RI_HAVE_SSE2 1; none of these functions has an SSE2-only branch), -DNDEBUG.
   Struct mode as in Gen_access.v: a parameter `mzd_t *M` is the bundle of parameters listed in [mzd_t_bundle_o]
   (one per member of struct mzd_t, in declaration order; `data` is the pair block, `long` offset); `M->f` is the
   variable M__f.  Every other C pointer (the output parameters `rci_t *r`) is (root block, `long` offset).
   `A == B` on two matrix parameters is the read of the extra int parameter A__is__B (see tools/translate_obs.py).
   A call of a pure function nested in a condition is hoisted in front of the statement (variables __callN). *)
From Coq Require Import ZArith List String.
From M4 Require Import Leaf.CMini.
Import ListNotations.
Local Open Scope Z_scope.
Local Open Scope string_scope.

"""


def generate_observers():
    """-> (text of Gen_observers.v, {coq function name: reason} of refusals)"""
    defs, order, refused, registry = {}, [], {}, {}
    bundle_doc = []

    def resolve(unit, cname):
        want(unit, cname, cname)
        if cname in refused:
            raise Refuse("callee %s was refused: %s" % (cname, refused[cname]))
        return cname

    def want(unit, cname, coq):
        if coq in defs or coq in refused:
            return
        node = unit.functions.get(cname)
        if node is None:
            refused[coq] = "no definition of %s found in translation unit %s" % (cname, unit.name)
            return
        defs[coq] = None            # cycle guard (registry has no entry yet: a recursive call is refused)
        try:
            txt = FnO(unit, node, resolve, registry).translate(coq)
        except Refuse as e:
            del defs[coq]
            registry.pop(coq, None)
            refused[coq] = str(e)
            return
        except (KeyError, IndexError, ValueError, TypeError, AttributeError) as e:
            del defs[coq]
            registry.pop(coq, None)
            refused[coq] = "unexpected AST shape (%s: %s)" % (type(e).__name__, e)
            return
        defs[coq] = txt
        order.append(coq)

    for uname, stub, sse2, fns in UNITS_O:
        try:
            inc, flags = _setup_acc(sse2)
            unit = UnitS(uname, stub, inc, flags)
        except vlib.BuildError as e:
            for cname, coq in fns:
                refused[coq] = str(e)[:600]
            continue
        doc = []
        for mname, mid, kind in unit.members:
            if kind[0] == "int":
                doc.append('("%s", Pint %s)' % (mname, kind[1]))
            elif kind[0] == "ptr":
                doc.append('("%s", Pptr %s)' % (mname, kind[1]))
                doc.append('("%s_off", Pint %s)' % (mname, FnP.OFF))
        if not bundle_doc:
            bundle_doc = doc
        elif bundle_doc != doc:
            for cname, coq in fns:
                refused[coq] = "struct %s differs between the translation units" % STRUCT
            continue
        for cname, coq in fns:
            want(unit, cname, coq)

    out = [HEADER_O]
    out.append("(* the bundle of parameters that stands for one parameter of type mzd_t * *)\n")
    out.append("Definition mzd_t_bundle_o : list (string * pkind) :=\n [%s].\n\n" % ";\n  ".join(bundle_doc))
    for coq in order:
        out.append(defs[coq])
        out.append("\n")
    for coq, why in sorted(refused.items()):
        out.append("(* REFUSED %s: %s *)\n" % (coq, why.replace("*)", "* )").replace("(*", "( *")))
    out.append("\nDefinition obs_prog : program :=\n [%s].\n" % ";\n  ".join('("%s", f_%s)' % (c, c) for c in order))
    return "".join(out), refused


def regenerate_observers(path=None):
    """write Gen_observers.v (only if its content changes). -> (changed, refusals)"""
    text, refused = generate_observers()
    return vlib.write_if_changed(path or GEN_O, text), refused


# ------------------------------------------------------------------------------------------------
# Self-test: does the tie bite?  Each case edits a scratch copy of the repository, regenerates Gen_observers.v
# from it (a subprocess with VERIF_REPO pointing at the copy, exactly as a check run on a changed tree would)
# and compiles the specification files against the result in a scratch Coq tree.
# ------------------------------------------------------------------------------------------------
SPEC_FILES = ["Leaf/ObsSpecs.v", "Leaf/ObsSpecs2.v", "Leaf/ObsSpecs3.v", "Leaf/ObsSpecs4.v", "Leaf/ObsSpecs5.v",
              "Leaf/ObsSpecs6.v", "Leaf/ObsSpecs7.v", "Leaf/ObsSpecs8.v", "Leaf/ObsSpecs9.v", "Leaf/ObsSpecs10.v",
              "Leaf/ObsSpecs11.v", "Leaf/ObsSpecs12.v", "Leaf/ObsSpecs13.v", "Properties/Properties_C17t.v"]

O1, O2, O3, O4 = "Leaf/ObsSpecs.v", "Leaf/ObsSpecs2.v", "Leaf/ObsSpecs3.v", "Leaf/ObsSpecs4.v"
O6, O7, O8, O9, O10 = ("Leaf/ObsSpecs6.v", "Leaf/ObsSpecs7.v", "Leaf/ObsSpecs8.v", "Leaf/ObsSpecs9.v",
                       "Leaf/ObsSpecs10.v")
O11, O12, O13 = "Leaf/ObsSpecs11.v", "Leaf/ObsSpecs12.v", "Leaf/ObsSpecs13.v"

SELFTEST_CASES = [
    # (name, file, old text, new text, expectation, spec files to compile (None = all))
    #   expectation: "ok" = everything still compiles, "proof" = a spec file no longer compiles, "refuse" = refusal
    ("unchanged", None, None, None, "ok", None),
    ("is_zero: status |= row[j] -> status ^= row[j]", "mzd.c",
     "for (wi_t j = 0; j < A->width - 1; ++j) status |= row[j];",
     "for (wi_t j = 0; j < A->width - 1; ++j) status ^= row[j];", "proof", [O1]),
    ("cmp: `& mask_end` dropped in one operand", "mzd.c",
     "if ((rowa[n] & mask_end) < (rowb[n] & mask_end))", "if ((rowa[n]) < (rowb[n] & mask_end))", "proof", [O1, O4]),
    ("equal: last word compared unmasked", "mzd.c",
     "if (((rowa[Awidth] ^ rowb[Awidth]) & mask_end)) return FALSE;",
     "if (((rowa[Awidth] ^ rowb[Awidth]))) return FALSE;", "proof", [O1, O3]),
    ("first_zero_row: scan starts at row nrows", "mzd.c",
     "for (rci_t i = A->nrows - 1; i >= 0; --i) {\n    word const *row = mzd_row_const(A, i);\n    word tmp = 0;",
     "for (rci_t i = A->nrows; i >= 0; --i) {\n    word const *row = mzd_row_const(A, i);\n    word tmp = 0;",
     "proof", [O1, O2]),
    ("find_pivot: last-word scan bound off by one", "mzd.c",
     "for (int l = 0; l < end_offset; ++l) {", "for (int l = 0; l < end_offset - 1; ++l) {", "proof",
     [O1, O6, O7, O8, O11, O12, O13]),
    ("find_pivot: narrow path (< 64 columns left) reports column + 1", "mzd.c",
     "*c = j + l;", "*c = j + l + 1;", "proof", [O1, O6, O7]),
    ("row_clear_offset: last word keeps the wrong half", "mzd.c",
     "if (startblock < last) { truerow[last] &= ~M->high_bitmask; }",
     "if (startblock < last) { truerow[last] &= M->high_bitmask; }", "proof", [O1, O9]),
    ("copy_row: whole-word copy of the last word", "mzd.c",
     "b[width] = (b[width] & ~mask_end) | (a[width] & mask_end);", "b[width] = a[width];", "proof", [O1, O9, O10]),
    ("is_zero: also writes a member", "mzd.c",
     "  word status   = 0;\n  word mask_end = A->high_bitmask;",
     "  word status   = 0;\n  ((mzd_t *)A)->flags = 0;\n  word mask_end = A->high_bitmask;", "refuse", [O1]),
    ("is_zero: harmless rewrite `return !status` -> `return status == 0`", "mzd.c",
     "return !status;", "return status == 0;", "ok", [O1]),
    ("cmp: comment edited only", "mzd.c",
     "  /* Columns with large index are \"larger\", but rows with small index",
     "  /* (comment edited) Columns with large index are \"larger\", but rows with small index", "ok", [O1, O4]),
]


def selftest(cases=None, verbose=True, spec_files=None):
    """-> [(case name, expectation, outcome, detail)]; outcome in ok | refuse | proof | error.
    spec_files: restrict the specification files that are copied and compiled (default: all of SPEC_FILES that exist)"""
    import shutil, tempfile
    base = tempfile.mkdtemp(prefix="obs-selftest-", dir=os.environ.get("VERIF_SCRATCH_BASE", "/var/tmp"))
    results = []
    try:
        specs = [f for f in (spec_files or SPEC_FILES) if os.path.exists(os.path.join(vlib.COQ, f))]
        deps = [d for d in translate_acc._vo_closure(specs) if d != "Leaf/Gen_observers.v"]
        for idx, (name, fname, old, new, expect, only) in enumerate(cases or SELFTEST_CASES):
            repo = os.path.join(base, "repo%d" % idx)
            os.makedirs(os.path.join(repo, "m4ri"))
            for f in os.listdir(os.path.join(vlib.REPO, "m4ri")):
                if f.endswith((".c", ".h", ".in")):
                    shutil.copy(os.path.join(vlib.REPO, "m4ri", f), os.path.join(repo, "m4ri", f))
            if fname:
                path = os.path.join(repo, "m4ri", fname)
                text = open(path).read()
                if text.count(old) != 1:
                    results.append((name, expect, "error", "the text to edit occurs %d times" % text.count(old)))
                    if verbose:
                        print("%-60s ERROR: the text to edit occurs %d times" % (name, text.count(old)), flush=True)
                    continue
                open(path, "w").write(text.replace(old, new))
            coq = os.path.join(base, "coq%d" % idx)
            for d in deps + specs:
                os.makedirs(os.path.join(coq, os.path.dirname(d)), exist_ok=True)
            for d in deps:
                shutil.copy(os.path.join(vlib.COQ, d + "o"), os.path.join(coq, d + "o"))
            for f in specs:
                shutil.copy(os.path.join(vlib.COQ, f), os.path.join(coq, f))
            gen = os.path.join(coq, "Leaf", "Gen_observers.v")
            env = dict(os.environ, VERIF_REPO=repo)
            p = vlib.run([sys.executable, os.path.abspath(__file__), "--out", gen], env=env)
            refusals = [l for l in p.stderr.splitlines() if l.startswith("REFUSED")]
            outcome, detail = "ok", ""
            if refusals:
                outcome, detail = "refuse", refusals[0][:200]
            for f in ["Leaf/Gen_observers.v"] + [x for x in specs if only is None or x in only]:
                if outcome not in ("ok", "refuse"):
                    break
                q = vlib.run(["coqc", "-Q", ".", "M4", f], cwd=coq, timeout=900)
                if q.returncode != 0:
                    err = [l for l in q.stderr.splitlines() if l.startswith("File")]
                    msg = "%s does not compile: %s" % (f, (err[0] if err else q.stderr[-200:]).replace(coq + "/", ""))
                    if outcome == "refuse":
                        detail += " | " + msg
                    else:
                        outcome, detail = "proof", msg
                    break
            results.append((name, expect, outcome, detail))
            if verbose:
                print("%-60s expected %-11s got %-7s %s" % (name, expect, outcome, detail), flush=True)
            shutil.rmtree(coq, ignore_errors=True)
    finally:
        shutil.rmtree(base, ignore_errors=True)
    return results


if __name__ == "__main__":
    if "--selftest" in sys.argv:
        sf = None
        if "--specs" in sys.argv:
            sf = sys.argv[sys.argv.index("--specs") + 1].split(",")
        cs = None
        if "--cases" in sys.argv:          # substrings of case names
            keys = sys.argv[sys.argv.index("--cases") + 1].split(",")
            cs = [c for c in SELFTEST_CASES if any(k in c[0] for k in keys)]
        res = selftest(cases=cs, spec_files=sf)
        bad = [r for r in res if r[1] != r[2]]
        print("self-test: %d cases, %d unexpected" % (len(res), len(bad)))
        sys.exit(1 if bad else 0)
    out = None
    if "--out" in sys.argv:
        out = sys.argv[sys.argv.index("--out") + 1]
    if "--stdout" in sys.argv:
        text, refused = generate_observers()
        sys.stdout.write(text)
    else:
        changed, refused = regenerate_observers(out)
        print("%s %s" % (os.path.basename(out or GEN_O), "rewritten" if changed else "unchanged"))
    for k, why in refused.items():
        print("REFUSED %s: %s" % (k, why), file=sys.stderr)
    sys.exit(1 if refused else 0)
