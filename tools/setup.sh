#!/bin/sh
# MANIFEST.setup_cmd: build the framework offline from files on disk only.
#   full .vo build of the Coq development (no -vos), extraction, OCaml drivers.
set -e
cd "$(dirname "$0")/.."
mkdir -p build
cd coq
coq_makefile -f _CoqProject -o Makefile > /dev/null
# -k: a broken proof in one property file must not keep the others from building; the checks
# report what did not build.  The status of make is not the status of setup.
timeout 5400 make -k -j16 > ../build/setup-coq.log 2>&1 || echo "setup: some Coq targets did not build (see build/setup-coq.log); the checks will report them"
cd ..
python3 - <<'PY'
import sys
sys.path.insert(0, "tools")
import vlib
try:
    print("driver:", vlib.build_driver())
except Exception as e:
    print("setup: driver build failed:", e)
PY
