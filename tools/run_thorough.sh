#!/bin/sh
# run every registered thorough check once (evidence redirected to /var/tmp/thor_ev); summary in /var/tmp/runs/thorough.summary
# usage: run_thorough.sh [ids...]
out=/var/tmp/runs/thorough.summary
mkdir -p /var/tmp/thor_ev /var/tmp/runs
ids="$@"; [ -z "$ids" ] && ids="C01 C02 C03 C04 C05 C06 C07 C08 C09 C10 C11 C12 C13 C14 C15 C16 C17 C18 C19 C20"
for p in $ids; do
  s=$(date +%s)
  VERIF_EVIDENCE=/var/tmp/thor_ev timeout 14400 python3 tools/check.py $p --tier thorough > /var/tmp/runs/thor-$p.log 2>&1; rc=$?
  e=$(date +%s)
  echo "$p rc=$rc $((e-s))s $(grep -c '^VIOLATION' /var/tmp/runs/thor-$p.log) violations $(grep -c '^KNOWN-FINDING' /var/tmp/runs/thor-$p.log) known | $(tail -1 /var/tmp/runs/thor-$p.log | cut -c1-150)" >> $out
done
echo "DONE $ids" >> $out
