#!/usr/bin/env python3
"""Entry point of every registered check:  tools/check.py Cnn [--tier quick|thorough] [--replay f]

Rebuilds what it needs from /repo's current working tree, re-checks the Coq theorems of the
property (regenerating the translated parts of the model first), runs the correspondence between
the extracted model and the implementation, writes evidence/Cnn.json, prints VIOLATION lines and
exits 1 if the property is violated or no longer shown to hold."""
import argparse, importlib, os, sys, time, traceback

sys.path.insert(0, os.path.dirname(os.path.abspath(__file__)))
import vlib


def main():
    ap = argparse.ArgumentParser()
    ap.add_argument("prop")
    ap.add_argument("--tier", default=os.environ.get("VERIF_TIER", "quick"), choices=["quick", "thorough"])
    ap.add_argument("--replay", default=None)
    ap.add_argument("--seed", type=int, default=None)
    a = ap.parse_args()
    seed = a.seed if a.seed is not None else int(os.environ.get("VERIF_SEED", "20240729") or 20240729)
    prop = a.prop.upper()
    res = vlib.Result(prop, a.tier, seed)
    mod = importlib.import_module("props." + prop.lower())
    try:
        if a.replay:
            mod.replay(res, a.replay)
        else:
            mod.run(res, a.tier, seed)
    except vlib.BuildError as e:
        # the working tree no longer builds in a configuration the property quantifies over, or the
        # models no longer compile: the property is not shown to hold.
        path = vlib.write_replay(prop, "build", "obligation: build\n" + str(e))
        res.violation(path, no_input=True)
    except Exception:
        traceback.print_exc()
        path = vlib.write_replay(prop, "internal", "internal error of the check\n" + traceback.format_exc())
        res.violation(path, no_input=True)
    rc = res.finish()
    print("%s tier=%s seed=%d evaluations=%d distinct=%d obligations=%d/%d violations=%d known=%d wall=%.1fs" % (
        prop, a.tier, seed, res.cov["evaluations"], res.cov["distinct_nontrivial"], res.cov["discharged"],
        res.cov["obligations"], len(res.violations), len(res.known), time.time() - res.t0))
    sys.exit(rc)


if __name__ == "__main__":
    main()
