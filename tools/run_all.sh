#!/bin/sh
# run every registered quick check once, sequentially; summary in /var/tmp/runs/all.summary
out=/var/tmp/runs/all.summary; : > $out
for p in C01 C02 C03 C04 C05 C06 C07 C08 C09 C10 C11 C12 C13 C14 C15 C16 C17 C18 C19 C20; do
  s=$(date +%s)
  timeout 3000 python3 tools/check.py $p --tier quick > /var/tmp/runs/all-$p.log 2>&1; rc=$?
  e=$(date +%s)
  echo "$p rc=$rc $((e-s))s $(grep -c '^VIOLATION' /var/tmp/runs/all-$p.log) violations $(grep -c '^KNOWN-FINDING' /var/tmp/runs/all-$p.log) known | $(tail -1 /var/tmp/runs/all-$p.log | cut -c1-150)" >> $out
done
echo DONE >> $out
